"""C02 — backend requests authenticated by per-backend HMAC (api_backend.go, backend_server.go, backend_client.go,
backend_configuration.go / backend_storage_static.go / backend_storage_etcd.go for the backend a URL belongs to and the
configuration its secret comes from, http_client_pool.go for the redirects of a signed request)."""
import collections
from ._util import verdict_stats as _verdict_stats


def c02_stats(cases, model):
    ops, tags, status = collections.Counter(), collections.Counter(), collections.Counter()
    status_by_tag = collections.defaultdict(collections.Counter)
    out_kinds = collections.Counter()
    modes = collections.Counter()
    lens = []
    redirects = collections.Counter()
    for c in cases:
        lens.append(len(c["ops"]))
        for o, i in zip(c["ops"], c.get("impl") or []):
            f = o.split(" ")
            ops[f[0]] += 1
            if f[0] == "out" and any(t.startswith("rd=") for t in f):
                n = (len(i.split(" ")) - 1) // 5
                redirects["ops"] += 1
                redirects["followed" if n > 1 else "not-followed"] += 1
            tag = next((t[1:] for t in f if t.startswith("#")), "-")
            if f[0] == "req":
                tags[tag] += 1
                st = i.split(" ", 1)[0]
                status[st] += 1
                status_by_tag[tag][st] += 1
            elif f[0] == "fn":
                tags[tag] += 1
            elif f[0] == "out":
                out_kinds[f[1] + (":unconfigured" if f[2] == "-" else "")] += 1
            elif f[0] == "cfg":
                nb = 0 if f[2] == "-" else len(f[2].split(","))
                mode = next((t[2:].split("%3b")[0] for t in f if t.startswith("u=")), "backends")
                modes["compat" if f[1] != "-" else "%s:%d" % (mode, nb)] += 1
    reasons = collections.Counter()
    for ms in model:
        for m, v in ms:
            if v.startswith("violated"):
                reasons[v] += 1
    return dict(verdicts=_verdict_stats(cases, model), violation_reasons=dict(reasons), ops=dict(ops),
                configurations=dict(modes), request_kinds=dict(tags), http_status=dict(status),
                status_by_request_kind={k: dict(v) for k, v in status_by_tag.items()},
                outgoing_kinds=dict(out_kinds), redirect_ops=dict(redirects), max_case_len=max(lens or [0]),
                mean_case_len=round(sum(lens) / max(1, len(lens)), 1))


def c02_nontrivial(c, ms):
    impl = c.get("impl") or []
    ok = sum(1 for o, i in zip(c["ops"], impl) if o.startswith("req ") and i.startswith("200 "))
    forb = sum(1 for o, i in zip(c["ops"], impl) if o.startswith("req ") and i.startswith("403 "))
    if ok >= 1 and forb >= 5:
        return True
    # a redirect case: some redirects followed, some refused
    rd = [(len(i.split(" ")) - 1) // 5 for o, i in zip(c["ops"], impl) if o.startswith("out ") and " rd=" in o]
    return len(rd) >= 5 and any(n > 1 for n in rd) and any(n == 1 for n in rd)


CONFIG = dict(
    modules=["SigModel.Props.C02"],
    theorems=["SigModel.Checksum." + t for t in [
        "checksumOf_eq_stmt", "validate_iff", "C02_source_facts", "roomAuth_eq",
        "C02_accept_iff", "C02_auth_total", "C02_handle_200_iff", "C02_rejected_no_event", "C02_forbidden_is_403",
        "C02_valid_checksum_unique", "C02_tamper_rejected", "C02_tampered_request_403", "C02_tampered_request_403_search",
        "C02_boundary_shift", "C02_boundary_shift_auth", "C02_boundary_shift_not_403",
        "C02_outgoing", "C02_outgoing_unconfigured", "C02_outgoing_fresh", "C02_outgoing_other_secret",
        "prefix_slash_eq_components", "C02_config_url_slash_terminated", "C02_etcd_url_as_given", "C02_stored_url_nonempty",
        "C02_entry_match_iff_under", "C02_lookup_owner",
        "C02_hdr_claims", "C02_prefix_without_slash_is_not_ownership",
        "C02_secret_source_facts", "effectiveSecret_eq", "C02_start_secrets", "C02_reload_secrets",
        "C02_secret_in_force_is_current", "C02_rotated_out_secret_rejected",
        "C02_redirect_guard_facts", "C02_redirect_stays_on_origin", "C02_redirect_other_origin_not_followed",
        "C02_deliveries_same_origin", "C02_redirect_within_origin_leaves_backend",
    ]] + ["SigModel.Hmac.toyMac_ideal", "SigModel.Bytes.toHex_injective"],
    generated=["Checksum"],
    harness=dict(pkg="signaling", test="TestVerifC02", files=["zz_verif_hex_test.go"]),
    stats=c02_stats,
    nontrivial=c02_nontrivial,
    rule="per case one backend configuration (1-3 backends on distinct or shared hosts — in half of the cases sibling urls of which "
         "one is a string prefix of another without being its parent, /one/ and /one2/, in random configuration order, written "
         "with or without the final slash; in two of five such cases the backends are announced through the real etcd "
         "backend storage (EtcdKeyUpdated per key, no etcd server), which keeps urls as given — with distinct, equal or "
         "one-character-apart secrets; compat 'allowed' mode; allowall mode) served by a real Hub+BackendServer over a real HTTP/1.1 connection written "
         "byte by byte; per reference request (random, body, checksum by the real CalculateBackendChecksum): the request as it is with "
         "and without backend header, single-bit flips of body/random/checksum, checksum and random truncated/extended/upper-cased/"
         "empty, body truncated/extended/empty, random/body boundary shifts in both directions, every other backend claimed / every "
         "other backend's secret used, unknown and malformed backend headers, other spellings of the signer's backend url (no final "
         "slash, deeper path, doubled slash) and the urls next to it (longer and shorter siblings, parent, other case, scheme, host) "
         "each with the claim the spec derives from the url components, content types, chunked and oversized bodies; plus "
         "function-level ValidateBackendChecksumValue on random bytes and every outgoing request kind (auth, room join/leave, ping, "
         "session add/remove) to every backend — and to the urls next to a backend's — through PerformJSONRequest against a recording "
         "fake backend (two servers on 127.0.0.1 that speak http and https on one port each, also reachable as localhost: same "
         "name/other port, other name/same port, other scheme/same host and port). In a third of the file configurations some "
         "sections have no own secret and use the common [backend] secret (or there is none: not a backend). Half of the cases with "
         "backend urls go on with 1-3 reloads of the running server (static storage: Reload(file); etcd storage: key deletions and "
         "updates) with a changed configuration — common or own secret rotated, own<->common, backend removed/added/re-ordered, "
         "secrets or urls swapped, everything removed, the same file again — each followed by requests that were valid before, "
         "requests of the backends as configured now incl. ones signed with the rotated-out own/common secret, requests in the name "
         "of former backends and outgoing requests to every url of the old and new configuration; the judge goes by the file loaded "
         "last. Redirect cases: backends on origins differing in port, host name or scheme; every outgoing request answered with "
         "301/302/303/307/308 (one to three hops) to a url of the same backend, of every other backend and of every other origin; "
         "the fakes record every request carrying a checksum with the url it arrived at; redirects within one origin that leave "
         "the backend's url (open known finding) live in dedicated cases at the end. A case is non-trivial if "
         "at least one request was accepted (200) and at least five were refused (403), or if it has at least five redirect ops of "
         "which some were followed and some refused; distinct = distinct op lists",
    trusted_base=["which backend a url belongs to: modelled (getBackendLocked / getConfiguredHosts / the url EtcdKeyUpdated stores, statements read from the source) and "
                  "specified (url components) for plain http(s)://host/path urls in a configuration with backend urls; for other "
                  "header values and in the compat modes it is an input of the model (C13's subject). In both cases the harness "
                  "compares the op's claim with BackendConfiguration.GetBackend called directly and reports a difference (lookup=…)",
                  "url.Parse followed by URL.String() is the identity on plain urls; host table and scheme rule are subsumed by the "
                  "comparison of whole url strings with a '/'-terminated entry url (not modelled separately); etcd: the storage is driven through "
                  "EtcdKeyUpdated in key order as a starting server receives the keys, the etcd client itself is not part of the run",
                  "whether an authenticated body is a valid 'message' request is an input (json.Unmarshal + CheckValid called by the harness)",
                  "net/http: header values reach the handler with leading/trailing blanks removed (the ops carry the trimmed values)",
                  "net/http client: what a redirect status makes of a request (301/302/303: GET without body; 307/308: same method, "
                  "body of the first request; headers of the first request sent again) is modelled (`follow`), not proved; the harness "
                  "compares it on every redirect op",
                  "reload: that the table of a reloaded storage equals that of a fresh start is C13's theorem; C02 models where the "
                  "secrets come from (arguments of getConfiguredHosts in both callers, read from the source) and lets the judge go by the "
                  "file loaded last; reload is not supported in the compat modes (by design, logged) and not exercised there",
                  "crypto/rand for the freshness of outgoing randoms (observed pairwise distinct per case, not proved)",
                  "executable HMAC-SHA256 of Basic/Hmac.lean is compared with Go's on every sign/fn/out op, not proved"],
    assumptions=["ideal MAC: the tag function is injective on (key, message) — explicit hypothesis of the corollaries, instance exhibited",
                 "the throttler never refuses (429) in the model: blocking after repeated failures is C17's subject; the harness uses a recording throttler"],
)

MANIFEST = dict(
    text="Machine-checked Lean 4 theorems about a model of the room API authentication that interprets the decision statements "
         "of roomHandler as extracted from the source, of Calculate/ValidateBackendChecksum and of the outgoing signing, with the "
         "MAC as a parameter under an explicit ideal-MAC hypothesis; tied to the code by regenerated facts (header names, hash, "
         "order of MAC writes, whole-string comparison, statement order of roomHandler, nothing published before validation, single "
         "signed outgoing POST site, random length, the statements of the url-to-backend lookup and of the url shaping at "
         "configuration time / on an etcd update, the statements that give a section its secret and where startup and Reload take "
         "the common secret from, the statements of the pool clients' CheckRedirect) and a differential run of the real BackendServer over real HTTP and of "
         "PerformJSONRequest against recording backends that also answer with redirects, across reloads of the configuration, "
         "executing a Lean HMAC-SHA256 compared with crypto/hmac.",
    note="Trusted: Lean kernel, extractor, harness, net/http, body validity and (outside plain urls / in compat modes) backend "
         "lookup as inputs. The backend a plain url belongs to is proved to be the one whose url components lead the url's "
         "(C02_lookup_owner) — for urls stored with the final slash (configuration file) and without it (etcd) —, which needs "
         "the '/'-terminated comparison on both sides. Unforgeability of HMAC "
         "is assumed, not proved. The random/body boundary is not authenticated (proved as C02_boundary_shift; over HTTP such a "
         "request authenticates and fails in the JSON decoder with 400 instead of 403, publishing nothing). "
         "The secrets in force after any sequence of reloads are those of the file loaded last (C02_secret_in_force_is_current). "
         "Redirects of a signed request never leave scheme, host name and port of its target (C02_redirect_stays_on_origin); "
         "within that origin they may reach a url of another backend or of none (open finding, proved witness "
         "C02_redirect_within_origin_leaves_backend).",
    technique="Lean 4 proof (characterisation of the interpreted handler, ideal-MAC corollaries) + regenerated facts + differential correspondence",
)
