"""C06 — resume without loss; bye and expiry final."""
from . import _hub

CONFIG = dict(
    modules=["SigModel.Props.C06"],
    theorems=["SigModel.Hub.reachable_inv", "SigModel.Hub.C06_queue_or_write", "SigModel.Hub.C06_resume_flushes_in_order", "SigModel.Hub.C06_resume_off_expiry_list", "SigModel.Hub.C06_resume_clears_expiry", "SigModel.Hub.C06_no_message_dropped_on_dead_connection", "SigModel.Hub.C06_unknown_id_refused", "SigModel.Hub.C06_ended_refused", "SigModel.Hub.C06_bye_ends_session", "SigModel.Hub.flushPending_outs"],
    generated=["Hub"],
    harness=_hub.HARNESS,
    stats=_hub.stats,
    canon=_hub.canon,
    nontrivial=_hub.nontrivial,
    rule=_hub.RULE,
    trusted_base=_hub.TRUSTED,
    assumptions=_hub.ASSUME,
)

MANIFEST = dict(
    text="Lean 4 theorems about the model's queueing and resume code: every message handed to a session passes the same filter whether or not a connection is attached and is then written or appended to the queue in order (second chat-refresh notice merged); a resume on a fresh connection answers with the same session id, tells a previous connection `session_resumed`, flushes the whole queue in order without loss or duplicate, keeps the room, empties the queue and takes the session off the expiry list (C06_resume_off_expiry_list); ids that do not decode as private ids (the public id included) and ids of ended sessions are refused with no_such_session; bye ends the session (and by the C07 invariant it is then in no room). Differential hub run with disconnects at PRNG positions, queued messages, resume / takeover / public-id / garbage-id / bye / expiry; scripted openings interrupt and resume one session several times with traffic (incl. repeated chat-refresh notices) in every gap; the judge checks same session id, same room, takeover bye and refusals on the real trace, and that every client/room message queued while the session was away (chat-refresh notices merged into one per gap) is written to the resuming connection (message-lost-during-interruption). That a resumed session leaves the expiry list whatever connection it had before is a regenerated fact (C06_resume_clears_expiry).",
    note="Synchronous routing layer: single hub, loopback bus, quiescence between ops; no gRPC peers, MCU or federation. Trusted: Lean kernel, extractor, harness (real websockets, fake Nextcloud backend) and comparison. The global two-run statement (old connection's messages ++ flushed messages = what a connected session would have received) is not stated as one theorem (partial): it follows from the two local theorems. Bytes written to a socket that is dead but not yet detected, and concurrent senders during the flush, are not modelled. Expiry is driven through performHousekeeping(now) with all deadlines passed or none.",
    technique="Lean 4 proof (routing refinement over the hub model) + differential correspondence",
)
