"""C08 — media actions need the matching permission or call membership (clientsession.go, hub.go, room.go)."""
import collections
from ._util import verdict_stats as _verdict_stats


def _sections(line):
    parts = [p.strip() for p in line.split(" ; ")]
    while len(parts) < 4:
        parts.append("-")
    return [[] if p == "-" else p.split() for p in parts[:4]]


def c08_stats(cases, model):
    ops, tags, lens = collections.Counter(), collections.Counter(), []
    outcomes, replies, log = collections.Counter(), collections.Counter(), collections.Counter()
    decisions = collections.Counter()      # (op kind, accepted / refused / …)
    perm_sets, mlines, streams = set(), set(), collections.Counter()
    open_at_rest = 0
    storm = collections.Counter()
    for c in cases:
        lens.append(len(c["ops"]))
        for t in c.get("tags") or ["-"]:
            tags[t] += 1
        for o, i in zip(c["ops"], c.get("impl") or []):
            f = o.split()
            kind = f[0] if f else "-"
            ops[kind] += 1
            if i == "bad-op":
                outcomes["bad-op"] += 1
                continue
            if kind == "storm":
                out, msgs, mlog, opn = _sections(i)
                outcomes["storm"] += 1
                storm["runs"] += 1
                storm["publishers_created"] += sum(1 for m in mlog if m.startswith("new:") and "/p/" in m)
                storm["publishers_closed"] += sum(1 for m in mlog if m.startswith("close:") and "/p/" in m)
                storm["publishers_open_at_rest"] += sum(1 for m in opn if "/p/" in m)
                storm["refused"] += sum(1 for m in msgs if m.endswith("err.not_allowed"))
                continue
            out, msgs, mlog, opn = _sections(i)
            outcomes[out[0] if out else "-"] += 1
            for m in msgs:
                w = m.split(":", 1)[1] if ":" in m else m
                replies[w.split("<")[0].split(".")[0] + ("." + w.split(".")[1] if w.startswith("err.") else "")] += 1
            for m in mlog:
                what = m.split(":", 1)[0]
                tail = m.split("<", 1)[1] if "<" in m else ""
                log[what + ("<" + tail if tail else "") + ("/pub" if "/p/" in m else "/sub")] += 1
            if kind in ("join", "perms", "permsd") and len(f) >= 3:
                perm_sets.add(f[-1])
            if kind == "offer" and len(f) == 4:
                mlines.add(f[3])
                streams[f[2]] += 1
                acted = [m for m in msgs if m.startswith(f[1] + ":")]
                decisions["offer:" + (acted[0].split(":", 1)[1] if acted else "none")] += 1
            if kind in ("request", "sendoffer", "mcu", "control", "tset", "tremove") and len(f) >= 2:
                acted = [m.split(":", 1)[1] for m in msgs if m.startswith(f[1] + ":") and "err." in m]
                k = kind + (":" + f[3] if kind == "mcu" and len(f) > 3 else "")
                decisions[k + ":" + (acted[0] if acted else "passed")] += 1
            if kind == "state" and opn:
                open_at_rest += 1
    return dict(verdicts=_verdict_stats(cases, model), ops=dict(ops), tags=dict(tags), outcomes=dict(outcomes),
                messages_received=dict(replies), media_server_calls=dict(log), decisions=dict(decisions),
                distinct_permission_sets=len(perm_sets), distinct_mline_lists=len(mlines), offers_by_stream=dict(streams),
                observations_with_open_objects=open_at_rest, storm=dict(storm),
                max_case_len=max(lens or [0]), mean_case_len=round(sum(lens) / max(1, len(lens)), 1))


def c08_nontrivial(c, ms):
    """At least one publisher was created and at least one request was refused for lack of a permission / call membership."""
    impl = c.get("impl") or []
    created = any("new:" in i and "/p/" in i for i in impl)
    refused = any("err.not_allowed" in i for i in impl)
    return created and refused


_T = "SigModel.Perm."

CONFIG = dict(
    modules=["SigModel.Props.C08"],
    theorems=[_T + t for t in [
        "C08_code_sound", "C08_code_names", "C08_code_is_repaired", "hasPerm_code", "Permitted_code", "MaySignal_code",
        "sdpAllowed_spec", "C08_offer_decision", "step_ok", "reachable_inv",
        "C08_publish_needs_permission", "C08_publish_needs_permission_code", "C08_offer_refused", "C08_candidate_refused",
        "C08_perms_last_set", "C08_revocation_closes", "C08_revocation_closes_code", "C08_update_then_sweep",
        "C08_join_then_sweep", "C08_subscribe_same_call", "C08_subscriber_origin", "C08_request_refused", "C08_sameCall_iff",
        "C08_incall_needs_room", "C08_control_transient_gates", "C08_control_transient_gates_code", "C08_control_dropped",
        "C08_transient_refused", "C08_store_changes",
        "C08_early_return_leaves_screen", "C08_join_without_sweep_leaves_publisher",
    ]],
    generated=["Perm"],
    harness=dict(pkg="signaling", test="TestVerifC08", go="go1.26"),
    # `storm` lines (real concurrency) are not predicted by the model, only judged by the spec
    canon=lambda s: "storm" if s.startswith("storm") else s,
    stats=c08_stats,
    nontrivial=c08_nontrivial,
    rule="real ClientSessions (3 clients, 1 internal client) in a real Hub with a real BackendServer (signed room API "
         "requests), an in-memory Nextcloud answering room joins with the permission set of the op, and a fake media "
         "server that answers at once, inside a testing/synctest bubble; cases = witness histories, "
         "permission set x stream type x m-line list x message kind matrices, P0 -> P1 revocations through participants "
         "request / bus message / join reply (thorough: all 16 x 16 publish sets x 3 channels), requestoffer for all "
         "room / in-call combinations, control and transient gates, PRNG histories over all ops, malformed lines, and "
         "storm runs (real goroutines: permission updates on the bus racing with offers / candidates and in-call "
         "changes of the same session, judged by the spec on the objects open at rest); a case is non-trivial if a "
         "publisher was created and some request was refused with not_allowed; distinct = distinct op lists",
    trusted_base=[
        "testing/synctest (go1.26): synctest.Wait() is taken as 'every goroutine of the server is blocked or done' "
        "(the harness' quiescence point)",
        "the fake Mcu stands for the media server: it accepts the stream types of mcu_janus.go's streamTypeUserIds, "
        "creates publishers at once, creates a subscriber at once iff the publisher exists (the real one waits until "
        "the request times out), answers offers with an answer and requestoffer / sendoffer with an offer; Close() "
        "closes and calls PublisherClosed / SubscriberClosed",
        "pion/sdp (SDP text -> m-line kinds), encoding/json, net/http (requests to the in-memory Nextcloud over net.Pipe)",
    ],
    assumptions=[
        "operations are compared at quiescence: a permission update is SetPermissions followed by its revocation "
        "goroutine; the proofs cover every interleaving of these two with all other actions (sweeps delayed "
        "arbitrarily), media-server calls answer within their critical section (slow answers are C09's subject)",
        "sessions are ordinary and internal client sessions of one backend in one hub; virtual sessions, federation, "
        "gRPC peers (isInSameCallRemote answers false without peers) and resumed sessions are not modelled",
        "the permission a screen-share stream needs is publish-screen whatever its m-lines are (a screen offer with an "
        "audio m-line does not need publish-audio) - this is how the statement's 'corresponding permission' is read",
        "sendoffer needs a publish permission of the stream's class but no call membership (the statement asks for "
        "none); the subscriber it creates belongs to the recipient",
        "Hub.allowSubscribeAnyStream (configuration app.allowsubscribeany) switches the same-call requirement off by design",
    ],
)

MANIFEST = dict(
    text="Machine-checked Lean 4 theorems about a model of the permission and call-membership decisions of "
         "clientsession.go / hub.go / room.go (hasPermissionLocked incl. old-style sessions, isSdpAllowedToSendLocked "
         "over the list of m-line kinds, IsAllowedToSend, checkOfferTypeLocked, GetOrCreatePublisher, the revocation "
         "goroutine, processMcuMessage's dispatch, the sendoffer path, isInSameCall, the control and transient gates, "
         "join / leave / in-call changes): for every history of actions (permission updates, join replies, in-call "
         "changes, requests, revocation goroutines delayed arbitrarily), every permission set, m-line list, stream type "
         "and message kind - every created or updated publisher, every message accepted for an own publisher and every "
         "sendoffer acted on is covered by the permission set the backend set last (a function of the history); a "
         "session whose revocation goroutines have run has only publishers covered by its permissions; requestoffer is "
         "honoured only for internal clients or same room + both in the call (internal recipient excepted); control "
         "messages are delivered and transient data changes only with the permission, and are dropped resp. refused "
         "otherwise. The model is parametrised by a configuration read from the source (names, DefaultPermissionOverrides, "
         "MediaType bits, media-server stream types, the blocks of the revocation goroutine, how a join installs "
         "permissions, canonical programs of 20 decision functions / switch cases); C08_code_sound evaluates that the "
         "current tree is a configuration the theorems apply to. Tied by a differential run of real ClientSessions in a "
         "real Hub + BackendServer (signed requests) + in-memory Nextcloud + fake media server inside a synctest bubble; "
         "the judge evaluates the statement on every observed media-server call, delivery and open object.",
    note="Two defects found with the harness and repaired in /repo: (fix: c8d628f) the revocation goroutine returned after "
         "closing the camera publisher, the screen publisher survived the withdrawal of all permissions; (fix: c35d137) "
         "the permissions of a join reply were only stored, a publisher created before the join (no room is needed to "
         "publish, sessions without permissions from the backend may publish anything) survived in a room that does not "
         "grant the permission. Both unrepaired configurations are proved witnesses (C08_early_return_leaves_screen, "
         "C08_join_without_sweep_leaves_publisher). Read as designed, not as defects: a screen-share offer needs "
         "publish-screen whatever its m-lines; sendoffer needs a publish permission but no call membership; "
         "allowsubscribeany switches the same-call rule off. Media-server calls answer within their critical section "
         "here (slow answers: C09). Not modelled: virtual sessions, federation, gRPC peers, resumed sessions, "
         "unshareScreen. Trusted: Lean kernel, extractor, harness, testing/synctest, fake Mcu, pion/sdp.",
    technique="Lean 4 proof (case analysis of the decision functions, inductive invariant over all action sequences, "
              "history function for 'as last set by the backend') + regenerated facts (names, tables, canonical "
              "programs of the decision functions) + differential correspondence and trace validation",
)
