"""Shared configuration of the hub properties (C03–C07, C19): one harness, one model, different judges."""
import collections
from ._util import verdict_stats, op_stats

HARNESS = dict(pkg="signaling", test="TestVerifHub",
               files=["zz_verif_hub_test.go", "zz_verif_hubops_test.go"], timeout=1500, confirm=True, cache=True, workers=6)


def canon(line):
    """Per connection and step, join/leave events are reduced to their net effect: the close of an internal
    client's virtual sessions runs in its own goroutine, so a session joining the room in the same step may or
    may not see them come and go."""
    toks = [t for t in line.split() if not t.startswith("F=")]   # federated list: judged (C07), not modelled
    joins, leaves, rest = {}, {}, []
    for t in toks:
        if "=" in t and t[0] == "c":
            c, m = t.split("=", 1)
            if m.startswith("join[") or m.startswith("leave["):
                ids = [x for x in m[m.index("[") + 1:-1].split(",") if x]
                (joins if m.startswith("join[") else leaves).setdefault(c, set()).update(ids)
                continue
        rest.append(t)
    # a connection that got a "room" reply in this step switched rooms: whether it still saw somebody leave
    # the room it was leaving (a session kicked by the same request closes in its own goroutine) is a race
    # the statement does not care about -- its view starts afresh with the reply
    switched = set(t.split("=", 1)[0] for t in rest if "=" in t and t[0] == "c" and t.split("=", 1)[1].startswith("room("))
    # a connection that is closed by this step (two sessions of one user disinvited by the same request close in
    # their own goroutines): whether it was still written the other one's leave before it went away is a race,
    # and its view ends with the step
    dig = [t for t in rest if t.startswith("T=")]
    still_open = set(e[3:] for t in dig for e in t[2:].split(";") if e.startswith("co:"))
    closed = set(c for c in leaves if dig and c not in still_open)
    for c in set(joins) | set(leaves):
        j, l = joins.get(c, set()), leaves.get(c, set())
        if j - l:
            rest.append("%s=join[%s]" % (c, ",".join(sorted(j - l))))
        if l - j and c not in switched and c not in closed:
            rest.append("%s=leave[%s]" % (c, ",".join(sorted(l - j))))
    digest = [t for t in rest if t.startswith("T=")]
    return " ".join(sorted(t for t in rest if not t.startswith("T=")) + digest)


def stats(cases, model):
    st = op_stats(cases)
    st["verdicts"] = verdict_stats(cases, model)
    deliveries = 0
    kinds = collections.Counter()
    for c in cases:
        for i in c.get("impl") or []:
            for tok in i.split():
                if tok.startswith("c") and "=" in tok:
                    deliveries += 1
                    kinds[tok.split("=", 1)[1].split("(")[0].split("[")[0]] += 1
    st["deliveries"] = deliveries
    st["delivered_message_kinds"] = dict(kinds)
    st.pop("impl_outcomes", None)
    return st


def nontrivial(c, ms):
    """At least two sessions exist and something was delivered to a connection other than the acting one."""
    n = 0
    for i in c.get("impl") or []:
        n += sum(1 for tok in i.split() if tok.startswith("c") and "=" in tok)
    return n >= 5


RULE = ("PRNG histories over 2-3 backends, up to 6 connections, rooms {roomA, roomB} and users {anonymous, alice, bob} "
        "shared by all backends, Nextcloud session ids {nc1..nc3} reused across sessions and backends: connect, hello "
        "(client/internal), join/leave with backend replies ok/permissions/session-user/error/failure, messages and "
        "control messages of all four recipient kinds (incl. unknown ids, forged sender fields), disconnect, resume "
        "(valid, public id, garbage, takeover), bye, housekeeping levels, virtual sessions add/remove/incall from internal "
        "and ordinary clients, room API calls (invite, disinvite, delete, message, incall, participants with "
        "permissions, switchto), session limits; every second history starts with a scripted opening (virtual session across backends, duplicate virtual id, end of the internal client, repeated resume, user id from the room reply, shared Nextcloud session id, session limit, takeover, a federated session ending, a session ending while its own join waits for the backend — the openings are cycled through, so every run has several of each) and three in four end with a concurrent step (`par`: racing registrations / first joins / bye vs. hello), plus a battery of race-only cases; non-trivial = at least five messages delivered to connections; "
        "distinct = distinct op lists")

TRUSTED = ["gorilla/websocket, net/http, encoding/json + easyjson (messages travel over real websockets)",
           "loopback NATS client delivering what was published (C20)",
           "quiescence detection of the harness (idle window on all connections and empty bus queues); a reported "
           "difference must reproduce when the case is executed again"]

ASSUME = ["single hub: no gRPC peers, no external NATS, no MCU, no federation",
          "outputs of one step are compared per connection as a multiset (the relative order of messages from different bus subjects is not fixed)",
          "backend replies (auth, room join, session add) are parameters of the ops; auth always succeeds here (C01 covers credentials)",
          "a concurrent step is judged on the tables at rest only: they must equal the model's for some order of the racing requests"]
