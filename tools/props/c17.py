"""C17 — throttling (throttle.go)."""
import collections
import re
from ._util import verdict_stats as _verdict_stats

# ---------------------------------------------------------------- C17

def c17_stats(cases, model):
    kinds = collections.Counter()
    ops = collections.Counter()
    lens = []
    for c in cases:
        lens.append(len(c["ops"]))
        for o, i in zip(c["ops"], c.get("impl") or []):
            ops[o.split(" ", 1)[0]] += 1
            kinds[i.split(" ", 1)[0]] += 1
    delays = collections.Counter()
    for c in cases:
        for i in c.get("impl") or []:
            if i.startswith("delayed "):
                delays[i.split()[1]] += 1
    par = collections.Counter()
    for c in cases:
        for o, i in zip(c["ops"], c.get("impl") or []):
            f, g = o.split(), i.split()
            if f[0] == "par" and len(f) == 8 and g[0] == "rest":
                par["release=%s" % {"0": "channel", "1": "write-lock", "2": "read-lock"}.get(f[5], f[5])] += 1
                par["with-concurrent-checks" if f[6] != "0" else "failures-only"] += 1
                if f[7] != "0":
                    par["observed-later"] += 1
                if f[7] != "0" and f[6] != "0":
                    par["checks-later-alongside"] += 1
                par["refused-before" if g[1] == "0" and f[4] != "0" else ("blocked-after" if g[3] == "1" else "open-after")] += 1
    site = collections.Counter()
    for c in cases:
        blocked = set()
        for o, i in zip(c["ops"], c.get("impl") or []):
            f, g = o.split(), i.split()
            if f[0] == "site" and len(f) == 5 and g:
                good = f[4] in ("good", "goodold", "stale")
                site["%s:%s" % (f[3], "good" if good else "bad")] += 1
                site["answer=%s" % g[-1]] += 1
                if g[0] == "refused":
                    site["refused-with-good-credential" if good else "refused-with-bad-credential"] += 1
                    blocked.add((f[2], f[3]))
                elif (f[2], f[3]) in blocked:
                    site["served-again-after-the-window"] += 1
                    blocked.discard((f[2], f[3]))
    return dict(verdicts=_verdict_stats(cases, model), ops=dict(ops), impl_outcomes=dict(kinds), par=dict(par),
                site=dict(site),
                distinct_delays=len(delays), max_case_len=max(lens or [0]),
                mean_case_len=round(sum(lens) / max(1, len(lens)), 1))


def c17_nontrivial(c, ms):
    impl = c.get("impl") or []
    return (any(i == "refused" for i in impl) or sum(1 for i in impl if i.startswith("delayed")) >= 3
            or any(i.startswith("rest ") and int(i.split()[1]) >= 2 for i in impl))


CONFIG = dict(
        modules=["SigModel.Props.C17"],
        theorems=["SigModel.Throttle." + t for t in [
            "C17_delay_monotone_bounded", "C17_delay_no_overflow", "C17_block_iff_window", "C17_constants",
            "C17_spec_refused_iff", "C17_refused_records_nothing", "C17_spec_delay", "C17_independent",
            "C17_key_v6", "C17_key_raw", "C17_key_kinds", "C17_forgets", "C17_old_irrelevant",
            "C17_atomicity_facts", "C17_concurrent_no_record_lost", "C17_concurrent_failures_all_recorded",
            "C17_concurrent_equals_sequential", "C17_site_facts", "C17_site_cfg", "C17_site_is_attempt",
            "C17_site_blocked_refused", "C17_site_block_iff_window"]],
        generated=["Throttle", "ThrottleSites"],
        harness=dict(pkg="signaling", test="TestVerifC17"),
        # delays marked `D:` by both sides: their pairing with failure counts depends on the interleaving
        canon=lambda s: re.sub(r" D:\S+", " D:*", s),
        stats=c17_stats,
        nontrivial=c17_nontrivial,
        rule="PRNG timelines of attempts (address pool of v4/v6-same-/64/v6-other/mapped/invalid strings x 3 actions, "
             "bursts, gaps around 30 min and 12 h, cleanups, occasional non-monotone clock and two-phase check/throttle, "
             "'par' steps: n connections let through at t, then n goroutines record their failures at once while m "
             "goroutines check further connections at t+dt, released by a channel or piled up at the throttler's mutex "
             "held by the harness, observed at rest: records, blocked, sorted delays), scripted window cases (records "
             "that expire between the check and the failures, checks alongside: the read-filter-write of "
             "CheckBruteforce), scripted openings k sequential + n concurrent failures around the threshold of ten "
             "with random tails, 'site' steps = one attempt sent to the real handler of its kind (room API request "
             "through the BackendServer's router; internal / resuming hello over a websocket to the Hub, address from "
             "X-Real-IP behind the trusted loopback) with a credential of a given class made by the harness (good, bad "
             "checksum/token, unknown backend, old-style lookup, too short random, not-an-id, well-formed id of a session "
             "that is gone), the Hub's throttler being the case's memoryThrottler: scripted openings 8-11 failures "
             "(through the handler or directly) then every class of credential from the blocked address, its /64 "
             "neighbour and strangers across the end of the 30 min window, and random site timelines; "
             "plus all address pairs for key sharing; a case is non-trivial if the real throttler "
             "refused at least once, delayed at least three times or recorded at least two concurrent failures; "
             "distinct = distinct op lists",
        trusted_base=["net.ParseIP / IP.To4 / IP.To16 (address classification done by the harness with the standard library)",
                      "time.Time arithmetic modelled as unbounded Int nanoseconds (no saturation)"],
        assumptions=["critical sections of one sync.RWMutex are atomic with respect to each other (read-locked sections only "
                     "read); which accesses lie in which section is regenerated from the source per control-flow path "
                     "(C17_atomicity_facts): every function touching the table is one section per path and takes no "
                     "entry list from outside, addEntry/throttle read and write in one write-locked section, "
                     "CheckBruteforce = read-locked read + at most one self-contained write-locked section (pruneEntries); "
                     "hence no interleaving of concurrent failures and checks loses a record "
                     "(C17_concurrent_no_record_lost, C17_concurrent_failures_all_recorded)",
                     "call sites: the handlers' control-flow paths are regenerated as event sequences by a path-insensitive "
                     "walk (loop bodies zero times or once, callees of hub.go/backend_server.go that consult the throttler or "
                     "are handed the ThrottleFunc inlined); what counts as harmless before the consultation, as a rejection "
                     "answer and as the resume exemption (hub.go NOTE: a well-formed resume id of an expired session is not "
                     "throttled) is a hand-reviewed table (roomSpec/internalSpec/resumeSpec in Model/Throttle.lean)",
                     "C17_block_iff_window assumes a monotone clock and check+throttle not separated by another attempt of the same key/action"],
    )

MANIFEST = dict(
        text="Machine-checked Lean 4 theorems about a model of throttle.go defined over constants and comparison "
             "operators regenerated from the source: delay monotone and <= 25 s for every count incl. the 64-bit "
             "computation; for every history of whole attempts under a monotone clock the outcomes equal a counting "
             "spec that never forgets (refused iff >= 10 failures within 30 min; delay = f(#failures within 12 h)); "
             "independence of keys/actions for every op sequence; forgetting after 12 h; in every interleaving of the "
             "critical sections of any number of concurrent failure recordings and checks the entry list is the full "
             "history minus a prefix of records some check found older than 12 h - no record is lost (sections "
             "regenerated from the source per control-flow path); the three call sites (room API checksum, internal token, "
             "resume id) consult the throttler before looking at the credential, answer 429/too_many_requests and nothing "
             "else when it reports a block, and call the returned function once, before answering, on exactly the "
             "rejection paths (control-flow paths of the handlers regenerated from hub.go/backend_server.go), hence a "
             "handled attempt is a whole attempt of the model and a blocked address is refused whatever it presents. "
             "Tied to the code by facts extraction (constants, operators, lock "
             "sections, write-back guard, handler paths) plus a differential run of the real memoryThrottler with injected clock, "
             "including goroutines recording failures at once, compared at rest, and of the real handlers (BackendServer "
             "router, Hub over websocket) with good and bad credentials made by the harness.",
        note="Trusted: Lean kernel, extractor, harness/comparison, net.ParseIP; unbounded-Int time; mutex sections atomic. "
             "The stale write-back of CheckBruteforce (a failure recorded between its read and its pruned write-back "
             "was lost) was reproduced on the real code and repaired in /repo ab87e57; the split program survives "
             "as a proved counter-example only.",
        technique="Lean 4 proof (refinement of the entry-list model to a counting spec by induction over op lists; "
                  "invariant over all schedules of the regenerated critical sections) + regenerated constants, "
                  "lock sections and call-site paths + differential correspondence with concurrent steps and "
                  "through the real handlers",
    )
