"""C17 — throttling (throttle.go)."""
import collections
import re
from ._util import verdict_stats as _verdict_stats

# ---------------------------------------------------------------- C17

def c17_stats(cases, model):
    kinds = collections.Counter()
    ops = collections.Counter()
    lens = []
    for c in cases:
        lens.append(len(c["ops"]))
        for o, i in zip(c["ops"], c.get("impl") or []):
            ops[o.split(" ", 1)[0]] += 1
            kinds[i.split(" ", 1)[0]] += 1
    delays = collections.Counter()
    for c in cases:
        for i in c.get("impl") or []:
            if i.startswith("delayed "):
                delays[i.split()[1]] += 1
    par = collections.Counter()
    for c in cases:
        for o, i in zip(c["ops"], c.get("impl") or []):
            f, g = o.split(), i.split()
            if f[0] == "par" and len(f) == 8 and g[0] == "rest":
                par["release=%s" % {"0": "channel", "1": "write-lock", "2": "read-lock"}.get(f[5], f[5])] += 1
                par["with-concurrent-checks" if f[6] != "0" else "failures-only"] += 1
                if f[7] != "0":
                    par["observed-later"] += 1
                if f[7] != "0" and f[6] != "0":
                    par["checks-later-alongside"] += 1
                par["refused-before" if g[1] == "0" and f[4] != "0" else ("blocked-after" if g[3] == "1" else "open-after")] += 1
    return dict(verdicts=_verdict_stats(cases, model), ops=dict(ops), impl_outcomes=dict(kinds), par=dict(par),
                distinct_delays=len(delays), max_case_len=max(lens or [0]),
                mean_case_len=round(sum(lens) / max(1, len(lens)), 1))


def c17_nontrivial(c, ms):
    impl = c.get("impl") or []
    return (any(i == "refused" for i in impl) or sum(1 for i in impl if i.startswith("delayed")) >= 3
            or any(i.startswith("rest ") and int(i.split()[1]) >= 2 for i in impl))


CONFIG = dict(
        modules=["SigModel.Props.C17"],
        theorems=["SigModel.Throttle." + t for t in [
            "C17_delay_monotone_bounded", "C17_delay_no_overflow", "C17_block_iff_window", "C17_constants",
            "C17_spec_refused_iff", "C17_refused_records_nothing", "C17_spec_delay", "C17_independent",
            "C17_key_v6", "C17_key_raw", "C17_key_kinds", "C17_forgets", "C17_old_irrelevant",
            "C17_atomicity_facts", "C17_concurrent_no_record_lost", "C17_concurrent_failures_all_recorded",
            "C17_concurrent_equals_sequential"]],
        generated=["Throttle"],
        harness=dict(pkg="signaling", test="TestVerifC17"),
        # delays marked `D:` by both sides: their pairing with failure counts depends on the interleaving
        canon=lambda s: re.sub(r" D:\S+", " D:*", s),
        stats=c17_stats,
        nontrivial=c17_nontrivial,
        rule="PRNG timelines of attempts (address pool of v4/v6-same-/64/v6-other/mapped/invalid strings x 3 actions, "
             "bursts, gaps around 30 min and 12 h, cleanups, occasional non-monotone clock and two-phase check/throttle, "
             "'par' steps: n connections let through at t, then n goroutines record their failures at once while m "
             "goroutines check further connections at t+dt, released by a channel or piled up at the throttler's mutex "
             "held by the harness, observed at rest: records, blocked, sorted delays), scripted window cases (records "
             "that expire between the check and the failures, checks alongside: the read-filter-write of "
             "CheckBruteforce), scripted openings k sequential + n concurrent failures around the threshold of ten "
             "with random tails, plus all address pairs for key sharing; a case is non-trivial if the real throttler "
             "refused at least once, delayed at least three times or recorded at least two concurrent failures; "
             "distinct = distinct op lists",
        trusted_base=["net.ParseIP / IP.To4 / IP.To16 (address classification done by the harness with the standard library)",
                      "time.Time arithmetic modelled as unbounded Int nanoseconds (no saturation)"],
        assumptions=["critical sections of one sync.RWMutex are atomic with respect to each other (read-locked sections only "
                     "read); which accesses lie in which section is regenerated from the source per control-flow path "
                     "(C17_atomicity_facts): every function touching the table is one section per path and takes no "
                     "entry list from outside, addEntry/throttle read and write in one write-locked section, "
                     "CheckBruteforce = read-locked read + at most one self-contained write-locked section (pruneEntries); "
                     "hence no interleaving of concurrent failures and checks loses a record "
                     "(C17_concurrent_no_record_lost, C17_concurrent_failures_all_recorded)",
                     "C17_block_iff_window assumes a monotone clock and check+throttle not separated by another attempt of the same key/action"],
    )

MANIFEST = dict(
        text="Machine-checked Lean 4 theorems about a model of throttle.go defined over constants and comparison "
             "operators regenerated from the source: delay monotone and <= 25 s for every count incl. the 64-bit "
             "computation; for every history of whole attempts under a monotone clock the outcomes equal a counting "
             "spec that never forgets (refused iff >= 10 failures within 30 min; delay = f(#failures within 12 h)); "
             "independence of keys/actions for every op sequence; forgetting after 12 h; in every interleaving of the "
             "critical sections of any number of concurrent failure recordings and checks the entry list is the full "
             "history minus a prefix of records some check found older than 12 h - no record is lost (sections "
             "regenerated from the source per control-flow path). Tied to the code by facts extraction (constants, operators, lock "
             "sections, write-back guard) plus a differential run of the real memoryThrottler with injected clock, "
             "including goroutines recording failures at once, compared at rest.",
        note="Trusted: Lean kernel, extractor, harness/comparison, net.ParseIP; unbounded-Int time; mutex sections atomic. "
             "The stale write-back of CheckBruteforce (a failure recorded between its read and its pruned write-back "
             "was lost) was reproduced on the real code and repaired in /repo ab87e57; the split program survives "
             "as a proved counter-example only.",
        technique="Lean 4 proof (refinement of the entry-list model to a counting spec by induction over op lists; "
                  "invariant over all schedules of the regenerated critical sections) + regenerated constants and "
                  "lock sections + differential correspondence with concurrent steps",
    )
