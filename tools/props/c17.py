"""C17 — throttling (throttle.go)."""
import collections
from ._util import verdict_stats as _verdict_stats

# ---------------------------------------------------------------- C17

def c17_stats(cases, model):
    kinds = collections.Counter()
    ops = collections.Counter()
    lens = []
    for c in cases:
        lens.append(len(c["ops"]))
        for o, i in zip(c["ops"], c.get("impl") or []):
            ops[o.split(" ", 1)[0]] += 1
            kinds[i.split(" ", 1)[0]] += 1
    delays = collections.Counter()
    for c in cases:
        for i in c.get("impl") or []:
            if i.startswith("delayed "):
                delays[i.split()[1]] += 1
    par = collections.Counter()
    for c in cases:
        for o, i in zip(c["ops"], c.get("impl") or []):
            f, g = o.split(), i.split()
            if f[0] == "par" and len(f) == 7 and g[0] == "rest":
                par["release=%s" % {"0": "channel", "1": "write-lock", "2": "read-lock"}.get(f[5], f[5])] += 1
                par["with-concurrent-checks" if f[6] != "0" else "failures-only"] += 1
                par["refused-before" if g[1] == "0" and f[4] != "0" else ("blocked-after" if g[3] == "1" else "open-after")] += 1
    return dict(verdicts=_verdict_stats(cases, model), ops=dict(ops), impl_outcomes=dict(kinds), par=dict(par),
                distinct_delays=len(delays), max_case_len=max(lens or [0]),
                mean_case_len=round(sum(lens) / max(1, len(lens)), 1))


def c17_nontrivial(c, ms):
    impl = c.get("impl") or []
    return (any(i == "refused" for i in impl) or sum(1 for i in impl if i.startswith("delayed")) >= 3
            or any(i.startswith("rest ") and int(i.split()[1]) >= 2 for i in impl))


CONFIG = dict(
        modules=["SigModel.Props.C17"],
        theorems=["SigModel.Throttle." + t for t in [
            "C17_delay_monotone_bounded", "C17_delay_no_overflow", "C17_block_iff_window", "C17_constants",
            "C17_spec_refused_iff", "C17_refused_records_nothing", "C17_spec_delay", "C17_independent",
            "C17_key_v6", "C17_key_raw", "C17_key_kinds", "C17_forgets", "C17_old_irrelevant",
            "C17_atomicity_facts", "C17_concurrent_failures_all_recorded", "C17_concurrent_equals_sequential",
            "C17_check_is_read_then_writeBack", "C17_stale_writeback_harmless",
            "C17_concurrent_checks_harmless", "C17_concurrent_lost_update"]],
        generated=["Throttle"],
        harness=dict(pkg="signaling", test="TestVerifC17"),
        stats=c17_stats,
        nontrivial=c17_nontrivial,
        rule="PRNG timelines of attempts (address pool of v4/v6-same-/64/v6-other/mapped/invalid strings x 3 actions, "
             "bursts, gaps around 30 min and 12 h, cleanups, occasional non-monotone clock and two-phase check/throttle, "
             "'par' steps: n goroutines record failures of one address/kind at once, optionally with concurrent checks, "
             "released by a channel or piled up at the throttler's mutex held by the harness, observed at rest: records, "
             "blocked, sorted delays), scripted openings k sequential + n concurrent failures around the threshold of ten "
             "with random tails, plus all address pairs for key sharing; a case is non-trivial if the real throttler "
             "refused at least once, delayed at least three times or recorded at least two concurrent failures; "
             "distinct = distinct op lists",
        trusted_base=["net.ParseIP / IP.To4 / IP.To16 (address classification done by the harness with the standard library)",
                      "time.Time arithmetic modelled as unbounded Int nanoseconds (no saturation)"],
        assumptions=["critical sections of one sync.RWMutex are atomic with respect to each other (read-locked sections only "
                     "read); which accesses lie in which section is regenerated from the source (C17_atomicity_facts): "
                     "addEntry/throttle, cleanup, setEntries, getEntries are one section each, so every interleaving of "
                     "concurrent failures equals a sequential order (C17_concurrent_failures_all_recorded)",
                     "CheckBruteforce is two sections (read, later write-back of the pruned list): a failure recorded in "
                     "between is lost iff the list read began with a record older than 12 h (C17_stale_writeback_harmless, "
                     "witness C17_concurrent_lost_update) - property part 'including concurrent attempts' is partial for "
                     "that window only",
                     "C17_block_iff_window assumes a monotone clock and check+throttle not separated by another attempt of the same key/action"],
    )

MANIFEST = dict(
        text="Machine-checked Lean 4 theorems about a model of throttle.go defined over constants and comparison "
             "operators regenerated from the source: delay monotone and <= 25 s for every count incl. the 64-bit "
             "computation; for every history of whole attempts under a monotone clock the outcomes equal a counting "
             "spec that never forgets (refused iff >= 10 failures within 30 min; delay = f(#failures within 12 h)); "
             "independence of keys/actions for every op sequence; forgetting after 12 h; every interleaving of the "
             "critical sections of n concurrent failure recordings yields n records (sections regenerated from the "
             "source per control-flow path). Tied to the code by facts extraction (constants, operators, lock "
             "sections, write-back guard) plus a differential run of the real memoryThrottler with injected clock, "
             "including goroutines recording failures at once, compared at rest.",
        note="Trusted: Lean kernel, extractor, harness/comparison, net.ParseIP; unbounded-Int time; mutex sections atomic. "
             "The stale write-back inside CheckBruteforce (needs a record older than 12 h at the head of the list "
             "read) is delimited by a theorem and exhibited as a proved witness (partial).",
        technique="Lean 4 proof (refinement of the entry-list model to a counting spec by induction over op lists; "
                  "invariant over all schedules of the regenerated critical sections) + regenerated constants and "
                  "lock sections + differential correspondence with concurrent steps",
    )
