"""C01 — no session without valid credentials; nothing happens before hello (hub.go hello path)."""
import collections
from ._util import verdict_stats as _verdict_stats


def _canon(s):
    """Implementation lines carry the oracle bits after ' || ' (computed at execution time with
    library primitives); they are inputs of the model, not part of the compared output."""
    return s.split(" || ")[0].strip()


def _kv(op):
    d = {}
    for f in op.split()[1:]:
        if "=" in f:
            k, v = f.split("=", 1)
            d[k] = v
    return d


def c01_stats(cases, model):
    ops, outcomes, errors = collections.Counter(), collections.Counter(), collections.Counter()
    hello_kinds, algs, muts, url_dot, modes, accepted_by, races = (collections.Counter() for _ in range(7))
    lens = []
    for c in cases:
        lens.append(len(c["ops"]))
        for o, i in zip(c["ops"], c.get("impl") or []):
            verb = o.split(" ", 1)[0]
            ops[verb] += 1
            r = _canon(i).split(" ; ")[0].split()
            if verb in ("cfg", "backend", "tenant", "start"):
                if verb == "cfg":
                    modes[_kv(o).get("mode", "?")] += 1
                continue
            head = r[0] if r else "?"
            if verb == "rrace":
                kv = _kv(o)
                head = head.split(":")[0]
                queued = "queued" if "queued=1" in i else ("not-queued" if "queued=0" in i else "-")
                races["%s first=%s -> %s (%s)" % (kv.get("end"), kv.get("first"), head, queued)] += 1
            outcomes[verb + ":" + head] += 1
            if head == "error" and len(r) > 1:
                errors[r[1]] += 1
            if verb == "hello":
                kv = _kv(o)
                if kv.get("rid", "-") != "-":
                    kind = "resume:" + kv["rid"].split(":")[0]
                elif kv.get("type") == "internal":
                    kind = "internal:" + kv.get("x.tok", "-")
                else:
                    kind = "v" + kv.get("ver", "?") + ":" + kv.get("x.params", "?")
                hello_kinds[kind] += 1
                if kv.get("x.params") == "tok":
                    algs[kv.get("t.alg", "-") + "/" + kv.get("x.sign", "-")] += 1
                    muts[kv.get("x.mut", "-").split(":")[0]] += 1
                if kv.get("u.dot") == "1" or kv.get("b.dot") == "1":
                    url_dot[head] += 1
                if head == "hello":
                    accepted_by[kind] += 1
    return dict(verdicts=_verdict_stats(cases, model), ops=dict(ops), outcomes=dict(outcomes), error_codes=dict(errors),
                hello_kinds=dict(hello_kinds), accepted_hello_kinds=dict(accepted_by), token_alg_header_vs_signer=dict(algs),
                token_mutations=dict(muts), dot_segment_urls=dict(url_dot), config_modes=dict(modes),
                resume_races=dict(races),
                max_case_len=max(lens or [0]), mean_case_len=round(sum(lens) / max(1, len(lens)), 1))


def c01_nontrivial(c, ms):
    """at least one hello accepted and at least one refused (or a pre-hello request refused) by the real hub"""
    acc = ref = False
    for o, i in zip(c["ops"], c.get("impl") or []):
        verb = o.split(" ", 1)[0]
        if verb not in ("hello", "msg", "bye", "rrace"):
            continue
        r = _canon(i).split()
        if verb == "hello" and r[:1] == ["hello"]:
            acc = True
        if r[:1] == ["error"] or (verb == "rrace" and r[:1] != ["skip"]):
            # a race that took place ended a session under a resume: refused, or accepted and ended
            ref = True
    return acc and ref


_T = "SigModel.Auth."

CONFIG = dict(
    modules=["SigModel.Props.C01"],
    theorems=[_T + t for t in [
        "C01_facts_as_modelled",
        "C01_resume_one_critical_section",
        "C01_resume_attach_path",
        "C01_register_one_critical_section",
        "C01_limit_check_atomic",
        "C01_expect_hello_sections",
        "C01_resume_live_under_interleaving",
        "C01_resume_split_would_resume_dead_session",
        "C01_race_rest_both_orders",
        "C01_session_needs_credentials",
        "C01_session_needs_credentials_run",
        "C01_nothing_before_hello",
        "C01_nothing_before_hello_seq",
        "C01_invalid_hello_no_effect",
        "C01_refused_hello_keeps_sessions",
        "C01_unconfigured_backend_refused",
        "C01_authenticated_only_by_hello",
        "C01_valid_v2_accepted",
        "C01_valid_internal_accepted",
        "C01_valid_resume_accepted",
        "C01_alg_none_and_hmac_refused",
        "C01_alg_family_matches_key",
        "C01_dot_segments_needed",
        "judge_sound",
    ]],
    generated=["Auth"],
    harness=dict(pkg="signaling", test="TestVerifC01", go="go1.26", timeout=900),
    canon=_canon,
    stats=c01_stats,
    nontrivial=c01_nontrivial,
    rule="PRNG worlds (tenants = fake Nextcloud instances with RSA/ECDSA/Ed25519/garbage/no key; backends / allowed / allowall "
         "configuration — the backends of one world in three announced through the real etcd backend storage (EtcdKeyUpdated per key, "
         "urls kept as written, with or without the final slash) —, limits, with and without internal secret) x hello attribute vectors: protocol 2.0 tokens built from "
         "(header alg, signing scheme, signing key, signature mutation, iat/nbf/exp offsets on and around every leeway boundary, sub) "
         "with mutations (alg none, HS* keyed with the published key text, family swap, other tenant's key, bit flip, truncation, "
         "malformed segments), protocol 1.0 tickets of the right/wrong tenant, internal tokens (random 0..64 bytes, wrong/empty "
         "secret, truncated/upper-case hex), URL mutations (other prefix on the same host, dot segments, encoded dots, other host/"
         "port/scheme, userinfo, unparsable), resume ids (private, public, mutated, foreign, junk, closed session), brute-force "
         "bursts from one address / one IPv6 /64, session limits, random frames of every message type before hello (valid, invalid, "
         "undecodable, truncated JSON, junk bytes, binary), and resume races (scripted opening: sessions on connections, one of them "
         "detached or about to say bye, random other traffic; finale `rrace`: a hello with the session's resume id issued while the "
         "session ends — bye of its connection or Session.Close() as expiry/kick do — with the harness holding Hub.mu until both are "
         "queued on it in a chosen order, or free-running); after every step the hub's tables are compared at rest (Hub.sessions, "
         "Hub.clients, Hub.expectHelloClients); a case is non-trivial if the real hub "
         "accepted at least one hello and refused at least one request; distinct = distinct op lists",
    trusted_base=[
        "net/url parsing and URL.String() (URL facts are computed by the generator with the standard library)",
        "golang-jwt v5.2.2: header/claims decoding, GetSigningMethod table, Validator semantics (restated in Model/Auth.lean, "
        "version pinned by the generated fact jwtLibVersion); SigningMethod.Verify supplies the signature oracle bits",
        "crypto/hmac + crypto/sha256 (internal token oracle), SessionIdCodec.DecodePrivate (does a resume id decode: C15)",
        "testing/synctest virtual clock (go1.26) and in-memory net.Pipe connections instead of TCP/TLS",
        "the lock-section extractor tools/extract/authlocks.go (go/ast walk of the control-flow paths of processHello's resume "
        "branch, processRegister, startExpectHello, Backend.AddSession; constructs it does not understand are reported as broken tie) "
        "and, for the race step, the layout of sync.RWMutex of go1.26 (queue lengths read from the mutex)",
        "the fake Nextcloud web server resolves dot segments before routing, as nginx/Apache do",
    ],
    assumptions=[
        "signature schemes and HMAC are not modelled: 'verifies under the key a tenant publishes' and 'token = HMAC(secret, random)' "
        "are oracle bits (unforgeability assumed)",
        "Routes: for a URL without dot segments the web server that answers is the owner of every configured backend whose "
        "URL is a prefix of it (prefix routing, prefix-free configuration per host)",
        "capabilities caching/HTTP, gRPC proxy-resume (tryProxyResume), the etcd client and its watch (the etcd backend storage "
        "itself is driven through EtcdKeyUpdated in key order, as at start-up) and connections closing during a hello are not "
        "modelled; the end of a session while a hello with its resume id is processed is covered by the regenerated critical "
        "sections (C01_resume_one_critical_section -> C01_resume_live_under_interleaving, adversary = arbitrary change of the hub "
        "outside the sections) and by the rrace step judged at rest; session expiry by the clock itself is not run (frozen clock: "
        "the harness calls Session.Close() as the housekeeping does)",
        "Go's sync.RWMutex gives mutual exclusion between a section held for writing and every other section of the same mutex",
        "a backend answering {type: auth} without auth object is trusted input (crashes processRegister; not a client input)",
    ],
)

MANIFEST = dict(
    text="Machine-checked Lean 4 theorems about a model of the hub's hello path (processMessage dispatch, HelloClientMessage."
         "CheckValid, resume branch, processHelloV1/V2/Internal incl. what jwt.ParseWithClaims does with the hub's options, "
         "processRegister, backend lookup) defined over facts regenerated from the source (algorithm allow-list, key-loader type "
         "switch, parser options, leeway, minimum random length, error mappings, pre-auth dispatch): a hello reply with a session "
         "id implies the statement's four-way credential disjunction, for every state, message and op sequence; every other frame "
         "on an unauthenticated connection is answered with an error and leaves the state unchanged; an unconfigured backend URL "
         "never yields a session; converse acceptance lemmas; the check-then-act steps of the path (resume: lookup, id comparison, "
         "attach; register: connection check and table insert; session limit; hello timeout list) are single critical sections "
         "of the guarding mutex — regenerated per control-flow path, decided, and the resume theorem is stated against an adversary "
         "that changes the hub wherever the mutex is not held. Tied to the code by extraction plus a differential run of the real "
         "Hub (virtual clock, in-memory network, own fake Nextcloud tenants with per-tenant keys) with the spec judged on the "
         "implementation's replies and on the hub's tables at rest, including resumes racing with the end of their session.",
    note="Trusted: Lean kernel, extractor, harness, net/url, golang-jwt (restated), crypto oracles. Unforgeability is assumed, "
         "not proved. Found and fixed: backend URLs with dot segments were matched to a configured backend by string prefix while "
         "the request went to another server of the host; a backend received from etcd with its url written without the final slash "
         "(/foo) also answered for sibling paths (/foobar): an unconfigured location was given a session of that backend.",
    technique="Lean 4 proof (case analysis of the decision model, induction over op sequences) + regenerated facts + "
              "differential correspondence with spec judge on the implementation trace",
)
