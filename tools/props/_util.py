import collections


def verdict_stats(cases, model):
    """Counter of spec verdict classes (ok / na / violated) over all steps."""
    v = collections.Counter()
    for ms in model:
        for m, verdict in ms:
            v[verdict.split(":")[0]] += 1
    return dict(v)


def op_stats(cases):
    """Distribution of op kinds, implementation outcome kinds and case lengths."""
    ops, kinds, lens = collections.Counter(), collections.Counter(), []
    for c in cases:
        lens.append(len(c["ops"]))
        for o in c["ops"]:
            ops[o.split(" ", 1)[0]] += 1
        for i in c.get("impl") or []:
            kinds[i.split(" ", 1)[0]] += 1
    return dict(ops=dict(ops), impl_outcomes=dict(kinds), max_case_len=max(lens or [0]),
                mean_case_len=round(sum(lens) / max(1, len(lens)), 1))
