#!/bin/bash
# confirm.sh <ID>-<n>: in worktree /tmp/mut/<ID>
export GOFLAGS=-mod=mod GOPROXY=off GOSUMDB=off GOTOOLCHAIN=local
mid=$1; pid=${mid%-*}; wt=/tmp/mut/$pid; out=/tmp/mut/out/$mid
cd $wt && git checkout -q -- . && git clean -fdq
tests=$(python3 -c "import json;print(json.load(open('$out/meta.json'))['tests'])")
pkg=$(python3 -c "import json;print(json.load(open('$out/meta.json')).get('pkg','./'))")
pkgdir=${pkg#./}; [ -z "$pkgdir" ] && pkgdir=.
cp $out/zz_demo_*_test.go $wt/$pkgdir/
go test -vet=off -count=1 -run "^($tests)\$" $pkg >/tmp/mut/triage/$mid.demo0.log 2>&1; d0=$?
git apply $out/patch.diff; ap=$?
go build ./... >/tmp/mut/triage/$mid.build.log 2>&1; b=$?
go test -vet=off -count=1 -run "^($tests)\$" $pkg >/tmp/mut/triage/$mid.demo1.log 2>&1; d1=$?
rm -f $wt/$pkgdir/zz_demo_*_test.go
flock /tmp/mut/suite.lock go test -vet=off -count=1 -timeout 25m ./... >/tmp/mut/triage/$mid.suite.log 2>&1; s=$?
git checkout -q -- . ; git clean -fdq
echo "$mid demo-without=$d0 build=$b demo-with=$d1 suite-with=$s apply=$ap tests=$tests"
