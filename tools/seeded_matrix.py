#!/usr/bin/env python3
"""Run the registered checks against every seeded change in /verif/seeded/<ID>-<n>/:
   git -C /repo apply patch.diff ; bin/check <ID> [--tier T] ; git -C /repo checkout -- .
and record in each meta.json what the check reported.  /repo must be clean and nobody else may use it meanwhile.
usage: seeded_matrix.py [--tier quick|thorough] [--also C03,C05] [ids...]   (default: all, each against its own property)"""
import glob, json, os, re, subprocess, sys, time

VERIF = os.path.dirname(os.path.dirname(os.path.abspath(__file__)))
REPO = "/repo"

def sh(cmd, **kw):
    return subprocess.run(cmd, stdout=subprocess.PIPE, stderr=subprocess.STDOUT, text=True, errors="replace", **kw)

def main():
    args = sys.argv[1:]
    tier = "quick"
    if "--tier" in args:
        i = args.index("--tier"); tier = args[i + 1]; del args[i:i + 2]
    ids = args or sorted(os.path.basename(d) for d in glob.glob(VERIF + "/seeded/C??-?"))
    st = sh(["git", "-C", REPO, "status", "--porcelain"]).stdout.strip()
    if st:
        sys.exit("refusing: /repo is not clean:\n" + st)
    head = sh(["git", "-C", REPO, "rev-parse", "--short", "HEAD"]).stdout.strip()
    open("/tmp/repo-busy", "w").write("seeded matrix\n")   # others wait for this file to go away before touching /repo
    try:
        run_all(ids, tier, head)
    finally:
        if os.path.exists("/tmp/repo-busy"):
            os.remove("/tmp/repo-busy")
    print("done; re-run the affected checks on the unchanged tree to rewrite evidence/")


def run_all(ids, tier, head):
    for mid in ids:
        d = os.path.join(VERIF, "seeded", mid)
        pid = mid.split("-")[0]
        mp = os.path.join(d, "meta.json")
        meta = json.load(open(mp))
        # a later fix: commit in /repo may touch the same lines: a ported variant of the patch (same meaning)
        # is then stored beside the original as patch.after-<commit>.diff
        cands = sorted(glob.glob(os.path.join(d, "patch.after-*.diff")), key=os.path.getmtime, reverse=True) + [os.path.join(d, "patch.diff")]
        used = None
        for cnd in cands:
            r = sh(["git", "-C", REPO, "apply", "--check", cnd])
            if r.returncode == 0:
                r = sh(["git", "-C", REPO, "apply", cnd])
                used = os.path.basename(cnd)
                break
        if used is None:
            print(mid, "patch does not apply:", r.stdout.strip()[:200])
            meta.setdefault("checks", {})[tier] = dict(applies=False, repo_head=head)
            json.dump(meta, open(mp, "w"), indent=1)
            continue
        t0 = time.time()
        cross = {}
        # the evidence files describe runs on the unchanged tree: keep them out of these runs' reach
        saved = {}
        for xp in [pid] + list(meta.get("cross_checks", [])):
            ep = os.path.join(VERIF, "evidence", xp + ".json")
            if os.path.exists(ep):
                saved[ep] = open(ep, "rb").read()
        try:
            if not os.environ.get("SEEDED_CROSS_ONLY"):
                c = sh([os.path.join(VERIF, "bin", "check"), pid, "--tier", tier], cwd=VERIF, env=dict(os.environ, VERIF_STALL="150"))
            else:
                c = None
            # checks of other properties that anchor the changed code (meta.json "cross_checks")
            for xp in meta.get("cross_checks", []):
                xc = sh([os.path.join(VERIF, "bin", "check"), xp, "--tier", tier], cwd=VERIF, env=dict(os.environ, VERIF_STALL="150"))
                xv = [l for l in xc.stdout.splitlines() if l.startswith("VIOLATION")]
                xw = [l[len("[check] "):] for l in xc.stdout.splitlines() if l.startswith("[check] violated") or l.startswith("[check] broken") or "BROKEN obligations" in l]
                cross[xp] = dict(exit=xc.returncode, detected=bool(xv) and xc.returncode == 1,
                                 concrete_failing_input=any("no-failing-input-found" not in v for v in xv) if xv else False,
                                 reported=[w[:300] for w in xw][:3])
        finally:
            sh(["git", "-C", REPO, "checkout", "--", "."])
            sh(["git", "-C", REPO, "clean", "-fdq"])
            for ep, data in saved.items():
                open(ep, "wb").write(data)
        if cross:
            meta.setdefault("checks", {})[tier + ":cross"] = cross
            json.dump(meta, open(mp, "w"), indent=1)
            print("%s  %s  cross: %s" % (mid, tier, {k: v["detected"] for k, v in cross.items()}))
        if c is None:
            continue
        out = c.stdout
        vio = [l for l in out.splitlines() if l.startswith("VIOLATION")]
        why = [l[len("[check] "):] for l in out.splitlines() if l.startswith("[check] violated") or l.startswith("[check] broken") or "BROKEN obligations" in l]
        res = dict(repo_head=head, patch_file=used, command="git -C /repo apply seeded/%s/patch.diff; bin/check %s --tier %s; git -C /repo checkout -- ." % (mid, pid, tier),
                   exit=c.returncode, detected=bool(vio) and c.returncode == 1,
                   concrete_failing_input=any("no-failing-input-found" not in v for v in vio) if vio else False,
                   violation_lines=[re.sub(r"replay=\S+", "replay=…", v) for v in vio][:3],
                   reported=[w[:300] for w in why][:4], wall_s=round(time.time() - t0, 1))
        meta.setdefault("checks", {})[tier] = res
        json.dump(meta, open(mp, "w"), indent=1)
        print("%s  %s  detected=%s concrete=%s  %.0fs  %s" % (mid, tier, res["detected"], res["concrete_failing_input"], res["wall_s"], (why or [""])[0][:110]))
        sys.stdout.flush()


main()
