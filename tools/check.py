#!/usr/bin/env python3
"""
bin/check <Cxx> [--tier quick|thorough] [--replay FILE]

One run = regenerate facts from /repo -> build + audit the Lean theorems ->
run the real code (overlay harness) and the Lean model/spec (driver) on the
same generated cases -> compare -> on any break search for a failing input ->
write evidence/<id>.json.  Exit 1 + "VIOLATION property=<id> replay=<path>"
for every violation not listed in known_findings.json.
"""
import fcntl
import glob
import hashlib
import json
import os
import re
import shutil
import subprocess
import sys
import time

VERIF = os.path.dirname(os.path.dirname(os.path.abspath(__file__)))
REPO = os.environ.get("VERIF_REPO", "/repo")
LEAN = os.path.join(VERIF, "lean")
BUILD = os.path.join(VERIF, ".build")
GEN = os.path.join(LEAN, "SigModel", "Generated")
sys.path.insert(0, os.path.join(VERIF, "tools"))

GOENV = dict(os.environ, GOFLAGS="-mod=mod", GOPROXY="off", GOSUMDB="off", GOTOOLCHAIN="local",
             CGO_ENABLED=os.environ.get("CGO_ENABLED", "0"))
ALLOWED_AXIOMS = {"propext", "Classical.choice", "Quot.sound"}
FORBIDDEN = re.compile(r"\bsorry\b|\badmit\b|^\s*axiom\s|native_decide|bv_decide|implemented_by|\bunsafe\s|maxHeartbeats\s+0")


def log(*a):
    print("[check]", *a, file=sys.stderr, flush=True)


class Lock:
    def __init__(self, name):
        os.makedirs(BUILD, exist_ok=True)
        self.path = os.path.join(BUILD, name + ".lock")

    def __enter__(self):
        self.f = open(self.path, "w")
        fcntl.flock(self.f, fcntl.LOCK_EX)
        return self

    def __exit__(self, *a):
        fcntl.flock(self.f, fcntl.LOCK_UN)
        self.f.close()


def run(cmd, cwd=None, env=None, timeout=None, inp=None):
    p = subprocess.run(cmd, cwd=cwd, env=env, timeout=timeout, input=inp,
                       stdout=subprocess.PIPE, stderr=subprocess.STDOUT, text=True, errors="replace")
    return p.returncode, p.stdout


def run_watched(cmd, cwd, env, timeout, out_path, stall):
    """Run the harness; kill it when it times out or when no case has completed (the output file has not
    grown) for `stall` seconds -- a deadlock in the code under test must not hold the check for the whole
    timeout.  Returns (rc, output)."""
    import tempfile
    with tempfile.TemporaryFile(mode="w+", errors="replace") as log:
        p = subprocess.Popen(cmd, cwd=cwd, env=env, stdout=log, stderr=subprocess.STDOUT)
        t0 = last = time.time()
        size = -1
        why = None
        while True:
            try:
                p.wait(timeout=1.0)
                break
            except subprocess.TimeoutExpired:
                pass
            now = time.time()
            try:
                sz = os.path.getsize(out_path)
            except OSError:
                sz = -1
            if sz != size:
                size, last = sz, now
            if now - t0 > timeout:
                why = "harness timed out after %ds" % timeout
            elif now - last > stall:
                why = "harness stalled: no case completed for %ds (deadlock or hang in the code under test?)" % stall
            if why:
                p.kill()
                p.wait()
                break
        log.seek(0)
        out = log.read()
    if why:
        return 124, why + "\n" + out[-4000:]
    return p.returncode, out


# --------------------------------------------------------------------------
# step 1: regenerate facts

def regenerate():
    """Build the extractor, run it over /repo's working tree. Returns status dict."""
    with Lock("extract"):
        exe = os.path.join(BUILD, "extract")
        src = os.path.join(VERIF, "tools", "extract")
        # rebuilt whenever its sources differ from those it was built from (content, not mtime: files copied
        # with their old timestamps must count as changed)
        hh = hashlib.sha256()
        for f in sorted(glob.glob(src + "/*.go") + glob.glob(src + "/go.*")):
            hh.update(os.path.basename(f).encode() + b"\0" + open(f, "rb").read() + b"\0")
        stamp = exe + ".sha"
        if not os.path.exists(exe) or not os.path.exists(stamp) or open(stamp).read() != hh.hexdigest():
            rc, out = run(["go", "build", "-o", exe, "."], cwd=src, env=GOENV)
            if rc != 0:
                raise SystemExit("extractor does not build:\n" + out)
            open(stamp, "w").write(hh.hexdigest())
        os.makedirs(GEN, exist_ok=True)
        rc, out = run([exe, "-repo", REPO, "-out", GEN])
        if rc != 0:
            raise SystemExit("extractor failed:\n" + out)
        return json.load(open(os.path.join(GEN, "status.json")))


# --------------------------------------------------------------------------
# step 2: prove

def strip_comments(text):
    # remove /- ... -/ (nested not handled beyond one level) and -- comments
    out, i, depth = [], 0, 0
    while i < len(text):
        if text.startswith("/-", i):
            depth += 1
            i += 2
        elif text.startswith("-/", i) and depth > 0:
            depth -= 1
            i += 2
        elif depth > 0:
            if text[i] == "\n":
                out.append("\n")
            i += 1
        elif text.startswith("--", i):
            while i < len(text) and text[i] != "\n":
                i += 1
        else:
            out.append(text[i])
            i += 1
    return "".join(out)


def module_path(mod):
    return os.path.join(LEAN, *mod.split(".")) + ".lean"


def transitive_sources(mod, seen=None):
    """Project-local modules imported (transitively) by mod."""
    seen = seen if seen is not None else set()
    if mod in seen:
        return seen
    p = module_path(mod)
    if not os.path.exists(p):
        return seen
    seen.add(mod)
    for m in re.findall(r"^import\s+(SigModel[\w.]*)", open(p).read(), re.M):
        transitive_sources(m, seen)
    return seen


def enclosing_decl(path, line):
    try:
        lines = open(path).read().split("\n")
    except OSError:
        return None
    for i in range(min(line, len(lines)) - 1, -1, -1):
        m = re.match(r"\s*(?:private\s+|protected\s+)?(?:theorem|lemma|def|example|instance)\s+([\w.'«»]+)?", lines[i])
        if m:
            return m.group(1) or "example"
    return None


def prove(pid, cfg, tier):
    """lake build of the property module(s) + axiom audit. Returns dict."""
    res = dict(obligations=[], discharged=[], broken=[], build_log="", axioms={})
    theorems = cfg["theorems"]
    res["obligations"] = list(theorems)
    with Lock("lake_" + pid):
        t0 = time.time()
        rc, out = run(["lake", "build"] + cfg["modules"] + ["driver_" + pid.lower()], cwd=LEAN, timeout=3600)
        res["build_s"] = round(time.time() - t0, 1)
        res["build_log"] = out[-6000:]
        failed_mods = re.findall(r"^- (SigModel[\w.]*|driver\w*)", out, re.M) if rc != 0 else []
        res["failed_modules"] = failed_mods
        broken_decls = []
        for m in re.finditer(r"^error: (\S+?\.lean):(\d+):\d+:", out, re.M):
            d = enclosing_decl(os.path.join(LEAN, m.group(1)), int(m.group(2)))
            broken_decls.append("%s:%s (%s)" % (m.group(1), m.group(2), d))
        res["broken_decls"] = broken_decls
        res["driver_ok"] = rc == 0 or not any(x.lower().startswith("driver") or ".Driver" in x or ".Model" in x
                                             or ".Spec" in x or ".Basic" in x or ".Generated" in x for x in failed_mods)
        if rc != 0 and not res["driver_ok"]:
            pass
        elif rc != 0:
            # property module broke but the executable model may still build
            rc2, out2 = run(["lake", "build", "driver_" + pid.lower()], cwd=LEAN, timeout=3600)
            res["driver_ok"] = rc2 == 0
        props_ok = rc == 0
        # forbidden constructs in every source the property depends on
        bad = []
        for mod in sorted(set().union(*[transitive_sources(m) for m in cfg["modules"]])):
            txt = strip_comments(open(module_path(mod)).read())
            for n, line in enumerate(txt.split("\n"), 1):
                if FORBIDDEN.search(line):
                    bad.append("%s:%d: %s" % (mod, n, line.strip()))
        res["forbidden"] = bad
        if props_ok:
            audit = os.path.join(BUILD, "audit_%s.lean" % pid)
            with open(audit, "w") as f:
                for m in cfg["modules"]:
                    f.write("import %s\n" % m)
                for th in theorems:
                    f.write("#print axioms %s\n" % th)
            rc, out = run(["lake", "env", "lean", audit], cwd=LEAN, timeout=1800)
            res["audit_log"] = out[-4000:]
            cur = None
            axioms = {}
            for m in re.finditer(r"'([^']+)' (depends on axioms: \[([^\]]*)\]|does not depend on any axioms)", out):
                axioms[m.group(1)] = [a.strip() for a in (m.group(3) or "").replace("\n", " ").split(",") if a.strip()]
            res["axioms"] = axioms
            for th in theorems:
                if th in axioms and set(axioms[th]) <= ALLOWED_AXIOMS and not bad:
                    res["discharged"].append(th)
                else:
                    res["broken"].append(th if th in axioms else th + " (not found / not compiled)")
            if tier == "thorough" and not res["broken"]:
                t0 = time.time()
                rc, out = run(["lake", "env", "leanchecker"] + cfg["modules"], cwd=LEAN, timeout=3600)
                res["leanchecker_s"] = round(time.time() - t0, 1)
                res["leanchecker_rc"] = rc
                if rc != 0:
                    res["broken"].append("leanchecker: " + out[-500:])
        else:
            res["broken"] = broken_decls or ["lake build failed: " + ", ".join(failed_mods)]
    return res


# --------------------------------------------------------------------------
# step 3: correspond

def build_harness(pid, hcfg, tag=""):
    """go test -c with this property's harness files overlaid into the package. Returns (path, err).
    `tag` distinguishes the binaries of CONFIG["extra_harness"] entries (further packages of the same property)."""
    pkg, gobin = hcfg["pkg"], hcfg.get("go", "go")
    with Lock("harness_%s%s" % (pid, tag)):
        hdir = os.path.join(VERIF, "harness", pkg)
        pkgdir = REPO if pkg == "signaling" else os.path.join(REPO, pkg)
        names = ["zz_verif_common_test.go"] + hcfg.get("files", [])
        names += [os.path.basename(f) for f in sorted(glob.glob("%s/zz_verif_%s_*.go" % (hdir, pid.lower())))]
        rep = {}
        for base in dict.fromkeys(names):
            rep[os.path.join(pkgdir, base)] = os.path.join(hdir, base)
        ov = os.path.join(BUILD, "overlay_%s%s.json" % (pid, tag))
        json.dump({"Replace": rep}, open(ov, "w"), indent=1)
        exe = os.path.join(BUILD, "%s%s.test" % (pid, tag))
        t0 = time.time()
        env = dict(GOENV)
        if hcfg.get("race"):
            env["CGO_ENABLED"] = "1"
        cmd = [gobin, "test", "-c", "-vet=off", "-tags", "verif", "-overlay", ov, "-o", exe]
        if hcfg.get("race"):
            cmd.append("-race")
        rc, out = run(cmd + ["."], cwd=pkgdir, env=env, timeout=1800)
        log("harness build %s (%s, %s): rc=%d %.1fs" % (pid, pkg, gobin, rc, time.time() - t0))
        if rc != 0:
            return None, out[-4000:]
        return exe, None


def _file_sha(path):
    hsh = hashlib.sha256()
    with open(path, "rb") as f:
        for blk in iter(lambda: f.read(1 << 20), b""):
            hsh.update(blk)
    return hsh.hexdigest()


def run_harness(exe, pkg, test, seed, tier, out_path, replay=None, scale=None, timeout=1800, extra_env=None, cache=False):
    """Run the harness test binary. With cache=True the output of an identical binary (same sha256, i.e. same
    /repo tree and harness sources) for the same test/seed/tier/scale is reused: the hub properties share one run."""
    cpath = None
    if cache and not replay:
        cdir = os.path.join(BUILD, "cache")
        os.makedirs(cdir, exist_ok=True)
        cpath = os.path.join(cdir, "%s_%s_%s_%s_%s.jsonl" % (_file_sha(exe)[:24], test, seed, tier, scale or 0))
        if os.path.exists(cpath):
            cases = [json.loads(l) for l in open(cpath) if l.strip()]
            if cases:
                return 0, "(cached harness output of an identical test binary: %s)" % os.path.basename(cpath), cases
    rc, out, cases = _run_harness(exe, pkg, test, seed, tier, out_path, replay, scale, timeout, extra_env)
    if cpath and rc == 0 and cases:
        tmpc = cpath + ".%d" % os.getpid()
        with open(tmpc, "w") as f:
            for c in cases:
                f.write(json.dumps(c) + "\n")
        os.replace(tmpc, cpath)
        # keep the cache small
        old = sorted(glob.glob(os.path.join(BUILD, "cache", "*.jsonl")), key=os.path.getmtime)
        for o in old[:-40]:
            os.remove(o)
    return rc, out, cases


def _run_harness(exe, pkg, test, seed, tier, out_path, replay=None, scale=None, timeout=1800, extra_env=None):
    env = dict(os.environ, VERIF_SEED=str(seed), VERIF_TIER=tier, VERIF_OUT=out_path, VERIF_LIST=out_path + ".list")
    env.pop("VERIF_REPLAY", None)
    env.pop("VERIF_SCALE", None)
    if replay:
        env["VERIF_REPLAY"] = replay
    if scale:
        env["VERIF_SCALE"] = str(scale)
    if extra_env:
        env.update(extra_env)
    pkgdir = REPO if pkg == "signaling" else os.path.join(REPO, pkg)
    if os.path.exists(out_path):
        os.remove(out_path)
    rc, out = run_watched([exe, "-test.run", "^%s$" % test, "-test.count=1", "-test.timeout=%ds" % timeout],
                          pkgdir, env, timeout + 30, out_path,
                          min(int(os.environ.get("VERIF_STALL", "420")), 90) if replay else int(os.environ.get("VERIF_STALL", "420")))
    cases = []
    if os.path.exists(out_path):
        for line in open(out_path):
            line = line.strip()
            if line:
                try:
                    cases.append(json.loads(line))
                except ValueError:
                    pass
    return rc, out, cases


def run_driver(pid, cases, judge_with_impl=True):
    """Feed all cases to the Lean driver. Returns per case list of (model, verdict)."""
    exe = os.path.join(LEAN, ".lake", "build", "bin", "driver_" + pid.lower())
    lines = []
    for c in cases:
        lines.append("reset")
        impl = c.get("impl") or []
        for i, op in enumerate(c["ops"]):
            if judge_with_impl and i < len(impl):
                lines.append(op + " | " + impl[i])
            else:
                lines.append(op)
    rc, out = run([exe, pid], inp="\n".join(lines) + "\n", timeout=3600)
    outl = out.split("\n")
    res, k = [], 0
    for c in cases:
        k += 1  # reset line
        cur = []
        for _ in c["ops"]:
            if k < len(outl) and "\t" in outl[k]:
                m, v = outl[k].split("\t", 1)
            else:
                m, v = "<driver-missing>", "na"
            cur.append((m, v))
            k += 1
        res.append(cur)
    return res


def compare(cfg, cases, model):
    """Returns list of issues: dict(case, step, kind, why, impl, model)."""
    issues = []
    canon = cfg.get("canon", lambda s: s)
    for ci, (c, ms) in enumerate(zip(cases, model)):
        impl = c.get("impl") or []
        if c.get("crash"):
            issues.append(dict(case=ci, step=len(impl), kind="spec", why="violated:crash:" + c["crash"][:200],
                               impl="<crash>", model=""))
        for si, (m, v) in enumerate(ms):
            if si >= len(impl):
                break
            if v.startswith("violated"):
                issues.append(dict(case=ci, step=si, kind="spec", why=v, impl=impl[si], model=m))
            if canon(m) != canon(impl[si]):
                issues.append(dict(case=ci, step=si, kind="diff", why="model≠impl", impl=impl[si], model=m))
    return issues


def case_issue(cfg, pid, exe, hcfg, ops, tmp, want_kind):
    """Re-execute one op list on impl + model; return first issue of want_kind (or any if None)."""
    rp = tmp + ".replay.jsonl"
    with open(rp, "w") as f:
        f.write(json.dumps({"ops": ops}) + "\n")
    rc, out, cases = run_harness(exe, hcfg["pkg"], hcfg["test"], 0, "quick", tmp + ".out.jsonl", replay=rp, timeout=300)
    if rc != 0 and (not cases or len(cases[0].get("impl") or []) < len(ops)):
        # the process died (or hung) while executing this case
        impl = (cases[0].get("impl") or []) if cases else []
        c = dict(ops=ops, impl=impl)
        if want_kind in (None, "spec"):
            return dict(case=0, step=min(len(impl), len(ops) - 1), kind="spec", why="violated:process-died",
                        impl="<died>", model="", log=out[-1500:]), c
        return None, c
    if not cases:
        return None, None
    model = run_driver(pid, cases)
    issues = compare(cfg, cases, model)
    for i in issues:
        if want_kind is None or i["kind"] == want_kind:
            return i, cases[0]
    return None, cases[0]


def find_culprit(exe, hcfg, candidates, tmp, budget_s=240):
    """The harness process died: execute the candidate cases one by one (each in its own process) and return
    (ops, partial impl, log) of the first that kills it again."""
    t0 = time.time()
    for ops in candidates:
        if time.time() - t0 > budget_s:
            break
        rp = tmp + ".culprit.jsonl"
        with open(rp, "w") as f:
            f.write(json.dumps({"ops": ops}) + "\n")
        rc, out, cs = run_harness(exe, hcfg["pkg"], hcfg["test"], 0, "quick", tmp + ".culprit.out.jsonl", replay=rp, timeout=300)
        if rc != 0:
            return ops, ((cs[0].get("impl") or []) if cs else []), out
    return None, None, None


def read_list(out_path):
    p = out_path + ".list"
    res = []
    if os.path.exists(p):
        for line in open(p):
            try:
                res.append(json.loads(line)["ops"])
            except Exception:
                pass
    return res


def shrink(cfg, pid, exe, hcfg, ops, kind, tmp, budget_s=60):
    """Greedy delta-debugging on the op list, keeping an issue of the same kind."""
    t0 = time.time()
    best = list(ops)
    issue, case = case_issue(cfg, pid, exe, hcfg, best, tmp, kind)
    if issue is None:
        return best, None, None  # does not reproduce in isolation
    best = best[: issue["step"] + 1]
    chunk = max(1, len(best) // 2)
    while chunk >= 1 and time.time() - t0 < budget_s:
        i, progressed = 0, False
        while i < len(best) and time.time() - t0 < budget_s:
            cand = best[:i] + best[i + chunk:]
            iss, cs = (None, None)
            if cand:
                iss, cs = case_issue(cfg, pid, exe, hcfg, cand, tmp, kind)
            if iss is not None:
                best, issue, case, progressed = cand[: iss["step"] + 1], iss, cs, True
            else:
                i += chunk
        if not progressed:
            chunk //= 2
    return best, issue, case


# --------------------------------------------------------------------------
# known findings

def load_known(pid):
    p = os.path.join(VERIF, "known_findings.json")
    if not os.path.exists(p):
        return []
    return [k for k in json.load(open(p)) if k.get("property") == pid and k.get("status") == "open"]


def matches_known(k, why, ops):
    m = k.get("match", {})
    if "why" in m and not re.search(m["why"], why or ""):
        return False
    if "ops" in m and not re.search(m["ops"], "\n".join(ops or []), re.S):
        return False
    if "max_ops" in m and len(ops or []) > m["max_ops"]:
        return False
    return True


# --------------------------------------------------------------------------

def setup():
    import props
    regenerate()
    bad = []
    with Lock("lake"):
        for pid, cfg in props.PROPS.items():
            rc, out = run(["lake", "build"] + cfg["modules"] + ["driver_" + pid.lower()], cwd=LEAN, timeout=7200)
            print("setup: lake build %s rc=%d" % (pid, rc))
            if rc != 0:
                print(out[-3000:])
                bad.append(pid)
    for pid, cfg in props.PROPS.items():
        exe, err = build_harness(pid, cfg["harness"])
        if exe is None:
            print("setup: harness %s does not build:\n%s" % (pid, err))
            bad.append(pid)
        for xi, xh in enumerate(cfg.get("extra_harness", []), 1):
            exe, err = build_harness(pid, xh, "_x%d" % xi)
            if exe is None:
                print("setup: extra harness %s/%s does not build:\n%s" % (pid, xh["pkg"], err))
                bad.append(pid)
    if bad:
        raise SystemExit("setup failed for: " + ", ".join(bad))
    print("setup ok")


def main():
    import props
    args = sys.argv[1:]
    if not args:
        raise SystemExit(__doc__)
    if args[0] == "--setup":
        return setup()
    pid = args[0]
    tier = os.environ.get("VERIF_TIER", "quick")
    replay = None
    i = 1
    while i < len(args):
        if args[i] == "--tier":
            tier = args[i + 1]
            i += 2
        elif args[i] == "--replay":
            replay = args[i + 1]
            i += 2
        else:
            raise SystemExit("unknown argument " + args[i])
    seed = int(os.environ.get("VERIF_SEED", "1") or "1")
    cfg = props.PROPS[pid]
    t_start = time.time()
    os.makedirs(BUILD, exist_ok=True)
    os.makedirs(os.path.join(VERIF, "replay"), exist_ok=True)
    os.makedirs(os.path.join(VERIF, "evidence"), exist_ok=True)
    tmp = os.path.join(BUILD, "%s_%d_%d" % (pid, os.getpid(), seed))

    violations = []   # dict(why, replay, found_input, ops)
    notes = []

    # 1. regenerate
    st = regenerate()
    extract_fail = []
    for topic in cfg.get("generated", []):
        extract_fail += ["Generated.%s: %s" % (topic, m) for m in st["failures"].get(topic, [])]
    if extract_fail:
        log("extraction patterns no longer match:", extract_fail)

    # 2. prove
    pr = prove(pid, cfg, tier)
    n_facts = sum(len(st["facts"].get(t, [])) for t in cfg.get("generated", []))
    obligations = len(pr["obligations"]) + n_facts
    discharged = len(pr["discharged"]) + (n_facts - len(extract_fail))
    proof_broken = list(pr["broken"]) + extract_fail + pr.get("forbidden", [])
    log("proof: %d/%d obligations discharged in %.1fs" % (discharged, obligations, pr.get("build_s", 0)))
    if proof_broken:
        log("BROKEN obligations:", proof_broken)

    # 3. correspond
    hcfg = cfg["harness"]
    gobin = hcfg.get("go", "go")
    exe, err = build_harness(pid, hcfg)
    cases, model, issues = [], [], []
    corr_broken = []
    harness_log = ""
    # optional further harness packages of the same property (CONFIG["extra_harness"], same op protocol and
    # driver); a case remembers the harness it came from in c["harness"] (index into `harnesses`)
    harnesses = [(exe, hcfg)]
    for xi, xh in enumerate(cfg.get("extra_harness", []), 1):
        xexe, xerr = build_harness(pid, xh, "_x%d" % xi)
        harnesses.append((xexe, xh))
        if xexe is None and exe is not None:
            exe, err = None, "extra harness %s: %s" % (xh["pkg"], xerr)
    if exe is None:
        corr_broken.append("Corr.%s: harness no longer compiles against the tree: %s" % (pid, err[-600:]))
    elif not pr["driver_ok"]:
        corr_broken.append("Corr.%s: Lean model/driver does not build" % pid)
    else:
        extra = {}
        if replay:
            # a replay file written by this tool: {"ops": [...]} inside
            r = json.load(open(replay))
            rp = tmp + ".replay.jsonl"
            with open(rp, "w") as f:
                f.write(json.dumps({"ops": r["ops"]}) + "\n")
            rexe, rcfg = harnesses[r.get("harness", 0)]
            rc, harness_log, cases = run_harness(rexe, rcfg["pkg"], rcfg["test"], seed, tier, tmp + ".jsonl", replay=rp)
            for c in cases:
                c["harness"] = r.get("harness", 0)
        else:
            # corpus first
            corpus = sorted(glob.glob(os.path.join(VERIF, "corpus", pid, "*.jsonl")))
            if corpus:
                rp = tmp + ".corpus.jsonl"
                with open(rp, "w") as f:
                    for cf in corpus:
                        f.write(open(cf).read().strip() + "\n")
                rc, hl, ccases = run_harness(exe, hcfg["pkg"], hcfg["test"], seed, tier, tmp + ".c.jsonl", replay=rp)
                for c in ccases:
                    c.setdefault("tags", []).append("corpus")
                cases += ccases
                if rc != 0:
                    # the process died in a corpus case: the cases not yet written are the suspects
                    allc = [json.loads(l)["ops"] for cf in corpus for l in open(cf) if l.strip()]
                    cops, cimpl, clog = find_culprit(exe, hcfg, allc[len(ccases):], tmp)
                    if cops is not None:
                        cases.append(dict(ops=cops, impl=cimpl, tags=["corpus", "culprit"]))
                        issues.append(dict(case=len(cases) - 1, step=min(len(cimpl), len(cops) - 1), kind="spec",
                                           why="violated:process-died", impl="<died>", model="", log=clog[-1500:]))
                    else:
                        corr_broken.append("Corr.%s: corpus run failed rc=%d after %d cases: %s" % (pid, rc, len(ccases), hl[-600:]))
            rc, harness_log, gcases = run_harness(exe, hcfg["pkg"], hcfg["test"], seed, tier, tmp + ".jsonl",
                                                  timeout=hcfg.get("timeout", 1800), cache=bool(hcfg.get("cache")))
            if harness_log.startswith("(cached"):
                notes.append(harness_log)
            cases += gcases
            for xi, (xexe, xh) in enumerate(harnesses[1:], 1):
                xrc, xlog, xcases = run_harness(xexe, xh["pkg"], xh["test"], seed, tier, tmp + ".x%d.jsonl" % xi,
                                                timeout=xh.get("timeout", 1800))
                for c in xcases:
                    c["harness"] = xi
                cases += xcases
                if xrc != 0:
                    corr_broken.append("Corr.%s: extra harness %s run failed rc=%d after %d cases: %s"
                                       % (pid, xh["pkg"], xrc, len(xcases), xlog[-800:]))
            if rc != 0 and not gcases:
                corr_broken.append("Corr.%s: harness run failed rc=%d: %s" % (pid, rc, harness_log[-800:]))
            elif rc != 0:
                # the process died mid-way (panic in a goroutine, deadlock): the cases that were running are the
                # suspects -- the generated list tells which they are; each is executed again on its own
                notes.append("harness exited rc=%d after %d cases" % (rc, len(gcases)))
                glist = read_list(tmp + ".jsonl")
                cops = None
                if glist:
                    cops, cimpl, clog = find_culprit(exe, hcfg, glist[len(gcases): len(gcases) + hcfg.get("workers", 1) + 1], tmp)
                if cops is not None:
                    cases.append(dict(ops=cops, impl=cimpl, tags=["culprit"]))
                    issues.append(dict(case=len(cases) - 1, step=min(len(cimpl), len(cops) - 1), kind="spec",
                                       why="violated:process-died", impl="<died>", model="", log=clog[-1500:]))
                else:
                    issues.append(dict(case=len(cases) - 1, step=len(cases[-1].get("impl") or []), kind="spec",
                                       why="violated:process-died", impl="<died>", model="",
                                       log=harness_log[-1500:]))
        model = run_driver(pid, cases)
        issues += compare(cfg, cases, model)
        if replay:
            for c, ms in zip(cases, model):
                for i2, op in enumerate(c["ops"]):
                    im = (c.get("impl") or ["<none>"] * len(c["ops"]))[i2] if i2 < len(c.get("impl") or []) else "<none>"
                    print("%3d  %s\n     impl : %s\n     model: %s   [%s]" % (i2, op, im, ms[i2][0], ms[i2][1]))

    # 4/5. judge + search
    known = load_known(pid)
    known_hit = {}
    reported = set()
    nrep = 0

    def write_replay(obj):
        nonlocal nrep
        nrep += 1
        p = os.path.join(VERIF, "replay", "%s-%d-%d.json" % (pid, seed, nrep))
        json.dump(obj, open(p, "w"), indent=1)
        return p

    spec_issues = [i for i in issues if i["kind"] == "spec"]
    diff_issues = [i for i in issues if i["kind"] == "diff"]
    handled_cases = set()
    unconfirmed = []
    budget_end = time.time() + (120 if tier == "quick" else 600)
    for iss in spec_issues + diff_issues:
        if iss["case"] in handled_cases:
            continue
        ops = cases[iss["case"]]["ops"]
        if iss["kind"] == "spec":
            # a listed finding is recognised on the unshrunk case already (no shrinking, no budget)
            k0 = next((k for k in known if matches_known(k, iss["why"], ops[: iss["step"] + 1])), None)
            if k0 is not None:
                known_hit[k0["id"]] = k0
                continue
        handled_cases.add(iss["case"])
        if len(handled_cases) > 12 or time.time() > budget_end:
            break
        sops, sissue, scase = (ops, iss, cases[iss["case"]])
        hidx = cases[iss["case"]].get("harness", 0)
        if exe and not cfg.get("no_shrink"):
            s2, i2, c2 = shrink(cfg, pid, harnesses[hidx][0], harnesses[hidx][1], ops, iss["kind"], tmp,
                                budget_s=40 if tier == "quick" else 120)
            # a model/implementation difference only counts if it shows again when the case is executed on its
            # own (twice): harnesses that run a real hub against the wall clock can be disturbed by machine load
            if i2 is None and harnesses[hidx][1].get("confirm", iss["kind"] == "diff"):
                # timing-sensitive harness: a difference only counts if it shows again on re-execution
                s2, i2, c2 = shrink(cfg, pid, harnesses[hidx][0], harnesses[hidx][1], ops, iss["kind"], tmp, budget_s=20)
                if i2 is None:
                    notes.append(dict(not_reproduced=dict(kind=iss["kind"], why=iss["why"], step=iss["step"], n_ops=len(ops))))
                    unconfirmed.append(iss)
                    continue
            if i2 is not None:
                sops, sissue, scase = s2, i2, c2
        if sissue["kind"] == "spec":
            why = sissue["why"]
            k = next((k for k in known if matches_known(k, why, sops)), None)
            if k is not None:
                known_hit[k["id"]] = k
                continue
            sig = why + "|" + hashlib.sha256("\n".join(sops).encode()).hexdigest()[:12]
            if why in reported:
                continue
            reported.add(why)
            p = write_replay(dict(property=pid, seed=seed, tier=tier, kind="failing-input", why=why, ops=sops,
                                  impl=scase.get("impl"), step=sissue["step"], model=sissue.get("model"),
                                  log=iss.get("log"), **({"harness": hidx} if hidx else {})))
            violations.append(dict(why=why, replay=p, found=True))
        else:
            corr_broken.append("Corr.%s: model and implementation differ at step %d of a %d-op case: impl=%r model=%r"
                               % (pid, sissue["step"], len(sops), sissue["impl"], sissue["model"]))
            p0 = dict(ops=sops, impl=scase.get("impl"), step=sissue["step"], model=sissue.get("model"),
                      **({"harness": hidx} if hidx else {}))
            notes.append(dict(correspondence_diff=p0))

    broken = proof_broken + corr_broken
    if broken and not violations and not replay:
        # something no longer checks but no failing input yet: widen the search
        found = None
        if exe and pr["driver_ok"]:
            t_end = time.time() + (90 if tier == "quick" else 480)
            s = seed
            wround = 0
            while time.time() < t_end and found is None:
                s = s * 7919 + 13
                widx = wround % len(harnesses)
                wround += 1
                wexe, wcfg = harnesses[widx]
                rc, hl, wc = run_harness(wexe, wcfg["pkg"], wcfg["test"], s % (1 << 31), "thorough", tmp + ".w.jsonl",
                                         scale=30, timeout=max(30, int(t_end - time.time())))
                if not wc:
                    break
                wm = run_driver(pid, wc)
                for iss in compare(cfg, wc, wm):
                    if iss["kind"] == "spec":
                        ops = wc[iss["case"]]["ops"]
                        k0 = next((k for k in known if matches_known(k, iss["why"], ops[: iss["step"] + 1])), None)
                        if k0 is not None:
                            known_hit[k0["id"]] = k0
                            continue
                        if time.time() > t_end:
                            break
                        s2, i2, c2 = shrink(cfg, pid, wexe, wcfg, ops, "spec", tmp, budget_s=30)
                        if i2 is None:
                            s2, i2, c2 = ops, iss, wc[iss["case"]]
                        k = next((k for k in known if matches_known(k, i2["why"], s2)), None)
                        if k is not None:
                            known_hit[k["id"]] = k
                            continue
                        found = dict(why=i2["why"], ops=s2, impl=c2.get("impl"), step=i2["step"], model=i2.get("model"),
                                     **({"harness": widx} if widx else {}))
                        break
        if found:
            p = write_replay(dict(property=pid, seed=seed, tier=tier, kind="failing-input", broken=broken, **found))
            violations.append(dict(why=found["why"], replay=p, found=True))
        else:
            p = write_replay(dict(property=pid, seed=seed, tier=tier, kind="no-failing-input-found", broken=broken,
                                  notes=notes, build_log=pr.get("build_log", "")[-3000:]))
            violations.append(dict(why="broken: " + "; ".join(broken)[:300], replay=p, found=False))

    # 6. evidence
    stats = cfg["stats"](cases, model) if cases and "stats" in cfg else {}
    nontrivial = set()
    nt = cfg.get("nontrivial")
    for c, ms in zip(cases, model):
        if nt is None or nt(c, ms):
            nontrivial.add(hashlib.sha256("\n".join(c["ops"]).encode()).hexdigest())
    samples = []
    for c in cases[:2]:
        samples.append(dict(ops=c["ops"][:12], impl=(c.get("impl") or [])[:12]))
    samples.append(dict(obligations=pr["obligations"][:6]))
    n_steps = sum(len(c.get("impl") or []) for c in cases)
    ev = dict(
        property_id=pid, tier=tier, seed=seed, level="proof",
        coverage=dict(
            obligations=obligations, discharged=discharged,
            checker_cmd="cd /verif/lean && lake build %s && lake env lean ../.build/audit_%s.lean%s" % (
                " ".join(cfg["modules"]), pid, " && lake env leanchecker " + " ".join(cfg["modules"]) if tier == "thorough" else ""),
            trusted_base=cfg.get("trusted_base", []) + [
                "Lean 4.33.0 kernel; axioms per theorem: " + json.dumps({k.split(".")[-1]: v for k, v in pr.get("axioms", {}).items()}),
                "fact extractor tools/extract (go/ast patterns) and the overlay harness + comparison in tools/check.py",
            ],
            theorems=pr["obligations"], generated_facts=n_facts, broken=broken,
            evaluations=len(cases), steps=n_steps, distinct_nontrivial=len(nontrivial),
            rule=cfg.get("rule", ""), samples=samples,
            traces_validated_against_impl=len(cases),
            spec_verdicts=stats.pop("verdicts", None) if isinstance(stats, dict) else None,
            distribution=stats,
            source_sha256={k: v for k, v in st["files"].items()},
            known_findings_reproduced=sorted(known_hit.keys()),
            leanchecker=pr.get("leanchecker_rc"),
            notes=[n for n in notes if isinstance(n, str)][:5],
            unconfirmed_differences=len(unconfirmed),
        ),
        assumptions=cfg.get("assumptions", []),
        wall_s=round(time.time() - t_start, 1),
        violations=len(violations),
    )
    if not replay:
        json.dump(ev, open(os.path.join(VERIF, "evidence", pid + ".json"), "w"), indent=1)

    for k in known_hit.values():
        print("KNOWN-FINDING: property=%s %s" % (pid, k["what"]))
    for v in violations:
        print("VIOLATION property=%s replay=%s%s" % (pid, v["replay"], "" if v["found"] else " no-failing-input-found"))
        log(v["why"])
    for f in glob.glob(tmp + "*"):
        try:
            os.remove(f)
        except OSError:
            pass
    log("%s %s seed=%d: %d cases, %d steps, %d violations, %.1fs" % (pid, tier, seed, len(cases), n_steps, len(violations), time.time() - t_start))
    sys.exit(1 if violations else 0)


if __name__ == "__main__":
    main()
