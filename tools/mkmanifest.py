#!/usr/bin/env python3
"""Regenerate MANIFEST.json from tools/props.py (checks) and tools/manifest_meta.py (texts)."""
import json
import os
import sys

VERIF = os.path.dirname(os.path.dirname(os.path.abspath(__file__)))
sys.path.insert(0, os.path.join(VERIF, "tools"))
import props
import manifest_meta as mm

ids = [json.loads(l)["id"] for l in open(os.path.join(VERIF, "properties.jsonl"))]
checks = []
for pid in ids:
    if pid not in props.PROPS:
        continue
    meta = props.MANIFEST[pid]
    checks.append(dict(
        property_id=pid,
        quick_cmd="bin/check %s --tier quick" % pid,
        thorough_cmd="bin/check %s --tier thorough" % pid,
        evidence_file="/verif/evidence/%s.json" % pid,
        replay_cmd_template="bin/check %s --replay {path}" % pid,
        engine="lean4-proof+correspondence",
        level_claimed=dict(category="proof", text=meta["text"], design_ref=meta.get("design_ref", "DESIGN.md §4 " + pid)),
        level_note=meta["note"],
        technique=meta["technique"],
    ))
na = [dict(property_id=p, reason=props.NOT_APPLICABLE.get(p, "no check built yet in this round (planned, see DESIGN.md §8)"))
      for p in ids if p not in [c["property_id"] for c in checks]]
m = dict(
    version=1,
    setup_cmd="bin/setup",
    hooks=dict(guard="verif",
               enable="go test -c -tags verif -overlay /verif/.build/overlay_<pkg>_<go>.json (harness files are overlaid as "
                      "zz_verif_*_test.go; no hook code lives in /repo)",
               baseline_off_cmd="cd /repo && GOFLAGS=-mod=mod GOPROXY=off GOSUMDB=off go test -vet=off -count=1 -timeout 25m ./...",
               source_commits=mm.HOOK_COMMITS, add_only=True),
    engines=[dict(name="lean4-proof+correspondence", path="/verif/tools/check.py",
                  serves_properties=[c["property_id"] for c in checks],
                  kind_free_text="Lean 4 theorems over a hand-written model defined on facts regenerated from /repo "
                                 "(tools/extract), tied to the code by a differential run of the real Go code "
                                 "(go test -overlay harness) against the model's executable definitions and the "
                                 "property's spec predicate (lean/SigModel/Driver/, one compiled driver per property)")],
    checks=checks,
    not_applicable=na,
    notes=mm.NOTES,
)
json.dump(m, open(os.path.join(VERIF, "MANIFEST.json"), "w"), indent=1)
print("MANIFEST.json: %d checks, %d not claimed" % (len(checks), len(na)))
