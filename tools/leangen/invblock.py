#!/usr/bin/env python3
"""Generates the per-clause proof block used by the hub invariant lemmas (each clause of `InvX` is closed by
`grind` from a small, clause-specific set of facts of the old invariant; falls back to all of them)."""
DEPS = {
 'fresh': ['fresh'],
 'mem_room': ['mem_room', 'fresh'],
 'room_mem': ['room_mem', 'mem_room', 'fresh'],
 'nonempty': ['nonempty', 'mem_room'],
 'nodup': ['nodup'],
 'roomL_iff': ['roomL_iff', 'fresh', 'room_mem', 'mem_room'],
 'roomL_nodup': ['roomL_nodup', 'roomL_iff'],
 'userL_iff': ['userL_iff', 'fresh'],
 'userL_nodup': ['userL_nodup', 'userL_iff'],
 'sessL_iff': ['sessL_iff', 'fresh'],
 'rs_fwd': ['rs_fwd', 'rs_room', 'fresh'],
 'rs_room': ['rs_room', 'rs_fwd', 'fresh', 'room_mem'],
 'virt': ['virt', 'children', 'fresh'],
 'children': ['children', 'virt', 'fresh'],
 'vtable': ['vtable', 'virt', 'fresh'],
 'conn_iff': ['conn_iff', 'fresh', 'virt'],
 'conn_open': ['conn_open', 'conn_iff'],
 'eh': ['eh', 'conn_iff', 'conn_open'],
 'expired': ['expired', 'fresh'],
 'anon': ['anon', 'fresh'],
 'dialout': ['dialout', 'fresh'],
 'count': ['count', 'fresh'],
 'orph_virt': ['orph_virt', 'fresh', 'children', 'virt'],
 'incall': ['incall', 'mem_room'],
 'count_le': ['count_le'],
}
ALL = list(DEPS)


def block(hi='hi', indent='  ', pre='', extra_simp='', extra_grind=''):
    """pre: tactic text run at the start of each clause (e.g. an unfold)."""
    lines = []
    tac = "(intros; (try simp only [hubf%s] at *); grind [mem_removeL, nodup_removeL, removeL_nil, length_removeL_le%s])" % (extra_simp, extra_grind)
    for c, deps in DEPS.items():
        haves = "; ".join("have f_%s := %s.%s" % (d, hi, d) for d in deps)
        allh = "; ".join("have f_%s := %s.%s" % (d, hi, d) for d in ALL)
        if pre:
            lines.append("%scase %s =>\n%s  %s\n%s  all_goals first\n%s    | (%s; clear %s; %s)\n%s    | (%s; clear %s; %s)" % (
                indent, c, indent, pre, indent, indent, haves, hi, tac, indent, allh, hi, tac))
        else:
            lines.append("%scase %s =>\n%s  first\n%s    | (%s; clear %s; %s)\n%s    | (%s; clear %s; %s)" % (
                indent, c, indent, indent, haves, hi, tac, indent, allh, hi, tac))
    return "\n".join(lines)


if __name__ == "__main__":
    import sys
    print(block(*sys.argv[1:]))
