#!/usr/bin/env python3
"""Copy the seeded changes delivered by the mutation sub-agents (/tmp/mut/out/<ID>-<n>) that were confirmed in a
scratch worktree (tools: /tmp/mut/confirm.sh, results in /tmp/mut/triage/confirm-all*.txt) into /verif/seeded/<ID>-<n>/:
patch.diff, the demonstration test, meta.json (property broken, what it needs to manifest, what was run)."""
import glob, json, os, re, shutil, sys

OUT = "/tmp/mut/out"
DST = "/verif/seeded"
conf = {}
for f in sorted(glob.glob("/tmp/mut/triage/confirm-all*.txt")) + ["/tmp/mut/triage/confirm-first.txt"] + sorted(glob.glob("/tmp/mut/triage/confirm-r[0-9]*.txt")):
    if not os.path.exists(f):
        continue
    for line in open(f):
        m = re.match(r"(C\d\d-\d) demo-without=(\d+) build=(\d+) demo-with=(\d+) suite-with=(\d+) .*tests=(.*)", line)
        if m:
            conf[m.group(1)] = dict(demo_without=int(m.group(2)), build=int(m.group(3)), demo_with=int(m.group(4)),
                                    suite_with=int(m.group(5)), tests=m.group(6).strip())
n = 0
for d in sorted(glob.glob(OUT + "/C??-?")):
    mid = os.path.basename(d)
    c = conf.get(mid)
    if not c:
        print("not confirmed yet:", mid)
        continue
    ok = c["demo_without"] == 0 and c["build"] == 0 and c["demo_with"] != 0 and c["suite_with"] == 0
    if not ok:
        print("NOT KEPT (confirmation failed):", mid, c)
        continue
    dst = os.path.join(DST, mid)
    os.makedirs(dst, exist_ok=True)
    shutil.copy(os.path.join(d, "patch.diff"), dst)
    for t in glob.glob(d + "/zz_demo_*_test.go"):
        shutil.copy(t, dst)
    am = json.load(open(os.path.join(d, "meta.json")))
    meta = dict(
        id=mid, breaks_property=mid.split("-")[0],
        summary=am.get("summary"), needs_to_manifest=am.get("needs"),
        demonstration=dict(files=[os.path.basename(t) for t in glob.glob(d + "/zz_demo_*_test.go")], tests=c["tests"]),
        confirmed_in_scratch_worktree=dict(
            what_i_ran=("in a scratch worktree of /repo (git worktree add --detach <dir> HEAD): demonstration test "
                        "without the patch (go test -vet=off -count=1 -run '^(tests)$' <pkg>) -> pass; git apply patch.diff; "
                        "go build ./... -> ok; same demonstration -> FAIL; full suite "
                        "(go test -vet=off -count=1 -timeout 25m ./...) with the patch -> pass; git checkout -- ."),
            demo_without_patch_rc=c["demo_without"], build_with_patch_rc=c["build"],
            demo_with_patch_rc=c["demo_with"], suite_with_patch_rc=c["suite_with"]),
        produced_by="fresh sub-agent that saw only the property text and its own scratch worktree",
    )
    old = os.path.join(dst, "meta.json")
    if os.path.exists(old):
        o = json.load(open(old))
        for k in ("checks",):
            if k in o:
                meta[k] = o[k]
    json.dump(meta, open(old, "w"), indent=1)
    n += 1
print("stored", n)
