package main

import (
	"fmt"
	"go/ast"
	"go/token"
	"sort"
	"strings"
)

func init() { register(genPerm) }

// Facts for C08 (media actions need the matching permission or call membership).
//
// Two kinds of facts:
//   - names and tables the model computes with (permission names,
//     DefaultPermissionOverrides, MediaType bits, stream types, the blocks of the
//     revocation goroutine with their `return`s, how a room join installs the
//     permissions of the join reply);
//   - the *programs* of the small decision functions (canonical statement lists,
//     comments / log lines / formatting removed).  The Lean model states which
//     program it stands for (Model/Perm.lean `expected…`); any edit of one of
//     these functions flips `codeCfg.sound` and is reported as a broken tie.

// ---------- canonical source of expressions and statements ----------

func pSrc(e ast.Expr) string {
	switch x := e.(type) {
	case nil:
		return ""
	case *ast.Ident:
		return x.Name
	case *ast.BasicLit:
		return x.Value
	case *ast.SelectorExpr:
		return pSrc(x.X) + "." + x.Sel.Name
	case *ast.CallExpr:
		args := make([]string, len(x.Args))
		for i, a := range x.Args {
			args[i] = pSrc(a)
		}
		ell := ""
		if x.Ellipsis.IsValid() {
			ell = "..."
		}
		return pSrc(x.Fun) + "(" + strings.Join(args, ",") + ell + ")"
	case *ast.BinaryExpr:
		return pSrc(x.X) + x.Op.String() + pSrc(x.Y)
	case *ast.UnaryExpr:
		return x.Op.String() + pSrc(x.X)
	case *ast.ParenExpr:
		return "(" + pSrc(x.X) + ")"
	case *ast.StarExpr:
		return "*" + pSrc(x.X)
	case *ast.IndexExpr:
		return pSrc(x.X) + "[" + pSrc(x.Index) + "]"
	case *ast.SliceExpr:
		return pSrc(x.X) + "[" + pSrc(x.Low) + ":" + pSrc(x.High) + "]"
	case *ast.TypeAssertExpr:
		if x.Type == nil {
			return pSrc(x.X) + ".(type)"
		}
		return pSrc(x.X) + ".(" + pSrc(x.Type) + ")"
	case *ast.KeyValueExpr:
		return pSrc(x.Key) + ":" + pSrc(x.Value)
	case *ast.CompositeLit:
		el := make([]string, len(x.Elts))
		for i, a := range x.Elts {
			el[i] = pSrc(a)
		}
		return pSrc(x.Type) + "{" + strings.Join(el, ",") + "}"
	case *ast.MapType:
		return "map[" + pSrc(x.Key) + "]" + pSrc(x.Value)
	case *ast.ArrayType:
		return "[" + pSrc(x.Len) + "]" + pSrc(x.Elt)
	case *ast.InterfaceType:
		return "interface{}"
	case *ast.Ellipsis:
		return "..." + pSrc(x.Elt)
	case *ast.FuncLit:
		var body []string
		pStmts(x.Body.List, &body)
		return "func{" + strings.Join(body, ";") + "}"
	}
	return fmt.Sprintf("?%T", e)
}

func pExprs(es []ast.Expr) string {
	s := make([]string, len(es))
	for i, e := range es {
		s[i] = pSrc(e)
	}
	return strings.Join(s, ",")
}

func pIsLog(e ast.Expr) bool {
	call, ok := e.(*ast.CallExpr)
	if !ok {
		return false
	}
	sel, ok := call.Fun.(*ast.SelectorExpr)
	return ok && isIdent(sel.X, "log")
}

func pInline(s ast.Stmt) string {
	var out []string
	pStmt(s, &out)
	return strings.Join(out, ";")
}

func pStmts(list []ast.Stmt, out *[]string) {
	for _, s := range list {
		pStmt(s, out)
	}
}

func pStmt(s ast.Stmt, out *[]string) {
	emit := func(x string) { *out = append(*out, x) }
	switch x := s.(type) {
	case nil:
	case *ast.ExprStmt:
		if pIsLog(x.X) {
			return
		}
		emit(pSrc(x.X))
	case *ast.AssignStmt:
		emit(pExprs(x.Lhs) + x.Tok.String() + pExprs(x.Rhs))
	case *ast.ReturnStmt:
		if len(x.Results) == 0 {
			emit("return")
		} else {
			emit("return " + pExprs(x.Results))
		}
	case *ast.IfStmt:
		head := "if "
		if x.Init != nil {
			head += pInline(x.Init) + "; "
		}
		emit(head + pSrc(x.Cond) + " {")
		pStmts(x.Body.List, out)
		for x.Else != nil {
			if ei, ok := x.Else.(*ast.IfStmt); ok {
				head = "} else if "
				if ei.Init != nil {
					head += pInline(ei.Init) + "; "
				}
				emit(head + pSrc(ei.Cond) + " {")
				pStmts(ei.Body.List, out)
				x = ei
				continue
			}
			emit("} else {")
			if b, ok := x.Else.(*ast.BlockStmt); ok {
				pStmts(b.List, out)
			}
			break
		}
		emit("}")
	case *ast.RangeStmt:
		emit("for " + pSrc(x.Key) + "," + pSrc(x.Value) + x.Tok.String() + "range " + pSrc(x.X) + " {")
		pStmts(x.Body.List, out)
		emit("}")
	case *ast.ForStmt:
		emit("for " + pInline(x.Init) + ";" + pSrc(x.Cond) + ";" + pInline(x.Post) + " {")
		pStmts(x.Body.List, out)
		emit("}")
	case *ast.SwitchStmt:
		head := "switch "
		if x.Init != nil {
			head += pInline(x.Init) + "; "
		}
		emit(head + pSrc(x.Tag) + " {")
		for _, c := range x.Body.List {
			cc := c.(*ast.CaseClause)
			if cc.List == nil {
				emit("default:")
			} else {
				emit("case " + pExprs(cc.List) + ":")
			}
			pStmts(cc.Body, out)
		}
		emit("}")
	case *ast.TypeSwitchStmt:
		emit("switch " + pInline(x.Assign) + " {")
		for _, c := range x.Body.List {
			cc := c.(*ast.CaseClause)
			if cc.List == nil {
				emit("default:")
			} else {
				emit("case " + pExprs(cc.List) + ":")
			}
			pStmts(cc.Body, out)
		}
		emit("}")
	case *ast.DeferStmt:
		emit("defer " + pSrc(x.Call))
	case *ast.GoStmt:
		if fl, ok := x.Call.Fun.(*ast.FuncLit); ok {
			emit("go func(" + pExprs(x.Call.Args) + ") {")
			pStmts(fl.Body.List, out)
			emit("}")
		} else {
			emit("go " + pSrc(x.Call))
		}
	case *ast.DeclStmt:
		if gd, ok := x.Decl.(*ast.GenDecl); ok {
			for _, sp := range gd.Specs {
				if vs, ok := sp.(*ast.ValueSpec); ok {
					names := make([]string, len(vs.Names))
					for i, n := range vs.Names {
						names[i] = n.Name
					}
					d := "var " + strings.Join(names, ",") + " " + pSrc(vs.Type)
					if len(vs.Values) > 0 {
						d += "=" + pExprs(vs.Values)
					}
					emit(d)
				}
			}
		}
	case *ast.BlockStmt:
		emit("{")
		pStmts(x.List, out)
		emit("}")
	case *ast.BranchStmt:
		if x.Label != nil {
			emit(x.Tok.String() + " " + x.Label.Name)
		} else {
			emit(x.Tok.String())
		}
	case *ast.IncDecStmt:
		emit(pSrc(x.X) + x.Tok.String())
	case *ast.LabeledStmt:
		emit(x.Label.Name + ":")
		pStmt(x.Stmt, out)
	case *ast.SelectStmt:
		emit("select {…}")
	default:
		emit(fmt.Sprintf("?%T", s))
	}
}

func pProgram(fd *ast.FuncDecl) ([]string, bool) {
	if fd == nil || fd.Body == nil {
		return nil, false
	}
	var out []string
	pStmts(fd.Body.List, &out)
	return out, true
}

// pCaseBody returns the statements of the `case "<name>":` clause (name == "" : default)
// of the first switch over `tag` found in fd.
func pCaseBody(fd *ast.FuncDecl, tag string, name string) ([]ast.Stmt, bool) {
	if fd == nil || fd.Body == nil {
		return nil, false
	}
	var res []ast.Stmt
	found := false
	ast.Inspect(fd.Body, func(n ast.Node) bool {
		if found {
			return false
		}
		sw, ok := n.(*ast.SwitchStmt)
		if !ok || pSrc(sw.Tag) != tag {
			return true
		}
		for _, c := range sw.Body.List {
			cc := c.(*ast.CaseClause)
			if name == "" && cc.List == nil {
				res, found = cc.Body, true
				return false
			}
			for _, e := range cc.List {
				if s, ok := strLit(e); ok && s == name {
					res, found = cc.Body, true
					return false
				}
			}
		}
		return true
	})
	return res, found
}

func genPerm(c *ctx) *leanFile {
	l := c.newLean("Perm", "session.go", "clientsession.go", "hub.go", "room.go", "mcu_common.go", "mcu_janus.go", "api_signaling.go")
	sess := c.file("session.go")
	cs := c.file("clientsession.go")
	hub := c.file("hub.go")
	room := c.file("room.go")
	common := c.file("mcu_common.go")
	janus := c.file("mcu_janus.go")
	api := c.file("api_signaling.go")

	// ---- permission names
	scope := pkgValues(sess)
	permOf := map[string]string{}
	for name, e := range scope {
		if strings.HasPrefix(name, "PERMISSION_") {
			if s, ok := strLit(e); ok {
				permOf[name] = s
			}
		}
	}
	for _, p := range [][2]string{
		{"permMedia", "PERMISSION_MAY_PUBLISH_MEDIA"}, {"permAudio", "PERMISSION_MAY_PUBLISH_AUDIO"},
		{"permVideo", "PERMISSION_MAY_PUBLISH_VIDEO"}, {"permScreen", "PERMISSION_MAY_PUBLISH_SCREEN"},
		{"permControl", "PERMISSION_MAY_CONTROL"}, {"permTransient", "PERMISSION_TRANSIENT_DATA"},
		{"permHideDisplaynames", "PERMISSION_HIDE_DISPLAYNAMES"}} {
		v, ok := permOf[p[1]]
		l.str(p[0], v, ok, "session.go: "+p[1]+" Permission = \"…\" not found")
	}
	var allPerms []string
	for _, v := range permOf {
		allPerms = append(allPerms, v)
	}
	sort.Strings(allPerms)
	l.strList("permissionNames", allPerms, len(allPerms) > 0, "session.go: no PERMISSION_* values found")

	// ---- DefaultPermissionOverrides as an association list
	var ov []string
	okOv := false
	if e, ok := scope["DefaultPermissionOverrides"]; ok {
		if cl, ok := e.(*ast.CompositeLit); ok {
			okOv = true
			for _, el := range cl.Elts {
				kv, ok := el.(*ast.KeyValueExpr)
				if !ok {
					okOv = false
					break
				}
				id, ok := kv.Key.(*ast.Ident)
				if !ok || permOf[id.Name] == "" || !(isIdent(kv.Value, "true") || isIdent(kv.Value, "false")) {
					okOv = false
					break
				}
				ov = append(ov, fmt.Sprintf("(%s, %s)", leanStr(permOf[id.Name]), pSrc(kv.Value)))
			}
		}
	}
	l.fact("defaultOverrides")
	if okOv {
		l.raw("def defaultOverrides : List (String × Bool) := [" + strings.Join(ov, ", ") + "]")
	} else {
		l.fail("defaultOverrides: session.go: DefaultPermissionOverrides = map[Permission]bool{PERMISSION_X: true|false, …} not found")
		l.raw("def defaultOverrides : List (String × Bool) := [] -- EXTRACTION FAILED")
	}

	// ---- MediaType bits and stream types
	cvals := pkgValues(common)
	for _, p := range [][2]string{{"bitAudio", "MediaTypeAudio"}, {"bitVideo", "MediaTypeVideo"}, {"bitScreen", "MediaTypeScreen"}} {
		v, ok := int64(0), false
		if e, found := cvals[p[1]]; found {
			v, ok = c.evalInt(e, cvals, 0)
		}
		l.nat(p[0], v, ok, "mcu_common.go: "+p[1]+" MediaType = 1 << n not found")
	}
	streamConst := map[string]string{}
	for name, e := range cvals {
		if strings.HasPrefix(name, "StreamType") {
			if s, ok := strLit(e); ok {
				streamConst[name] = s
			}
		}
	}
	l.str("streamVideo", streamConst["StreamTypeVideo"], streamConst["StreamTypeVideo"] != "", "mcu_common.go: StreamTypeVideo not found")
	l.str("streamScreen", streamConst["StreamTypeScreen"], streamConst["StreamTypeScreen"] != "", "mcu_common.go: StreamTypeScreen not found")
	// stream types a client may name (IsValidStreamType) and whether the empty one passes CheckValid
	var valid []string
	okValid := false
	if fd := findFunc(common, "", "IsValidStreamType"); fd != nil && fd.Body != nil {
		ast.Inspect(fd.Body, func(n ast.Node) bool {
			cc, ok := n.(*ast.CaseClause)
			if !ok {
				return true
			}
			for _, e := range cc.List {
				// string(StreamTypeX)
				if call, ok := e.(*ast.CallExpr); ok && len(call.Args) == 1 {
					if id, ok := call.Args[0].(*ast.Ident); ok && streamConst[id.Name] != "" {
						valid = append(valid, streamConst[id.Name])
						okValid = true
					}
				}
			}
			return true
		})
	}
	l.strList("validStreamTypes", valid, okValid, "mcu_common.go: IsValidStreamType switch over string(StreamTypeX) not found")
	emptyOk, okEmpty := false, false
	if fd := findFunc(api, "MessageClientMessageData", "CheckValid"); fd != nil && fd.Body != nil && len(fd.Body.List) > 0 {
		if is, ok := fd.Body.List[0].(*ast.IfStmt); ok {
			src := pSrc(is.Cond)
			okEmpty = strings.Contains(src, "IsValidStreamType(m.RoomType)")
			emptyOk = src == "m.RoomType!=\"\"&&!IsValidStreamType(m.RoomType)"
		}
	}
	l.boolean("emptyRoomTypeAccepted", emptyOk, okEmpty, "api_signaling.go: MessageClientMessageData.CheckValid does not start with the room type check")

	// ---- stream types the media server accepts (mcu_janus.go streamTypeUserIds; both constructors refuse others)
	var streams []string
	okStreams := false
	if e, ok := pkgValues(janus)["streamTypeUserIds"]; ok {
		if cl, ok := e.(*ast.CompositeLit); ok {
			okStreams = len(cl.Elts) > 0
			for _, el := range cl.Elts {
				kv, ok := el.(*ast.KeyValueExpr)
				if !ok {
					okStreams = false
					break
				}
				id, ok := kv.Key.(*ast.Ident)
				if !ok || streamConst[id.Name] == "" {
					okStreams = false
					break
				}
				streams = append(streams, streamConst[id.Name])
			}
		}
	}
	l.strList("mcuStreams", streams, okStreams, "mcu_janus.go: var streamTypeUserIds = map[StreamType]uint64{StreamTypeX: …} not found")
	rejects := func(fn string) bool {
		fd := findFunc(janus, "mcuJanus", fn)
		if fd == nil || fd.Body == nil || len(fd.Body.List) == 0 {
			return false
		}
		var p []string
		pStmt(fd.Body.List[0], &p)
		return len(p) >= 2 && p[0] == "if _,found:=streamTypeUserIds[streamType]; !found {" && strings.HasPrefix(p[1], "return nil,")
	}
	l.boolean("mcuRejectsOtherStreams", rejects("NewPublisher") && rejects("NewSubscriber"),
		findFunc(janus, "mcuJanus", "NewPublisher") != nil && findFunc(janus, "mcuJanus", "NewSubscriber") != nil,
		"mcu_janus.go: NewPublisher / NewSubscriber not found")

	// ---- programs of the decision functions
	prog := func(name string, f *ast.File, file, recv, fn string) {
		p, ok := pProgram(findFunc(f, recv, fn))
		l.strList(name, p, ok, file+": "+fn+" not found")
	}
	prog("progHasPermission", cs, "clientsession.go", "ClientSession", "hasPermissionLocked")
	prog("progHasAnyPermission", cs, "clientsession.go", "ClientSession", "hasAnyPermissionLocked")
	prog("progSetPermissions", cs, "clientsession.go", "ClientSession", "SetPermissions")
	prog("progSdpAllowed", cs, "clientsession.go", "ClientSession", "isSdpAllowedToSendLocked")
	prog("progAllowedToSend", cs, "clientsession.go", "ClientSession", "IsAllowedToSend")
	prog("progCheckOfferType", cs, "clientsession.go", "ClientSession", "checkOfferTypeLocked")
	prog("progSameCall", hub, "hub.go", "Hub", "isInSameCall")
	prog("progAllowedToControl", hub, "hub.go", "", "isAllowedToControl")
	prog("progAllowedToUpdateTransient", hub, "hub.go", "", "isAllowedToUpdateTransientData")
	prog("progTransientMsg", hub, "hub.go", "Hub", "processTransientMsg")
	prog("progLeaveCall", cs, "clientsession.go", "ClientSession", "LeaveCall")
	prog("progDoLeaveRoom", cs, "clientsession.go", "ClientSession", "doLeaveRoom")

	// isInSameCallRemote answers false without gRPC peers
	remoteFalse, okRemote := false, false
	if p, ok := pProgram(findFunc(hub, "Hub", "isInSameCallRemote")); ok && len(p) >= 4 {
		okRemote = true
		remoteFalse = p[0] == "clients:=h.rpcClients.GetClients()" && p[1] == "if len(clients)==0 {" && p[2] == "return false" && p[3] == "}"
	}
	l.boolean("sameCallRemoteFalseWithoutPeers", remoteFalse, okRemote, "hub.go: isInSameCallRemote not found")

	// processMcuMessage: the switch over data.Type, one program per case
	mcuFd := findFunc(hub, "Hub", "processMcuMessage")
	for _, p := range [][2]string{{"mcuCaseRequestoffer", "requestoffer"}, {"mcuCaseSendoffer", "sendoffer"}, {"mcuCaseOffer", "offer"},
		{"mcuCaseSelectStream", "selectStream"}, {"mcuCaseDefault", ""}} {
		body, ok := pCaseBody(mcuFd, "data.Type", p[1])
		var out []string
		pStmts(body, &out)
		l.strList(p[0], out, ok, "hub.go: processMcuMessage: switch data.Type { case \""+p[1]+"\" } not found")
	}
	// … and what follows the switch (error / nil client replies, then the message goes to the media server)
	var mcuTail []string
	okTail := false
	var mcuCases []string
	if mcuFd != nil && mcuFd.Body != nil {
		for i, st := range mcuFd.Body.List {
			if sw, ok := st.(*ast.SwitchStmt); ok && pSrc(sw.Tag) == "data.Type" {
				okTail = true
				pStmts(mcuFd.Body.List[i+1:], &mcuTail)
				for _, cl := range sw.Body.List {
					cc := cl.(*ast.CaseClause)
					if cc.List == nil {
						mcuCases = append(mcuCases, "default")
					}
					for _, e := range cc.List {
						if s, ok := strLit(e); ok {
							mcuCases = append(mcuCases, s)
						}
					}
				}
			}
		}
	}
	l.strList("mcuCases", mcuCases, okTail, "hub.go: processMcuMessage: switch data.Type not found")
	l.strList("mcuTail", mcuTail, okTail, "hub.go: processMcuMessage: switch data.Type not found")

	// processMessageMsg: which message types go to processMcuMessage, and the two "sendoffer" blocks
	msgFd := findFunc(hub, "Hub", "processMessageMsg")
	var dispatched []string
	okDisp := false
	var sendofferBlocks []string
	if msgFd != nil && msgFd.Body != nil {
		ast.Inspect(msgFd.Body, func(n ast.Node) bool {
			switch x := n.(type) {
			case *ast.SwitchStmt:
				if pSrc(x.Tag) != "clientData.Type" {
					return true
				}
				okDisp = true
				var pending []string
				for _, cl := range x.Body.List {
					cc := cl.(*ast.CaseClause)
					for _, e := range cc.List {
						if s, ok := strLit(e); ok {
							pending = append(pending, s)
						}
					}
					if len(cc.Body) == 1 {
						if br, ok := cc.Body[0].(*ast.BranchStmt); ok && br.Tok == token.FALLTHROUGH {
							continue
						}
					}
					var body []string
					pStmts(cc.Body, &body)
					src := strings.Join(body, ";")
					if strings.Contains(src, "h.processMcuMessage(session,message,msg,clientData)") && strings.HasSuffix(src, "return") {
						dispatched = append(dispatched, pending...)
					}
					pending = nil
				}
				return false
			case *ast.IfStmt:
				if pSrc(x.Cond) == "clientData!=nil&&clientData.Type==\"sendoffer\"" {
					// what the block starts with
					var body []string
					if len(x.Body.List) > 0 {
						pStmt(x.Body.List[0], &body)
					}
					sendofferBlocks = append(sendofferBlocks, strings.Join(body, ";"))
				}
			}
			return true
		})
	}
	l.strList("mcuDispatched", dispatched, okDisp, "hub.go: processMessageMsg: switch clientData.Type not found")
	l.strList("sendofferBlocks", sendofferBlocks, msgFd != nil, "hub.go: processMessageMsg not found")

	// processControlMsg starts with the gate
	var ctlHead []string
	okCtl := false
	if fd := findFunc(hub, "Hub", "processControlMsg"); fd != nil && fd.Body != nil && len(fd.Body.List) >= 2 {
		okCtl = true
		pStmts(fd.Body.List[:2], &ctlHead)
	}
	l.strList("controlHead", ctlHead, okCtl, "hub.go: processControlMsg not found")

	// GetOrCreatePublisher: permission check first (under the lock); an existing publisher gets the new media types
	var pubHead []string
	okPub := false
	pubSetsMedia := false
	if fd := findFunc(cs, "ClientSession", "GetOrCreatePublisher"); fd != nil && fd.Body != nil && len(fd.Body.List) >= 6 {
		okPub = true
		pStmts(fd.Body.List[:6], &pubHead)
		// keep only the head of the `if !found {` statement
		for i, s := range pubHead {
			if s == "if !found {" {
				pubHead = pubHead[:i+1]
				break
			}
		}
		full, _ := pProgram(fd)
		n := len(full)
		pubSetsMedia = n >= 4 && full[n-4] == "} else {" && full[n-3] == "publisher.SetMedia(mediaTypes)" && full[n-2] == "}" && full[n-1] == "return publisher,nil"
	}
	l.strList("publisherHead", pubHead, okPub, "clientsession.go: GetOrCreatePublisher not found")
	l.boolean("publisherSetsMediaOnExisting", pubSetsMedia, okPub, "clientsession.go: GetOrCreatePublisher not found")

	// ---- the revocation goroutine of processAsyncMessage("permissions")
	type block struct {
		stream, guard string
		conds         []string
		early         bool
	}
	var blocks []block
	okSweep := false
	setFirst := false
	asyncFd := findFunc(cs, "ClientSession", "processAsyncMessage")
	if body, ok := pCaseBody(asyncFd, "message.Type", "permissions"); ok {
		for i, st := range body {
			gs, ok := st.(*ast.GoStmt)
			if !ok {
				continue
			}
			fl, ok := gs.Call.Fun.(*ast.FuncLit)
			if !ok {
				continue
			}
			okSweep = true
			setFirst = i == 1 && pInline(body[0]) == "s.SetPermissions(message.Permissions)"
			var rest []string
			for _, s2 := range fl.Body.List {
				is, ok := s2.(*ast.IfStmt)
				if !ok {
					rest = append(rest, pInline(s2))
					continue
				}
				// if !s.hasPermissionLocked(GUARD) { if publisher, found := s.publishers[STREAM]; found { [if COND {] delete; go close; [return] [}] } }
				b := block{}
				okB := false
				cond := pSrc(is.Cond)
				if strings.HasPrefix(cond, "!s.hasPermissionLocked(") && strings.HasSuffix(cond, ")") && is.Else == nil && len(is.Body.List) == 1 {
					b.guard = permOf[cond[len("!s.hasPermissionLocked("):len(cond)-1]]
					if in, ok := is.Body.List[0].(*ast.IfStmt); ok && in.Init != nil && pSrc(in.Cond) == "found" && in.Else == nil {
						init := pInline(in.Init)
						if strings.HasPrefix(init, "publisher,found:=s.publishers[") && strings.HasSuffix(init, "]") {
							b.stream = streamConst[init[len("publisher,found:=s.publishers["):len(init)-1]]
							inner := in.Body.List
							if len(inner) == 1 {
								if ci, ok := inner[0].(*ast.IfStmt); ok && ci.Else == nil {
									// (publisher.HasMedia(M1) && !s.hasPermissionLocked(P1)) || (…)
									okC := true
									var walk func(e ast.Expr)
									walk = func(e ast.Expr) {
										switch y := e.(type) {
										case *ast.ParenExpr:
											walk(y.X)
										case *ast.BinaryExpr:
											if y.Op == token.LOR {
												walk(y.X)
												walk(y.Y)
												return
											}
											src := pSrc(y)
											const pre = "publisher.HasMedia("
											const mid = ")&&!s.hasPermissionLocked("
											k := strings.Index(src, mid)
											if y.Op == token.LAND && strings.HasPrefix(src, pre) && k > 0 && strings.HasSuffix(src, ")") {
												mt := src[len(pre):k]
												pm := src[k+len(mid) : len(src)-1]
												bit, okBit := int64(0), false
												if e2, found := cvals[mt]; found {
													bit, okBit = c.evalInt(e2, cvals, 0)
												}
												if okBit && permOf[pm] != "" {
													b.conds = append(b.conds, fmt.Sprintf("(%d, %s)", bit, leanStr(permOf[pm])))
													return
												}
											}
											okC = false
										default:
											okC = false
										}
									}
									walk(ci.Cond)
									if okC {
										inner = ci.Body.List
									} else {
										inner = nil
									}
								}
							}
							// delete(s.publishers, STREAM); go close; optional return
							var p []string
							pStmts(inner, &p)
							src := strings.Join(p, ";")
							want := "delete(s.publishers," + init[len("publisher,found:=s.publishers["):len(init)-1] + ");go func() {;publisher.Close(context.Background());}"
							if src == want {
								okB = true
							} else if src == want+";return" {
								okB = true
								b.early = true
							}
						}
					}
				}
				if okB && b.guard != "" && b.stream != "" {
					blocks = append(blocks, b)
				} else {
					okSweep = false
				}
			}
			if strings.Join(rest, ";") != "s.mu.Lock();defer s.mu.Unlock()" {
				okSweep = false
			}
		}
	}
	var bl []string
	for _, b := range blocks {
		bl = append(bl, fmt.Sprintf("(%s, %s, [%s], %v)", leanStr(b.stream), leanStr(b.guard), strings.Join(b.conds, ", "), b.early))
	}
	l.fact("sweepBlocks")
	if okSweep {
		l.raw("def sweepBlocks : List (String × String × List (Nat × String) × Bool) := [" + strings.Join(bl, ", ") + "]")
	} else {
		l.fail("sweepBlocks: clientsession.go: processAsyncMessage case \"permissions\": go func() { s.mu.Lock(); defer s.mu.Unlock(); if !s.hasPermissionLocked(P) { if publisher, found := s.publishers[T]; found { … } } … }() not understood")
		l.raw("def sweepBlocks : List (String × String × List (Nat × String) × Bool) := [] -- EXTRACTION FAILED")
	}
	l.boolean("sweepFollowsSetPermissions", setFirst, okSweep, "clientsession.go: processAsyncMessage case \"permissions\" not understood")

	// ---- how processJoinRoom installs the permissions of the join reply
	joinVia := ""
	okJoin := false
	if fd := findFunc(hub, "Hub", "processJoinRoom"); fd != nil && fd.Body != nil {
		for _, st := range fd.Body.List {
			is, ok := st.(*ast.IfStmt)
			if !ok || pSrc(is.Cond) != "room.Room.Permissions!=nil" {
				continue
			}
			okJoin = true
			var p []string
			pStmts(is.Body.List, &p)
			joinVia = strings.Join(p, ";")
		}
	}
	l.str("joinInstallsPermissions", joinVia, okJoin, "hub.go: processJoinRoom: if room.Room.Permissions != nil {…} not found")

	// ---- room.go: backend in-call changes
	icSrc, okIc := pProgram(findFunc(room, "Room", "PublishUsersInCallChanged"))
	icJoined := strings.Join(icSrc, ";")
	l.boolean("incallMembersOnly", strings.Contains(icJoined, "if !r.HasSession(session) {;continue;}"), okIc, "room.go: PublishUsersInCallChanged not found")
	l.boolean("incallFalseLeavesCall",
		strings.Contains(icJoined, "} else {;r.mu.Lock();delete(r.inCallSessions,session);r.mu.Unlock();if clientSession,ok:=session.(*ClientSession); ok {;clientSession.LeaveCall();};}"),
		okIc, "room.go: PublishUsersInCallChanged not found")
	l.boolean("incallTrueMarks", strings.Contains(icJoined, "if inCall {;r.mu.Lock();if !r.inCallSessions[session] {;r.inCallSessions[session]=true;};r.mu.Unlock();"), okIc,
		"room.go: PublishUsersInCallChanged not found")
	allSrc, okAll := pProgram(findFunc(room, "Room", "PublishUsersInCallChangedAll"))
	allJoined := strings.Join(allSrc, ";")
	l.boolean("incallAllSkipsInternal",
		strings.Contains(allJoined, "if session.ClientType()==HelloClientTypeInternal||session.ClientType()==HelloClientTypeFederation {;continue;}"), okAll,
		"room.go: PublishUsersInCallChangedAll not found")
	l.boolean("incallAllLeaveReleases",
		strings.Contains(allJoined, "session.LeaveCall()") && strings.Contains(allJoined, "r.inCallSessions=make(map[Session]bool)"), okAll,
		"room.go: PublishUsersInCallChangedAll not found")
	rmSrc, okRm := pProgram(findFunc(room, "Room", "RemoveSession"))
	l.boolean("removeSessionClearsInCall", strings.Contains(strings.Join(rmSrc, ";"), "delete(r.inCallSessions,session)"), okRm, "room.go: RemoveSession not found")
	isIc, okIsIc := pProgram(findFunc(room, "Room", "IsSessionInCall"))
	l.strList("progIsSessionInCall", isIc, okIsIc, "room.go: IsSessionInCall not found")
	return l
}
