package main

import (
	"go/ast"
	"go/token"
	"os"
	"sort"
	"strings"
)

// Facts on the *embedding* of TransientData for C14 (room.go / hub.go / clientsession.go): who is
// registered as listener of a room's data, and when.  Part of topic "Transient" (called by genTransient).
//
// The central facts are control-flow paths: every path through Room.RemoveSession / Room.AddSession /
// Room.Close as the list of its assumptions (`+label` / `-label` for the then / else side of an `if`) and
// tracked events, in program order.  Ifs, switches and loops that contain neither a tracked event nor a
// return are left out.  Labels:
//   absent   `_, found := r.sessions[…]; !found`         present   the same with `found`
//   fresh    `!found` on a variable bound by a lookup in r.sessions earlier in the function
//   client   the session is a *ClientSession (`x, ok := session.(*ClientSession); ok`, `x != nil` on a
//            variable bound by such an assertion, `!ok` reversed)     virtual  likewise *VirtualSession
//   others   `len(r.sessions) > 0` (`== 0` reversed)
//   case<i>  i-th clause of a switch, nocase: no clause
//   ?<src>   anything else (both sides are then possible for every session)
// Events: del (delete(r.sessions, …)), add (r.sessions[…] = …), clear (r.sessions = …),
//   unreg / reg (r.transientData.RemoveListener / AddListener), unreg* / reg* (the same inside a loop),
//   removeRoom (r.hub.removeRoom), close (r.doClose), ret, panic.

type tePath struct {
	toks []string
	done bool
}

type teWalker struct {
	c *ctx
	// variables bound by a type assertion on a session: name -> "client" | "virtual"
	asserted map[string]string
	// `ok` variables of such assertions: name -> label
	assertOk map[string]string
	// variables bound by `_, found := r.sessions[…]`
	lookups map[string]bool
	inLoop  int
}

func teIsSessions(e ast.Expr) bool { return isSel(e, "r", "sessions") }

// session.(*T) -> "client" / "virtual"
func teAssertLabel(e ast.Expr) string {
	ta, ok := e.(*ast.TypeAssertExpr)
	if !ok || ta.Type == nil {
		return ""
	}
	st, ok := ta.Type.(*ast.StarExpr)
	if !ok {
		return ""
	}
	switch {
	case isIdent(st.X, "ClientSession"):
		return "client"
	case isIdent(st.X, "VirtualSession"):
		return "virtual"
	}
	return ""
}

func (w *teWalker) bind(s ast.Stmt) {
	as, ok := s.(*ast.AssignStmt)
	if !ok || len(as.Rhs) != 1 {
		return
	}
	if lbl := teAssertLabel(as.Rhs[0]); lbl != "" && len(as.Lhs) == 2 {
		if id, ok := as.Lhs[0].(*ast.Ident); ok && id.Name != "_" {
			w.asserted[id.Name] = lbl
		}
		if id, ok := as.Lhs[1].(*ast.Ident); ok && id.Name != "_" {
			w.assertOk[id.Name] = lbl
		}
	}
	if ix, ok := as.Rhs[0].(*ast.IndexExpr); ok && teIsSessions(ix.X) && len(as.Lhs) == 2 {
		if id, ok := as.Lhs[1].(*ast.Ident); ok && id.Name != "_" {
			w.lookups[id.Name] = true
		}
	}
}

// event of a single (non-compound) statement, "" if none
func (w *teWalker) event(s ast.Stmt) string {
	star := ""
	if w.inLoop > 0 {
		star = "*"
	}
	switch x := s.(type) {
	case *ast.ExprStmt:
		call, ok := x.X.(*ast.CallExpr)
		if !ok {
			return ""
		}
		if isIdent(call.Fun, "delete") && len(call.Args) == 2 && teIsSessions(call.Args[0]) {
			return "del"
		}
		if isIdent(call.Fun, "panic") {
			return "panic"
		}
		if sel, ok := call.Fun.(*ast.SelectorExpr); ok {
			switch {
			case isSel(sel.X, "r", "transientData") && sel.Sel.Name == "RemoveListener":
				return "unreg" + star
			case isSel(sel.X, "r", "transientData") && sel.Sel.Name == "AddListener":
				return "reg" + star
			case isSel(sel.X, "r", "hub") && sel.Sel.Name == "removeRoom":
				return "removeRoom"
			case isIdent(sel.X, "r") && sel.Sel.Name == "doClose":
				return "close"
			}
		}
	case *ast.AssignStmt:
		if len(x.Lhs) == 1 {
			if ix, ok := x.Lhs[0].(*ast.IndexExpr); ok && teIsSessions(ix.X) {
				return "add"
			}
			if teIsSessions(x.Lhs[0]) {
				return "clear"
			}
		}
	case *ast.ReturnStmt:
		return "ret"
	}
	return ""
}

// does the node contain a tracked event (function literals are not entered)?
func (w *teWalker) relevant(n ast.Node) bool {
	if n == nil {
		return false
	}
	r := false
	ast.Inspect(n, func(m ast.Node) bool {
		if _, ok := m.(*ast.FuncLit); ok {
			return false
		}
		if s, ok := m.(ast.Stmt); ok && w.event(s) != "" {
			r = true
		}
		return !r
	})
	return r
}

// label of an if condition: (label, thenIsPositive)
func (w *teWalker) condLabel(is *ast.IfStmt) (string, bool) {
	cond := is.Cond
	neg := false
	if u, ok := cond.(*ast.UnaryExpr); ok && u.Op == token.NOT {
		cond, neg = u.X, true
	}
	if p, ok := cond.(*ast.ParenExpr); ok {
		cond = p.X
	}
	if id, ok := cond.(*ast.Ident); ok {
		// bound in the Init of this very if?
		if as, ok := is.Init.(*ast.AssignStmt); ok && len(as.Rhs) == 1 && len(as.Lhs) == 2 && isIdent(as.Lhs[1], id.Name) {
			if lbl := teAssertLabel(as.Rhs[0]); lbl != "" {
				return lbl, !neg
			}
			if ix, ok := as.Rhs[0].(*ast.IndexExpr); ok && teIsSessions(ix.X) {
				if neg {
					return "absent", true
				}
				return "present", true
			}
		}
		if lbl, ok := w.assertOk[id.Name]; ok {
			return lbl, !neg
		}
		if w.lookups[id.Name] {
			if neg {
				return "fresh", true
			}
			return "fresh", false
		}
	}
	if be, ok := cond.(*ast.BinaryExpr); ok && !neg {
		// x != nil / x == nil on an asserted variable
		if id, ok := be.X.(*ast.Ident); ok && isIdent(be.Y, "nil") {
			if lbl, ok := w.asserted[id.Name]; ok {
				switch be.Op {
				case token.NEQ:
					return lbl, true
				case token.EQL:
					return lbl, false
				}
			}
		}
		// len(r.sessions) > 0 / == 0
		if call, ok := be.X.(*ast.CallExpr); ok && isIdent(call.Fun, "len") && len(call.Args) == 1 && teIsSessions(call.Args[0]) {
			if v, ok := w.c.evalInt(be.Y, nil, 0); ok && v == 0 {
				switch be.Op {
				case token.GTR, token.NEQ:
					return "others", true
				case token.EQL, token.LEQ:
					return "others", false
				}
			}
		}
	}
	return "?" + authSrc(w.c.fset, is.Cond), true
}

func teExtend(paths []tePath, tok string, done bool) []tePath {
	out := make([]tePath, 0, len(paths))
	for _, p := range paths {
		if p.done {
			out = append(out, p)
			continue
		}
		q := tePath{toks: append(append([]string{}, p.toks...), tok), done: done}
		out = append(out, q)
	}
	return out
}

func teSplit(paths []tePath) (live, done []tePath) {
	for _, p := range paths {
		if p.done {
			done = append(done, p)
		} else {
			live = append(live, p)
		}
	}
	return
}

func (w *teWalker) walk(stmts []ast.Stmt, paths []tePath) []tePath {
	for _, s := range stmts {
		live, done := teSplit(paths)
		if len(live) == 0 {
			return paths
		}
		if len(live)+len(done) > 4096 {
			return append(done, teExtend(live, "?too-many-paths", true)...)
		}
		w.bind(s)
		switch x := s.(type) {
		case *ast.BlockStmt:
			paths = append(done, w.walk(x.List, live)...)
		case *ast.IfStmt:
			if x.Init != nil {
				w.bind(x.Init)
			}
			if !w.relevant(x.Body) && !w.relevant(x.Else) {
				continue
			}
			lbl, pos := w.condLabel(x)
			thenTok, elseTok := "+"+lbl, "-"+lbl
			if !pos {
				thenTok, elseTok = elseTok, thenTok
			}
			a := w.walk(x.Body.List, teExtend(live, thenTok, false))
			b := teExtend(live, elseTok, false)
			if x.Else != nil {
				b = w.walk([]ast.Stmt{x.Else}, b)
			}
			paths = append(append(done, a...), b...)
		case *ast.SwitchStmt, *ast.TypeSwitchStmt:
			var body *ast.BlockStmt
			if sw, ok := x.(*ast.SwitchStmt); ok {
				body = sw.Body
			} else {
				body = x.(*ast.TypeSwitchStmt).Body
			}
			if !w.relevant(body) {
				continue
			}
			out := done
			hasDefault := false
			for i, cl := range body.List {
				cc, ok := cl.(*ast.CaseClause)
				if !ok {
					continue
				}
				if cc.List == nil {
					hasDefault = true
				}
				out = append(out, w.walk(cc.Body, teExtend(live, "+case"+string(rune('0'+i%10)), false))...)
			}
			if !hasDefault {
				out = append(out, teExtend(live, "+nocase", false)...)
			}
			paths = out
		case *ast.ForStmt, *ast.RangeStmt:
			var body *ast.BlockStmt
			if f, ok := x.(*ast.ForStmt); ok {
				body = f.Body
			} else {
				body = x.(*ast.RangeStmt).Body
			}
			if !w.relevant(body) {
				continue
			}
			w.inLoop++
			once := w.walk(body.List, live)
			w.inLoop--
			paths = append(done, once...)
		default:
			if ev := w.event(s); ev != "" {
				paths = append(done, teExtend(live, ev, ev == "ret" || ev == "panic")...)
			}
		}
	}
	return paths
}

func (w *teWalker) paths(fd *ast.FuncDecl) ([][]string, bool) {
	if fd == nil || fd.Body == nil {
		return nil, false
	}
	w.asserted, w.assertOk, w.lookups = map[string]string{}, map[string]string{}, map[string]bool{}
	// bindings are function-wide (a variable asserted at the top is tested further down)
	ast.Inspect(fd.Body, func(n ast.Node) bool {
		if _, ok := n.(*ast.FuncLit); ok {
			return false
		}
		if s, ok := n.(ast.Stmt); ok {
			w.bind(s)
		}
		return true
	})
	ps := w.walk(fd.Body.List, []tePath{{}})
	var out [][]string
	seen := map[string]bool{}
	for _, p := range ps {
		k := strings.Join(p.toks, " ")
		if !seen[k] {
			seen[k] = true
			out = append(out, p.toks)
		}
	}
	sort.Slice(out, func(i, j int) bool { return strings.Join(out[i], " ") < strings.Join(out[j], " ") })
	return out, true
}

func teLeanPaths(name string, ps [][]string) string {
	var items []string
	for _, p := range ps {
		q := make([]string, len(p))
		for i, t := range p {
			q[i] = leanStr(t)
		}
		items = append(items, "["+strings.Join(q, ", ")+"]")
	}
	return "def " + name + " : List (List String) := [" + strings.Join(items, ", ") + "]"
}

func (l *leanFile) pathList(name string, ps [][]string, ok bool, why string) {
	l.fact(name)
	if !ok {
		l.fail(name + ": " + why)
		l.raw("def " + name + " : List (List String) := [] -- EXTRACTION FAILED: " + why)
		return
	}
	l.raw(teLeanPaths(name, ps))
}

func teFuncName(fd *ast.FuncDecl) string {
	r := ""
	if fd.Recv != nil && len(fd.Recv.List) == 1 {
		t := fd.Recv.List[0].Type
		if s, ok := t.(*ast.StarExpr); ok {
			t = s.X
		}
		if id, ok := t.(*ast.Ident); ok {
			r = id.Name + "."
		}
	}
	return r + fd.Name.Name
}

// position of the first call `<x>.<method>(…)` with receiver identifier x (any x if x == "") in the body
func teCallPos(fd *ast.FuncDecl, x, method string) token.Pos {
	pos := token.NoPos
	if fd == nil || fd.Body == nil {
		return pos
	}
	ast.Inspect(fd.Body, func(n ast.Node) bool {
		if call, ok := n.(*ast.CallExpr); ok && pos == token.NoPos {
			if sel, ok := call.Fun.(*ast.SelectorExpr); ok && sel.Sel.Name == method {
				if x == "" || isIdent(sel.X, x) {
					pos = call.Pos()
				} else if inner, ok := sel.X.(*ast.SelectorExpr); ok && strings.HasSuffix(x, "."+inner.Sel.Name) {
					if id, ok := inner.X.(*ast.Ident); ok && id.Name+"."+inner.Sel.Name == x {
						pos = call.Pos()
					}
				}
			}
		}
		return true
	})
	return pos
}

func genTransientEmbedding(c *ctx, l *leanFile) {
	rf := c.file("room.go")
	w := &teWalker{c: c}

	ps, ok := w.paths(findFunc(rf, "Room", "RemoveSession"))
	l.pathList("removeSessionPaths", ps, ok, "Room.RemoveSession not found")
	ps, ok = w.paths(findFunc(rf, "Room", "AddSession"))
	l.pathList("addSessionPaths", ps, ok, "Room.AddSession not found")
	ps, ok = w.paths(findFunc(rf, "Room", "Close"))
	l.pathList("roomClosePaths", ps, ok, "Room.Close not found")

	// struct fields of type *TransientData / TransientData, every function that mentions such a field,
	// and every AddListener / RemoveListener call on one — over all non-test files of the package
	fields := map[string]bool{}
	var fieldNames, users, outside, sites, addSites, removeSites []string
	var files []*ast.File
	var names []string
	ents, _ := os.ReadDir(c.repo)
	for _, e := range ents {
		n := e.Name()
		if e.IsDir() || !strings.HasSuffix(n, ".go") || strings.HasSuffix(n, "_test.go") {
			continue
		}
		if f := c.file(n); f != nil {
			files = append(files, f)
			names = append(names, n)
		}
	}
	isTD := func(t ast.Expr) bool {
		if s, ok := t.(*ast.StarExpr); ok {
			t = s.X
		}
		return isIdent(t, "TransientData")
	}
	for _, f := range files {
		ast.Inspect(f, func(n ast.Node) bool {
			ts, ok := n.(*ast.TypeSpec)
			if !ok {
				return true
			}
			st, ok := ts.Type.(*ast.StructType)
			if !ok {
				return true
			}
			for _, fl := range st.Fields.List {
				if isTD(fl.Type) {
					for _, id := range fl.Names {
						fields[id.Name] = true
						fieldNames = append(fieldNames, ts.Name.Name+"."+id.Name)
					}
				}
			}
			return true
		})
	}
	for i, f := range files {
		for _, d := range f.Decls {
			fd, ok := d.(*ast.FuncDecl)
			if !ok || fd.Body == nil {
				continue
			}
			uses := false
			ast.Inspect(fd.Body, func(n ast.Node) bool {
				if sel, ok := n.(*ast.SelectorExpr); ok && fields[sel.Sel.Name] {
					uses = true
				}
				if call, ok := n.(*ast.CallExpr); ok {
					if sel, ok := call.Fun.(*ast.SelectorExpr); ok && (sel.Sel.Name == "AddListener" || sel.Sel.Name == "RemoveListener") {
						if inner, ok := sel.X.(*ast.SelectorExpr); ok && fields[inner.Sel.Name] {
							sites = append(sites, names[i]+":"+teFuncName(fd)+"->"+sel.Sel.Name)
							if sel.Sel.Name == "AddListener" {
								addSites = append(addSites, names[i]+":"+teFuncName(fd))
							} else {
								removeSites = append(removeSites, names[i]+":"+teFuncName(fd))
							}
						}
					}
				}
				return true
			})
			if uses {
				users = append(users, names[i]+":"+teFuncName(fd))
				if !strings.HasPrefix(teFuncName(fd), "Room.") {
					outside = append(outside, names[i]+":"+teFuncName(fd))
				}
			}
		}
	}
	sort.Strings(fieldNames)
	sort.Strings(users)
	sort.Strings(sites)
	l.strList("transientDataFields", fieldNames, len(files) > 0, "no source files read")
	l.strList("transientDataUsers", users, len(files) > 0, "no source files read")
	l.strList("listenerCallSites", sites, len(files) > 0, "no source files read")
	sort.Strings(outside)
	sort.Strings(addSites)
	sort.Strings(removeSites)
	// the store is not handed out: only methods of Room mention the field
	l.strList("transientDataUsersOutsideRoom", outside, len(files) > 0, "no source files read")
	l.strList("addListenerSites", addSites, len(files) > 0, "no source files read")
	l.strList("removeListenerSites", removeSites, len(files) > 0, "no source files read")

	// the flow around the room: who makes a session leave, and in which order
	var flow []string
	hf := c.file("hub.go")
	sf := c.file("clientsession.go")
	if fd := findFunc(sf, "ClientSession", "doLeaveRoom"); fd != nil {
		clr, rm := token.NoPos, teCallPos(fd, "room", "RemoveSession")
		ast.Inspect(fd.Body, func(n ast.Node) bool {
			if call, ok := n.(*ast.CallExpr); ok && clr == token.NoPos {
				if sel, ok := call.Fun.(*ast.SelectorExpr); ok && sel.Sel.Name == "SetRoom" && isIdent(sel.X, "s") && len(call.Args) == 1 && isIdent(call.Args[0], "nil") {
					clr = call.Pos()
				}
			}
			return true
		})
		if rm != token.NoPos {
			flow = append(flow, "ClientSession.doLeaveRoom->Room.RemoveSession")
		}
		if clr != token.NoPos && rm != token.NoPos && clr < rm {
			flow = append(flow, "ClientSession.doLeaveRoom:SetRoom(nil)<RemoveSession")
		}
	}
	for _, fn := range []string{"LeaveRoomWithMessage", "SetFederationClient"} {
		if fd := findFunc(sf, "ClientSession", fn); fd != nil && teCallPos(fd, "s", "doLeaveRoom") != token.NoPos {
			flow = append(flow, "ClientSession."+fn+"->doLeaveRoom")
		}
	}
	if fd := findFunc(sf, "ClientSession", "LeaveRoom"); fd != nil && teCallPos(fd, "s", "LeaveRoomWithMessage") != token.NoPos {
		flow = append(flow, "ClientSession.LeaveRoom->LeaveRoomWithMessage")
	}
	if fd := findFunc(sf, "ClientSession", "closeAndWait"); fd != nil && teCallPos(fd, "s.hub", "removeSession") != token.NoPos {
		flow = append(flow, "ClientSession.closeAndWait->Hub.removeSession")
	}
	if fd := findFunc(hf, "Hub", "removeSession"); fd != nil && teCallPos(fd, "session", "LeaveRoom") != token.NoPos {
		flow = append(flow, "Hub.removeSession->LeaveRoom")
	}
	if fd := findFunc(hf, "Hub", "processJoinRoom"); fd != nil {
		lv, set, add := teCallPos(fd, "session", "LeaveRoom"), teCallPos(fd, "session", "SetRoom"), teCallPos(fd, "r", "AddSession")
		if lv != token.NoPos && add != token.NoPos && lv < add {
			flow = append(flow, "Hub.processJoinRoom:LeaveRoom<AddSession")
		}
		if set != token.NoPos && add != token.NoPos && lv < set && set < add {
			flow = append(flow, "Hub.processJoinRoom:SetRoom<AddSession")
		}
	}
	if fd := findFunc(hf, "Hub", "processRoom"); fd != nil {
		if teCallPos(fd, "session", "LeaveRoomWithMessage") != token.NoPos {
			flow = append(flow, "Hub.processRoom->LeaveRoomWithMessage")
		}
		if teCallPos(fd, "room", "HasSession") != token.NoPos && teCallPos(fd, "h", "processJoinRoom") != token.NoPos &&
			teCallPos(fd, "room", "HasSession") < teCallPos(fd, "h", "processJoinRoom") {
			flow = append(flow, "Hub.processRoom:HasSession<processJoinRoom")
		}
	}
	if fd := findFunc(hf, "Hub", "processRoomDeleted"); fd != nil {
		cl, lv := teCallPos(fd, "room", "Close"), teCallPos(fd, "session", "LeaveRoom")
		if cl != token.NoPos && lv != token.NoPos && cl < lv {
			flow = append(flow, "Hub.processRoomDeleted:Room.Close<LeaveRoom")
		}
	}
	if fd := findFunc(rf, "NewRoom", ""); fd == nil {
		// NewRoom is a plain function: every Room gets a fresh store
		if nf := findFunc(rf, "", "NewRoom"); nf != nil {
			fresh := false
			ast.Inspect(nf.Body, func(n ast.Node) bool {
				if kv, ok := n.(*ast.KeyValueExpr); ok && isIdent(kv.Key, "transientData") {
					if call, ok := kv.Value.(*ast.CallExpr); ok && isIdent(call.Fun, "NewTransientData") {
						fresh = true
					}
				}
				return true
			})
			if fresh {
				flow = append(flow, "NewRoom:transientData=NewTransientData()")
			}
		}
	}
	l.strList("embeddingFlow", flow, rf != nil && hf != nil && sf != nil, "room.go / hub.go / clientsession.go not readable")
}
