package main

import (
	"fmt"
	"go/ast"
	"go/token"
	"sort"
	"strings"
)

func init() { register(genShapesBackend) }

// Facts about the room API request path (C11):
//
//   - backend_server.go roomHandler: the cases of `switch request.Type`, whether
//     `request.CheckValid()` is called (error => http.StatusBadRequest + return)
//     after decoding and before the first use of a sub-object, and which
//     sub-objects every case dereferences (directly or in the helper that
//     receives `&request`);
//   - api_backend.go (*BackendServerRoomRequest).CheckValid: per `case "<type>"`
//     the fields tested `== nil` with an error return, and the nested
//     `r.<Field>.CheckValid()` calls; (*BackendRoomSwitchToMessageRequest).CheckValid:
//     whether `sessions` is test-decoded the way sendRoomSwitchTo decodes it;
//   - room.go processBackendRoomRequestRoom / hub.go Run + process*: the cases of
//     the consumer switch and the sub-objects dereferenced without a nil guard
//     behind the event bus.
func genShapesBackend(c *ctx) *leanFile {
	l := c.newLean("ShapesBackend", "backend_server.go", "api_backend.go", "room.go", "hub.go")
	bs := c.file("backend_server.go")
	api := c.file("api_backend.go")
	room := c.file("room.go")
	hub := c.file("hub.go")

	// ---- maxBodySize
	scope := pkgValues(bs)
	{
		e, ok := scope["maxBodySize"]
		var v int64
		if ok {
			v, ok = c.evalInt(e, scope, 0)
		}
		l.nat("maxBodySize", v, ok && v > 0, "const maxBodySize not found in backend_server.go")
	}

	// ---- roomHandler
	rh := findFunc(bs, "BackendServer", "roomHandler")
	var typeSwitch *ast.SwitchStmt
	unmarshalIdx, validIdx, switchIdx := -1, -1, -1
	validStatus := ""
	if rh != nil && rh.Body != nil {
		for i, st := range rh.Body.List {
			switch x := st.(type) {
			case *ast.IfStmt:
				// if err := json.Unmarshal(body, &request); err != nil { ...; return }
				if call := sbInitCall(x); call != nil {
					if isSel(call.Fun, "json", "Unmarshal") && len(call.Args) == 2 && sbIsAddrOf(call.Args[1], "request") &&
						sbIsErrNotNil(x.Cond) && sbEndsWithReturn(x.Body) && unmarshalIdx < 0 {
						unmarshalIdx = i
					}
					// if err := request.CheckValid(); err != nil { ...; http.Error(w, ..., http.StatusX); return }
					if sbIsMethodCallOn(call, "request", "CheckValid") && sbIsErrNotNil(x.Cond) && sbEndsWithReturn(x.Body) && validIdx < 0 {
						validIdx = i
						ast.Inspect(x.Body, func(n ast.Node) bool {
							if ce, ok := n.(*ast.CallExpr); ok && isSel(ce.Fun, "http", "Error") && len(ce.Args) == 3 {
								if s, ok := ce.Args[2].(*ast.SelectorExpr); ok && isIdent(s.X, "http") {
									validStatus = s.Sel.Name
								}
							}
							return true
						})
					}
				}
			case *ast.SwitchStmt:
				if s, ok := x.Tag.(*ast.SelectorExpr); ok && isIdent(s.X, "request") && s.Sel.Name == "Type" && typeSwitch == nil {
					typeSwitch, switchIdx = x, i
				}
			}
		}
	}
	// no sub-object of the request may be touched between decoding and validation
	earlyUse := false
	if rh != nil && rh.Body != nil && unmarshalIdx >= 0 && validIdx > unmarshalIdx {
		for _, st := range rh.Body.List[unmarshalIdx+1 : validIdx] {
			if len(sbSubObjectDerefs(st, "request")) > 0 {
				earlyUse = true
			}
		}
	}
	okOrder := rh != nil && unmarshalIdx >= 0 && switchIdx > unmarshalIdx
	validateCalled := okOrder && validIdx > unmarshalIdx && validIdx < switchIdx && !earlyUse
	l.boolean("validateCalled", validateCalled, okOrder,
		"roomHandler: `json.Unmarshal(body, &request)` followed by `switch request.Type` not found")
	statusCode := map[string]int64{"StatusBadRequest": 400, "StatusForbidden": 403, "StatusNotFound": 404,
		"StatusInternalServerError": 500, "StatusOK": 200, "StatusUnprocessableEntity": 422}
	{
		v, ok := statusCode[validStatus]
		if !validateCalled {
			v, ok = 0, okOrder // no validation: nothing to report, not a pattern failure
		}
		l.nat("validateStatus", v, ok, "roomHandler: status of the reply to a request failing CheckValid not recognised ("+validStatus+")")
	}

	var handlerCases []string
	handlerDerefs := [][2]string{}
	defaultStatus := ""
	okCases := typeSwitch != nil
	if typeSwitch != nil {
		for _, st := range typeSwitch.Body.List {
			cc := st.(*ast.CaseClause)
			if cc.List == nil {
				// default: http.Error(w, ..., http.StatusBadRequest); return
				for _, s := range cc.Body {
					ast.Inspect(s, func(n ast.Node) bool {
						if ce, ok := n.(*ast.CallExpr); ok && isSel(ce.Fun, "http", "Error") && len(ce.Args) == 3 {
							if sel, ok := ce.Args[2].(*ast.SelectorExpr); ok {
								defaultStatus = sel.Sel.Name
							}
						}
						return true
					})
				}
				if len(cc.Body) == 0 || !sbIsReturn(cc.Body[len(cc.Body)-1]) {
					okCases = false
				}
				continue
			}
			for _, e := range cc.List {
				name, ok := strLit(e)
				if !ok {
					okCases = false
					continue
				}
				handlerCases = append(handlerCases, name)
				seen := map[string]bool{}
				add := func(f string) {
					if !seen[f] {
						seen[f] = true
						handlerDerefs = append(handlerDerefs, [2]string{name, f})
					}
				}
				for _, s := range cc.Body {
					for _, f := range sbSubObjectDerefs(s, "request") {
						add(f)
					}
					// helpers receiving &request: b.sendRoomX(roomid, backend, &request)
					ast.Inspect(s, func(n ast.Node) bool {
						ce, ok := n.(*ast.CallExpr)
						if !ok {
							return true
						}
						for ai, a := range ce.Args {
							if !sbIsAddrOf(a, "request") {
								continue
							}
							sel, ok := ce.Fun.(*ast.SelectorExpr)
							if !ok {
								okCases = false
								continue
							}
							fd := findFunc(bs, "BackendServer", sel.Sel.Name)
							pn := sbParamName(fd, ai)
							if fd == nil || pn == "" {
								okCases = false
								continue
							}
							for _, f := range sbSubObjectDerefs(fd.Body, pn) {
								add(f)
							}
						}
						return true
					})
				}
			}
		}
	}
	l.strList("handlerCases", handlerCases, okCases && len(handlerCases) > 0, "roomHandler: cases of `switch request.Type` not recognised")
	{
		v, ok := statusCode[defaultStatus]
		l.nat("unsupportedStatus", v, ok, "roomHandler: default case `http.Error(w, ..., http.StatusX); return` not recognised")
	}
	l.fact("handlerDerefs")
	if !okCases {
		l.fail("handlerDerefs: sub-object uses in the cases of roomHandler not recognised")
	}
	l.raw("/-- (request type, sub-object) pairs dereferenced by roomHandler or the helper it hands `&request` to. -/")
	l.raw("def handlerDerefs : List (String × String) := " + sbLeanPairs(handlerDerefs))

	// ---- CheckValid of the request
	cv := findFunc(api, "BackendServerRoomRequest", "CheckValid")
	required := map[string][]string{}
	var requiredOrder []string
	subValidated := [][2]string{}
	okCV := true
	if cv != nil && cv.Body != nil {
		recv := sbRecvName(cv)
		found := false
		for _, st := range cv.Body.List {
			sw, ok := st.(*ast.SwitchStmt)
			if !ok {
				continue
			}
			if s, ok := sw.Tag.(*ast.SelectorExpr); !ok || !isIdent(s.X, recv) || s.Sel.Name != "Type" {
				continue
			}
			found = true
			for _, cst := range sw.Body.List {
				cc := cst.(*ast.CaseClause)
				var names []string
				for _, e := range cc.List {
					if n, ok := strLit(e); ok {
						names = append(names, n)
					} else {
						okCV = false
					}
				}
				var fields []string
				var subs []string
				for _, s := range cc.Body {
					// if r.F == nil { return <err> } [else if err := r.F.CheckValid(); err != nil { return err }]
					for ifs, _ := s.(*ast.IfStmt); ifs != nil; {
						if f, ok := sbNilTestOf(ifs.Cond, recv); ok && sbReturnsError(ifs.Body) {
							fields = append(fields, f)
						}
						if call := sbInitCall(ifs); call != nil && sbIsErrNotNil(ifs.Cond) && sbReturnsError(ifs.Body) {
							if sel, ok := call.Fun.(*ast.SelectorExpr); ok && sel.Sel.Name == "CheckValid" {
								if inner, ok := sel.X.(*ast.SelectorExpr); ok && isIdent(inner.X, recv) {
									subs = append(subs, inner.Sel.Name)
								}
							}
						}
						next, _ := ifs.Else.(*ast.IfStmt)
						ifs = next
					}
				}
				for _, n := range names {
					if _, dup := required[n]; !dup {
						requiredOrder = append(requiredOrder, n)
					}
					required[n] = append(required[n], fields...)
					for _, f := range subs {
						// a nested CheckValid only counts when the field was nil-tested first
						if sbContains(fields, f) {
							subValidated = append(subValidated, [2]string{n, f})
						}
					}
				}
			}
		}
		if !found {
			okCV = false
		}
	}
	l.fact("required")
	if cv != nil && !okCV {
		l.fail("required: (*BackendServerRoomRequest).CheckValid: `switch r.Type` with string cases not recognised")
	}
	var reqPairs []string
	for _, n := range requiredOrder {
		q := make([]string, len(required[n]))
		for i, f := range required[n] {
			q[i] = leanStr(f)
		}
		reqPairs = append(reqPairs, fmt.Sprintf("(%s, [%s])", leanStr(n), strings.Join(q, ", ")))
	}
	l.raw("/-- `(*BackendServerRoomRequest).CheckValid`: per request type the sub-objects tested `== nil` with an error return")
	l.raw("(empty when the method does not exist). -/")
	l.raw("def required : List (String × List String) := [" + strings.Join(reqPairs, ", ") + "]")
	l.fact("subValidated")
	l.raw("/-- (request type, sub-object) pairs whose own `CheckValid()` is called (error returned) after the nil test. -/")
	l.raw("def subValidated : List (String × String) := " + sbLeanPairs(subValidated))

	// ---- switchto: sessions decoded the same way in validation and in the handler
	discr := func(fd *ast.FuncDecl, path []string) (byteLit string, kinds []string) {
		// looks for: if <path>[0] == '<c>' { ... json.Unmarshal(<path>, &v) (err => return) ... } else { ... }
		if fd == nil || fd.Body == nil {
			return "", nil
		}
		ast.Inspect(fd.Body, func(n ast.Node) bool {
			ifs, ok := n.(*ast.IfStmt)
			if !ok || byteLit != "" {
				return true
			}
			be, ok := ifs.Cond.(*ast.BinaryExpr)
			if !ok || be.Op != token.EQL {
				return true
			}
			ix, ok := be.X.(*ast.IndexExpr)
			if !ok || !sbSelPathIs(ix.X, path) {
				return true
			}
			if lit, ok := ix.Index.(*ast.BasicLit); !ok || lit.Value != "0" {
				return true
			}
			ch, ok := be.Y.(*ast.BasicLit)
			if !ok || ch.Kind != token.CHAR {
				return true
			}
			els, ok := ifs.Else.(*ast.BlockStmt)
			if !ok {
				return true
			}
			k1 := sbUnmarshalKind(ifs.Body, path)
			k2 := sbUnmarshalKind(els, path)
			if k1 != "" && k2 != "" {
				byteLit = strings.Trim(ch.Value, "'")
				kinds = []string{k1, k2}
			}
			return true
		})
		return
	}
	scv := findFunc(api, "BackendRoomSwitchToMessageRequest", "CheckValid")
	vb, vk := discr(scv, []string{sbRecvName(scv), "Sessions"})
	hb, hk := discr(findFunc(bs, "BackendServer", "sendRoomSwitchTo"), []string{"request", "SwitchTo", "Sessions"})
	l.str("switchtoHandlerByte", hb, hb != "", "sendRoomSwitchTo: `if request.SwitchTo.Sessions[0] == '<c>' { json.Unmarshal(..) } else { json.Unmarshal(..) }` not found")
	l.strList("switchtoHandlerKinds", hk, len(hk) == 2, "sendRoomSwitchTo: decode targets (sessions list / sessions map) not recognised")
	l.str("switchtoValidByte", vb, true, "")
	l.strList("switchtoValidKinds", vk, true, "")

	// ---- consumers behind the bus
	// Hub.Run: case message := <-h.<chan>: h.<fn>(message)
	chanFn := map[string]string{}
	if run := findFunc(hub, "Hub", "Run"); run != nil && run.Body != nil {
		ast.Inspect(run.Body, func(n ast.Node) bool {
			cc, ok := n.(*ast.CommClause)
			if !ok || cc.Comm == nil || len(cc.Body) != 1 {
				return true
			}
			as, ok := cc.Comm.(*ast.AssignStmt)
			if !ok || len(as.Rhs) != 1 || len(as.Lhs) != 1 {
				return true
			}
			ue, ok := as.Rhs[0].(*ast.UnaryExpr)
			if !ok || ue.Op != token.ARROW {
				return true
			}
			ch, ok := ue.X.(*ast.SelectorExpr)
			if !ok || !isIdent(ch.X, "h") {
				return true
			}
			es, ok := cc.Body[0].(*ast.ExprStmt)
			if !ok {
				return true
			}
			call, ok := es.X.(*ast.CallExpr)
			if !ok || len(call.Args) != 1 || !isIdent(call.Args[0], as.Lhs[0].(*ast.Ident).Name) {
				return true
			}
			if fn, ok := call.Fun.(*ast.SelectorExpr); ok && isIdent(fn.X, "h") {
				chanFn[ch.Sel.Name] = fn.Sel.Name
			}
			return true
		})
	}
	var consumerCases []string
	consumerDerefs := [][2]string{}
	okCons := false
	if pr := findFunc(room, "Room", "processBackendRoomRequestRoom"); pr != nil && pr.Body != nil {
		pn := sbParamName(pr, 0)
		for _, st := range pr.Body.List {
			sw, ok := st.(*ast.SwitchStmt)
			if !ok {
				continue
			}
			if s, ok := sw.Tag.(*ast.SelectorExpr); !ok || !isIdent(s.X, pn) || s.Sel.Name != "Type" {
				continue
			}
			okCons = true
			for _, cst := range sw.Body.List {
				cc := cst.(*ast.CaseClause)
				for _, e := range cc.List {
					name, ok := strLit(e)
					if !ok {
						okCons = false
						continue
					}
					consumerCases = append(consumerCases, name)
					seen := map[string]bool{}
					add := func(f string) {
						if !seen[f] {
							seen[f] = true
							consumerDerefs = append(consumerDerefs, [2]string{name, f})
						}
					}
					for _, s := range cc.Body {
						for _, f := range sbSubObjectDerefs(s, pn) {
							add(f)
						}
						ast.Inspect(s, func(n ast.Node) bool {
							switch x := n.(type) {
							case *ast.SendStmt:
								// r.hub.<chan> <- message  ==> Hub.Run hands it to h.<fn>(message)
								ch, ok := x.Chan.(*ast.SelectorExpr)
								if !ok || !isIdent(x.Value, pn) {
									okCons = false
									return true
								}
								fn, ok := chanFn[ch.Sel.Name]
								fd := findFunc(hub, "Hub", fn)
								if !ok || fd == nil {
									okCons = false
									return true
								}
								for _, f := range sbSubObjectDerefs(fd.Body, sbParamName(fd, 0)) {
									add(f)
								}
							case *ast.CallExpr:
								// r.<fn>(message.<F>): the callee receives the sub-object pointer
								for ai, a := range x.Args {
									sel, ok := a.(*ast.SelectorExpr)
									if !ok || !isIdent(sel.X, pn) {
										continue
									}
									fsel, ok := x.Fun.(*ast.SelectorExpr)
									if !ok {
										okCons = false
										continue
									}
									if !isIdent(fsel.X, sbRecvName(pr)) {
										continue // log.Printf(..., message.X) and the like: no dereference
									}
									fd := findFunc(room, "Room", fsel.Sel.Name)
									p := sbParamName(fd, ai)
									if fd == nil || p == "" {
										okCons = false
										continue
									}
									if sbUsesParamFields(fd.Body, p) && !sbStartsWithNilGuard(fd.Body, p) {
										add(sel.Sel.Name)
									}
								}
							}
							return true
						})
					}
				}
			}
		}
	}
	l.strList("consumerCases", consumerCases, okCons && len(consumerCases) > 0,
		"processBackendRoomRequestRoom: cases of `switch message.Type` / hub channel hand-over not recognised")
	l.fact("consumerDerefs")
	l.raw("/-- (request type, sub-object) pairs dereferenced without a nil guard by the consumers behind the bus")
	l.raw("(Room.processBackendRoomRequestRoom, the Hub.process* functions reached through Hub.Run, Room.publish*). -/")
	l.raw("def consumerDerefs : List (String × String) := " + sbLeanPairs(consumerDerefs))
	return l
}

// ---------- helpers ----------

func sbLeanPairs(ps [][2]string) string {
	q := make([]string, len(ps))
	for i, p := range ps {
		q[i] = fmt.Sprintf("(%s, %s)", leanStr(p[0]), leanStr(p[1]))
	}
	return "[" + strings.Join(q, ", ") + "]"
}

func sbContains(xs []string, x string) bool {
	for _, y := range xs {
		if y == x {
			return true
		}
	}
	return false
}

func sbInitCall(x *ast.IfStmt) *ast.CallExpr {
	as, ok := x.Init.(*ast.AssignStmt)
	if !ok || len(as.Rhs) != 1 {
		return nil
	}
	call, _ := as.Rhs[0].(*ast.CallExpr)
	return call
}

func sbIsAddrOf(e ast.Expr, name string) bool {
	u, ok := e.(*ast.UnaryExpr)
	return ok && u.Op == token.AND && isIdent(u.X, name)
}

func sbIsErrNotNil(e ast.Expr) bool {
	be, ok := e.(*ast.BinaryExpr)
	return ok && be.Op == token.NEQ && isIdent(be.X, "err") && isIdent(be.Y, "nil")
}

func sbIsReturn(s ast.Stmt) bool {
	_, ok := s.(*ast.ReturnStmt)
	return ok
}

func sbEndsWithReturn(b *ast.BlockStmt) bool {
	return b != nil && len(b.List) > 0 && sbIsReturn(b.List[len(b.List)-1])
}

// returnsError: the block ends in `return <expr>` whose (last) result is not the literal nil.
func sbReturnsError(b *ast.BlockStmt) bool {
	if b == nil || len(b.List) == 0 {
		return false
	}
	rs, ok := b.List[len(b.List)-1].(*ast.ReturnStmt)
	if !ok || len(rs.Results) == 0 {
		return false
	}
	return !isIdent(rs.Results[len(rs.Results)-1], "nil")
}

func sbIsMethodCallOn(call *ast.CallExpr, recv, method string) bool {
	sel, ok := call.Fun.(*ast.SelectorExpr)
	return ok && isIdent(sel.X, recv) && sel.Sel.Name == method
}

func sbRecvName(fd *ast.FuncDecl) string {
	if fd == nil || fd.Recv == nil || len(fd.Recv.List) != 1 || len(fd.Recv.List[0].Names) != 1 {
		return ""
	}
	return fd.Recv.List[0].Names[0].Name
}

func sbParamName(fd *ast.FuncDecl, idx int) string {
	if fd == nil || fd.Type.Params == nil {
		return ""
	}
	i := 0
	for _, f := range fd.Type.Params.List {
		for _, n := range f.Names {
			if i == idx {
				return n.Name
			}
			i++
		}
	}
	return ""
}

// nilTestOf: `<recv>.<F> == nil`
func sbNilTestOf(e ast.Expr, recv string) (string, bool) {
	be, ok := e.(*ast.BinaryExpr)
	if !ok || be.Op != token.EQL || !isIdent(be.Y, "nil") {
		return "", false
	}
	sel, ok := be.X.(*ast.SelectorExpr)
	if !ok || !isIdent(sel.X, recv) {
		return "", false
	}
	return sel.Sel.Name, true
}

// subObjectDerefs lists the fields F for which `<v>.<F>.<anything>` occurs in n
// (a selection or method call through the sub-object pointer), in order of appearance.
func sbSubObjectDerefs(n ast.Node, v string) []string {
	var out []string
	seen := map[string]bool{}
	if n == nil || v == "" {
		return nil
	}
	ast.Inspect(n, func(x ast.Node) bool {
		outer, ok := x.(*ast.SelectorExpr)
		if !ok {
			return true
		}
		inner, ok := outer.X.(*ast.SelectorExpr)
		if !ok || !isIdent(inner.X, v) {
			return true
		}
		if !seen[inner.Sel.Name] {
			seen[inner.Sel.Name] = true
			out = append(out, inner.Sel.Name)
		}
		return true
	})
	return out
}

func sbUsesParamFields(n ast.Node, p string) bool {
	used := false
	ast.Inspect(n, func(x ast.Node) bool {
		if sel, ok := x.(*ast.SelectorExpr); ok && isIdent(sel.X, p) {
			used = true
		}
		return true
	})
	return used
}

// startsWithNilGuard: first statement is `if <p> == nil [|| ...] { return }`.
func sbStartsWithNilGuard(b *ast.BlockStmt, p string) bool {
	if b == nil || len(b.List) == 0 {
		return false
	}
	ifs, ok := b.List[0].(*ast.IfStmt)
	if !ok || !sbEndsWithReturn(ifs.Body) {
		return false
	}
	cond := ifs.Cond
	for {
		be, ok := cond.(*ast.BinaryExpr)
		if !ok {
			return false
		}
		if be.Op == token.LOR {
			cond = be.X
			continue
		}
		return be.Op == token.EQL && isIdent(be.X, p) && isIdent(be.Y, "nil")
	}
}

func sbSelPathIs(e ast.Expr, path []string) bool {
	for i := len(path) - 1; i >= 1; i-- {
		sel, ok := e.(*ast.SelectorExpr)
		if !ok || sel.Sel.Name != path[i] {
			return false
		}
		e = sel.X
	}
	return isIdent(e, path[0])
}

// unmarshalKind: the block declares `var v <T>` and contains
// `if err := json.Unmarshal(<path>, &v); err != nil { return <non-nil> }`;
// result "list" / "map" by the name of T.
func sbUnmarshalKind(b *ast.BlockStmt, path []string) string {
	types := map[string]string{}
	kind := ""
	ast.Inspect(b, func(n ast.Node) bool {
		switch x := n.(type) {
		case *ast.DeclStmt:
			if gd, ok := x.Decl.(*ast.GenDecl); ok && gd.Tok == token.VAR {
				for _, s := range gd.Specs {
					vs := s.(*ast.ValueSpec)
					if id, ok := vs.Type.(*ast.Ident); ok {
						for _, nm := range vs.Names {
							types[nm.Name] = id.Name
						}
					}
				}
			}
		case *ast.IfStmt:
			call := sbInitCall(x)
			if call == nil || !isSel(call.Fun, "json", "Unmarshal") || len(call.Args) != 2 || !sbSelPathIs(call.Args[0], path) {
				return true
			}
			u, ok := call.Args[1].(*ast.UnaryExpr)
			if !ok || u.Op != token.AND {
				return true
			}
			id, ok := u.X.(*ast.Ident)
			if !ok || !sbIsErrNotNil(x.Cond) || !sbReturnsError(x.Body) {
				return true
			}
			switch types[id.Name] {
			case "BackendRoomSwitchToSessionsList":
				kind = "list"
			case "BackendRoomSwitchToSessionsMap":
				kind = "map"
			}
		}
		return true
	})
	return kind
}

var _ = sort.Strings
