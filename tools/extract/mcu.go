package main

import (
	"go/ast"
	"go/token"
	"sort"
	"strings"
)

func init() { register(genMcu) }

// Facts for C09 (publishers / subscribers never outlive their owner):
//   - which stream types the media server accepts (mcu_janus.go streamTypeUserIds),
//   - the "programs" (ordered lock / snapshot / create / re-check / store events) of
//     ClientSession.GetOrCreatePublisher and GetOrCreateSubscriber,
//   - what checkMcuGenerationLocked compares,
//   - which methods release the MCU objects and that a release bumps the generation,
//   - the shape of the permission-revocation sweep in processAsyncMessage.
func genMcu(c *ctx) *leanFile {
	l := c.newLean("Mcu", "clientsession.go", "mcu_janus.go", "mcu_janus_publisher.go", "mcu_janus_subscriber.go", "mcu_common.go", "session.go", "room.go", "hub.go", "client.go")
	cs := c.file("clientsession.go")
	janus := c.file("mcu_janus.go")
	common := c.file("mcu_common.go")
	sess := c.file("session.go")

	// ---- stream type constants: StreamTypeVideo -> "video"
	streamConst := map[string]string{}
	for name, e := range pkgValues(common) {
		if strings.HasPrefix(name, "StreamType") {
			if s, ok := strLit(e); ok {
				streamConst[name] = s
			}
		}
	}

	// ---- streamTypeUserIds keys
	var streams []string
	okStreams := false
	if e, ok := pkgValues(janus)["streamTypeUserIds"]; ok {
		if cl, ok := e.(*ast.CompositeLit); ok {
			okStreams = len(cl.Elts) > 0
			for _, el := range cl.Elts {
				kv, ok := el.(*ast.KeyValueExpr)
				if !ok {
					okStreams = false
					break
				}
				id, ok := kv.Key.(*ast.Ident)
				if !ok || streamConst[id.Name] == "" {
					okStreams = false
					break
				}
				streams = append(streams, streamConst[id.Name])
			}
		}
	}
	l.strList("publishableStreams", streams, okStreams, "mcu_janus.go: var streamTypeUserIds = map[StreamType]uint64{StreamTypeX: …} not found")

	// both Janus constructors reject other stream types before doing anything
	rejects := func(fn string) bool {
		fd := findFunc(janus, "mcuJanus", fn)
		if fd == nil || fd.Body == nil || len(fd.Body.List) == 0 {
			return false
		}
		is, ok := fd.Body.List[0].(*ast.IfStmt)
		if !ok || is.Init == nil {
			return false
		}
		as, ok := is.Init.(*ast.AssignStmt)
		if !ok || len(as.Rhs) != 1 {
			return false
		}
		ix, ok := as.Rhs[0].(*ast.IndexExpr)
		if !ok || !isIdent(ix.X, "streamTypeUserIds") {
			return false
		}
		for _, st := range is.Body.List {
			if _, ok := st.(*ast.ReturnStmt); ok {
				return true
			}
		}
		return false
	}
	l.boolean("janusRejectsOtherStreams", rejects("NewPublisher") && rejects("NewSubscriber"), findFunc(janus, "mcuJanus", "NewPublisher") != nil && findFunc(janus, "mcuJanus", "NewSubscriber") != nil,
		"mcu_janus.go: NewPublisher / NewSubscriber not found")

	// ---- Janus: a publisher's room is destroyed when the publisher is closed and when joining it failed
	hasDestroy := func(n ast.Node) bool {
		found := false
		ast.Inspect(n, func(m ast.Node) bool {
			if kv, ok := m.(*ast.KeyValueExpr); ok {
				k, ok1 := strLit(kv.Key)
				v, ok2 := strLit(kv.Value)
				if ok1 && ok2 && k == "request" && v == "destroy" {
					found = true
				}
			}
			return true
		})
		return found
	}
	callsMethod := func(n ast.Node, method string) bool {
		found := false
		ast.Inspect(n, func(m ast.Node) bool {
			if call, ok := m.(*ast.CallExpr); ok {
				if sel, ok := call.Fun.(*ast.SelectorExpr); ok && sel.Sel.Name == method {
					found = true
				}
			}
			return true
		})
		return found
	}
	joinCleanup, okJoin := false, false
	if fd := findFunc(janus, "mcuJanus", "getOrCreatePublisherHandle"); fd != nil && fd.Body != nil {
		// response, err := handle.Message(ctx, msg, nil); if err != nil { … }
		for i, st := range fd.Body.List {
			as, ok := st.(*ast.AssignStmt)
			if !ok || len(as.Rhs) != 1 {
				continue
			}
			call, ok := as.Rhs[0].(*ast.CallExpr)
			if !ok {
				continue
			}
			sel, ok := call.Fun.(*ast.SelectorExpr)
			if !ok || !isIdent(sel.X, "handle") || sel.Sel.Name != "Message" || i+1 >= len(fd.Body.List) {
				continue
			}
			if is, ok := fd.Body.List[i+1].(*ast.IfStmt); ok {
				okJoin = true
				joinCleanup = hasDestroy(is.Body) && callsMethod(is.Body, "Request") && callsMethod(is.Body, "Detach")
			}
		}
	}
	l.boolean("janusJoinFailureDestroysRoom", joinCleanup, okJoin,
		"mcu_janus.go: getOrCreatePublisherHandle: `… := handle.Message(ctx, msg, nil); if err != nil {…}` not found")
	pubFile := c.file("mcu_janus_publisher.go")
	subFile := c.file("mcu_janus_subscriber.go")
	pubClose := findFunc(pubFile, "mcuJanusPublisher", "Close")
	subClose := findFunc(subFile, "mcuJanusSubscriber", "Close")
	l.boolean("janusPublisherCloseDestroysRoom",
		pubClose != nil && hasDestroy(pubClose) && callsMethod(pubClose, "closeClient") && callsMethod(pubClose, "PublisherClosed"),
		pubClose != nil, "mcu_janus_publisher.go: (*mcuJanusPublisher).Close not found")
	l.boolean("janusSubscriberCloseDetaches",
		subClose != nil && callsMethod(subClose, "closeClient") && callsMethod(subClose, "SubscriberClosed"),
		subClose != nil, "mcu_janus_subscriber.go: (*mcuJanusSubscriber).Close not found")

	// ---- programs of GetOrCreatePublisher / GetOrCreateSubscriber
	isSelCall := func(e ast.Expr, recv, field, method string) bool {
		// recv.field.method(...)  (field == "" : recv.method(...))
		call, ok := e.(*ast.CallExpr)
		if !ok {
			return false
		}
		sel, ok := call.Fun.(*ast.SelectorExpr)
		if !ok || sel.Sel.Name != method {
			return false
		}
		if field == "" {
			return isIdent(sel.X, recv)
		}
		return isSel(sel.X, recv, field)
	}
	program := func(fn string, mapName string, ctor string) ([]string, bool) {
		fd := findFunc(cs, "ClientSession", fn)
		if fd == nil || fd.Body == nil {
			return nil, false
		}
		var ev []string
		var walk func(n ast.Node, inGo bool)
		walkList := func(list []ast.Stmt, inGo bool) {
			for _, s := range list {
				walk(s, inGo)
			}
		}
		mapIndex := func(e ast.Expr) bool {
			ix, ok := e.(*ast.IndexExpr)
			return ok && isSel(ix.X, "s", mapName)
		}
		var exprEvents func(e ast.Expr)
		exprEvents = func(e ast.Expr) {
			ast.Inspect(e, func(n ast.Node) bool {
				switch x := n.(type) {
				case *ast.FuncLit:
					return false
				case *ast.CallExpr:
					switch {
					case isSelCall(x, "mcu", "", ctor):
						ev = append(ev, "create")
					case isSelCall(x, "s", "", "checkMcuGenerationLocked"):
						ev = append(ev, "checkgen")
					case isSelCall(x, "s", "", "checkOfferTypeLocked"):
						ev = append(ev, "checkperm")
					case isSelCall(x, "s", "mu", "Lock"):
						ev = append(ev, "lock")
					case isSelCall(x, "s", "mu", "Unlock"):
						ev = append(ev, "unlock")
					default:
						if sel, ok := x.Fun.(*ast.SelectorExpr); ok && sel.Sel.Name == "SetMedia" {
							ev = append(ev, "setmedia")
						}
					}
				case *ast.IndexExpr:
					if mapIndex(x) {
						ev = append(ev, "lookup")
					}
				case *ast.SelectorExpr:
					if isIdent(x.X, "s") && x.Sel.Name == "mcuGeneration" {
						ev = append(ev, "snapshot")
					}
				}
				return true
			})
		}
		walk = func(n ast.Node, inGo bool) {
			switch x := n.(type) {
			case *ast.BlockStmt:
				walkList(x.List, inGo)
			case *ast.DeferStmt:
				switch {
				case isSelCall(x.Call, "s", "mu", "Lock"):
					ev = append(ev, "defer-lock")
				case isSelCall(x.Call, "s", "mu", "Unlock"):
					ev = append(ev, "defer-unlock")
				default:
					ev = append(ev, "defer-other")
				}
			case *ast.GoStmt:
				// the only goroutines started here close the surplus object
				closes := false
				ast.Inspect(x.Call, func(m ast.Node) bool {
					if call, ok := m.(*ast.CallExpr); ok {
						if sel, ok := call.Fun.(*ast.SelectorExpr); ok && sel.Sel.Name == "Close" {
							closes = true
						}
					}
					return true
				})
				if closes {
					ev = append(ev, "go-close")
				} else {
					ev = append(ev, "go-other")
				}
			case *ast.IfStmt:
				ev = append(ev, "if(")
				if x.Init != nil {
					walk(x.Init, inGo)
				}
				exprEvents(x.Cond)
				ev = append(ev, "){")
				walk(x.Body, inGo)
				if x.Else != nil {
					ev = append(ev, "}else{")
					walk(x.Else, inGo)
				}
				ev = append(ev, "}")
			case *ast.AssignStmt:
				for _, r := range x.Rhs {
					exprEvents(r)
				}
				for _, lhs := range x.Lhs {
					if mapIndex(lhs) {
						ev = append(ev, "store")
					} else if !isIdentExpr(lhs) {
						exprEvents(lhs)
					}
				}
			case *ast.ReturnStmt:
				isErr := len(x.Results) == 2 && isIdent(x.Results[0], "nil")
				if isErr {
					ev = append(ev, "return-err")
				} else {
					ev = append(ev, "return")
				}
			case *ast.ExprStmt:
				exprEvents(x.X)
			case *ast.DeclStmt:
				// var err error
			case *ast.ForStmt, *ast.RangeStmt, *ast.SwitchStmt, *ast.SelectStmt, *ast.TypeSwitchStmt:
				ev = append(ev, "unexpected-control-flow")
			}
		}
		walk(fd.Body, false)
		// Only the order of the events is kept (the branch structure would tie
		// the fact to unrelated code such as the bitrate computation).
		var flat []string
		for _, e := range ev {
			switch e {
			case "if(", "){", "}else{", "}":
			default:
				flat = append(flat, e)
			}
		}
		return flat, true
	}
	pubProg, okPub := program("GetOrCreatePublisher", "publishers", "NewPublisher")
	l.strList("publisherProgram", pubProg, okPub, "clientsession.go: (*ClientSession).GetOrCreatePublisher not found")
	subProg, okSub := program("GetOrCreateSubscriber", "subscribers", "NewSubscriber")
	l.strList("subscriberProgram", subProg, okSub, "clientsession.go: (*ClientSession).GetOrCreateSubscriber not found")

	// ---- checkMcuGenerationLocked: which conditions lead to an error
	var genConds []string
	okGen := false
	if fd := findFunc(cs, "ClientSession", "checkMcuGenerationLocked"); fd != nil && fd.Body != nil {
		okGen = true
		var visit func(is *ast.IfStmt)
		visit = func(is *ast.IfStmt) {
			returnsErr := false
			for _, st := range is.Body.List {
				if rs, ok := st.(*ast.ReturnStmt); ok && len(rs.Results) == 1 && !isIdent(rs.Results[0], "nil") {
					returnsErr = true
				}
			}
			if returnsErr {
				genConds = append(genConds, strings.Join(strings.Fields(exprSrc(c, is.Cond)), ""))
			}
			if e, ok := is.Else.(*ast.IfStmt); ok {
				visit(e)
			}
		}
		for _, st := range fd.Body.List {
			if is, ok := st.(*ast.IfStmt); ok {
				visit(is)
			}
		}
	}
	l.strList("generationCheckConds", genConds, okGen, "clientsession.go: (*ClientSession).checkMcuGenerationLocked not found")

	// ---- who releases, and that a release bumps the generation first
	var releasers []string
	if cs != nil {
		for _, d := range cs.Decls {
			fd, ok := d.(*ast.FuncDecl)
			if !ok || fd.Body == nil || fd.Name.Name == "releaseMcuObjects" {
				continue
			}
			calls := false
			ast.Inspect(fd.Body, func(n ast.Node) bool {
				if call, ok := n.(*ast.CallExpr); ok && isSelCall(call, "s", "", "releaseMcuObjects") {
					calls = true
				}
				return true
			})
			if calls {
				releasers = append(releasers, fd.Name.Name)
			}
		}
	}
	sort.Strings(releasers)
	l.strList("releasers", releasers, len(releasers) > 0, "clientsession.go: no caller of releaseMcuObjects found")
	bumps := false
	okRel := false
	if fd := findFunc(cs, "ClientSession", "releaseMcuObjects"); fd != nil && fd.Body != nil && len(fd.Body.List) > 0 {
		okRel = true
		if inc, ok := fd.Body.List[0].(*ast.IncDecStmt); ok && inc.Tok == token.INC && isSel(inc.X, "s", "mcuGeneration") {
			bumps = true
		}
	}
	l.boolean("releaseBumpsGenerationFirst", bumps, okRel, "clientsession.go: (*ClientSession).releaseMcuObjects not found")
	// releaseMcuObjects drops both maps
	var niled []string
	if fd := findFunc(cs, "ClientSession", "releaseMcuObjects"); fd != nil && fd.Body != nil {
		ast.Inspect(fd.Body, func(n ast.Node) bool {
			if _, ok := n.(*ast.FuncLit); ok {
				return false
			}
			if as, ok := n.(*ast.AssignStmt); ok && len(as.Lhs) == 1 && len(as.Rhs) == 1 && isIdent(as.Rhs[0], "nil") {
				if sel, ok := as.Lhs[0].(*ast.SelectorExpr); ok && isIdent(sel.X, "s") {
					niled = append(niled, sel.Sel.Name)
				}
			}
			return true
		})
	}
	sort.Strings(niled)
	l.strList("releaseClears", niled, okRel, "clientsession.go: (*ClientSession).releaseMcuObjects not found")
	// LeaveCall / doLeaveRoom do nothing without a room
	guard := func(fn string) bool {
		fd := findFunc(cs, "ClientSession", fn)
		if fd == nil || fd.Body == nil {
			return false
		}
		for _, st := range fd.Body.List {
			is, ok := st.(*ast.IfStmt)
			if !ok {
				continue
			}
			be, ok := is.Cond.(*ast.BinaryExpr)
			if ok && be.Op == token.EQL && isIdent(be.X, "room") && isIdent(be.Y, "nil") && len(is.Body.List) == 1 {
				if _, ok := is.Body.List[0].(*ast.ReturnStmt); ok {
					return true
				}
			}
		}
		return false
	}
	l.boolean("leaveCallNeedsRoom", guard("LeaveCall"), findFunc(cs, "ClientSession", "LeaveCall") != nil, "clientsession.go: LeaveCall not found")
	l.boolean("leaveRoomNeedsRoom", guard("doLeaveRoom"), findFunc(cs, "ClientSession", "doLeaveRoom") != nil, "clientsession.go: doLeaveRoom not found")

	// ---- the revocation sweep of processAsyncMessage("permissions")
	var sweepStreams []string
	sweepEarly := false
	okSweep := false
	if fd := findFunc(cs, "ClientSession", "processAsyncMessage"); fd != nil && fd.Body != nil {
		ast.Inspect(fd.Body, func(n ast.Node) bool {
			cc, ok := n.(*ast.CaseClause)
			if !ok || len(cc.List) != 1 {
				return true
			}
			if s, ok := strLit(cc.List[0]); !ok || s != "permissions" {
				return true
			}
			for _, st := range cc.Body {
				gs, ok := st.(*ast.GoStmt)
				if !ok {
					continue
				}
				fl, ok := gs.Call.Fun.(*ast.FuncLit)
				if !ok {
					continue
				}
				okSweep = true
				// top-level statements of the goroutine
				var blocks []*ast.IfStmt
				for _, s2 := range fl.Body.List {
					if is, ok := s2.(*ast.IfStmt); ok {
						blocks = append(blocks, is)
					}
				}
				for i, is := range blocks {
					hasReturn := false
					ast.Inspect(is, func(m ast.Node) bool {
						switch y := m.(type) {
						case *ast.FuncLit:
							return false
						case *ast.ReturnStmt:
							hasReturn = true
						case *ast.IndexExpr:
							if isSel(y.X, "s", "publishers") {
								if id, ok := y.Index.(*ast.Ident); ok && streamConst[id.Name] != "" {
									name := streamConst[id.Name]
									dup := false
									for _, q := range sweepStreams {
										dup = dup || q == name
									}
									if !dup {
										sweepStreams = append(sweepStreams, name)
									}
								}
							}
						}
						return true
					})
					if hasReturn && i+1 < len(blocks) {
						sweepEarly = true
					}
				}
			}
			return false
		})
	}
	l.strList("sweepStreams", sweepStreams, okSweep, "clientsession.go: processAsyncMessage case \"permissions\": go func() {…} not found")
	l.boolean("sweepReturnsEarly", sweepEarly, okSweep, "clientsession.go: permissions sweep not found")

	// ---- permissions an old-style session (no permissions from the backend) does not have
	permConst := map[string]string{}
	for name, e := range pkgValues(sess) {
		if strings.HasPrefix(name, "PERMISSION_") {
			if s, ok := strLit(e); ok {
				permConst[name] = s
			}
		}
	}
	var denied []string
	okOver := false
	if e, ok := pkgValues(sess)["DefaultPermissionOverrides"]; ok {
		if cl, ok := e.(*ast.CompositeLit); ok {
			okOver = true
			for _, el := range cl.Elts {
				kv, ok := el.(*ast.KeyValueExpr)
				if !ok {
					okOver = false
					break
				}
				id, ok := kv.Key.(*ast.Ident)
				if !ok || permConst[id.Name] == "" {
					okOver = false
					break
				}
				if isIdent(kv.Value, "false") {
					denied = append(denied, permConst[id.Name])
				} else if !isIdent(kv.Value, "true") {
					okOver = false
				}
			}
		}
	}
	sort.Strings(denied)
	l.strList("oldStyleDenied", denied, okOver, "session.go: DefaultPermissionOverrides = map[Permission]bool{PERMISSION_X: false, …} not found")
	var publishPerms []string
	okPerms := true
	for _, n := range []string{"PERMISSION_MAY_PUBLISH_MEDIA", "PERMISSION_MAY_PUBLISH_AUDIO", "PERMISSION_MAY_PUBLISH_VIDEO", "PERMISSION_MAY_PUBLISH_SCREEN"} {
		if permConst[n] == "" {
			okPerms = false
		}
		publishPerms = append(publishPerms, permConst[n])
	}
	l.strList("publishPermissions", publishPerms, okPerms, "session.go: PERMISSION_MAY_PUBLISH_{MEDIA,AUDIO,VIDEO,SCREEN} not found")

	// ---- the ways a session stops being in the call / in the room / alive (mcuexits.go)
	genMcuExits(c, l)
	return l
}

func isIdentExpr(e ast.Expr) bool {
	_, ok := e.(*ast.Ident)
	return ok
}

// exprSrc prints an expression compactly (identifiers, selectors, calls,
// binary / unary operators, literals) — enough for the small conditions read here.
func exprSrc(c *ctx, e ast.Expr) string {
	switch x := e.(type) {
	case *ast.Ident:
		return x.Name
	case *ast.BasicLit:
		return x.Value
	case *ast.SelectorExpr:
		return exprSrc(c, x.X) + "." + x.Sel.Name
	case *ast.CallExpr:
		args := make([]string, len(x.Args))
		for i, a := range x.Args {
			args[i] = exprSrc(c, a)
		}
		return exprSrc(c, x.Fun) + "(" + strings.Join(args, ",") + ")"
	case *ast.BinaryExpr:
		return exprSrc(c, x.X) + x.Op.String() + exprSrc(c, x.Y)
	case *ast.UnaryExpr:
		return x.Op.String() + exprSrc(c, x.X)
	case *ast.ParenExpr:
		return "(" + exprSrc(c, x.X) + ")"
	case *ast.StarExpr:
		return "*" + exprSrc(c, x.X)
	}
	return "?"
}
