package main

import (
	"bytes"
	"fmt"
	"go/ast"
	"go/printer"
	"go/token"
	"sort"
	"strings"
)

// tsExpr prints an expression as source text.
func tsExpr(fset *token.FileSet, e ast.Node) string {
	var b bytes.Buffer
	if err := printer.Fprint(&b, fset, e); err != nil {
		return "?"
	}
	return strings.Join(strings.Fields(b.String()), " ")
}

func init() { register(genThrottleSites) }

// Facts about the CALL SITES of the throttler (C17): the three handlers that evaluate a credential
// (room API checksum, internal token, resume id).  For each handler the control-flow paths through
// its body are enumerated (if/else, switch, return; a loop body runs zero times or once) and every
// path is emitted as the sequence of its events, in evaluation order:
//
//	("check",   "<action>")   <x>.CheckBruteforce(ctx, addr, "<action>")
//	("blocked", "+" | "-")    branch on `<err of the check> == ErrBruteforceDetected` taken / not taken
//	("err",     "+" | "-")    branch on `<err of the check> != nil`
//	("throttle", "")          the ThrottleFunc returned by the check is called
//	("reply",   "http:<code>" | "error:<code>" | "wrapped" | "msg")
//	                          http.Error / w.WriteHeader / <client>.SendMessage(...)
//	("call",    "<callee>")   every other call (builtins and conversions left out)
//	("defer",   "<callee>")   deferred call
//	("return",  "")
//	("escape",  "throttle")   the ThrottleFunc is used in a way the analysis does not follow
//	("?",       "<why>")      a shape the analysis does not understand
//
// A call of a function of the same files that itself consults the throttler (or is handed the
// ThrottleFunc) contributes that function's paths — moving the consultation into a helper does not
// hide it.  The Lean side (Model/Throttle.lean, `SiteSpec`) states over these paths that the check
// comes before anything else, that a blocked address is answered with the refusal and nothing else,
// and that the ThrottleFunc is called exactly once on exactly the rejection paths.

type tsEv struct{ kind, arg string }

const tsMaxPaths = 80

type tsPath struct {
	ev   []tsEv
	done bool // returned
	brk  bool // left the enclosing loop body / switch clause
}

func (p tsPath) clone() tsPath {
	return tsPath{ev: append([]tsEv{}, p.ev...), done: p.done, brk: p.brk}
}

func (p tsPath) key() string {
	var sb strings.Builder
	for _, e := range p.ev {
		sb.WriteString(e.kind)
		sb.WriteByte(0)
		sb.WriteString(e.arg)
		sb.WriteByte(1)
	}
	fmt.Fprintf(&sb, "%v%v", p.done, p.brk)
	return sb.String()
}

func tsDedupe(ps []tsPath) []tsPath {
	seen := map[string]bool{}
	var out []tsPath
	for _, p := range ps {
		k := p.key()
		if !seen[k] {
			seen[k] = true
			out = append(out, p)
		}
	}
	return out
}

// one activation of a function: which identifiers hold the ThrottleFunc / the error of the check,
// and which parameters are bound to string literals
type tsEnv struct {
	thr  map[string]bool
	errv map[string]bool
	strs map[string]string
	// roles of the values returned (by position), collected from the return statements
	ret [][]string
}

func newTsEnv() *tsEnv {
	return &tsEnv{thr: map[string]bool{}, errv: map[string]bool{}, strs: map[string]string{}}
}

type tsAn struct {
	c      *ctx
	files  []*ast.File
	errors map[string]string // package-level `X = NewError("code", …)`
	sites  map[string]bool   // functions that are sites themselves: never inlined
	needs  map[string]int    // memo: 1 = consults the throttler, 2 = does not
	inl    map[string]bool   // functions whose paths were run in place of a call from a site
	depth  int
}

var tsHTTPStatus = map[string]string{
	"StatusOK": "200", "StatusBadRequest": "400", "StatusUnauthorized": "401", "StatusForbidden": "403",
	"StatusNotFound": "404", "StatusLengthRequired": "411", "StatusRequestEntityTooLarge": "413",
	"StatusTooManyRequests": "429", "StatusInternalServerError": "500", "StatusBadGateway": "502",
	"StatusServiceUnavailable": "503", "StatusGatewayTimeout": "504",
}

var tsBuiltins = map[string]bool{
	"len": true, "cap": true, "append": true, "delete": true, "make": true, "new": true, "copy": true,
	"string": true, "int": true, "int64": true, "uint32": true, "uint64": true, "min": true, "max": true,
}

func (a *tsAn) funcDecl(recvType, name string) *ast.FuncDecl {
	for _, f := range a.files {
		if fd := findFunc(f, recvType, name); fd != nil && fd.Body != nil {
			return fd
		}
	}
	return nil
}

func tsRecv(fd *ast.FuncDecl) (name, typ string) {
	if fd.Recv == nil || len(fd.Recv.List) != 1 {
		return "", ""
	}
	t := fd.Recv.List[0].Type
	if s, ok := t.(*ast.StarExpr); ok {
		t = s.X
	}
	if id, ok := t.(*ast.Ident); ok {
		typ = id.Name
	}
	if len(fd.Recv.List[0].Names) == 1 {
		name = fd.Recv.List[0].Names[0].Name
	}
	return name, typ
}

// callee resolves a call to a function declared in the analysed files: a method of the current
// receiver (`rv.m(…)`) or a plain function.
func (a *tsAn) callee(call *ast.CallExpr, cur *ast.FuncDecl) *ast.FuncDecl {
	switch f := call.Fun.(type) {
	case *ast.Ident:
		return a.funcDecl("", f.Name)
	case *ast.SelectorExpr:
		rv, typ := tsRecv(cur)
		if rv != "" && isIdent(f.X, rv) {
			return a.funcDecl(typ, f.Sel.Name)
		}
	}
	return nil
}

func tsIsCheckCall(call *ast.CallExpr) bool {
	sel, ok := call.Fun.(*ast.SelectorExpr)
	return ok && sel.Sel.Name == "CheckBruteforce"
}

// consults: does the function (transitively, through functions of the analysed files) call CheckBruteforce?
func (a *tsAn) consults(fd *ast.FuncDecl, depth int) bool {
	key := fmt.Sprintf("%p", fd)
	if v, ok := a.needs[key]; ok {
		return v == 1
	}
	if depth > 4 {
		return false
	}
	a.needs[key] = 2
	found := false
	ast.Inspect(fd.Body, func(n ast.Node) bool {
		if call, ok := n.(*ast.CallExpr); ok && !found {
			if tsIsCheckCall(call) {
				found = true
			} else if cd := a.callee(call, fd); cd != nil && cd != fd && !a.sites[tsFuncName(cd)] && a.consults(cd, depth+1) {
				found = true
			}
		}
		return !found
	})
	if found {
		a.needs[key] = 1
	}
	return found
}

func tsFuncName(fd *ast.FuncDecl) string {
	_, typ := tsRecv(fd)
	if typ != "" {
		return typ + "." + fd.Name.Name
	}
	return fd.Name.Name
}

func tsMentions(n ast.Node, names map[string]bool) bool {
	found := false
	ast.Inspect(n, func(x ast.Node) bool {
		if id, ok := x.(*ast.Ident); ok && names[id.Name] {
			found = true
		}
		return !found
	})
	return found
}

func tsMentionsName(n ast.Node, name string) bool { return tsMentions(n, map[string]bool{name: true}) }

func (p tsPath) checked() bool {
	for _, e := range p.ev {
		if e.kind == "check" {
			return true
		}
	}
	return false
}

// tsAddAll appends events to the live paths.  Once a path has consulted the throttler, the calls it
// goes on to make are left out (they are what the handler does with the credential; the facts are
// about what happens BEFORE the consultation and about the answers), except taking a lock, which
// is kept as ("lock", <mutex>): the resume handler looks the session up under the hub's mutex.
func tsAddAll(ps []tsPath, evs ...tsEv) []tsPath {
	var out []tsPath
	for _, p := range ps {
		if p.done || p.brk {
			out = append(out, p)
			continue
		}
		q := p.clone()
		for _, e := range evs {
			if e.kind == "call" && (strings.HasSuffix(e.arg, ".Lock") || strings.HasSuffix(e.arg, ".RLock")) {
				e = tsEv{"lock", e.arg[:strings.LastIndex(e.arg, ".")]}
			}
			if (e.kind == "call" || e.kind == "defer") && q.checked() {
				continue
			}
			q.ev = append(q.ev, e)
		}
		out = append(out, q)
	}
	return tsDedupe(out)
}

// replyOf recognises the ways a handler answers.
func (a *tsAn) replyOf(call *ast.CallExpr) (string, bool) {
	if isSel(call.Fun, "http", "Error") && len(call.Args) == 3 {
		return "http:" + a.statusOf(call.Args[2]), true
	}
	sel, ok := call.Fun.(*ast.SelectorExpr)
	if !ok {
		return "", false
	}
	switch sel.Sel.Name {
	case "WriteHeader":
		if len(call.Args) == 1 {
			return "http:" + a.statusOf(call.Args[0]), true
		}
	case "SendMessage", "SendError":
		if len(call.Args) == 1 {
			arg := call.Args[0]
			if sel.Sel.Name == "SendError" {
				return "error:" + a.errorCode(arg), true
			}
			if inner, ok := arg.(*ast.CallExpr); ok {
				if isel, ok := inner.Fun.(*ast.SelectorExpr); ok && len(inner.Args) == 1 {
					switch isel.Sel.Name {
					case "NewErrorServerMessage":
						return "error:" + a.errorCode(inner.Args[0]), true
					case "NewWrappedErrorServerMessage":
						return "wrapped", true
					}
				}
			}
			return "msg", true
		}
	}
	return "", false
}

func (a *tsAn) statusOf(e ast.Expr) string {
	if s, ok := e.(*ast.SelectorExpr); ok && isIdent(s.X, "http") {
		if v, ok := tsHTTPStatus[s.Sel.Name]; ok {
			return v
		}
		return s.Sel.Name
	}
	if b, ok := e.(*ast.BasicLit); ok {
		return b.Value
	}
	return "(" + tsExpr(a.c.fset, e) + ")"
}

func (a *tsAn) errorCode(e ast.Expr) string {
	if id, ok := e.(*ast.Ident); ok {
		if code, ok := a.errors[id.Name]; ok {
			return code
		}
		return "(" + id.Name + ")"
	}
	return "(" + tsExpr(a.c.fset, e) + ")"
}

// exprEvents appends the events of evaluating an expression (calls inside out, left to right).
func (a *tsAn) exprEvents(ps []tsPath, e ast.Node, env *tsEnv, cur *ast.FuncDecl) []tsPath {
	if e == nil {
		return ps
	}
	var walk func(n ast.Node)
	walk = func(n ast.Node) {
		if n == nil {
			return
		}
		ast.Inspect(n, func(x ast.Node) bool {
			switch y := x.(type) {
			case *ast.FuncLit:
				if tsMentions(y, env.thr) {
					ps = tsAddAll(ps, tsEv{"escape", "throttle"})
				}
				found := false
				ast.Inspect(y, func(z ast.Node) bool {
					if c, ok := z.(*ast.CallExpr); ok && tsIsCheckCall(c) {
						found = true
					}
					return !found
				})
				if found {
					ps = tsAddAll(ps, tsEv{"?", "check inside a function literal"})
				}
				return false
			case *ast.CallExpr:
				// the throttle func
				if id, ok := y.Fun.(*ast.Ident); ok && env.thr[id.Name] {
					for _, arg := range y.Args {
						walk(arg)
					}
					ps = tsAddAll(ps, tsEv{"throttle", ""})
					return false
				}
				if tsIsCheckCall(y) {
					for _, arg := range y.Args {
						walk(arg)
					}
					action := "(unknown)"
					if len(y.Args) == 3 {
						if s, ok := strLit(y.Args[2]); ok {
							action = s
						} else if id, ok := y.Args[2].(*ast.Ident); ok {
							if s, ok := env.strs[id.Name]; ok {
								action = s
							}
						}
					}
					ps = tsAddAll(ps, tsEv{"check", action})
					return false
				}
				if r, ok := a.replyOf(y); ok {
					// arguments other than the message constructor recognised above
					for _, arg := range y.Args {
						if inner, ok := arg.(*ast.CallExpr); ok {
							for _, ia := range inner.Args {
								walk(ia)
							}
							continue
						}
						walk(arg)
					}
					ps = tsAddAll(ps, tsEv{"reply", r})
					return false
				}
				for _, arg := range y.Args {
					// handing the throttle func to somebody
					if id, ok := arg.(*ast.Ident); ok && env.thr[id.Name] {
						continue
					}
					walk(arg)
				}
				if sel, ok := y.Fun.(*ast.SelectorExpr); ok {
					walk(sel.X)
				}
				passes := false
				for _, arg := range y.Args {
					if id, ok := arg.(*ast.Ident); ok && env.thr[id.Name] {
						passes = true
					}
				}
				if cd := a.callee(y, cur); cd != nil && cd != cur && !a.sites[tsFuncName(cd)] && (passes || a.consults(cd, 0)) {
					ps = a.inline(ps, y, cd, env)
					return false
				}
				if passes {
					ps = tsAddAll(ps, tsEv{"escape", "throttle"})
				}
				switch f := y.Fun.(type) {
				case *ast.Ident:
					if tsBuiltins[f.Name] {
						return false
					}
					ps = tsAddAll(ps, tsEv{"call", f.Name})
				case *ast.SelectorExpr:
					ps = tsAddAll(ps, tsEv{"call", tsExpr(a.c.fset, f)})
				default:
					// conversion such as []byte(x), or a call of a computed function
					if _, ok := y.Fun.(*ast.ArrayType); !ok {
						ps = tsAddAll(ps, tsEv{"call", "(" + tsExpr(a.c.fset, y.Fun) + ")"})
					}
				}
				return false
			case *ast.Ident:
				if env.thr[y.Name] {
					// mentioned other than as the callee of a call
					ps = tsAddAll(ps, tsEv{"escape", "throttle"})
				}
			}
			return true
		})
	}
	walk(e)
	return ps
}

// inline runs the paths of a callee of the analysed files in place of the call.
func (a *tsAn) inline(ps []tsPath, call *ast.CallExpr, cd *ast.FuncDecl, env *tsEnv) []tsPath {
	if a.depth > 4 {
		return tsAddAll(ps, tsEv{"?", "call depth"})
	}
	a.inl[tsFuncName(cd)] = true
	cenv := newTsEnv()
	i := 0
	if cd.Type.Params != nil {
		for _, prm := range cd.Type.Params.List {
			for _, nm := range prm.Names {
				if i < len(call.Args) {
					if id, ok := call.Args[i].(*ast.Ident); ok && env.thr[id.Name] {
						cenv.thr[nm.Name] = true
					} else if id, ok := call.Args[i].(*ast.Ident); ok && env.errv[id.Name] {
						cenv.errv[nm.Name] = true
					} else if s, ok := strLit(call.Args[i]); ok {
						cenv.strs[nm.Name] = s
					} else if id, ok := call.Args[i].(*ast.Ident); ok {
						if s, ok := env.strs[id.Name]; ok {
							cenv.strs[nm.Name] = s
						}
					}
				}
				i++
			}
		}
	}
	a.depth++
	var live, rest []tsPath
	for _, p := range ps {
		if p.done || p.brk {
			rest = append(rest, p)
		} else {
			live = append(live, p)
		}
	}
	out := a.stmts(live, cd.Body.List, cenv, cd)
	a.depth--
	for i := range out {
		// the callee's return ends the callee only
		if out[i].done && len(out[i].ev) > 0 && out[i].ev[len(out[i].ev)-1].kind == "return" {
			out[i].ev = out[i].ev[:len(out[i].ev)-1]
		}
		out[i].done = false
		out[i].brk = false
	}
	// what the callee returns, by position
	env.ret = nil
	if len(cenv.ret) > 0 {
		roles := append([]string{}, cenv.ret[0]...)
		for _, r := range cenv.ret[1:] {
			for j := range roles {
				if j < len(r) && r[j] != roles[j] && r[j] != "nil" {
					if roles[j] == "nil" {
						roles[j] = r[j]
					} else {
						roles[j] = "?"
					}
				}
			}
		}
		env.ret = [][]string{roles}
	}
	return tsDedupe(append(out, rest...))
}

// branch recognises the tests on the error returned by the check.
func (a *tsAn) branch(cond ast.Expr, env *tsEnv) (thenEv, elseEv *tsEv) {
	mk := func(k, v string) *tsEv { return &tsEv{k, v} }
	switch x := cond.(type) {
	case *ast.ParenExpr:
		return a.branch(x.X, env)
	case *ast.BinaryExpr:
		if x.Op != token.EQL && x.Op != token.NEQ {
			break
		}
		l, r := x.X, x.Y
		if isIdent(l, "ErrBruteforceDetected") || isIdent(l, "nil") {
			l, r = r, l
		}
		id, ok := l.(*ast.Ident)
		if !ok || !env.errv[id.Name] {
			break
		}
		eq := x.Op == token.EQL
		if isIdent(r, "ErrBruteforceDetected") {
			if eq {
				return mk("blocked", "+"), mk("blocked", "-")
			}
			return mk("blocked", "-"), mk("blocked", "+")
		}
		if isIdent(r, "nil") {
			if eq {
				return mk("err", "-"), mk("err", "+")
			}
			return mk("err", "+"), mk("err", "-")
		}
	case *ast.CallExpr:
		if isSel(x.Fun, "errors", "Is") && len(x.Args) == 2 && isIdent(x.Args[1], "ErrBruteforceDetected") {
			if id, ok := x.Args[0].(*ast.Ident); ok && env.errv[id.Name] {
				return mk("blocked", "+"), mk("blocked", "-")
			}
		}
	case *ast.UnaryExpr:
		if x.Op == token.NOT {
			t, e := a.branch(x.X, env)
			return e, t
		}
	}
	if tsMentionsName(cond, "ErrBruteforceDetected") {
		return mk("?", "test of ErrBruteforceDetected not understood"), mk("?", "test of ErrBruteforceDetected not understood")
	}
	return nil, nil
}

func (a *tsAn) stmts(ps []tsPath, list []ast.Stmt, env *tsEnv, cur *ast.FuncDecl) []tsPath {
	for _, s := range list {
		ps = a.stmt(ps, s, env, cur)
		if len(ps) > 4000 {
			return tsAddAll(ps[:1], tsEv{"?", "too many paths"})
		}
	}
	return ps
}

// assign tracks which identifiers hold the throttle func / the error of the check.
func (a *tsAn) assign(lhs []ast.Expr, rhs []ast.Expr, env *tsEnv) {
	names := make([]string, len(lhs))
	for i, l := range lhs {
		if id, ok := l.(*ast.Ident); ok {
			names[i] = id.Name
		}
	}
	// whatever these identifiers held before is gone
	for _, n := range names {
		delete(env.thr, n)
		delete(env.errv, n)
	}
	if len(rhs) == 1 {
		if call, ok := rhs[0].(*ast.CallExpr); ok {
			if tsIsCheckCall(call) && len(names) == 2 {
				if names[0] != "" && names[0] != "_" {
					env.thr[names[0]] = true
				}
				if names[1] != "" && names[1] != "_" {
					env.errv[names[1]] = true
				}
				return
			}
			if len(env.ret) == 1 {
				for i, role := range env.ret[0] {
					if i < len(names) && names[i] != "" && names[i] != "_" {
						switch role {
						case "throttle":
							env.thr[names[i]] = true
						case "err":
							env.errv[names[i]] = true
						}
					}
				}
			}
			return
		}
	}
	for i, r := range rhs {
		if id, ok := r.(*ast.Ident); ok && i < len(names) && names[i] != "" {
			if env.thr[id.Name] {
				env.thr[names[i]] = true
			}
			if env.errv[id.Name] {
				env.errv[names[i]] = true
			}
		}
	}
}

func (a *tsAn) stmt(ps []tsPath, s ast.Stmt, env *tsEnv, cur *ast.FuncDecl) []tsPath {
	switch x := s.(type) {
	case nil:
		return ps
	case *ast.BlockStmt:
		return a.stmts(ps, x.List, env, cur)
	case *ast.AssignStmt:
		env.ret = nil
		// a plain copy of the throttle func / the error is not an escape
		plain := true
		for _, r := range x.Rhs {
			if _, ok := r.(*ast.Ident); !ok {
				plain = false
			}
		}
		if !plain {
			for _, r := range x.Rhs {
				ps = a.exprEvents(ps, r, env, cur)
			}
		}
		for _, l := range x.Lhs {
			if _, ok := l.(*ast.Ident); !ok {
				ps = a.exprEvents(ps, l, env, cur)
			}
		}
		a.assign(x.Lhs, x.Rhs, env)
		return ps
	case *ast.DeclStmt:
		if gd, ok := x.Decl.(*ast.GenDecl); ok {
			for _, sp := range gd.Specs {
				if vs, ok := sp.(*ast.ValueSpec); ok {
					env.ret = nil
					for _, v := range vs.Values {
						ps = a.exprEvents(ps, v, env, cur)
					}
					var lhs []ast.Expr
					for _, n := range vs.Names {
						lhs = append(lhs, n)
					}
					a.assign(lhs, vs.Values, env)
				}
			}
		}
		return ps
	case *ast.DeferStmt:
		if id, ok := x.Call.Fun.(*ast.Ident); ok && env.thr[id.Name] {
			return tsAddAll(ps, tsEv{"?", "deferred throttle"})
		}
		if tsMentions(x.Call, env.thr) {
			return tsAddAll(ps, tsEv{"escape", "throttle"})
		}
		if tsIsCheckCall(x.Call) {
			return tsAddAll(ps, tsEv{"?", "deferred check"})
		}
		for _, arg := range x.Call.Args {
			ps = a.exprEvents(ps, arg, env, cur)
		}
		if _, ok := x.Call.Fun.(*ast.FuncLit); ok {
			ps = a.exprEvents(ps, x.Call.Fun, env, cur)
			return tsAddAll(ps, tsEv{"defer", "(func)"})
		}
		return tsAddAll(ps, tsEv{"defer", tsExpr(a.c.fset, x.Call.Fun)})
	case *ast.GoStmt:
		if tsMentions(x.Call, env.thr) {
			ps = tsAddAll(ps, tsEv{"escape", "throttle"})
		}
		for _, arg := range x.Call.Args {
			ps = a.exprEvents(ps, arg, env, cur)
		}
		if fl, ok := x.Call.Fun.(*ast.FuncLit); ok {
			ps = a.exprEvents(ps, fl, env, cur)
			return tsAddAll(ps, tsEv{"call", "go (func)"})
		}
		return tsAddAll(ps, tsEv{"call", "go " + tsExpr(a.c.fset, x.Call.Fun)})
	case *ast.IfStmt:
		ps = a.stmt(ps, x.Init, env, cur)
		ps = a.exprEvents(ps, x.Cond, env, cur)
		tEv, eEv := a.branch(x.Cond, env)
		thenPs, elsePs := ps, ps
		if tEv != nil {
			thenPs = tsAddAll(ps, *tEv)
			elsePs = tsAddAll(ps, *eEv)
		}
		thenPs = a.stmts(thenPs, x.Body.List, env, cur)
		if x.Else != nil {
			elsePs = a.stmt(elsePs, x.Else, env, cur)
		}
		return tsDedupe(append(append([]tsPath{}, thenPs...), elsePs...))
	case *ast.ReturnStmt:
		var roles []string
		for _, r := range x.Results {
			role := ""
			if id, ok := r.(*ast.Ident); ok {
				switch {
				case env.thr[id.Name]:
					role = "throttle"
				case env.errv[id.Name]:
					role = "err"
				case id.Name == "nil":
					role = "nil"
				}
			}
			if role == "" || role == "nil" {
				ps = a.exprEvents(ps, r, env, cur)
			}
			roles = append(roles, role)
		}
		env.ret = append(env.ret, roles)
		ps = tsAddAll(ps, tsEv{"return", ""})
		for i := range ps {
			if !ps[i].brk {
				ps[i].done = true
			}
		}
		return tsDedupe(ps)
	case *ast.ExprStmt:
		env.ret = nil
		return a.exprEvents(ps, x.X, env, cur)
	case *ast.IncDecStmt:
		return a.exprEvents(ps, x.X, env, cur)
	case *ast.SendStmt:
		ps = a.exprEvents(ps, x.Chan, env, cur)
		return a.exprEvents(ps, x.Value, env, cur)
	case *ast.BranchStmt:
		switch x.Tok {
		case token.BREAK, token.CONTINUE:
			if x.Label != nil {
				return tsAddAll(ps, tsEv{"?", "labelled break/continue"})
			}
			for i := range ps {
				if !ps[i].done {
					ps[i].brk = true
				}
			}
			return ps
		case token.FALLTHROUGH:
			return ps // handled by the switch
		}
		return tsAddAll(ps, tsEv{"?", "goto"})
	case *ast.LabeledStmt:
		return a.stmt(tsAddAll(ps, tsEv{"?", "label"}), x.Stmt, env, cur)
	case *ast.ForStmt:
		ps = a.stmt(ps, x.Init, env, cur)
		ps = a.exprEvents(ps, x.Cond, env, cur)
		return a.loopBody(ps, x.Body, env, cur)
	case *ast.RangeStmt:
		ps = a.exprEvents(ps, x.X, env, cur)
		return a.loopBody(ps, x.Body, env, cur)
	case *ast.SwitchStmt:
		ps = a.stmt(ps, x.Init, env, cur)
		ps = a.exprEvents(ps, x.Tag, env, cur)
		return a.clauses(ps, x.Body.List, x.Tag, env, cur)
	case *ast.TypeSwitchStmt:
		ps = a.stmt(ps, x.Init, env, cur)
		ps = a.stmt(ps, x.Assign, env, cur)
		return a.clauses(ps, x.Body.List, nil, env, cur)
	case *ast.SelectStmt:
		var out []tsPath
		for _, cl := range x.Body.List {
			cc := cl.(*ast.CommClause)
			q := a.stmt(ps, cc.Comm, env, cur)
			q = a.stmts(q, cc.Body, env, cur)
			out = append(out, q...)
		}
		for i := range out {
			out[i].brk = false
		}
		return tsDedupe(out)
	case *ast.EmptyStmt:
		return ps
	}
	return tsAddAll(ps, tsEv{"?", fmt.Sprintf("statement %T", s)})
}

// loopBody: the body runs zero times or once; break/continue end it.
func (a *tsAn) loopBody(ps []tsPath, body *ast.BlockStmt, env *tsEnv, cur *ast.FuncDecl) []tsPath {
	once := a.stmts(ps, body.List, env, cur)
	for i := range once {
		once[i].brk = false
	}
	return tsDedupe(append(append([]tsPath{}, ps...), once...))
}

func (a *tsAn) clauses(ps []tsPath, list []ast.Stmt, tag ast.Expr, env *tsEnv, cur *ast.FuncDecl) []tsPath {
	var out []tsPath
	hasDefault := false
	for i, cl := range list {
		cc := cl.(*ast.CaseClause)
		q := ps
		if cc.List == nil {
			hasDefault = true
		}
		for _, e := range cc.List {
			q = a.exprEvents(q, e, env, cur)
		}
		// `switch { case err == ErrBruteforceDetected: … }` / `switch err { case ErrBruteforceDetected: … }`
		if len(cc.List) == 1 {
			var cond ast.Expr = cc.List[0]
			if tag != nil {
				cond = &ast.BinaryExpr{X: tag, Op: token.EQL, Y: cc.List[0]}
			}
			if tEv, _ := a.branch(cond, env); tEv != nil {
				q = tsAddAll(q, *tEv)
			}
		} else if len(cc.List) > 1 {
			for _, e := range cc.List {
				if tsMentionsName(e, "ErrBruteforceDetected") {
					q = tsAddAll(q, tsEv{"?", "test of ErrBruteforceDetected not understood"})
				}
			}
		}
		// fallthrough chains
		j := i
		for {
			body := list[j].(*ast.CaseClause).Body
			q = a.stmts(q, body, env, cur)
			if len(body) > 0 {
				if br, ok := body[len(body)-1].(*ast.BranchStmt); ok && br.Tok == token.FALLTHROUGH && j+1 < len(list) {
					j++
					continue
				}
			}
			break
		}
		out = append(out, q...)
	}
	if !hasDefault {
		// no clause taken; the tests on the check's error that were not taken are not recorded
		out = append(out, ps...)
	}
	for i := range out {
		out[i].brk = false
	}
	return tsDedupe(out)
}

func (a *tsAn) sitePaths(recvType, fn string) ([]tsPath, string) {
	fd := a.funcDecl(recvType, fn)
	if fd == nil {
		return nil, fmt.Sprintf("func (%s) %s not found", recvType, fn)
	}
	a.depth = 0
	ps := a.stmts([]tsPath{{}}, fd.Body.List, newTsEnv(), fd)
	for i := range ps {
		// falling off the end of the function is a return
		if !ps[i].done {
			ps[i].ev = append(ps[i].ev, tsEv{"return", ""})
			ps[i].done = true
		}
		ps[i].brk = false
	}
	ps = tsDedupe(ps)
	sort.Slice(ps, func(i, j int) bool { return ps[i].key() < ps[j].key() })
	return ps, ""
}

func genThrottleSites(c *ctx) *leanFile {
	l := c.newLean("ThrottleSites", "hub.go", "backend_server.go")
	hub := c.file("hub.go")
	bs := c.file("backend_server.go")
	an := &tsAn{c: c, errors: map[string]string{}, needs: map[string]int{}, sites: map[string]bool{}, inl: map[string]bool{}}
	for _, f := range []*ast.File{hub, bs} {
		if f != nil {
			an.files = append(an.files, f)
		}
	}
	for name, e := range pkgValues(an.files...) {
		if call, ok := e.(*ast.CallExpr); ok && isIdent(call.Fun, "NewError") && len(call.Args) >= 1 {
			if s, ok := strLit(call.Args[0]); ok {
				an.errors[name] = s
			}
		}
	}
	sites := []struct{ fact, recv, fn string }{
		{"roomSitePaths", "BackendServer", "roomHandler"},
		{"internalSitePaths", "Hub", "processHelloInternal"},
		{"resumeSitePaths", "Hub", "processHello"},
	}
	for _, s := range sites {
		an.sites[s.recv+"."+s.fn] = true
	}
	for _, s := range sites {
		l.fact(s.fact)
		ps, why := an.sitePaths(s.recv, s.fn)
		if why == "" && len(ps) == 0 {
			why = "no path"
		}
		if why != "" {
			l.fail(s.fact + ": " + why)
			l.raw(fmt.Sprintf("def %s : List (List (String × String)) := [] -- EXTRACTION FAILED: %s", s.fact, why))
			continue
		}
		// (the paths that do consult the throttler first: they say more)
		sort.SliceStable(ps, func(i, j int) bool { return ps[i].checked() && !ps[j].checked() })
		if len(ps) > tsMaxPaths {
			// a handler with this many distinct paths is not one the facts below were written for
			ps = append(ps[:tsMaxPaths], tsPath{ev: []tsEv{{"?", fmt.Sprintf("%d more paths", len(ps)-tsMaxPaths)}}})
		}
		var rows []string
		for _, p := range ps {
			q := make([]string, len(p.ev))
			for i, e := range p.ev {
				q[i] = fmt.Sprintf("(%s, %s)", leanStr(e.kind), leanStr(e.arg))
			}
			rows = append(rows, "  ["+strings.Join(q, ", ")+"]")
		}
		l.raw(fmt.Sprintf("def %s : List (List (String × String)) := [\n%s]", s.fact, strings.Join(rows, ",\n")))
	}
	// every other place of the analysed files where the throttler is consulted: none outside the three
	// sites and the functions whose paths are part of theirs
	others := []string{}
	for _, f := range an.files {
		for _, d := range f.Decls {
			fd, ok := d.(*ast.FuncDecl)
			if !ok || fd.Body == nil {
				continue
			}
			n := 0
			ast.Inspect(fd.Body, func(x ast.Node) bool {
				if call, ok := x.(*ast.CallExpr); ok && tsIsCheckCall(call) {
					n++
				}
				return true
			})
			if n > 0 && !an.sites[tsFuncName(fd)] && !an.inl[tsFuncName(fd)] {
				others = append(others, tsFuncName(fd))
			}
		}
	}
	sort.Strings(others)
	l.strList("strayCheckCallers", others, len(an.files) == 2, "hub.go / backend_server.go not readable")
	return l
}
