package main

import (
	"go/ast"
	"go/token"
	"strings"
)

func init() { register(genHub) }

// funcSource returns the source text of a function body.
func (c *ctx) funcSource(rel string, recv, name string) (string, bool) {
	f := c.file(rel)
	fd := findFunc(f, recv, name)
	if fd == nil || fd.Body == nil {
		return "", false
	}
	return exprString(c.fset, fd.Body), true
}

// hasBackendGuard reports whether fn contains an `if X.Backend().Id() != Y.Backend().Id()`
// (or the same with `backend.Id()` on one side) whose body returns/continues.
func hasBackendGuard(fd *ast.FuncDecl) int {
	n := 0
	if fd == nil || fd.Body == nil {
		return 0
	}
	isBackendId := func(e ast.Expr) bool {
		call, ok := e.(*ast.CallExpr)
		if !ok {
			return false
		}
		sel, ok := call.Fun.(*ast.SelectorExpr)
		return ok && sel.Sel.Name == "Id"
	}
	ast.Inspect(fd.Body, func(nd ast.Node) bool {
		ifs, ok := nd.(*ast.IfStmt)
		if !ok {
			return true
		}
		found := false
		var walk func(e ast.Expr)
		walk = func(e ast.Expr) {
			be, ok := e.(*ast.BinaryExpr)
			if !ok {
				return
			}
			if be.Op == token.LAND {
				walk(be.X)
				walk(be.Y)
			} else if be.Op == token.NEQ && isBackendId(be.X) && isBackendId(be.Y) {
				found = true
			}
		}
		walk(ifs.Cond)
		if !found {
			return true
		}
		for _, st := range ifs.Body.List {
			switch st.(type) {
			case *ast.ReturnStmt, *ast.BranchStmt:
				n++
				return true
			}
		}
		return true
	})
	return n
}

// Facts of hub.go / session.go / virtualsession.go / backend_server.go used by the hub model (C03–C07, C19).
func genHub(c *ctx) *leanFile {
	l := c.newLean("Hub", "hub.go", "session.go", "virtualsession.go", "backend_server.go", "room.go")
	sess := c.file("session.go")
	scope := pkgValues(sess)

	perm := func(name string) (string, bool) {
		e, ok := scope[name]
		if !ok {
			return "", false
		}
		return strLit(e)
	}
	v, ok := perm("PERMISSION_MAY_CONTROL")
	l.str("permControl", v, ok, "PERMISSION_MAY_CONTROL not found")
	v, ok = perm("PERMISSION_TRANSIENT_DATA")
	l.str("permTransient", v, ok, "PERMISSION_TRANSIENT_DATA not found")

	// DefaultPermissionOverrides: keys mapped to false
	var falses []string
	okOv := false
	if e, ok := scope["DefaultPermissionOverrides"]; ok {
		if cl, ok := e.(*ast.CompositeLit); ok {
			okOv = true
			for _, el := range cl.Elts {
				kv, ok := el.(*ast.KeyValueExpr)
				if !ok {
					okOv = false
					break
				}
				name := ""
				if id, ok := kv.Key.(*ast.Ident); ok {
					name = id.Name
				}
				pv, ok1 := perm(name)
				val, ok2 := kv.Value.(*ast.Ident)
				if !ok1 || !ok2 {
					okOv = false
					break
				}
				if val.Name == "false" {
					falses = append(falses, pv)
				}
			}
		}
	}
	l.strList("defaultOverridesFalse", falses, okOv, "DefaultPermissionOverrides literal not understood")

	hub := c.file("hub.go")
	// same-backend guards on session recipients
	nm := hasBackendGuard(findFunc(hub, "Hub", "processMessageMsg"))
	l.boolean("messageBackendChecked", nm > 0, findFunc(hub, "Hub", "processMessageMsg") != nil, "processMessageMsg not found")
	nc := hasBackendGuard(findFunc(hub, "Hub", "processControlMsg"))
	l.boolean("controlBackendChecked", nc > 0, findFunc(hub, "Hub", "processControlMsg") != nil, "processControlMsg not found")

	// room-session ids are resolved per backend: guard in disconnectByRoomSessionId and in lookupByRoomSessionId
	bs := c.file("backend_server.go")
	g1 := hasBackendGuard(findFunc(hub, "Hub", "disconnectByRoomSessionId"))
	g2 := hasBackendGuard(findFunc(bs, "BackendServer", "lookupByRoomSessionId"))
	okG := findFunc(hub, "Hub", "disconnectByRoomSessionId") != nil && findFunc(bs, "BackendServer", "lookupByRoomSessionId") != nil
	l.boolean("roomSessionBackendChecked", g1 > 0 && g2 > 0, okG, "disconnectByRoomSessionId / lookupByRoomSessionId not found")

	// the session that joins is never the one disconnected for re-using its room session id
	selfGuard := false
	if fd := findFunc(hub, "Hub", "disconnectByRoomSessionId"); fd != nil && fd.Body != nil {
		ast.Inspect(fd.Body, func(nd ast.Node) bool {
			ifs, ok := nd.(*ast.IfStmt)
			if !ok {
				return true
			}
			if be, ok := ifs.Cond.(*ast.BinaryExpr); ok && be.Op == token.EQL && isIdent(be.X, "session") && isIdent(be.Y, "requester") {
				for _, st := range ifs.Body.List {
					if _, ok := st.(*ast.ReturnStmt); ok {
						selfGuard = true
					}
				}
			}
			return true
		})
	}
	l.boolean("selfKickGuarded", selfGuard, findFunc(hub, "Hub", "disconnectByRoomSessionId") != nil, "disconnectByRoomSessionId not found")

	// incall requests only mark members of the room
	room := c.file("room.go")
	srcIC, okIC := c.funcSource("room.go", "Room", "PublishUsersInCallChanged")
	_ = room
	l.boolean("inCallMembersOnly", okIC && strings.Contains(srcIC, "HasSession"), okIC, "Room.PublishUsersInCallChanged not found")

	// Hub.virtualSessions entry removed when a virtual session is closed by any path
	src, okV := c.funcSource("virtualsession.go", "VirtualSession", "CloseWithFeedback")
	l.boolean("vtableClearedOnClose", okV && strings.Contains(src, "virtualSessions"), okV, "VirtualSession.CloseWithFeedback not found")
	return l
}
