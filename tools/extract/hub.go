package main

import (
	"go/ast"
	"go/printer"
	"go/token"
	"strings"
)

func init() { register(genHub) }

// funcSource returns the source text of a function body.
func (c *ctx) funcSource(rel string, recv, name string) (string, bool) {
	f := c.file(rel)
	fd := findFunc(f, recv, name)
	if fd == nil || fd.Body == nil {
		return "", false
	}
	return exprString(c.fset, fd.Body), true
}

// hasBackendGuard reports whether fn contains an `if X.Backend().Id() != Y.Backend().Id()`
// (or the same with `backend.Id()` on one side) whose body returns/continues.
func hasBackendGuard(fd *ast.FuncDecl) int {
	n := 0
	if fd == nil || fd.Body == nil {
		return 0
	}
	isBackendId := func(e ast.Expr) bool {
		call, ok := e.(*ast.CallExpr)
		if !ok {
			return false
		}
		sel, ok := call.Fun.(*ast.SelectorExpr)
		return ok && sel.Sel.Name == "Id"
	}
	ast.Inspect(fd.Body, func(nd ast.Node) bool {
		ifs, ok := nd.(*ast.IfStmt)
		if !ok {
			return true
		}
		found := false
		var walk func(e ast.Expr)
		walk = func(e ast.Expr) {
			be, ok := e.(*ast.BinaryExpr)
			if !ok {
				return
			}
			if be.Op == token.LAND {
				walk(be.X)
				walk(be.Y)
			} else if be.Op == token.NEQ && isBackendId(be.X) && isBackendId(be.Y) {
				found = true
			}
		}
		walk(ifs.Cond)
		if !found {
			return true
		}
		for _, st := range ifs.Body.List {
			switch st.(type) {
			case *ast.ReturnStmt, *ast.BranchStmt:
				n++
				return true
			}
		}
		return true
	})
	return n
}

// Facts of hub.go / session.go / virtualsession.go / backend_server.go used by the hub model (C03–C07, C19).
func genHub(c *ctx) *leanFile {
	l := c.newLean("Hub", "hub.go", "session.go", "virtualsession.go", "backend_server.go", "room.go", "clientsession.go", "backend_configuration.go", "grpc_remote_client.go")
	sess := c.file("session.go")
	scope := pkgValues(sess)

	perm := func(name string) (string, bool) {
		e, ok := scope[name]
		if !ok {
			return "", false
		}
		return strLit(e)
	}
	v, ok := perm("PERMISSION_MAY_CONTROL")
	l.str("permControl", v, ok, "PERMISSION_MAY_CONTROL not found")
	v, ok = perm("PERMISSION_TRANSIENT_DATA")
	l.str("permTransient", v, ok, "PERMISSION_TRANSIENT_DATA not found")

	// DefaultPermissionOverrides: keys mapped to false
	var falses []string
	okOv := false
	if e, ok := scope["DefaultPermissionOverrides"]; ok {
		if cl, ok := e.(*ast.CompositeLit); ok {
			okOv = true
			for _, el := range cl.Elts {
				kv, ok := el.(*ast.KeyValueExpr)
				if !ok {
					okOv = false
					break
				}
				name := ""
				if id, ok := kv.Key.(*ast.Ident); ok {
					name = id.Name
				}
				pv, ok1 := perm(name)
				val, ok2 := kv.Value.(*ast.Ident)
				if !ok1 || !ok2 {
					okOv = false
					break
				}
				if val.Name == "false" {
					falses = append(falses, pv)
				}
			}
		}
	}
	l.strList("defaultOverridesFalse", falses, okOv, "DefaultPermissionOverrides literal not understood")

	hub := c.file("hub.go")
	// same-backend guards on session recipients
	nm := hasBackendGuard(findFunc(hub, "Hub", "processMessageMsg"))
	l.boolean("messageBackendChecked", nm > 0, findFunc(hub, "Hub", "processMessageMsg") != nil, "processMessageMsg not found")
	nc := hasBackendGuard(findFunc(hub, "Hub", "processControlMsg"))
	l.boolean("controlBackendChecked", nc > 0, findFunc(hub, "Hub", "processControlMsg") != nil, "processControlMsg not found")

	// room-session ids are resolved per backend: guard in disconnectByRoomSessionId and in lookupByRoomSessionId
	bs := c.file("backend_server.go")
	g1 := hasBackendGuard(findFunc(hub, "Hub", "disconnectByRoomSessionId"))
	g2 := hasBackendGuard(findFunc(bs, "BackendServer", "lookupByRoomSessionId"))
	okG := findFunc(hub, "Hub", "disconnectByRoomSessionId") != nil && findFunc(bs, "BackendServer", "lookupByRoomSessionId") != nil
	l.boolean("roomSessionBackendChecked", g1 > 0 && g2 > 0, okG, "disconnectByRoomSessionId / lookupByRoomSessionId not found")

	// the session that joins is never the one disconnected for re-using its room session id
	selfGuard := false
	if fd := findFunc(hub, "Hub", "disconnectByRoomSessionId"); fd != nil && fd.Body != nil {
		ast.Inspect(fd.Body, func(nd ast.Node) bool {
			ifs, ok := nd.(*ast.IfStmt)
			if !ok {
				return true
			}
			if be, ok := ifs.Cond.(*ast.BinaryExpr); ok && be.Op == token.EQL && isIdent(be.X, "session") && isIdent(be.Y, "requester") {
				for _, st := range ifs.Body.List {
					if _, ok := st.(*ast.ReturnStmt); ok {
						selfGuard = true
					}
				}
			}
			return true
		})
	}
	l.boolean("selfKickGuarded", selfGuard, findFunc(hub, "Hub", "disconnectByRoomSessionId") != nil, "disconnectByRoomSessionId not found")

	// incall requests only mark members of the room
	room := c.file("room.go")
	srcIC, okIC := c.funcSource("room.go", "Room", "PublishUsersInCallChanged")
	_ = room
	l.boolean("inCallMembersOnly", okIC && strings.Contains(srcIC, "HasSession"), okIC, "Room.PublishUsersInCallChanged not found")

	// Hub.virtualSessions entry removed when a virtual session is closed by any path
	src, okV := c.funcSource("virtualsession.go", "VirtualSession", "CloseWithFeedback")
	l.boolean("vtableClearedOnClose", okV && strings.Contains(src, "virtualSessions"), okV, "VirtualSession.CloseWithFeedback not found")

	// ... and only the entry that still points to the session being closed (a failed duplicate add closes
	// a session that never owned the entry): the delete sits under an `if` comparing the stored sid
	vs := c.file("virtualsession.go")
	fdClose := findFunc(vs, "VirtualSession", "CloseWithFeedback")
	guarded := false
	if fdClose != nil {
		for _, call := range callsOf(fdClose, "delete") {
			if len(call.Args) == 2 && selectorEndsWith(call.Args[0], "virtualSessions") {
				for _, ifs := range enclosingIfs(fdClose, call) {
					if strings.Contains(nodeText(c, ifs.Cond), "Sid") && strings.Contains(nodeText(c, ifs.Cond), "==") {
						guarded = true
					}
				}
			}
		}
	}
	l.boolean("vtableDeleteGuarded", guarded, fdClose != nil, "VirtualSession.CloseWithFeedback not found")

	// atomicity the sequential model relies on (1): the session limit is compared and the session recorded
	// inside one critical section of Backend.AddSession
	bc := c.file("backend_configuration.go")
	fdAdd := findFunc(bc, "Backend", "AddSession")
	atomicLimit := false
	if fdAdd != nil && fdAdd.Body != nil {
		lockPos, unlockEarly := token.NoPos, false
		var cmpPos, storePos token.Pos
		ast.Inspect(fdAdd.Body, func(nd ast.Node) bool {
			switch x := nd.(type) {
			case *ast.DeferStmt:
				return false // a deferred Unlock runs at return
			case *ast.CallExpr:
				if sel, ok := x.Fun.(*ast.SelectorExpr); ok && selectorEndsWith(sel.X, "sessionsLock") {
					if sel.Sel.Name == "Lock" && lockPos == token.NoPos {
						lockPos = x.Pos()
					}
					if sel.Sel.Name == "Unlock" && storePos == token.NoPos {
						unlockEarly = true
					}
				}
				// b.Len() takes and releases the lock by itself: a comparison through it is outside
				if sel, ok := x.Fun.(*ast.SelectorExpr); ok && sel.Sel.Name == "Len" && cmpPos == token.NoPos && lockPos == token.NoPos {
					cmpPos = x.Pos()
				}
			case *ast.BinaryExpr:
				if (x.Op == token.GEQ || x.Op == token.GTR || x.Op == token.LSS || x.Op == token.LEQ) &&
					(selectorEndsWith(x.X, "sessionLimit") || selectorEndsWith(x.Y, "sessionLimit")) && cmpPos == token.NoPos {
					cmpPos = x.Pos()
				}
			case *ast.AssignStmt:
				if len(x.Lhs) == 1 {
					if ix, ok := x.Lhs[0].(*ast.IndexExpr); ok && selectorEndsWith(ix.X, "sessions") && storePos == token.NoPos {
						storePos = x.Pos()
					}
				}
			}
			return true
		})
		atomicLimit = lockPos != token.NoPos && cmpPos > lockPos && storePos > cmpPos && !unlockEarly
	}
	l.boolean("limitCheckAtomic", atomicLimit, fdAdd != nil, "Backend.AddSession not found")

	// atomicity (2): processJoinRoom looks the room up and creates it while holding Hub.ru
	fdJoin := findFunc(hub, "Hub", "processJoinRoom")
	atomicRoom := false
	if fdJoin != nil && fdJoin.Body != nil {
		var lockPos, lookupPos, createPos, firstUnlock token.Pos
		ast.Inspect(fdJoin.Body, func(nd ast.Node) bool {
			switch x := nd.(type) {
			case *ast.CallExpr:
				if sel, ok := x.Fun.(*ast.SelectorExpr); ok {
					if selectorEndsWith(sel.X, "ru") && sel.Sel.Name == "Lock" && lockPos == token.NoPos {
						lockPos = x.Pos()
					}
					if selectorEndsWith(sel.X, "ru") && sel.Sel.Name == "Unlock" && firstUnlock == token.NoPos {
						firstUnlock = x.Pos()
					}
					if sel.Sel.Name == "createRoom" && createPos == token.NoPos {
						createPos = x.Pos()
					}
					if (sel.Sel.Name == "GetRoomForBackend" || sel.Sel.Name == "getRoom") && lookupPos == token.NoPos {
						lookupPos = x.Pos() // takes (and releases) the lock by itself
						lockPos = token.NoPos
					}
				}
			case *ast.IndexExpr:
				if selectorEndsWith(x.X, "rooms") && lookupPos == token.NoPos {
					lookupPos = x.Pos()
				}
			}
			return true
		})
		atomicRoom = lockPos != token.NoPos && lookupPos > lockPos && createPos > lookupPos && firstUnlock > createPos
	}
	l.boolean("roomCreateAtomic", atomicRoom, fdJoin != nil, "Hub.processJoinRoom not found")

	// a resumed session leaves the expiry list whatever connection it had before: the delete in the resume
	// branch of processHello is not nested under a condition
	fdHello := findFunc(hub, "Hub", "processHello")
	resumeClears, sawDelete := false, false
	if fdHello != nil {
		for _, call := range callsOf(fdHello, "delete") {
			if len(call.Args) == 2 && selectorEndsWith(call.Args[0], "expiredSessions") {
				sawDelete = true
				cond := false
				for _, ifs := range enclosingIfs(fdHello, call) {
					t := nodeText(c, ifs.Cond)
					if ifs.Init != nil {
						t += nodeText(c, ifs.Init)
					}
					if strings.Contains(t, "SetClient") || strings.Contains(t, "prev") {
						cond = true
					}
				}
				if !cond {
					resumeClears = true
				}
			}
		}
	}
	l.boolean("resumeClearsExpiry", resumeClears && sawDelete, fdHello != nil, "Hub.processHello not found")

	// an ended session is taken off the list of federated sessions (Hub.removeSession, the path of every ending)
	fdRemove := findFunc(hub, "Hub", "removeSession")
	fedCleared := false
	if fdRemove != nil {
		for _, call := range callsOf(fdRemove, "delete") {
			if len(call.Args) == 2 && selectorEndsWith(call.Args[0], "federatedSessions") {
				fedCleared = true
			}
		}
	}
	l.boolean("federatedClearedOnRemove", fedCleared, fdRemove != nil, "Hub.removeSession not found")

	// the number of registered sessions a backend reports (to the limit check and to cluster peers) is the
	// size of the set of registered sessions itself, read under its lock -- not a separately kept counter
	fdLen := findFunc(bc, "Backend", "Len")
	lenIsSet := false
	if fdLen != nil && fdLen.Body != nil {
		locked := false
		ast.Inspect(fdLen.Body, func(nd ast.Node) bool {
			switch x := nd.(type) {
			case *ast.CallExpr:
				if sel, ok := x.Fun.(*ast.SelectorExpr); ok && selectorEndsWith(sel.X, "sessionsLock") && (sel.Sel.Name == "Lock" || sel.Sel.Name == "RLock") {
					locked = true
				}
			case *ast.ReturnStmt:
				if len(x.Results) == 1 {
					if call, ok := x.Results[0].(*ast.CallExpr); ok && isIdent(call.Fun, "len") && len(call.Args) == 1 &&
						selectorEndsWith(call.Args[0], "sessions") && locked {
						lenIsSet = true
					}
				}
			}
			return true
		})
	}
	l.boolean("sessionCountIsSetSize", lenIsSet, fdLen != nil, "Backend.Len not found")

	// a backend room request is dropped as outdated only against the newest request of the SAME type
	// (a delete is not overtaken by a newer update): the timestamp table is indexed by the request type
	fdReq := findFunc(room, "Room", "processBackendRoomRequestRoom")
	perType := false
	if fdReq != nil && fdReq.Body != nil {
		ast.Inspect(fdReq.Body, func(nd ast.Node) bool {
			if ix, ok := nd.(*ast.IndexExpr); ok && selectorEndsWith(ix.X, "lastRoomRequests") {
				if sel, ok := ix.Index.(*ast.SelectorExpr); ok && sel.Sel.Name == "Type" {
					perType = true
				}
			}
			return true
		})
	}
	l.boolean("roomRequestOrderPerType", perType, fdReq != nil, "Room.processBackendRoomRequestRoom not found")

	// the flush on resume hands every queued message to sendMessageUnlocked (which queues again what cannot be
	// written) -- nothing is taken out of the queue before it has been handed over
	cs := c.file("clientsession.go")
	fdFlush := findFunc(cs, "ClientSession", "SendMessages")
	flushAll := false
	if fdFlush != nil && fdFlush.Body != nil {
		ast.Inspect(fdFlush.Body, func(nd ast.Node) bool {
			rs, ok := nd.(*ast.RangeStmt)
			if !ok || rs.Body == nil || len(rs.Body.List) != 1 {
				return true
			}
			if es, ok := rs.Body.List[0].(*ast.ExprStmt); ok {
				if call, ok := es.X.(*ast.CallExpr); ok {
					if sel, ok := call.Fun.(*ast.SelectorExpr); ok && sel.Sel.Name == "sendMessageUnlocked" && isIdent(rs.X, "messages") {
						flushAll = true
					}
				}
			}
			return true
		})
	}
	l.boolean("flushHandsOverEveryMessage", flushAll, fdFlush != nil, "ClientSession.SendMessages not found")

	// the duplicate-join memory (C04, observer side) starts afresh whenever the session's room is set or cleared:
	// SetRoom calls onRoomSet as a top-level statement, and onRoomSet assigns nil to seenJoinedEvents as a
	// top-level statement (not under a condition)
	fdSetRoom := findFunc(cs, "ClientSession", "SetRoom")
	fdOnRoomSet := findFunc(cs, "ClientSession", "onRoomSet")
	callsTop, resetsTop := false, false
	if fdSetRoom != nil && fdSetRoom.Body != nil {
		for _, st := range fdSetRoom.Body.List {
			if es, ok := st.(*ast.ExprStmt); ok {
				if call, ok := es.X.(*ast.CallExpr); ok {
					if sel, ok := call.Fun.(*ast.SelectorExpr); ok && sel.Sel.Name == "onRoomSet" {
						callsTop = true
					}
				}
			}
		}
	}
	if fdOnRoomSet != nil && fdOnRoomSet.Body != nil {
		for _, st := range fdOnRoomSet.Body.List {
			if as, ok := st.(*ast.AssignStmt); ok && len(as.Lhs) == 1 && len(as.Rhs) == 1 {
				if selectorEndsWith(as.Lhs[0], "seenJoinedEvents") && isIdent(as.Rhs[0], "nil") {
					resetsTop = true
				}
			}
		}
	}
	l.boolean("viewResetOnRoomChange", callsTop && resetsTop, fdSetRoom != nil && fdOnRoomSet != nil, "ClientSession.SetRoom / onRoomSet not found")

	// a connection proxied from another server refuses a message once it is closed (the message is then queued
	// for the session) and never blocks: closed-check first, then a non-blocking send
	grc := c.file("grpc_remote_client.go")
	fdRemote := findFunc(grc, "remoteGrpcClient", "SendMessage")
	remoteOk := false
	if fdRemote != nil && fdRemote.Body != nil && len(fdRemote.Body.List) >= 2 {
		first, okIf := fdRemote.Body.List[0].(*ast.IfStmt)
		closedFirst := false
		if okIf && strings.Contains(nodeText(c, first.Cond), "closeCtx.Err()") && len(first.Body.List) == 1 {
			if ret, ok := first.Body.List[0].(*ast.ReturnStmt); ok && len(ret.Results) == 1 && isIdent(ret.Results[0], "false") {
				closedFirst = true
			}
		}
		nonBlocking := false
		ast.Inspect(fdRemote.Body, func(nd ast.Node) bool {
			if sel, ok := nd.(*ast.SelectStmt); ok {
				for _, cl := range sel.Body.List {
					if cc, ok := cl.(*ast.CommClause); ok && cc.Comm == nil {
						nonBlocking = true
					}
				}
			}
			return true
		})
		remoteOk = closedFirst && nonBlocking
	}
	l.boolean("proxiedSendRefusesWhenClosed", remoteOk, fdRemote != nil, "remoteGrpcClient.SendMessage not found")

	// "the same call" (the gate of requestoffer, whose answer is delivered as a message of the other session) means
	// the same room OF THE SAME BACKEND: isInSameCall refuses unless Room.IsEqual holds for the two rooms, and
	// Room.IsEqual compares the room ids and the backend ids
	squash := func(n ast.Node) string { return strings.Join(strings.Fields(nodeText(c, n)), "") }
	fdSame := findFunc(hub, "Hub", "isInSameCall")
	sameOk := false
	if fdSame != nil && fdSame.Body != nil {
		guarded, byId := false, false
		ast.Inspect(fdSame.Body, func(nd ast.Node) bool {
			switch x := nd.(type) {
			case *ast.IfStmt:
				t := squash(x.Cond)
				if (strings.Contains(t, "||!senderRoom.IsEqual(recipientRoom)") || strings.Contains(t, "||!recipientRoom.IsEqual(senderRoom)")) &&
					strings.HasPrefix(t, "recipientRoom==nil||") && len(x.Body.List) == 1 {
					if ret, ok := x.Body.List[0].(*ast.ReturnStmt); ok && len(ret.Results) == 1 && isIdent(ret.Results[0], "false") {
						guarded = true
					}
				}
			case *ast.BinaryExpr:
				t := squash(x)
				if strings.Contains(t, "Room.Id()") && (x.Op == token.EQL || x.Op == token.NEQ) {
					byId = true
				}
			}
			return true
		})
		// the guard is the last statement before the final `return true`
		n := len(fdSame.Body.List)
		lastIsGuard := false
		if n >= 2 {
			if ifs, ok := fdSame.Body.List[n-2].(*ast.IfStmt); ok && strings.Contains(squash(ifs.Cond), "IsEqual(") {
				if ret, ok := fdSame.Body.List[n-1].(*ast.ReturnStmt); ok && len(ret.Results) == 1 && isIdent(ret.Results[0], "true") {
					lastIsGuard = true
				}
			}
		}
		sameOk = guarded && !byId && lastIsGuard
	}
	fdEq := findFunc(room, "Room", "IsEqual")
	eqOk := false
	if fdEq != nil && fdEq.Body != nil && len(fdEq.Body.List) > 0 {
		idsCompared, backends := false, 0
		ast.Inspect(fdEq.Body, func(nd ast.Node) bool {
			switch x := nd.(type) {
			case *ast.IfStmt:
				if squash(x.Cond) == "r.Id()!=other.Id()" && len(x.Body.List) == 1 {
					if ret, ok := x.Body.List[0].(*ast.ReturnStmt); ok && len(ret.Results) == 1 && isIdent(ret.Results[0], "false") {
						idsCompared = true
					}
				}
			case *ast.AssignStmt:
				t := squash(x)
				if t == "b1:=r.Backend()" || t == "b2:=other.Backend()" {
					backends++
				}
			}
			return true
		})
		last, ok := fdEq.Body.List[len(fdEq.Body.List)-1].(*ast.ReturnStmt)
		eqOk = idsCompared && backends == 2 && ok && len(last.Results) == 1 && squash(last.Results[0]) == "b1.Id()==b2.Id()"
	}
	l.boolean("sameCallIsPerBackend", sameOk && eqOk, fdSame != nil && fdEq != nil, "Hub.isInSameCall / Room.IsEqual not found")
	return l
}

// callsOf lists the calls of the plain function `name` (e.g. the builtin delete) inside fd.
func callsOf(fd *ast.FuncDecl, name string) []*ast.CallExpr {
	var out []*ast.CallExpr
	if fd == nil || fd.Body == nil {
		return nil
	}
	ast.Inspect(fd.Body, func(nd ast.Node) bool {
		if call, ok := nd.(*ast.CallExpr); ok && isIdent(call.Fun, name) {
			out = append(out, call)
		}
		return true
	})
	return out
}

// selectorEndsWith: e is `x.y.name` or the identifier `name`.
func selectorEndsWith(e ast.Expr, name string) bool {
	switch x := e.(type) {
	case *ast.SelectorExpr:
		return x.Sel.Name == name
	case *ast.Ident:
		return x.Name == name
	}
	return false
}

// enclosingIfs lists the if statements of fd (innermost last) in whose body or else branch `target` lies
// (not those that merely have it in their condition).
func enclosingIfs(fd *ast.FuncDecl, target ast.Node) []*ast.IfStmt {
	var out []*ast.IfStmt
	ast.Inspect(fd.Body, func(nd ast.Node) bool {
		ifs, ok := nd.(*ast.IfStmt)
		if !ok {
			return true
		}
		inside := func(n ast.Node) bool {
			return n != nil && n.Pos() <= target.Pos() && target.End() <= n.End()
		}
		if inside(ifs.Body) || (ifs.Else != nil && inside(ifs.Else)) {
			out = append(out, ifs)
		}
		return true
	})
	return out
}

func nodeText(c *ctx, n ast.Node) string {
	var sb strings.Builder
	printer.Fprint(&sb, c.fset, n) // nolint
	return sb.String()
}
