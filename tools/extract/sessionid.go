package main

import (
	"bytes"
	"go/ast"
	"go/printer"
	"go/token"
	"os"
	"path/filepath"
	"strings"
)

func init() { register(genSessionId) }

// srcText renders an expression as Go source (position independent).
func srcText(fset *token.FileSet, e ast.Node) string {
	var b bytes.Buffer
	printer.Fprint(&b, fset, e)
	return b.String()
}

// Facts of sessionid_codec.go, the decode-cache functions of hub.go and the
// pinned securecookie version (C15).
func genSessionId(c *ctx) *leanFile {
	l := c.newLean("SessionId", "sessionid_codec.go", "hub.go", "go.mod")
	f := c.file("sessionid_codec.go")
	hub := c.file("hub.go")
	scope := pkgValues(f)

	constStr := func(e ast.Expr) (string, bool) {
		if s, ok := strLit(e); ok {
			return s, true
		}
		if id, ok := e.(*ast.Ident); ok {
			if d, ok := scope[id.Name]; ok {
				return strLit(d)
			}
		}
		return "", false
	}

	for _, n := range []string{"privateSessionName", "publicSessionName"} {
		v, ok := "", false
		if e, found := scope[n]; found {
			v, ok = strLit(e)
		}
		l.str(n, v, ok, "const "+n+" = \"…\" not found in sessionid_codec.go")
	}

	// The names may be bound to the block key: sessionCookieNames(hashKey, blockKey) returns
	// (privateSessionName [+ suffix], publicSessionName [+ suffix]) with
	// suffix = "<sep>" + hex(HMAC-SHA256(hashKey, <prefix> ++ blockKey)) when a block key is set,
	// NewSessionIdCodec stores them in the fields privateName/publicName.
	norm := func(n ast.Node) string { return strings.Join(strings.Fields(srcText(c.fset, n)), " ") }
	fieldBase := map[string]string{} // field of SessionIdCodec -> constant it starts with
	bound, okBound := false, true
	bindPrefix, bindSep := "", ""
	if fd := findFunc(f, "", "sessionCookieNames"); fd != nil && fd.Body != nil {
		t := norm(fd.Body)
		okShape := strings.Contains(t, "if len(blockKey) == 0 { return privateSessionName, publicSessionName }") &&
			strings.Contains(t, "mac := hmac.New(sha256.New, hashKey)") &&
			strings.Contains(t, "mac.Write(blockKey)") &&
			strings.Contains(t, "return privateSessionName + suffix, publicSessionName + suffix")
		// mac.Write([]byte(<prefix const>)) before mac.Write(blockKey); suffix := "<sep>" + hex.EncodeToString(mac.Sum(nil))
		okPrefix, okSep := false, false
		var posPrefix, posKey token.Pos
		ast.Inspect(fd.Body, func(x ast.Node) bool {
			switch s := x.(type) {
			case *ast.CallExpr:
				if isSel(s.Fun, "mac", "Write") && len(s.Args) == 1 {
					if conv, ok := s.Args[0].(*ast.CallExpr); ok && len(conv.Args) == 1 {
						if v, ok := constStr(conv.Args[0]); ok {
							bindPrefix, okPrefix, posPrefix = v, true, s.Pos()
						}
					} else if isIdent(s.Args[0], "blockKey") {
						posKey = s.Pos()
					}
				}
			case *ast.AssignStmt:
				if len(s.Lhs) == 1 && isIdent(s.Lhs[0], "suffix") && len(s.Rhs) == 1 {
					if be, ok := s.Rhs[0].(*ast.BinaryExpr); ok && be.Op == token.ADD {
						if v, ok := strLit(be.X); ok && norm(be.Y) == "hex.EncodeToString(mac.Sum(nil))" {
							bindSep, okSep = v, true
						}
					}
				}
			}
			return true
		})
		if okShape && okPrefix && okSep && posPrefix < posKey {
			bound = true
		} else {
			okBound = false
		}
		// fields assigned from it in NewSessionIdCodec
		if nf := findFunc(f, "", "NewSessionIdCodec"); nf != nil && nf.Body != nil {
			tn := norm(nf.Body)
			if strings.Contains(tn, "privateName, publicName := sessionCookieNames(hashKey, blockKey)") &&
				strings.Contains(tn, "privateName: privateName") && strings.Contains(tn, "publicName: publicName") {
				fieldBase["privateName"] = "privateSessionName"
				fieldBase["publicName"] = "publicSessionName"
			} else {
				okBound = false
			}
		}
	}
	l.boolean("blockKeyBoundToNames", bound, okBound,
		"sessionCookieNames: `if len(blockKey) == 0 {return constants}; mac := hmac.New(sha256.New, hashKey); mac.Write([]byte(prefix)); mac.Write(blockKey); suffix := sep + hex(mac.Sum(nil)); return private+suffix, public+suffix` and its use in NewSessionIdCodec expected")
	l.str("blockKeyBindingPrefix", bindPrefix, okBound, "sessionCookieNames: prefix constant not found")
	l.str("blockKeyNameSep", bindSep, okBound, "sessionCookieNames: suffix separator not found")

	// c.cookie.<method>(<name>, …) inside a method of SessionIdCodec: the cookie name used
	// (a constant, or a field of the codec that starts with a constant, see above).
	cookieName := func(fn, method string) (string, bool) {
		fd := findFunc(f, "SessionIdCodec", fn)
		if fd == nil || fd.Body == nil {
			return "", false
		}
		res, n := "", 0
		ast.Inspect(fd.Body, func(x ast.Node) bool {
			call, ok := x.(*ast.CallExpr)
			if !ok {
				return true
			}
			sel, ok := call.Fun.(*ast.SelectorExpr)
			if !ok || sel.Sel.Name != method || len(call.Args) < 2 {
				return true
			}
			inner, ok := sel.X.(*ast.SelectorExpr)
			if !ok || inner.Sel.Name != "cookie" {
				return true
			}
			if s, ok := constStr(call.Args[0]); ok && !bound {
				res = s
				n++
			} else if fs, ok := call.Args[0].(*ast.SelectorExpr); ok && isIdent(fs.X, "c") && fieldBase[fs.Sel.Name] != "" && bound {
				if v, ok := constStr(&ast.Ident{Name: fieldBase[fs.Sel.Name]}); ok {
					res = v
					n++
				} else {
					n += 100
				}
			} else {
				n += 100
			}
			return true
		})
		return res, n == 1
	}
	for _, p := range [][3]string{
		{"encodePrivateName", "EncodePrivate", "Encode"}, {"decodePrivateName", "DecodePrivate", "Decode"},
		{"encodePublicName", "EncodePublic", "Encode"}, {"decodePublicName", "DecodePublic", "Decode"}} {
		v, ok := cookieName(p[1], p[2])
		l.str(p[0], v, ok, p[1]+": exactly one call c.cookie."+p[2]+"(<name constant or bound name field>, …) expected")
	}

	// EncodePublic ends in `return reverseSessionId(encoded)`; DecodePublic starts with
	// `encodedData, err := reverseSessionId(encodedData)` before the Decode call.
	encRev, decRev := false, false
	okEnc, okDec := false, false
	if fd := findFunc(f, "SessionIdCodec", "EncodePublic"); fd != nil && fd.Body != nil && len(fd.Body.List) > 0 {
		okEnc = true
		if rs, ok := fd.Body.List[len(fd.Body.List)-1].(*ast.ReturnStmt); ok && len(rs.Results) == 1 {
			if call, ok := rs.Results[0].(*ast.CallExpr); ok && isIdent(call.Fun, "reverseSessionId") && len(call.Args) == 1 {
				encRev = true
			}
		}
	}
	if fd := findFunc(f, "SessionIdCodec", "DecodePublic"); fd != nil && fd.Body != nil {
		okDec = true
		var revPos, decPos token.Pos
		ast.Inspect(fd.Body, func(x ast.Node) bool {
			switch s := x.(type) {
			case *ast.AssignStmt:
				if len(s.Rhs) == 1 && len(s.Lhs) == 2 && isIdent(s.Lhs[0], "encodedData") {
					if call, ok := s.Rhs[0].(*ast.CallExpr); ok && isIdent(call.Fun, "reverseSessionId") &&
						len(call.Args) == 1 && isIdent(call.Args[0], "encodedData") && revPos == token.NoPos {
						revPos = s.Pos()
					}
				}
			case *ast.CallExpr:
				if sel, ok := s.Fun.(*ast.SelectorExpr); ok && sel.Sel.Name == "Decode" && decPos == token.NoPos {
					if len(s.Args) == 3 && isIdent(s.Args[1], "encodedData") {
						decPos = s.Pos()
					}
				}
			}
			return true
		})
		decRev = revPos != token.NoPos && decPos != token.NoPos && revPos < decPos
	}
	l.boolean("encodePublicReverses", encRev, okEnc, "func (*SessionIdCodec) EncodePublic not found")
	l.boolean("decodePublicReverses", decRev, okDec, "func (*SessionIdCodec) DecodePublic not found")

	// reverseSessionId: URLEncoding.DecodeString, in-place swap loop, URLEncoding.EncodeToString.
	revShape := false
	if fd := findFunc(f, "", "reverseSessionId"); fd != nil && fd.Body != nil {
		dec, enc, swap := false, false, false
		ast.Inspect(fd.Body, func(x ast.Node) bool {
			switch s := x.(type) {
			case *ast.CallExpr:
				if sel, ok := s.Fun.(*ast.SelectorExpr); ok && isSel(sel.X, "base64", "URLEncoding") {
					if sel.Sel.Name == "DecodeString" {
						dec = true
					}
					if sel.Sel.Name == "EncodeToString" {
						enc = true
					}
				}
			case *ast.ForStmt:
				if len(s.Body.List) == 1 {
					if as, ok := s.Body.List[0].(*ast.AssignStmt); ok && len(as.Lhs) == 2 && len(as.Rhs) == 2 {
						a, b := srcText(c.fset, as.Lhs[0]), srcText(c.fset, as.Lhs[1])
						x, y := srcText(c.fset, as.Rhs[0]), srcText(c.fset, as.Rhs[1])
						if a == y && b == x && a != b {
							swap = true
						}
					}
				}
			}
			return true
		})
		revShape = dec && enc && swap
	}
	l.boolean("reverseIsUrlBase64ByteReversal", revShape, revShape,
		"reverseSessionId: base64.URLEncoding.DecodeString + swap loop + base64.URLEncoding.EncodeToString expected")

	// NewSessionIdCodec: securecookie.New(hashKey, blockKey).MaxAge(N).SetSerializer(&protoSerializer{})
	var maxAge int64
	okAge, okNew, serProto := false, false, false
	if fd := findFunc(f, "", "NewSessionIdCodec"); fd != nil && fd.Body != nil {
		ast.Inspect(fd.Body, func(x ast.Node) bool {
			call, ok := x.(*ast.CallExpr)
			if !ok {
				return true
			}
			if isSel(call.Fun, "securecookie", "New") && len(call.Args) == 2 && isIdent(call.Args[0], "hashKey") && isIdent(call.Args[1], "blockKey") {
				okNew = true
			}
			if sel, ok := call.Fun.(*ast.SelectorExpr); ok {
				switch sel.Sel.Name {
				case "MaxAge":
					if len(call.Args) == 1 {
						if v, ok := c.evalInt(call.Args[0], scope, 0); ok {
							maxAge, okAge = v, true
						}
					}
				case "SetSerializer":
					if len(call.Args) == 1 {
						if u, ok := call.Args[0].(*ast.UnaryExpr); ok && u.Op == token.AND {
							if cl, ok := u.X.(*ast.CompositeLit); ok && isIdent(cl.Type, "protoSerializer") {
								serProto = true
							}
						}
					}
				case "MinAge", "MaxLength", "HashFunc", "BlockFunc":
					okNew = false // an option the model does not know
				}
			}
			return true
		})
	}
	l.nat("maxAge", maxAge, okAge && maxAge >= 0, "NewSessionIdCodec: .MaxAge(<constant>) not found")
	l.boolean("codecIsSecurecookieNewWithProtoSerializer", okNew && serProto, okNew && serProto,
		"NewSessionIdCodec: securecookie.New(hashKey, blockKey) … SetSerializer(&protoSerializer{}) (and no further options) expected")

	// Canonical-spelling guard: first statement of DecodePrivate / DecodePublic is
	// `if !isCanonicalSessionId(encodedData) { return nil, … }`, and the helper compares
	// the re-encoding of the decoded bytes with its argument.
	guard := func(fn string) (bool, bool) {
		fd := findFunc(f, "SessionIdCodec", fn)
		if fd == nil || fd.Body == nil || len(fd.Body.List) == 0 {
			return false, false
		}
		is, ok := fd.Body.List[0].(*ast.IfStmt)
		if !ok || is.Init != nil || is.Else != nil {
			return false, true
		}
		u, ok := is.Cond.(*ast.UnaryExpr)
		if !ok || u.Op != token.NOT {
			return false, true
		}
		call, ok := u.X.(*ast.CallExpr)
		if !ok || !isIdent(call.Fun, "isCanonicalSessionId") || len(call.Args) != 1 || !isIdent(call.Args[0], "encodedData") {
			return false, true
		}
		if len(is.Body.List) != 1 {
			return false, true
		}
		rs, ok := is.Body.List[0].(*ast.ReturnStmt)
		if !ok || len(rs.Results) != 2 || !isIdent(rs.Results[0], "nil") || isIdent(rs.Results[1], "nil") {
			return false, true
		}
		return true, true
	}
	gp, okp := guard("DecodePrivate")
	gq, okq := guard("DecodePublic")
	helperOk := false
	if fd := findFunc(f, "", "isCanonicalSessionId"); fd != nil && fd.Body != nil && fd.Type.Params != nil && len(fd.Type.Params.List) == 1 &&
		len(fd.Type.Params.List[0].Names) == 1 {
		arg := fd.Type.Params.List[0].Names[0].Name
		dec, cmp := false, false
		ast.Inspect(fd.Body, func(x ast.Node) bool {
			switch s := x.(type) {
			case *ast.CallExpr:
				if sel, ok := s.Fun.(*ast.SelectorExpr); ok && isSel(sel.X, "base64", "URLEncoding") && sel.Sel.Name == "DecodeString" &&
					len(s.Args) == 1 && isIdent(s.Args[0], arg) {
					dec = true
				}
			case *ast.BinaryExpr:
				if s.Op == token.EQL {
					for _, pair := range [][2]ast.Expr{{s.X, s.Y}, {s.Y, s.X}} {
						if call, ok := pair[0].(*ast.CallExpr); ok && isIdent(pair[1], arg) {
							if sel, ok := call.Fun.(*ast.SelectorExpr); ok && isSel(sel.X, "base64", "URLEncoding") && sel.Sel.Name == "EncodeToString" {
								cmp = true
							}
						}
					}
				}
			}
			return true
		})
		helperOk = dec && cmp
	}
	l.boolean("decodePrivateChecksCanonical", gp && helperOk, okp, "func (*SessionIdCodec) DecodePrivate not found")
	l.boolean("decodePublicChecksCanonical", gq && helperOk, okq, "func (*SessionIdCodec) DecodePublic not found")

	// hub.go: cache key = id + "<sep>" + <name>; cache.Set only after the `err != nil` return.
	hubScope := pkgValues(hub)
	cacheFacts := func(fn, decodeMethod string) (sep, name string, setAfterCheck, ok bool) {
		fd := findFunc(hub, "Hub", fn)
		if fd == nil || fd.Body == nil {
			return
		}
		var keyOK bool
		idxDecode, idxErr, idxSet := -1, -1, -1
		for i, st := range fd.Body.List {
			switch s := st.(type) {
			case *ast.AssignStmt:
				if len(s.Lhs) == 1 && isIdent(s.Lhs[0], "cache_key") && len(s.Rhs) == 1 {
					// id + "|" + privateSessionName
					if outer, ok := s.Rhs[0].(*ast.BinaryExpr); ok && outer.Op == token.ADD {
						if inner, ok := outer.X.(*ast.BinaryExpr); ok && inner.Op == token.ADD && isIdent(inner.X, "id") {
							if sp, ok := strLit(inner.Y); ok {
								if nm, ok := constStr(outer.Y); ok {
									sep, name, keyOK = sp, nm, true
								}
							}
						}
					}
				}
				if len(s.Rhs) == 1 {
					if call, ok := s.Rhs[0].(*ast.CallExpr); ok {
						if sel, ok := call.Fun.(*ast.SelectorExpr); ok && sel.Sel.Name == decodeMethod && len(call.Args) == 1 && isIdent(call.Args[0], "id") {
							idxDecode = i
						}
					}
				}
			case *ast.IfStmt:
				if be, ok := s.Cond.(*ast.BinaryExpr); ok && be.Op == token.NEQ && isIdent(be.X, "err") && isIdent(be.Y, "nil") && len(s.Body.List) == 1 {
					if rs, ok := s.Body.List[0].(*ast.ReturnStmt); ok && len(rs.Results) == 1 && isIdent(rs.Results[0], "nil") {
						idxErr = i
					}
				}
			case *ast.ExprStmt:
				if call, ok := s.X.(*ast.CallExpr); ok && isSel(call.Fun, "cache", "Set") && len(call.Args) == 2 &&
					isIdent(call.Args[0], "cache_key") && isIdent(call.Args[1], "data") {
					if idxSet == -1 {
						idxSet = i
					} else {
						idxSet = -2
					}
				}
			}
		}
		// no cache.Set anywhere else (nested)
		nSet := 0
		ast.Inspect(fd.Body, func(x ast.Node) bool {
			if call, ok := x.(*ast.CallExpr); ok && isSel(call.Fun, "cache", "Set") {
				nSet++
			}
			return true
		})
		_ = hubScope
		ok = keyOK
		setAfterCheck = nSet == 1 && idxDecode >= 0 && idxErr == idxDecode+1 && idxSet == idxErr+1
		return
	}
	sp1, nm1, ord1, ok1 := cacheFacts("decodePrivateSessionId", "DecodePrivate")
	sp2, nm2, ord2, ok2 := cacheFacts("decodePublicSessionId", "DecodePublic")
	l.str("cacheKeySep", sp1, ok1 && ok2 && sp1 == sp2, "hub.go decode*SessionId: cache_key := id + \"<sep>\" + <name> with one separator expected")
	l.str("cachePrivateName", nm1, ok1, "hub.go decodePrivateSessionId: cache_key := id + sep + <constant> not found")
	l.str("cachePublicName", nm2, ok2, "hub.go decodePublicSessionId: cache_key := id + sep + <constant> not found")
	l.boolean("cacheFilledOnlyAfterSuccessfulDecode", ord1 && ord2, ord1 && ord2,
		"hub.go decode*SessionId: `data, err := h.cookie.DecodeX(id); if err != nil { return nil }; cache.Set(cache_key, data)` (single Set) expected")

	// go.mod: the securecookie release whose Encode/Decode layout the model restates.
	ver, okVer := "", false
	if data, err := os.ReadFile(filepath.Join(c.repo, "go.mod")); err == nil {
		for _, line := range strings.Split(string(data), "\n") {
			fs := strings.Fields(line)
			for i, w := range fs {
				if w == "github.com/gorilla/securecookie" && i+1 < len(fs) {
					ver, okVer = fs[i+1], true
				}
			}
		}
	}
	l.str("securecookieVersion", ver, okVer, "go.mod: requirement github.com/gorilla/securecookie not found")
	return l
}
