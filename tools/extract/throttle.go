package main

import (
	"go/ast"
	"go/token"
)

func init() { register(genThrottle) }

// Facts of throttle.go (C17).
func genThrottle(c *ctx) *leanFile {
	l := c.newLean("Throttle", "throttle.go")
	f := c.file("throttle.go")
	scope := pkgValues(f)
	for _, n := range []string{"maxBruteforceAttempts", "maxBruteforceDurationThreshold", "maxBruteforceAge", "maxThrottleDelay"} {
		e, ok := scope[n]
		var v int64
		if ok {
			v, ok = c.evalInt(e, scope, 0)
		}
		l.nat(n, v, ok && v >= 0, "package-level constant not found or not a constant integer expression")
	}

	// getDelay: `if count > N { return maxThrottleDelay }` and
	// `time.Duration(F*intPow(B, count)) * time.<Unit>`
	var guard, factor, base, unit int64
	var okGuard, okFormula bool
	if fd := findFunc(f, "memoryThrottler", "getDelay"); fd != nil && fd.Body != nil {
		ast.Inspect(fd.Body, func(n ast.Node) bool {
			switch x := n.(type) {
			case *ast.IfStmt:
				if be, ok := x.Cond.(*ast.BinaryExpr); ok && be.Op == token.GTR && isIdent(be.X, "count") && len(x.Body.List) == 1 {
					if rs, ok := x.Body.List[0].(*ast.ReturnStmt); ok && len(rs.Results) == 1 && isIdent(rs.Results[0], "maxThrottleDelay") {
						if v, ok := c.evalInt(be.Y, scope, 0); ok && !okGuard {
							guard, okGuard = v, true
						}
					}
				}
			case *ast.BinaryExpr:
				// time.Duration(F*intPow(B, count)) * time.Unit
				if x.Op != token.MUL {
					return true
				}
				call, ok := x.X.(*ast.CallExpr)
				if !ok || !isSel(call.Fun, "time", "Duration") || len(call.Args) != 1 {
					return true
				}
				inner, ok := call.Args[0].(*ast.BinaryExpr)
				if !ok || inner.Op != token.MUL {
					return true
				}
				pc, ok := inner.Y.(*ast.CallExpr)
				if !ok || !isIdent(pc.Fun, "intPow") || len(pc.Args) != 2 || !isIdent(pc.Args[1], "count") {
					return true
				}
				fv, ok1 := c.evalInt(inner.X, scope, 0)
				bv, ok2 := c.evalInt(pc.Args[0], scope, 0)
				uv, ok3 := c.evalInt(x.Y, scope, 0)
				if ok1 && ok2 && ok3 {
					factor, base, unit, okFormula = fv, bv, uv, true
				}
			}
			return true
		})
	}
	l.nat("overflowGuard", guard, okGuard, "getDelay: `if count > N { return maxThrottleDelay }` not found")
	l.nat("delayFactor", factor, okFormula, "getDelay: `time.Duration(F*intPow(B, count)) * time.Unit` not found")
	l.nat("powBase", base, okFormula, "getDelay formula not found")
	l.nat("delayUnit", unit, okFormula, "getDelay formula not found")

	// subnet64 = net.CIDRMask(64, 128)
	var bits int64
	okBits := false
	if e, ok := scope["subnet64"]; ok {
		if call, ok := e.(*ast.CallExpr); ok && isSel(call.Fun, "net", "CIDRMask") && len(call.Args) == 2 {
			ones, ok1 := c.evalInt(call.Args[0], scope, 0)
			total, ok2 := c.evalInt(call.Args[1], scope, 0)
			if ok1 && ok2 && total == 128 {
				bits, okBits = ones, true
			}
		}
	}
	l.nat("subnetBits", bits, okBits, "var subnet64 = net.CIDRMask(n, 128) not found")

	// comparison operators in CheckBruteforce / filterEntries
	cmpOf := func(fd *ast.FuncDecl, rhs string, lhs string) (string, bool) {
		res, found := "", false
		if fd == nil || fd.Body == nil {
			return "", false
		}
		ast.Inspect(fd.Body, func(n ast.Node) bool {
			if be, ok := n.(*ast.BinaryExpr); ok && isIdent(be.Y, rhs) && isIdent(be.X, lhs) && !found {
				res, found = be.Op.String(), true
			}
			return true
		})
		return res, found
	}
	cb := findFunc(f, "memoryThrottler", "CheckBruteforce")
	op, ok := cmpOf(cb, "maxBruteforceAttempts", "l")
	l.str("attemptsCmp", op, ok, "CheckBruteforce: `l <op> maxBruteforceAttempts` not found")
	op, ok = cmpOf(cb, "maxBruteforceDurationThreshold", "delta")
	l.str("windowCmp", op, ok, "CheckBruteforce: `delta <op> maxBruteforceDurationThreshold` not found")
	op, ok = cmpOf(findFunc(f, "memoryThrottler", "filterEntries"), "maxBruteforceAge", "delta")
	l.str("ageCmp", op, ok, "filterEntries: `delta <op> maxBruteforceAge` not found")
	return l
}
