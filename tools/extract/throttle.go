package main

import (
	"fmt"
	"go/ast"
	"go/token"
	"sort"
	"strings"
)

func init() { register(genThrottle) }

// Facts of throttle.go (C17).
func genThrottle(c *ctx) *leanFile {
	l := c.newLean("Throttle", "throttle.go")
	f := c.file("throttle.go")
	scope := pkgValues(f)
	for _, n := range []string{"maxBruteforceAttempts", "maxBruteforceDurationThreshold", "maxBruteforceAge", "maxThrottleDelay"} {
		e, ok := scope[n]
		var v int64
		if ok {
			v, ok = c.evalInt(e, scope, 0)
		}
		l.nat(n, v, ok && v >= 0, "package-level constant not found or not a constant integer expression")
	}

	// getDelay: `if count > N { return maxThrottleDelay }` and
	// `time.Duration(F*intPow(B, count)) * time.<Unit>`
	var guard, factor, base, unit int64
	var okGuard, okFormula bool
	if fd := findFunc(f, "memoryThrottler", "getDelay"); fd != nil && fd.Body != nil {
		ast.Inspect(fd.Body, func(n ast.Node) bool {
			switch x := n.(type) {
			case *ast.IfStmt:
				if be, ok := x.Cond.(*ast.BinaryExpr); ok && be.Op == token.GTR && isIdent(be.X, "count") && len(x.Body.List) == 1 {
					if rs, ok := x.Body.List[0].(*ast.ReturnStmt); ok && len(rs.Results) == 1 && isIdent(rs.Results[0], "maxThrottleDelay") {
						if v, ok := c.evalInt(be.Y, scope, 0); ok && !okGuard {
							guard, okGuard = v, true
						}
					}
				}
			case *ast.BinaryExpr:
				// time.Duration(F*intPow(B, count)) * time.Unit
				if x.Op != token.MUL {
					return true
				}
				call, ok := x.X.(*ast.CallExpr)
				if !ok || !isSel(call.Fun, "time", "Duration") || len(call.Args) != 1 {
					return true
				}
				inner, ok := call.Args[0].(*ast.BinaryExpr)
				if !ok || inner.Op != token.MUL {
					return true
				}
				pc, ok := inner.Y.(*ast.CallExpr)
				if !ok || !isIdent(pc.Fun, "intPow") || len(pc.Args) != 2 || !isIdent(pc.Args[1], "count") {
					return true
				}
				fv, ok1 := c.evalInt(inner.X, scope, 0)
				bv, ok2 := c.evalInt(pc.Args[0], scope, 0)
				uv, ok3 := c.evalInt(x.Y, scope, 0)
				if ok1 && ok2 && ok3 {
					factor, base, unit, okFormula = fv, bv, uv, true
				}
			}
			return true
		})
	}
	l.nat("overflowGuard", guard, okGuard, "getDelay: `if count > N { return maxThrottleDelay }` not found")
	l.nat("delayFactor", factor, okFormula, "getDelay: `time.Duration(F*intPow(B, count)) * time.Unit` not found")
	l.nat("powBase", base, okFormula, "getDelay formula not found")
	l.nat("delayUnit", unit, okFormula, "getDelay formula not found")

	// subnet64 = net.CIDRMask(64, 128)
	var bits int64
	okBits := false
	if e, ok := scope["subnet64"]; ok {
		if call, ok := e.(*ast.CallExpr); ok && isSel(call.Fun, "net", "CIDRMask") && len(call.Args) == 2 {
			ones, ok1 := c.evalInt(call.Args[0], scope, 0)
			total, ok2 := c.evalInt(call.Args[1], scope, 0)
			if ok1 && ok2 && total == 128 {
				bits, okBits = ones, true
			}
		}
	}
	l.nat("subnetBits", bits, okBits, "var subnet64 = net.CIDRMask(n, 128) not found")

	// comparison operators in CheckBruteforce / filterEntries
	cmpOf := func(fd *ast.FuncDecl, rhs string, lhs string) (string, bool) {
		res, found := "", false
		if fd == nil || fd.Body == nil {
			return "", false
		}
		ast.Inspect(fd.Body, func(n ast.Node) bool {
			if be, ok := n.(*ast.BinaryExpr); ok && isIdent(be.Y, rhs) && isIdent(be.X, lhs) && !found {
				res, found = be.Op.String(), true
			}
			return true
		})
		return res, found
	}
	cb := findFunc(f, "memoryThrottler", "CheckBruteforce")
	op, ok := cmpOf(cb, "maxBruteforceAttempts", "l")
	l.str("attemptsCmp", op, ok, "CheckBruteforce: `l <op> maxBruteforceAttempts` not found")
	op, ok = cmpOf(cb, "maxBruteforceDurationThreshold", "delta")
	l.str("windowCmp", op, ok, "CheckBruteforce: `delta <op> maxBruteforceDurationThreshold` not found")
	op, ok = cmpOf(findFunc(f, "memoryThrottler", "filterEntries"), "maxBruteforceAge", "delta")
	l.str("ageCmp", op, ok, "filterEntries: `delta <op> maxBruteforceAge` not found")

	genThrottleLocks(c, l, f)
	return l
}

// ---------------------------------------------------------------------------
// Atomicity facts: which accesses to the failure table (`clients`) a method of
// memoryThrottler performs inside which critical section of its mutex (`mu`).
//
// For every method the analysis enumerates the control-flow paths through its body
// (if/else, return; loops are taken as straight-line code and must not contain
// locking) and records, per path, the sequence of critical sections:
//   ("W", [...])  between mu.Lock()  and mu.Unlock() (or to the end with `defer`)
//   ("R", [...])  between mu.RLock() and mu.RUnlock()
//   ("-", [...])  accesses made while the mutex is not held
// with the kinds of access to the table made inside, in order of first occurrence:
// "read" (any mention of <recv>.clients) and "write" (assignment to an indexed
// location or `delete(...)` in a function that mentions the table — inner maps are
// reached through local aliases, so every indexed store counts).  A call of
// another method of the receiver contributes that method's sections.  Anything the
// analysis does not understand is reported as a failed pattern (broken tie).

type thrSec struct {
	mode string
	acc  []string
}

type thrPath struct {
	secs   []thrSec
	open   bool // the last section is still held
	sticky bool // an unlock has been deferred: it runs when the path returns
	done   bool // path has returned
}

func (p thrPath) clone() thrPath {
	q := thrPath{open: p.open, sticky: p.sticky, done: p.done}
	for _, s := range p.secs {
		q.secs = append(q.secs, thrSec{mode: s.mode, acc: append([]string{}, s.acc...)})
	}
	return q
}

func (p thrPath) lean() string {
	var secs []string
	for _, s := range p.secs {
		q := make([]string, len(s.acc))
		for i, a := range s.acc {
			q[i] = leanStr(a)
		}
		secs = append(secs, fmt.Sprintf("(%s, [%s])", leanStr(s.mode), strings.Join(q, ", ")))
	}
	return "[" + strings.Join(secs, ", ") + "]"
}

func (p thrPath) key() string {
	return fmt.Sprintf("%s|%v|%v|%v", p.lean(), p.open, p.sticky, p.done)
}

func thrDedupe(ps []thrPath) []thrPath {
	seen := map[string]bool{}
	var out []thrPath
	for _, p := range ps {
		k := p.key()
		if !seen[k] {
			seen[k] = true
			out = append(out, p)
		}
	}
	return out
}

func (p *thrPath) access(kind string) {
	if !p.open && (len(p.secs) == 0 || p.secs[len(p.secs)-1].mode != "-") {
		p.secs = append(p.secs, thrSec{mode: "-"})
	}
	s := &p.secs[len(p.secs)-1]
	for _, a := range s.acc {
		if a == kind {
			return
		}
	}
	s.acc = append(s.acc, kind)
}

type thrAn struct {
	f        *ast.File
	recvType string
	mu       string
	table    string
	memo     map[string][]thrPath
	busy     map[string]bool
	fails    []string
}

func (a *thrAn) fail(format string, args ...interface{}) {
	a.fails = append(a.fails, fmt.Sprintf(format, args...))
}

type thrEvent struct {
	kind string // "read", "write", "call", "lock", "rlock", "unlock", "runlock"
	name string
}

func (a *thrAn) muCall(e ast.Expr, rv string) string {
	call, ok := e.(*ast.CallExpr)
	if !ok {
		return ""
	}
	sel, ok := call.Fun.(*ast.SelectorExpr)
	if !ok {
		return ""
	}
	inner, ok := sel.X.(*ast.SelectorExpr)
	if !ok || !isIdent(inner.X, rv) || inner.Sel.Name != a.mu {
		return ""
	}
	return sel.Sel.Name
}

func thrMentions(n ast.Node, rv, field string) bool {
	found := false
	ast.Inspect(n, func(x ast.Node) bool {
		if s, ok := x.(*ast.SelectorExpr); ok && isIdent(s.X, rv) && s.Sel.Name == field {
			found = true
		}
		return !found
	})
	return found
}

// events lists the table accesses / method calls / mutex calls of a node in evaluation order
// (function literals are not entered: they run later).
func (a *thrAn) events(n ast.Node, rv string, hasTable bool) []thrEvent {
	var out []thrEvent
	var walk func(n ast.Node)
	walk = func(n ast.Node) {
		if n == nil {
			return
		}
		ast.Inspect(n, func(x ast.Node) bool {
			switch y := x.(type) {
			case *ast.FuncLit:
				return false
			case *ast.AssignStmt:
				for _, r := range y.Rhs {
					walk(r)
				}
				store := false
				for _, lh := range y.Lhs {
					switch z := lh.(type) {
					case *ast.IndexExpr:
						walk(z.X)
						walk(z.Index)
						store = true
					case *ast.SelectorExpr:
						if isIdent(z.X, rv) && z.Sel.Name == a.table {
							store = true
						} else {
							walk(z)
						}
					default:
						walk(lh)
					}
				}
				if store && hasTable {
					out = append(out, thrEvent{kind: "write"})
				}
				return false
			case *ast.IncDecStmt:
				if ix, ok := y.X.(*ast.IndexExpr); ok {
					walk(ix.X)
					walk(ix.Index)
					if hasTable {
						out = append(out, thrEvent{kind: "write"})
					}
					return false
				}
			case *ast.CallExpr:
				if m := a.muCall(y, rv); m != "" {
					switch m {
					case "Lock":
						out = append(out, thrEvent{kind: "lock"})
					case "RLock":
						out = append(out, thrEvent{kind: "rlock"})
					case "Unlock":
						out = append(out, thrEvent{kind: "unlock"})
					case "RUnlock":
						out = append(out, thrEvent{kind: "runlock"})
					default:
						out = append(out, thrEvent{kind: "mu?", name: m})
					}
					return false
				}
				if isIdent(y.Fun, "delete") {
					for _, arg := range y.Args {
						walk(arg)
					}
					if hasTable {
						out = append(out, thrEvent{kind: "write"})
					}
					return false
				}
				if sel, ok := y.Fun.(*ast.SelectorExpr); ok && isIdent(sel.X, rv) && findFunc(a.f, a.recvType, sel.Sel.Name) != nil {
					for _, arg := range y.Args {
						walk(arg)
					}
					out = append(out, thrEvent{kind: "call", name: sel.Sel.Name})
					return false
				}
			case *ast.SelectorExpr:
				if isIdent(y.X, rv) && y.Sel.Name == a.table {
					out = append(out, thrEvent{kind: "read"})
					return false
				}
				if isIdent(y.X, rv) && y.Sel.Name == a.mu {
					// the mutex used in a way other than <recv>.mu.<Method>()
					out = append(out, thrEvent{kind: "mu?", name: "value"})
					return false
				}
			}
			return true
		})
	}
	walk(n)
	return out
}

func (a *thrAn) apply(fn string, ps []thrPath, evs []thrEvent, depth int) []thrPath {
	for _, ev := range evs {
		var next []thrPath
		for _, p := range ps {
			if p.done {
				next = append(next, p)
				continue
			}
			switch ev.kind {
			case "read", "write":
				p = p.clone()
				p.access(ev.kind)
				next = append(next, p)
			case "lock", "rlock":
				if p.open {
					a.fail("%s: mutex taken while it is already held", fn)
				}
				p = p.clone()
				mode := "W"
				if ev.kind == "rlock" {
					mode = "R"
				}
				p.secs = append(p.secs, thrSec{mode: mode})
				p.open = true
				next = append(next, p)
			case "unlock", "runlock":
				want := "W"
				if ev.kind == "runlock" {
					want = "R"
				}
				if !p.open || p.secs[len(p.secs)-1].mode != want {
					a.fail("%s: %s without the matching lock", fn, ev.kind)
				}
				p = p.clone()
				p.open = false
				next = append(next, p)
			case "call":
				for _, cp := range a.paths(ev.name, depth+1) {
					q := p.clone()
					for _, s := range cp.secs {
						if s.mode == "-" {
							for _, k := range s.acc {
								q.access(k)
							}
							continue
						}
						if q.open {
							a.fail("%s: calls %s (which takes the mutex) while holding it", fn, ev.name)
						}
						q.secs = append(q.secs, thrSec{mode: s.mode, acc: append([]string{}, s.acc...)})
					}
					next = append(next, q)
				}
			default:
				a.fail("%s: use of the mutex not understood (%s)", fn, ev.name)
				next = append(next, p)
			}
		}
		ps = thrDedupe(next)
	}
	return ps
}

func thrHasReturn(n ast.Node) bool {
	found := false
	ast.Inspect(n, func(x ast.Node) bool {
		switch x.(type) {
		case *ast.FuncLit:
			return false
		case *ast.ReturnStmt:
			found = true
		}
		return !found
	})
	return found
}

func (a *thrAn) stmts(fn string, ps []thrPath, list []ast.Stmt, rv string, hasTable bool, depth int) []thrPath {
	for _, s := range list {
		ps = a.stmt(fn, ps, s, rv, hasTable, depth)
	}
	return ps
}

func (a *thrAn) stmt(fn string, ps []thrPath, s ast.Stmt, rv string, hasTable bool, depth int) []thrPath {
	switch x := s.(type) {
	case nil:
		return ps
	case *ast.BlockStmt:
		return a.stmts(fn, ps, x.List, rv, hasTable, depth)
	case *ast.DeferStmt:
		if m := a.muCall(x.Call, rv); m != "" {
			var next []thrPath
			for _, p := range ps {
				if !p.done {
					want := map[string]string{"Unlock": "W", "RUnlock": "R"}[m]
					if !p.open || want == "" || p.secs[len(p.secs)-1].mode != want || p.sticky {
						a.fail("%s: deferred %s without the matching lock", fn, m)
					}
					p = p.clone()
					p.sticky = true
				}
				next = append(next, p)
			}
			return next
		}
		return a.apply(fn, ps, a.events(x.Call, rv, hasTable), depth)
	case *ast.IfStmt:
		ps = a.stmt(fn, ps, x.Init, rv, hasTable, depth)
		ps = a.apply(fn, ps, a.events(x.Cond, rv, hasTable), depth)
		thenPs := a.stmts(fn, ps, x.Body.List, rv, hasTable, depth)
		elsePs := ps
		if x.Else != nil {
			elsePs = a.stmt(fn, ps, x.Else, rv, hasTable, depth)
		}
		return thrDedupe(append(append([]thrPath{}, thenPs...), elsePs...))
	case *ast.ReturnStmt:
		ps = a.apply(fn, ps, a.events(x, rv, hasTable), depth)
		var next []thrPath
		for _, p := range ps {
			if !p.done {
				p = p.clone()
				p.done = true
			}
			next = append(next, p)
		}
		return thrDedupe(next)
	case *ast.ForStmt, *ast.RangeStmt, *ast.SwitchStmt, *ast.TypeSwitchStmt, *ast.SelectStmt:
		evs := a.events(x, rv, hasTable)
		for _, ev := range evs {
			locking := ev.kind != "read" && ev.kind != "write" && ev.kind != "call"
			if ev.kind == "call" {
				for _, cp := range a.paths(ev.name, depth+1) {
					for _, sec := range cp.secs {
						if sec.mode != "-" {
							locking = true
						}
					}
				}
			}
			if locking {
				a.fail("%s: locking inside a loop/switch is not understood", fn)
			}
		}
		out := a.apply(fn, ps, evs, depth)
		if thrHasReturn(x) {
			var fork []thrPath
			for _, p := range out {
				if !p.done {
					q := p.clone()
					q.done = true
					fork = append(fork, q)
				}
			}
			out = thrDedupe(append(out, fork...))
		}
		return out
	case *ast.GoStmt:
		a.fail("%s: go statement not understood", fn)
		return ps
	default:
		return a.apply(fn, ps, a.events(s, rv, hasTable), depth)
	}
}

// paths returns the section sequences of all control-flow paths of method fn.
func (a *thrAn) paths(fn string, depth int) []thrPath {
	if ps, ok := a.memo[fn]; ok {
		return ps
	}
	fd := findFunc(a.f, a.recvType, fn)
	if fd == nil || fd.Body == nil || fd.Recv == nil || len(fd.Recv.List) != 1 || len(fd.Recv.List[0].Names) != 1 {
		a.fail("method %s.%s not found", a.recvType, fn)
		return nil
	}
	if a.busy[fn] || depth > 8 {
		a.fail("%s: recursion not understood", fn)
		return nil
	}
	a.busy[fn] = true
	rv := fd.Recv.List[0].Names[0].Name
	hasTable := thrMentions(fd.Body, rv, a.table)
	ps := a.stmts(fn, []thrPath{{}}, fd.Body.List, rv, hasTable, depth)
	var out []thrPath
	for _, p := range ps {
		if p.open && !p.sticky {
			a.fail("%s: a path ends with the mutex held", fn)
		}
		if !p.open && p.sticky {
			a.fail("%s: a path ends with a deferred unlock of a mutex it no longer holds", fn)
		}
		q := p.clone()
		q.open, q.sticky, q.done = false, false, false
		out = append(out, q)
	}
	out = thrDedupe(out)
	sort.Slice(out, func(i, j int) bool { return out[i].lean() < out[j].lean() })
	a.busy[fn] = false
	a.memo[fn] = out
	return out
}

func genThrottleLocks(c *ctx, l *leanFile, f *ast.File) {
	const recvType, mu, table = "memoryThrottler", "mu", "clients"
	// the struct has the two fields
	okStruct := false
	if f != nil {
		ast.Inspect(f, func(n ast.Node) bool {
			ts, ok := n.(*ast.TypeSpec)
			if !ok || ts.Name.Name != recvType {
				return true
			}
			st, ok := ts.Type.(*ast.StructType)
			if !ok {
				return false
			}
			okMu, okTable := false, false
			for _, fld := range st.Fields.List {
				for _, nm := range fld.Names {
					if nm.Name == mu && (isSel(fld.Type, "sync", "RWMutex") || isSel(fld.Type, "sync", "Mutex")) {
						okMu = true
					}
					if nm.Name == table {
						okTable = true
					}
				}
			}
			okStruct = okMu && okTable
			return false
		})
	}

	// every function of the file that touches the table (selector `<x>.clients`)
	var accessors []string
	if f != nil {
		for _, d := range f.Decls {
			fd, ok := d.(*ast.FuncDecl)
			if !ok || fd.Body == nil {
				continue
			}
			touched := false
			ast.Inspect(fd.Body, func(n ast.Node) bool {
				if s, ok := n.(*ast.SelectorExpr); ok && s.Sel.Name == table {
					touched = true
				}
				return !touched
			})
			if touched {
				name := fd.Name.Name
				if fd.Recv != nil && len(fd.Recv.List) == 1 {
					t := fd.Recv.List[0].Type
					if s, ok := t.(*ast.StarExpr); ok {
						t = s.X
					}
					if id, ok := t.(*ast.Ident); ok && id.Name != recvType {
						name = id.Name + "." + name
					}
				} else {
					name = "func " + name
				}
				accessors = append(accessors, name)
			}
		}
	}
	sort.Strings(accessors)
	l.strList("tableAccessors", accessors, okStruct, "struct memoryThrottler with fields mu (sync.RWMutex) and clients not found")

	// no method that touches the table is handed an entry list computed elsewhere (e.g. read in an earlier
	// critical section): what a section writes can only come from what it read itself, plus scalars
	var listParam []string
	if f != nil {
		for _, d := range f.Decls {
			fd, ok := d.(*ast.FuncDecl)
			if !ok || fd.Body == nil || fd.Type.Params == nil {
				continue
			}
			touched := false
			ast.Inspect(fd.Body, func(n ast.Node) bool {
				if s, ok := n.(*ast.SelectorExpr); ok && s.Sel.Name == table {
					touched = true
				}
				return !touched
			})
			if !touched {
				continue
			}
			for _, prm := range fd.Type.Params.List {
				bad := false
				ast.Inspect(prm.Type, func(n ast.Node) bool {
					switch n.(type) {
					case *ast.ArrayType, *ast.MapType, *ast.StarExpr, *ast.FuncType, *ast.ChanType, *ast.InterfaceType, *ast.Ellipsis:
						bad = true
					}
					return !bad
				})
				if bad {
					listParam = append(listParam, fd.Name.Name)
					break
				}
			}
		}
	}
	sort.Strings(listParam)
	l.strList("tableAccessorsWithListParam", listParam, okStruct, "struct memoryThrottler not found")

	an := &thrAn{f: f, recvType: recvType, mu: mu, table: table, memo: map[string][]thrPath{}, busy: map[string]bool{}}
	pathsLean := func(fn string) (string, string) {
		an.fails = nil
		var ps []thrPath
		if f != nil {
			ps = an.paths(fn, 0)
		} else {
			an.fail("throttle.go not readable")
		}
		if len(an.fails) > 0 || len(ps) == 0 {
			why := "no path found"
			if len(an.fails) > 0 {
				why = an.fails[0]
			}
			// a failed analysis must not be served from the memo to the next fact as if it were fine
			an.memo = map[string][]thrPath{}
			return "", why
		}
		q := make([]string, len(ps))
		for i, p := range ps {
			q[i] = p.lean()
		}
		return "[" + strings.Join(q, ", ") + "]", ""
	}
	for _, m := range []struct{ fact, fn string }{
		{"addEntryPaths", "addEntry"}, {"cleanupPaths", "cleanup"}, {"throttlePaths", "throttle"},
		{"checkBruteforcePaths", "CheckBruteforce"},
	} {
		l.fact(m.fact)
		v, why := pathsLean(m.fn)
		if why != "" {
			l.fail(m.fact + ": " + why)
			l.raw(fmt.Sprintf("def %s : List (List (String × List String)) := [] -- EXTRACTION FAILED: %s", m.fact, why))
			continue
		}
		l.raw(fmt.Sprintf("def %s : List (List (String × List String)) := %s", m.fact, v))
	}
	// ... and the sections of every function that touches the table, whatever it is called
	l.fact("accessorPaths")
	var accs []string
	accWhy := ""
	for _, name := range accessors {
		v, why := pathsLean(name)
		if why != "" {
			accWhy = why
			break
		}
		accs = append(accs, fmt.Sprintf("(%s, %s)", leanStr(name), v))
	}
	if accWhy != "" || len(accessors) == 0 {
		if accWhy == "" {
			accWhy = "no function touches the table"
		}
		l.fail("accessorPaths: " + accWhy)
		l.raw("def accessorPaths : List (String × List (List (String × List String))) := [] -- EXTRACTION FAILED: " + accWhy)
	} else {
		l.raw("def accessorPaths : List (String × List (List (String × List String))) := [" + strings.Join(accs, ", ") + "]")
	}
}
