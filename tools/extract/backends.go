package main

import (
	"bytes"
	"fmt"
	"go/ast"
	"go/printer"
	"go/token"
	"sort"
	"strings"
)

func init() { register(genBackends) }

// Facts of backend_configuration.go / backend_storage_static.go /
// backend_storage_etcd.go (C13).
//
//  1. Lock programs: for every entry point of the two storages the set of
//     sequences of calls `<recv>.mu.{RLock,RUnlock,Lock,Unlock}()` along every
//     syntactic path through the function, following calls to methods of the
//     same receiver (incl. the embedded backendStorageCommon) and to plain
//     functions defined in the three files.  `defer` is honoured (LIFO at the
//     end of the function), `if`/`switch` fork, loops run 0 or 1 times,
//     function literals and `go` statements are other goroutines and are not
//     followed.
//  2. The scheme rule of Backend.IsUrlAllowed and the shape of the lookup loop
//     in getBackendLocked (first entry whose '/'-terminated url is a prefix wins).
//  3. The guard of backendStorageStatic.Reload (`backendIds != ""`).

var backendFiles = []string{"backend_configuration.go", "backend_storage_static.go", "backend_storage_etcd.go"}

type lockPath struct {
	ops    []string
	defers []string // pushed in order; run reversed at function end
}

func (p lockPath) key() string { return strings.Join(p.ops, ",") + "|" + strings.Join(p.defers, ",") }

func (p lockPath) with(ops ...string) lockPath {
	n := lockPath{ops: append(append([]string{}, p.ops...), ops...), defers: append([]string{}, p.defers...)}
	return n
}

func dedupe(ps []lockPath) []lockPath {
	seen := map[string]bool{}
	var out []lockPath
	for _, p := range ps {
		k := p.key()
		if !seen[k] {
			seen[k] = true
			out = append(out, p)
		}
	}
	return out
}

type lockWalker struct {
	c      *ctx
	files  []*ast.File
	embeds map[string][]string // struct type -> embedded struct types
	errs   []string
}

func (w *lockWalker) errorf(format string, a ...any) {
	w.errs = append(w.errs, fmt.Sprintf(format, a...))
}

func (w *lockWalker) findMethod(recv, name string) (*ast.FuncDecl, string) {
	for _, f := range w.files {
		if fd := findFunc(f, recv, name); fd != nil {
			return fd, recv
		}
	}
	for _, e := range w.embeds[recv] {
		if fd, r := w.findMethod(e, name); fd != nil {
			return fd, r
		}
	}
	return nil, ""
}

func recvName(fd *ast.FuncDecl) string {
	if fd.Recv == nil || len(fd.Recv.List) != 1 || len(fd.Recv.List[0].Names) != 1 {
		return ""
	}
	return fd.Recv.List[0].Names[0].Name
}

var lockOps = map[string]bool{"RLock": true, "RUnlock": true, "Lock": true, "Unlock": true}

// classify a call: ("op", name) for <recv>.mu.X(), ("method", name) for
// <recv>.name(...), ("func", name) for name(...), ("", "") otherwise.
func (w *lockWalker) classify(call *ast.CallExpr, recvVar string) (string, string) {
	switch fn := call.Fun.(type) {
	case *ast.SelectorExpr:
		if inner, ok := fn.X.(*ast.SelectorExpr); ok && recvVar != "" && isIdent(inner.X, recvVar) && inner.Sel.Name == "mu" {
			if lockOps[fn.Sel.Name] {
				return "op", fn.Sel.Name
			}
			return "", ""
		}
		if recvVar != "" && isIdent(fn.X, recvVar) {
			return "method", fn.Sel.Name
		}
	case *ast.Ident:
		return "func", fn.Name
	}
	return "", ""
}

// callsIn lists the call expressions of a node in source order, not entering
// function literals.
func callsIn(n ast.Node) []*ast.CallExpr {
	var out []*ast.CallExpr
	if n == nil {
		return nil
	}
	ast.Inspect(n, func(x ast.Node) bool {
		switch v := x.(type) {
		case *ast.FuncLit:
			return false
		case *ast.CallExpr:
			// arguments are evaluated before the call itself
			for _, a := range v.Args {
				out = append(out, callsIn(a)...)
			}
			if s, ok := v.Fun.(*ast.SelectorExpr); ok {
				out = append(out, callsIn(s.X)...)
			}
			out = append(out, v)
			return false
		}
		return true
	})
	return out
}

// funcPaths returns the complete lock-op sequences of one function (defers applied).
func (w *lockWalker) funcPaths(fd *ast.FuncDecl, recvType string, depth int) [][]string {
	if depth > 8 {
		w.errorf("call depth exceeded at %s", fd.Name.Name)
		return [][]string{{}}
	}
	if fd.Body == nil {
		return [][]string{{}}
	}
	rv := recvName(fd)
	fall, ret, brk := w.walkStmts(fd.Body.List, []lockPath{{}}, rv, recvType, depth)
	if len(brk) > 0 {
		w.errorf("%s: break/continue outside loop", fd.Name.Name)
	}
	all := append(append([]lockPath{}, fall...), ret...)
	seen := map[string]bool{}
	var out [][]string
	for _, p := range all {
		ops := append([]string{}, p.ops...)
		for i := len(p.defers) - 1; i >= 0; i-- {
			ops = append(ops, p.defers[i])
		}
		k := strings.Join(ops, ",")
		if !seen[k] {
			seen[k] = true
			out = append(out, ops)
		}
	}
	return out
}

// applyCalls threads the calls found in node n through every path.
func (w *lockWalker) applyCalls(n ast.Node, in []lockPath, rv, recvType string, depth int) (cont []lockPath, term []lockPath) {
	cont = in
	for _, call := range callsIn(n) {
		kind, name := w.classify(call, rv)
		switch kind {
		case "op":
			for i := range cont {
				cont[i] = cont[i].with(name)
			}
		case "method", "func":
			if kind == "func" && name == "panic" {
				term = append(term, cont...)
				return nil, term
			}
			var fd *ast.FuncDecl
			rt := ""
			if kind == "method" {
				fd, rt = w.findMethod(recvType, name)
			} else {
				for _, f := range w.files {
					if d := findFunc(f, "", name); d != nil {
						fd = d
					}
				}
			}
			if fd == nil {
				continue // not defined in the three files: no access to this mutex
			}
			sub := w.funcPaths(fd, rt, depth+1)
			var next []lockPath
			for _, p := range cont {
				for _, s := range sub {
					next = append(next, p.with(s...))
				}
			}
			cont = dedupe(next)
		}
	}
	return cont, term
}

func (w *lockWalker) walkStmts(stmts []ast.Stmt, in []lockPath, rv, recvType string, depth int) (fall, ret, brk []lockPath) {
	cur := in
	for _, st := range stmts {
		if len(cur) == 0 {
			break
		}
		var r, b []lockPath
		cur, r, b = w.walkStmt(st, cur, rv, recvType, depth)
		ret = append(ret, r...)
		brk = append(brk, b...)
		cur = dedupe(cur)
	}
	return cur, dedupe(ret), dedupe(brk)
}

func (w *lockWalker) walkStmt(st ast.Stmt, in []lockPath, rv, recvType string, depth int) (fall, ret, brk []lockPath) {
	switch s := st.(type) {
	case nil:
		return in, nil, nil
	case *ast.BlockStmt:
		return w.walkStmts(s.List, in, rv, recvType, depth)
	case *ast.ReturnStmt:
		cont, term := w.applyCalls(s, in, rv, recvType, depth)
		return nil, append(term, cont...), nil
	case *ast.DeferStmt:
		// arguments now, the call itself at function end
		cur := in
		var term []lockPath
		for _, a := range s.Call.Args {
			var t []lockPath
			cur, t = w.applyCalls(a, cur, rv, recvType, depth)
			term = append(term, t...)
		}
		kind, name := w.classify(s.Call, rv)
		switch kind {
		case "op":
			for i := range cur {
				cur[i] = lockPath{ops: cur[i].ops, defers: append(append([]string{}, cur[i].defers...), name)}
			}
		case "method":
			if fd, rt := w.findMethod(recvType, name); fd != nil {
				sub := w.funcPaths(fd, rt, depth+1)
				nonEmpty := false
				for _, sp := range sub {
					if len(sp) > 0 {
						nonEmpty = true
					}
				}
				if nonEmpty {
					w.errorf("deferred call to %s touches the mutex: not supported by the extractor", name)
				}
			}
		}
		return cur, term, nil
	case *ast.GoStmt:
		return in, nil, nil
	case *ast.BranchStmt:
		if s.Tok == token.BREAK || s.Tok == token.CONTINUE {
			return nil, nil, in
		}
		w.errorf("unsupported branch statement %s", s.Tok)
		return in, nil, nil
	case *ast.IfStmt:
		cur, r0, _ := w.walkStmt(s.Init, in, rv, recvType, depth)
		cur, t0 := w.applyCalls(s.Cond, cur, rv, recvType, depth)
		ret = append(append(ret, r0...), t0...)
		f1, r1, b1 := w.walkStmts(s.Body.List, clonePaths(cur), rv, recvType, depth)
		var f2, r2, b2 []lockPath
		if s.Else != nil {
			f2, r2, b2 = w.walkStmt(s.Else, clonePaths(cur), rv, recvType, depth)
		} else {
			f2 = cur
		}
		return dedupe(append(f1, f2...)), append(append(ret, r1...), r2...), append(b1, b2...)
	case *ast.ForStmt:
		cur, r0, _ := w.walkStmt(s.Init, in, rv, recvType, depth)
		cur, t0 := w.applyCalls(s.Cond, cur, rv, recvType, depth)
		ret = append(append(ret, r0...), t0...)
		f1, r1, b1 := w.walkStmts(s.Body.List, clonePaths(cur), rv, recvType, depth)
		f1, _, _ = w.walkStmt(s.Post, f1, rv, recvType, depth)
		return dedupe(append(append(cur, f1...), b1...)), append(ret, r1...), nil
	case *ast.RangeStmt:
		cur, t0 := w.applyCalls(s.X, in, rv, recvType, depth)
		f1, r1, b1 := w.walkStmts(s.Body.List, clonePaths(cur), rv, recvType, depth)
		return dedupe(append(append(cur, f1...), b1...)), append(t0, r1...), nil
	case *ast.SwitchStmt:
		cur, r0, _ := w.walkStmt(s.Init, in, rv, recvType, depth)
		cur, t0 := w.applyCalls(s.Tag, cur, rv, recvType, depth)
		ret = append(append(ret, r0...), t0...)
		return w.walkClauses(s.Body, cur, ret, rv, recvType, depth)
	case *ast.TypeSwitchStmt:
		cur, r0, _ := w.walkStmt(s.Init, in, rv, recvType, depth)
		cur, r1, _ := w.walkStmt(s.Assign, cur, rv, recvType, depth)
		return w.walkClauses(s.Body, cur, append(r0, r1...), rv, recvType, depth)
	case *ast.SelectStmt:
		return w.walkClauses(s.Body, in, nil, rv, recvType, depth)
	case *ast.LabeledStmt:
		return w.walkStmt(s.Stmt, in, rv, recvType, depth)
	default:
		cont, term := w.applyCalls(st, in, rv, recvType, depth)
		return cont, term, nil
	}
}

func (w *lockWalker) walkClauses(body *ast.BlockStmt, cur, ret []lockPath, rv, recvType string, depth int) ([]lockPath, []lockPath, []lockPath) {
	fall := clonePaths(cur) // no clause taken
	for _, cl := range body.List {
		var stmts []ast.Stmt
		switch c := cl.(type) {
		case *ast.CaseClause:
			stmts = c.Body
		case *ast.CommClause:
			stmts = append([]ast.Stmt{c.Comm}, c.Body...)
		}
		f, r, b := w.walkStmts(stmts, clonePaths(cur), rv, recvType, depth)
		fall = append(append(fall, f...), b...) // break leaves the switch
		ret = append(ret, r...)
	}
	return dedupe(fall), ret, nil
}

func clonePaths(ps []lockPath) []lockPath {
	out := make([]lockPath, len(ps))
	for i, p := range ps {
		out[i] = p.with()
	}
	return out
}

func leanStrListList(xs [][]string) string {
	rows := make([]string, len(xs))
	for i, x := range xs {
		q := make([]string, len(x))
		for j, v := range x {
			q[j] = leanStr(v)
		}
		rows[i] = "[" + strings.Join(q, ", ") + "]"
	}
	return "[" + strings.Join(rows, ", ") + "]"
}

func genBackends(c *ctx) *leanFile {
	l := c.newLean("Backends", backendFiles...)
	w := &lockWalker{c: c, embeds: map[string][]string{}}
	for _, name := range backendFiles {
		if f := c.file(name); f != nil {
			w.files = append(w.files, f)
		} else {
			l.fail("cannot read/parse " + name)
		}
	}
	// embedded struct fields
	for _, f := range w.files {
		for _, d := range f.Decls {
			gd, ok := d.(*ast.GenDecl)
			if !ok || gd.Tok != token.TYPE {
				continue
			}
			for _, sp := range gd.Specs {
				ts := sp.(*ast.TypeSpec)
				stt, ok := ts.Type.(*ast.StructType)
				if !ok {
					continue
				}
				for _, fl := range stt.Fields.List {
					if len(fl.Names) == 0 {
						if id, ok := fl.Type.(*ast.Ident); ok {
							w.embeds[ts.Name.Name] = append(w.embeds[ts.Name.Name], id.Name)
						}
					}
				}
			}
		}
	}

	type entry struct{ lean, recv, method string }
	entries := []entry{
		{"staticGetBackend", "backendStorageStatic", "GetBackend"},
		{"staticGetBackends", "backendStorageStatic", "GetBackends"},
		{"staticGetCompatBackend", "backendStorageStatic", "GetCompatBackend"},
		{"staticReload", "backendStorageStatic", "Reload"},
		{"etcdGetBackend", "backendStorageEtcd", "GetBackend"},
		{"etcdGetBackends", "backendStorageEtcd", "GetBackends"},
		{"etcdGetCompatBackend", "backendStorageEtcd", "GetCompatBackend"},
		{"etcdReload", "backendStorageEtcd", "Reload"},
		{"etcdKeyUpdated", "backendStorageEtcd", "EtcdKeyUpdated"},
		{"etcdKeyDeleted", "backendStorageEtcd", "EtcdKeyDeleted"},
	}
	var names []string
	for _, e := range entries {
		l.fact(e.lean)
		fd, rt := w.findMethod(e.recv, e.method)
		if fd == nil {
			l.fail(fmt.Sprintf("%s: method (%s).%s not found", e.lean, e.recv, e.method))
			l.raw(fmt.Sprintf("def %s : List (List String) := [[\"?\"]] -- EXTRACTION FAILED: method not found", e.lean))
			names = append(names, e.lean)
			continue
		}
		w.errs = nil
		paths := w.funcPaths(fd, rt, 0)
		sort.Slice(paths, func(i, j int) bool { return strings.Join(paths[i], ",") < strings.Join(paths[j], ",") })
		if len(w.errs) > 0 {
			l.fail(fmt.Sprintf("%s: %s", e.lean, strings.Join(w.errs, "; ")))
			l.raw(fmt.Sprintf("def %s : List (List String) := [[\"?\"]] -- EXTRACTION FAILED: %s", e.lean, strings.Join(w.errs, "; ")))
		} else {
			l.raw(fmt.Sprintf("def %s : List (List String) := %s", e.lean, leanStrListList(paths)))
		}
		names = append(names, e.lean)
	}
	q := make([]string, len(names))
	for i, n := range names {
		q[i] = fmt.Sprintf("(%s, %s)", leanStr(n), n)
	}
	l.raw("def lockPrograms : List (String × List (List String)) := [" + strings.Join(q, ", ") + "]")

	// every other use of `.mu.` in the three files must be inside one of the functions reached above
	// (cheap guard against a new locking site the walk does not know about)
	reached := map[string]bool{}
	var mark func(fd *ast.FuncDecl, rt string, depth int)
	mark = func(fd *ast.FuncDecl, rt string, depth int) {
		k := rt + "." + fd.Name.Name
		if reached[k] || depth > 8 || fd.Body == nil {
			return
		}
		reached[k] = true
		rv := recvName(fd)
		for _, call := range callsIn(fd.Body) {
			kind, name := w.classify(call, rv)
			if kind == "method" {
				if d, r := w.findMethod(rt, name); d != nil {
					mark(d, r, depth+1)
				}
			} else if kind == "func" {
				for _, f := range w.files {
					if d := findFunc(f, "", name); d != nil {
						mark(d, "", depth+1)
					}
				}
			}
		}
	}
	for _, e := range entries {
		if fd, rt := w.findMethod(e.recv, e.method); fd != nil {
			mark(fd, rt, 0)
		}
	}
	var stray []string
	for _, f := range w.files {
		for _, d := range f.Decls {
			fd, ok := d.(*ast.FuncDecl)
			if !ok || fd.Body == nil {
				continue
			}
			uses := false
			ast.Inspect(fd.Body, func(n ast.Node) bool {
				if se, ok := n.(*ast.SelectorExpr); ok && lockOps[se.Sel.Name] {
					if inner, ok := se.X.(*ast.SelectorExpr); ok && inner.Sel.Name == "mu" {
						uses = true
					}
				}
				return true
			})
			if !uses {
				continue
			}
			rt := ""
			if fd.Recv != nil && len(fd.Recv.List) == 1 {
				t := fd.Recv.List[0].Type
				if s, ok := t.(*ast.StarExpr); ok {
					t = s.X
				}
				if id, ok := t.(*ast.Ident); ok {
					rt = id.Name
				}
			}
			if !reached[rt+"."+fd.Name.Name] {
				stray = append(stray, rt+"."+fd.Name.Name)
			}
		}
	}
	l.strList("unreachedLockUsers", stray, true, "")
	if len(stray) > 0 {
		l.fail("functions touching .mu that are not reachable from the modelled entry points: " + strings.Join(stray, ", "))
	}

	// ---- scheme rule: Backend.IsUrlAllowed ----
	cfgFile := c.file("backend_configuration.go")
	var httpsRule, httpRule, defRule string
	okRules := false
	if fd := findFunc(cfgFile, "Backend", "IsUrlAllowed"); fd != nil && fd.Body != nil && len(fd.Body.List) == 1 {
		if sw, ok := fd.Body.List[0].(*ast.SwitchStmt); ok {
			if se, ok := sw.Tag.(*ast.SelectorExpr); ok && se.Sel.Name == "Scheme" {
				okRules = true
				for _, cl := range sw.Body.List {
					cc := cl.(*ast.CaseClause)
					val := ""
					if len(cc.Body) == 1 {
						if rs, ok := cc.Body[0].(*ast.ReturnStmt); ok && len(rs.Results) == 1 {
							switch r := rs.Results[0].(type) {
							case *ast.Ident:
								val = r.Name
							case *ast.SelectorExpr:
								val = r.Sel.Name
							}
						}
					}
					if val == "" {
						okRules = false
					}
					if cc.List == nil {
						defRule = val
						continue
					}
					for _, e := range cc.List {
						s, ok := strLit(e)
						if !ok {
							okRules = false
						}
						switch s {
						case "https":
							httpsRule = val
						case "http":
							httpRule = val
						default:
							okRules = false
						}
					}
				}
			}
		}
	}
	why := "Backend.IsUrlAllowed: `switch u.Scheme { case \"https\": return X; case \"http\": return Y; default: return Z }` not found"
	l.str("schemeHttps", httpsRule, okRules && httpsRule != "", why)
	l.str("schemeHttp", httpRule, okRules && httpRule != "", why)
	l.str("schemeOther", defRule, okRules && defRule != "", why)

	// ---- getBackendLocked:
	//   if url[len(url)-1] != '/' { url += "/" }
	//   for range entries { if !entry.IsUrlAllowed(u) {continue}; if entry.url == "" {return entry};
	//     entryUrl := entry.url; if entryUrl[len(entryUrl)-1] != '/' { entryUrl += "/" }; if strings.HasPrefix(url, entryUrl) {return entry} }
	//   return nil
	// lookupUsesHasPrefix: the comparison is strings.HasPrefix(url, X) with X = entry.url or a loop-local copy of it;
	// lookupEntrySlashTerminated: that copy gets a "/" appended when it does not end in one, before the comparison.
	firstMatch, prefixArgs, slashAppended, entrySlash := false, false, false, false
	appendsSlashTo := func(st ast.Stmt, name string) bool {
		// if <name>[len(<name>)-1] != '/' { <name> += "/" }
		is, ok := st.(*ast.IfStmt)
		if !ok || is.Init != nil || is.Else != nil || len(is.Body.List) != 1 {
			return false
		}
		want := name + "[len(" + name + ")-1]!='/'"
		if strings.Join(strings.Fields(srcText(c.fset, is.Cond)), "") != want {
			return false
		}
		as, ok := is.Body.List[0].(*ast.AssignStmt)
		if !ok || as.Tok != token.ADD_ASSIGN || len(as.Lhs) != 1 || !isIdent(as.Lhs[0], name) {
			return false
		}
		v, ok := strLit(as.Rhs[0])
		return ok && v == "/"
	}
	if fd := findFunc(cfgFile, "backendStorageCommon", "getBackendLocked"); fd != nil && fd.Body != nil {
		for _, st := range fd.Body.List {
			switch s := st.(type) {
			case *ast.RangeStmt:
				if !isIdent(s.X, "entries") || !isIdent(s.Value, "entry") {
					continue
				}
				returnsEntry := 0
				isEntryUrl := func(e ast.Expr) bool {
					se, ok := e.(*ast.SelectorExpr)
					return ok && isIdent(se.X, "entry") && se.Sel.Name == "url"
				}
				// loop-local copies of entry.url (top-level statements of the loop body, in order)
				copyOf := map[string]bool{}
				slashed := map[string]bool{}
				compared := ""
				for _, bst := range s.Body.List {
					if as, ok := bst.(*ast.AssignStmt); ok && as.Tok == token.DEFINE && len(as.Lhs) == 1 && len(as.Rhs) == 1 && isEntryUrl(as.Rhs[0]) {
						if id, ok := as.Lhs[0].(*ast.Ident); ok {
							copyOf[id.Name] = true
						}
					}
					for name := range copyOf {
						if compared == "" && appendsSlashTo(bst, name) {
							slashed[name] = true
						}
					}
					ast.Inspect(bst, func(n ast.Node) bool {
						if x, ok := n.(*ast.CallExpr); ok && isSel(x.Fun, "strings", "HasPrefix") && len(x.Args) == 2 && isIdent(x.Args[0], "url") {
							if isEntryUrl(x.Args[1]) {
								prefixArgs, compared = true, "entry.url"
							} else if id, ok := x.Args[1].(*ast.Ident); ok && copyOf[id.Name] {
								prefixArgs, compared = true, id.Name
							}
						}
						return true
					})
				}
				entrySlash = compared != "" && slashed[compared]
				ast.Inspect(s.Body, func(n ast.Node) bool {
					if x, ok := n.(*ast.ReturnStmt); ok {
						if len(x.Results) == 1 && isIdent(x.Results[0], "entry") {
							returnsEntry++
						} else {
							returnsEntry = -100
						}
					}
					return true
				})
				firstMatch = returnsEntry == 2
			case *ast.IfStmt:
				if appendsSlashTo(s, "url") {
					slashAppended = true
				}
			}
		}
	}
	l.boolean("lookupFirstMatchWins", firstMatch, firstMatch, "getBackendLocked: `for _, entry := range entries` returning `entry` at the first match (two return sites) not found")
	l.boolean("lookupUsesHasPrefix", prefixArgs, prefixArgs, "getBackendLocked: strings.HasPrefix(url, entry.url) / strings.HasPrefix(url, <copy of entry.url>) not found")
	l.boolean("lookupAppendsSlash", slashAppended, slashAppended, "getBackendLocked: `if url[len(url)-1] != '/' { url += \"/\" }` not found")
	// a tree that compares with entry.url as stored is described too (the fact is then `false`, the model follows, C13_facts breaks)
	l.boolean("lookupEntrySlashTerminated", entrySlash, true, "")

	// ---- BackendConfiguration.GetBackend: `if hasDotSegments(u) { return nil }` before the storage lookup ----
	dotGuard := false
	if fd := findFunc(cfgFile, "BackendConfiguration", "GetBackend"); fd != nil && fd.Body != nil {
		for _, st := range fd.Body.List {
			is, ok := st.(*ast.IfStmt)
			if !ok || len(is.Body.List) != 1 {
				continue
			}
			call, ok := is.Cond.(*ast.CallExpr)
			if !ok || !isIdent(call.Fun, "hasDotSegments") {
				continue
			}
			if rs, ok := is.Body.List[0].(*ast.ReturnStmt); ok && len(rs.Results) == 1 && isIdent(rs.Results[0], "nil") {
				dotGuard = true
			}
		}
	}
	// a tree without the guard is fine too (the fact is then `false`); what must not happen is a guard of another shape
	hasFn := findFunc(cfgFile, "", "hasDotSegments") != nil
	l.boolean("lookupRefusesDotSegments", dotGuard, dotGuard == hasFn,
		"BackendConfiguration.GetBackend: hasDotSegments exists but `if hasDotSegments(u) { return nil }` not found")

	// ---- operations that can panic on the reload / etcd-event path (index, slice, type assertion, panic) ----
	// Listed verbatim so that a new one has to be audited (Props/C13: C13_reload_path_audit).
	type fn struct{ file, recv, name string }
	var partial []string
	okPartial := true
	for _, f := range []fn{
		{"backend_storage_static.go", "backendStorageStatic", "Reload"},
		{"backend_storage_static.go", "backendStorageStatic", "RemoveBackendsForHost"},
		{"backend_storage_static.go", "backendStorageStatic", "UpsertHost"},
		{"backend_storage_static.go", "", "getConfiguredHosts"},
		{"backend_storage_static.go", "", "getConfiguredBackendIDs"},
		{"backend_storage_etcd.go", "backendStorageEtcd", "EtcdKeyUpdated"},
		{"backend_storage_etcd.go", "backendStorageEtcd", "EtcdKeyDeleted"},
		{"backend_storage_etcd.go", "backendStorageEtcd", "removeBackendLocked"},
	} {
		fd := findFunc(c.file(f.file), f.recv, f.name)
		if fd == nil || fd.Body == nil {
			if f.name == "removeBackendLocked" {
				continue // helper introduced by a fix; absent on older trees
			}
			okPartial = false
			continue
		}
		show := func(n ast.Node) string {
			var buf bytes.Buffer
			printer.Fprint(&buf, c.fset, n)
			return f.name + ": " + strings.Join(strings.Fields(buf.String()), " ")
		}
		ast.Inspect(fd.Body, func(n ast.Node) bool {
			switch x := n.(type) {
			case *ast.IndexExpr:
				partial = append(partial, show(x))
			case *ast.SliceExpr:
				partial = append(partial, show(x))
			case *ast.TypeAssertExpr:
				partial = append(partial, show(x))
			case *ast.CallExpr:
				if isIdent(x.Fun, "panic") {
					partial = append(partial, show(x))
				}
			}
			return true
		})
	}
	l.strList("reloadPathPartialOps", partial, okPartial, "a function of the reload / etcd-event path was not found")

	// ---- static Reload guards ----
	//   if s.compatBackend != nil { ...; return }
	//   either (old)  if backendIds, _ := ...; backendIds != "" { <everything> }     -> reloadIgnoresEmptyIds = true
	//   or     (now)  if backendIds == "" { if allowAll || allowedUrls != "" { ...; return } }  -> false
	staticFile := c.file("backend_storage_static.go")
	compatGuard, neGuard, eqGuard, modeSwitchReturn := false, false, false, false
	if fd := findFunc(staticFile, "backendStorageStatic", "Reload"); fd != nil && fd.Body != nil {
		ast.Inspect(fd.Body, func(n ast.Node) bool {
			is, ok := n.(*ast.IfStmt)
			if !ok {
				return true
			}
			be, ok := is.Cond.(*ast.BinaryExpr)
			if !ok {
				return true
			}
			if isIdent(be.X, "backendIds") {
				if v, ok := strLit(be.Y); ok && v == "" {
					if be.Op == token.NEQ {
						neGuard = true
					}
					if be.Op == token.EQL {
						eqGuard = true
						// the only return inside must sit under `allowAll || allowedUrls != ""`
						returns, guarded := 0, 0
						ast.Inspect(is.Body, func(m ast.Node) bool {
							if _, ok := m.(*ast.ReturnStmt); ok {
								returns++
							}
							if inner, ok := m.(*ast.IfStmt); ok {
								if c2, ok := inner.Cond.(*ast.BinaryExpr); ok && c2.Op == token.LOR && isIdent(c2.X, "allowAll") {
									if r, ok := c2.Y.(*ast.BinaryExpr); ok && r.Op == token.NEQ && isIdent(r.X, "allowedUrls") {
										for _, st := range inner.Body.List {
											if _, ok := st.(*ast.ReturnStmt); ok {
												guarded++
											}
										}
									}
								}
							}
							return true
						})
						modeSwitchReturn = returns == 1 && guarded == 1
					}
				}
			}
			if be.Op == token.NEQ && isIdent(be.Y, "nil") {
				if se, ok := be.X.(*ast.SelectorExpr); ok && se.Sel.Name == "compatBackend" {
					compatGuard = true
				}
			}
			return true
		})
	}
	l.boolean("reloadCompatGuard", compatGuard, compatGuard, "backendStorageStatic.Reload: guard `s.compatBackend != nil` not found")
	okIds := (neGuard && !eqGuard) || (eqGuard && !neGuard && modeSwitchReturn)
	l.boolean("reloadIgnoresEmptyIds", neGuard, okIds,
		"backendStorageStatic.Reload: neither `if backendIds != \"\" {…}` nor `if backendIds == \"\" { if allowAll || allowedUrls != \"\" { return } }` found")

	// ---- which configuration the table is computed from ----
	// getConfiguredHosts(backendIds, config, commonSecret) turns a configuration into the entries of the table.  Its
	// two callers (startup, Reload): the call, and for every argument where its value comes from — a parameter of
	// the caller, or every statement of the caller that assigns it.  "After a reload = after a fresh start" needs
	// all three to come from the file that is being loaded, in both callers alike; an argument read from the
	// receiver (a value of an earlier configuration) makes the result depend on the history.
	callS, defsS, okS := backendsHostsCall(c, staticFile, "", "NewBackendStorageStatic")
	l.str("startHostsCall", callS, okS, "NewBackendStorageStatic: exactly one call of getConfiguredHosts expected")
	l.strList("startHostsArgs", defsS, okS, "NewBackendStorageStatic: exactly one call of getConfiguredHosts expected")
	callR, defsR, okR := backendsHostsCall(c, staticFile, "backendStorageStatic", "Reload")
	l.str("reloadHostsCall", callR, okR, "backendStorageStatic.Reload: exactly one call of getConfiguredHosts expected")
	l.strList("reloadHostsArgs", defsR, okR, "backendStorageStatic.Reload: exactly one call of getConfiguredHosts expected")
	// state of the receiver that Reload reads besides the table, the lock and the compat guard, and what it
	// writes: `s.<field>` selectors in Reload (not followed into RemoveBackendsForHost / UpsertHost, which get
	// their input as arguments), verbatim and de-duplicated.
	var recvReads []string
	okRecv := false
	if fd := findFunc(staticFile, "backendStorageStatic", "Reload"); fd != nil && fd.Body != nil && fd.Recv != nil &&
		len(fd.Recv.List) == 1 && len(fd.Recv.List[0].Names) == 1 {
		okRecv = true
		rv := fd.Recv.List[0].Names[0].Name
		seen := map[string]bool{}
		ast.Inspect(fd.Body, func(n ast.Node) bool {
			if se, ok := n.(*ast.SelectorExpr); ok && isIdent(se.X, rv) && !seen[se.Sel.Name] {
				seen[se.Sel.Name] = true
				recvReads = append(recvReads, se.Sel.Name)
			}
			return true
		})
		sort.Strings(recvReads)
	}
	l.strList("reloadReceiverFields", recvReads, okRecv, "backendStorageStatic.Reload: method with a named receiver not found")
	return l
}

// backendsHostsCall: the single call of getConfiguredHosts in the function and, per argument, where the value
// comes from ("param:<name> <type>", or the statements of the function that assign the identifier, joined by
// " ;; "; "expr" for an argument that is not a plain identifier, "?" for an identifier never assigned there).
func backendsHostsCall(c *ctx, file *ast.File, recv, name string) (string, []string, bool) {
	norm := func(n ast.Node) string { return strings.Join(strings.Fields(srcText(c.fset, n)), " ") }
	fd := findFunc(file, recv, name)
	if fd == nil || fd.Body == nil {
		return "", nil, false
	}
	var call *ast.CallExpr
	n := 0
	ast.Inspect(fd.Body, func(x ast.Node) bool {
		if ce, ok := x.(*ast.CallExpr); ok && isIdent(ce.Fun, "getConfiguredHosts") {
			call = ce
			n++
		}
		return true
	})
	if call == nil || n != 1 {
		return "", nil, false
	}
	var defs []string
	for _, a := range call.Args {
		id, ok := a.(*ast.Ident)
		if !ok {
			defs = append(defs, "expr")
			continue
		}
		var ds []string
		if fd.Type.Params != nil {
			for _, f := range fd.Type.Params.List {
				for _, pn := range f.Names {
					if pn.Name == id.Name {
						ds = append(ds, "param:"+pn.Name+" "+norm(f.Type))
					}
				}
			}
		}
		ast.Inspect(fd.Body, func(x ast.Node) bool {
			switch s := x.(type) {
			case *ast.AssignStmt:
				for _, lhs := range s.Lhs {
					if isIdent(lhs, id.Name) {
						ds = append(ds, norm(s))
					}
				}
			case *ast.IncDecStmt:
				if isIdent(s.X, id.Name) {
					ds = append(ds, norm(s))
				}
			case *ast.RangeStmt:
				if (s.Key != nil && isIdent(s.Key, id.Name)) || (s.Value != nil && isIdent(s.Value, id.Name)) {
					ds = append(ds, "range")
				}
			case *ast.UnaryExpr:
				if s.Op == token.AND && isIdent(s.X, id.Name) {
					ds = append(ds, "address-taken")
				}
			}
			return true
		})
		if len(ds) == 0 {
			ds = []string{"?"}
		}
		defs = append(defs, strings.Join(ds, " ;; "))
	}
	return norm(call), defs, true
}
