package main

// Facts for C12 (a hostile federation peer): the shape validation of
// ServerMessage and where it is called, every place where the federation
// client or the local filter dereferences a sub-object of the received
// message (with the message type / event target / event type under which it
// happens), unchecked type assertions in filterMessage, the mutexes involved
// in the hello path, the re-check of c.conn in closeConnection.

import (
	"fmt"
	"go/ast"
	"go/token"
	"sort"
	"strings"
)

func init() { register(genShapesFederation) }

// ---- struct table: which fields are pointers / slices of pointers ----

type fedField struct {
	ptr      bool   // *T
	slicePtr bool   // []*T
	typ      string // T
}

func fedTypes(f *ast.File) map[string]map[string]fedField {
	res := map[string]map[string]fedField{}
	if f == nil {
		return res
	}
	for _, d := range f.Decls {
		gd, ok := d.(*ast.GenDecl)
		if !ok || gd.Tok != token.TYPE {
			continue
		}
		for _, sp := range gd.Specs {
			ts := sp.(*ast.TypeSpec)
			st, ok := ts.Type.(*ast.StructType)
			if !ok {
				continue
			}
			m := map[string]fedField{}
			for _, fl := range st.Fields.List {
				var ff fedField
				switch t := fl.Type.(type) {
				case *ast.StarExpr:
					ff = fedField{ptr: true}
					if id, ok := t.X.(*ast.Ident); ok {
						ff.typ = id.Name
					}
				case *ast.ArrayType:
					if se, ok := t.Elt.(*ast.StarExpr); ok {
						if id, ok := se.X.(*ast.Ident); ok {
							ff = fedField{slicePtr: true, typ: id.Name}
						}
					}
				case *ast.Ident:
					ff = fedField{typ: t.Name}
				}
				if len(fl.Names) == 0 {
					// embedded struct: promote its fields (RoomDisinviteEventServerMessage)
					if id, ok := fl.Type.(*ast.Ident); ok {
						if em, ok := res[id.Name]; ok {
							for k, v := range em {
								m[k] = v
							}
						}
					}
					continue
				}
				for _, n := range fl.Names {
					m[n.Name] = ff
				}
			}
			res[ts.Name.Name] = m
		}
	}
	return res
}

// ---- deref walker ----

type fedDeref struct{ typ, target, etype, path string }

type fedWalker struct {
	types  map[string]map[string]fedField
	file   *ast.File // for callee summaries
	root   string    // name of the *ServerMessage parameter
	derefs map[fedDeref]bool
	notes  []string
	depth  int // nesting of callee summaries
}

type fedScope struct {
	typ, target, etype string
	guarded            map[string]bool   // paths known non-nil
	alias              map[string]string // local name -> path (pointer sub-object)
	elem               map[string]string // range variable -> path of the slice it ranges over
	// Values the handler builds itself from peer-controlled raw JSON (`var details RoomErrorDetails;
	// json.Unmarshal(msg.Error.Details, &details)`): local variable -> root of its paths, "@T" for a value of
	// struct type T, "@*T" for a pointer to T that may be nil (pointer parameter of a helper).  No validation
	// table covers their pointer members, so every unguarded dereference below such a root is reported.
	locals map[string]string
}

func (s fedScope) clone() fedScope {
	n := fedScope{typ: s.typ, target: s.target, etype: s.etype, guarded: map[string]bool{}, alias: map[string]string{}, elem: map[string]string{},
		locals: map[string]string{}}
	for k, v := range s.locals {
		n.locals[k] = v
	}
	for k, v := range s.guarded {
		n.guarded[k] = v
	}
	for k, v := range s.alias {
		n.alias[k] = v
	}
	for k, v := range s.elem {
		n.elem[k] = v
	}
	return n
}

// chain returns the field path of a selector chain rooted at the message
// parameter (or an alias of a sub-object): msg.Event.Update.RoomId -> [Event Update RoomId].
func (w *fedWalker) chain(s fedScope, e ast.Expr) ([]string, bool) {
	switch x := e.(type) {
	case *ast.Ident:
		if x.Name == w.root {
			return []string{}, true
		}
		if p, ok := s.alias[x.Name]; ok {
			return strings.Split(p, "."), true
		}
		if r, ok := s.locals[x.Name]; ok {
			return []string{r}, true
		}
	case *ast.SelectorExpr:
		if p, ok := w.chain(s, x.X); ok {
			return append(append([]string{}, p...), x.Sel.Name), true
		}
	case *ast.ParenExpr:
		return w.chain(s, x.X)
	}
	return nil, false
}

// pointerPrefixes lists the prefixes of path that are pointer sub-objects and are dereferenced by
// accessing the next component.
func (w *fedWalker) pointerPrefixes(path []string) []string {
	var res []string
	typ, start := fedRoot(path)
	if start == 1 && strings.HasPrefix(path[0], "@*") && len(path) >= 2 {
		res = append(res, path[0]) // the root itself is a pointer that may be nil
	}
	for i := start; i+1 < len(path); i++ {
		ff, ok := w.types[typ][path[i]]
		if !ok {
			break
		}
		if ff.ptr {
			res = append(res, strings.Join(path[:i+1], "."))
		}
		typ = ff.typ
	}
	return res
}

// fedRoot: the struct type a path starts in and the index of its first field component.
func fedRoot(path []string) (string, int) {
	if len(path) > 0 && strings.HasPrefix(path[0], "@") {
		return strings.TrimLeft(path[0], "@*"), 1
	}
	return "ServerMessage", 0
}

func (w *fedWalker) fieldAt(path []string) (fedField, bool) {
	typ, start := fedRoot(path)
	var ff fedField
	for _, p := range path[start:] {
		var ok bool
		ff, ok = w.types[typ][p]
		if !ok {
			return fedField{}, false
		}
		typ = ff.typ
	}
	return ff, len(path) > start
}

func (w *fedWalker) record(s fedScope, path string) {
	if s.guarded[path] {
		return
	}
	w.derefs[fedDeref{s.typ, s.target, s.etype, path}] = true
}

// nilTests returns the paths tested `!= nil` (pos) and `== nil` (neg) in the conjuncts/disjuncts of e.
func (w *fedWalker) nilTests(s fedScope, e ast.Expr, op token.Token) (pos, neg []string) {
	switch x := e.(type) {
	case *ast.ParenExpr:
		return w.nilTests(s, x.X, op)
	case *ast.BinaryExpr:
		if x.Op == op {
			p1, n1 := w.nilTests(s, x.X, op)
			p2, n2 := w.nilTests(s, x.Y, op)
			return append(p1, p2...), append(n1, n2...)
		}
		if (x.Op == token.NEQ || x.Op == token.EQL) && isIdent(x.Y, "nil") {
			if p, ok := w.chain(s, x.X); ok && len(p) > 0 {
				if x.Op == token.NEQ {
					return []string{strings.Join(p, ".")}, nil
				}
				return nil, []string{strings.Join(p, ".")}
			}
		}
	}
	return nil, nil
}

// typeTest recognises `<root>.Type ==/!= "lit"`, `<root>.Event.Target == "lit"`, `<root>.Event.Type == "lit"`.
func (w *fedWalker) typeTest(s fedScope, e ast.Expr) (which string, lit string, eq bool, ok bool) {
	be, isBin := e.(*ast.BinaryExpr)
	if !isBin || (be.Op != token.EQL && be.Op != token.NEQ) {
		return
	}
	l, okl := strLit(be.Y)
	p, okp := w.chain(s, be.X)
	if !okl || !okp {
		return
	}
	switch strings.Join(p, ".") {
	case "Type":
		return "type", l, be.Op == token.EQL, true
	case "Event.Target":
		return "target", l, be.Op == token.EQL, true
	case "Event.Type":
		return "etype", l, be.Op == token.EQL, true
	}
	return
}

func fedTerminates(b *ast.BlockStmt) bool {
	if b == nil || len(b.List) == 0 {
		return false
	}
	switch x := b.List[len(b.List)-1].(type) {
	case *ast.ReturnStmt:
		return true
	case *ast.BranchStmt:
		return x.Tok == token.CONTINUE || x.Tok == token.BREAK
	}
	return false
}

func (s *fedScope) set(which, lit string) {
	switch which {
	case "type":
		s.typ = lit
	case "target":
		s.target = lit
	case "etype":
		s.etype = lit
	}
}

// expr records the dereferences made by evaluating e.
func (w *fedWalker) expr(s fedScope, e ast.Expr) {
	if e == nil {
		return
	}
	switch x := e.(type) {
	case *ast.BinaryExpr:
		if x.Op == token.LAND {
			w.expr(s, x.X)
			pos, _ := w.nilTests(s, x.X, token.LAND)
			s2 := s.clone()
			for _, p := range pos {
				s2.guarded[p] = true
			}
			w.expr(s2, x.Y)
			return
		}
		if x.Op == token.LOR {
			w.expr(s, x.X)
			_, neg := w.nilTests(s, x.X, token.LOR)
			s2 := s.clone()
			for _, p := range neg {
				s2.guarded[p] = true
			}
			w.expr(s2, x.Y)
			return
		}
		w.expr(s, x.X)
		w.expr(s, x.Y)
	case *ast.SelectorExpr:
		if p, ok := w.chain(s, x); ok {
			for _, pre := range w.pointerPrefixes(p) {
				w.record(s, pre)
			}
			return
		}
		// element of a ranged slice of pointers: j.SessionId
		if id, ok := x.X.(*ast.Ident); ok {
			if sl, ok := s.elem[id.Name]; ok {
				w.record(s, sl+"[]")
				return
			}
		}
		w.expr(s, x.X)
	case *ast.CallExpr:
		w.expr(s, x.Fun)
		for i, a := range x.Args {
			w.expr(s, a)
			// a slice of pointers handed to a helper that dereferences the elements
			if p, ok := w.chain(s, a); ok && len(p) > 0 {
				if ff, ok := w.fieldAt(p); ok && ff.slicePtr && w.calleeDerefsElems(x.Fun, i) {
					w.record(s, strings.Join(p, ".")+"[]")
				}
				// a pointer sub-object handed to a helper of the same file that dereferences its parameter
				if ff, ok := w.fieldAt(p); ok && ff.ptr && ff.typ != "" && !s.guarded[strings.Join(p, ".")] {
					for _, sub := range w.calleeDerefsParam(x.Fun, i, ff.typ) {
						w.record(s, strings.Join(p, ".")+sub)
					}
				}
			}
		}
	case *ast.ParenExpr:
		w.expr(s, x.X)
	case *ast.UnaryExpr:
		w.expr(s, x.X)
	case *ast.StarExpr:
		// *x.A.B: the pointer member itself is dereferenced
		if p, ok := w.chain(s, x.X); ok && len(p) > 0 {
			if ff, ok := w.fieldAt(p); ok && ff.ptr {
				for _, pre := range w.pointerPrefixes(p) {
					w.record(s, pre)
				}
				w.record(s, strings.Join(p, "."))
				return
			}
		}
		w.expr(s, x.X)
	case *ast.IndexExpr:
		w.expr(s, x.X)
		w.expr(s, x.Index)
	case *ast.SliceExpr:
		w.expr(s, x.X)
	case *ast.TypeAssertExpr:
		w.expr(s, x.X)
	case *ast.CompositeLit:
		for _, el := range x.Elts {
			w.expr(s, el)
		}
	case *ast.KeyValueExpr:
		w.expr(s, x.Value)
	case *ast.FuncLit:
		w.block(s, x.Body.List)
	}
}

// calleeDerefsElems: does the function called (a method/func of the same file) range over its idx-th
// parameter and select a field of the element?
func (w *fedWalker) calleeDerefsElems(fun ast.Expr, idx int) bool {
	name := ""
	switch f := fun.(type) {
	case *ast.Ident:
		name = f.Name
	case *ast.SelectorExpr:
		name = f.Sel.Name
	}
	if name == "" || w.file == nil {
		return false
	}
	for _, d := range w.file.Decls {
		fd, ok := d.(*ast.FuncDecl)
		if !ok || fd.Name.Name != name || fd.Body == nil {
			continue
		}
		var params []string
		for _, fl := range fd.Type.Params.List {
			for _, n := range fl.Names {
				params = append(params, n.Name)
			}
		}
		if idx >= len(params) {
			continue
		}
		found := false
		ast.Inspect(fd.Body, func(n ast.Node) bool {
			rs, ok := n.(*ast.RangeStmt)
			if !ok || !isIdent(rs.X, params[idx]) {
				return true
			}
			v, ok := rs.Value.(*ast.Ident)
			if !ok {
				return true
			}
			ast.Inspect(rs.Body, func(m ast.Node) bool {
				if se, ok := m.(*ast.SelectorExpr); ok && isIdent(se.X, v.Name) {
					found = true
				}
				return true
			})
			return true
		})
		if found {
			return true
		}
	}
	return false
}

// calleeDerefsParam: the function called (same file) takes a `*typ` as its idx-th parameter; which paths below that
// parameter does it dereference without a nil check?  "" stands for the parameter itself, ".F" for its pointer member F.
func (w *fedWalker) calleeDerefsParam(fun ast.Expr, idx int, typ string) []string {
	name := ""
	switch f := fun.(type) {
	case *ast.Ident:
		name = f.Name
	case *ast.SelectorExpr:
		name = f.Sel.Name
	}
	if name == "" || w.file == nil || w.depth >= 3 {
		return nil
	}
	var res []string
	for _, d := range w.file.Decls {
		fd, ok := d.(*ast.FuncDecl)
		if !ok || fd.Name.Name != name || fd.Body == nil {
			continue
		}
		var params []string
		var ptypes []ast.Expr
		for _, fl := range fd.Type.Params.List {
			for _, n := range fl.Names {
				params = append(params, n.Name)
				ptypes = append(ptypes, fl.Type)
			}
		}
		if idx >= len(params) {
			continue
		}
		se, ok := ptypes[idx].(*ast.StarExpr)
		if !ok || !isIdent(se.X, typ) {
			continue
		}
		sub := &fedWalker{types: w.types, file: w.file, root: "", derefs: map[fedDeref]bool{}, depth: w.depth + 1}
		sc := fedScope{guarded: map[string]bool{}, alias: map[string]string{}, elem: map[string]string{}, locals: map[string]string{}}
		root := "@*" + typ
		sc.locals[params[idx]] = root
		sub.block(sc, fd.Body.List)
		w.notes = append(w.notes, sub.notes...)
		for d := range sub.derefs {
			if d.path == root || strings.HasPrefix(d.path, root+".") {
				res = append(res, d.path[len(root):])
			}
		}
	}
	sort.Strings(res)
	return res
}

// fedStructType: T for the type expressions `T` and `*T` when T is a struct of the table.
func (w *fedWalker) fedStructType(e ast.Expr) (string, bool) {
	if se, ok := e.(*ast.StarExpr); ok {
		e = se.X
	}
	if id, ok := e.(*ast.Ident); ok {
		if _, known := w.types[id.Name]; known {
			return id.Name, true
		}
	}
	return "", false
}

func (w *fedWalker) block(s fedScope, stmts []ast.Stmt) fedScope {
	for _, st := range stmts {
		s = w.stmt(s, st)
	}
	return s
}

// stmt returns the scope for the statements that follow.
func (w *fedWalker) stmt(s fedScope, st ast.Stmt) fedScope {
	switch x := st.(type) {
	case *ast.ExprStmt:
		w.expr(s, x.X)
	case *ast.AssignStmt:
		for _, r := range x.Rhs {
			w.expr(s, r)
		}
		for _, l := range x.Lhs {
			if _, ok := l.(*ast.Ident); !ok {
				w.expr(s, l)
			}
		}
		if len(x.Lhs) == 1 && len(x.Rhs) == 1 {
			if id, ok := x.Lhs[0].(*ast.Ident); ok {
				if p, ok := w.chain(s, x.Rhs[0]); ok && len(p) > 0 {
					if ff, ok := w.fieldAt(p); ok && ff.ptr {
						s = s.clone()
						s.alias[id.Name] = strings.Join(p, ".")
					}
				}
				// x := T{…} / x := &T{…}: a value of a known struct type built by the handler
				rhs := x.Rhs[0]
				if ue, ok := rhs.(*ast.UnaryExpr); ok && ue.Op == token.AND {
					rhs = ue.X
				}
				if cl, ok := rhs.(*ast.CompositeLit); ok && id.Name != w.root {
					if t, ok := w.fedStructType(cl.Type); ok {
						s = s.clone()
						s.locals[id.Name] = "@" + t
					}
				}
			}
		}
	case *ast.IncDecStmt:
		w.expr(s, x.X)
	case *ast.DeclStmt:
		// var details RoomErrorDetails — the target of a json.Unmarshal of a raw member
		if gd, ok := x.Decl.(*ast.GenDecl); ok && gd.Tok == token.VAR {
			for _, sp := range gd.Specs {
				vs, ok := sp.(*ast.ValueSpec)
				if !ok {
					continue
				}
				for _, v := range vs.Values {
					w.expr(s, v)
				}
				if vs.Type == nil {
					continue
				}
				if _, isPtr := vs.Type.(*ast.StarExpr); isPtr {
					continue
				}
				if t, ok := w.fedStructType(vs.Type); ok {
					s = s.clone()
					for _, n := range vs.Names {
						s.locals[n.Name] = "@" + t
					}
				}
			}
		}
	case *ast.BranchStmt, *ast.EmptyStmt:
	case *ast.ReturnStmt:
		for _, r := range x.Results {
			w.expr(s, r)
		}
	case *ast.DeferStmt:
		w.expr(s, x.Call)
	case *ast.GoStmt:
		w.expr(s, x.Call)
	case *ast.BlockStmt:
		w.block(s.clone(), x.List)
	case *ast.IfStmt:
		inner := s.clone()
		if x.Init != nil {
			inner = w.stmt(inner, x.Init)
		}
		w.expr(inner, x.Cond)
		body := inner.clone()
		pos, _ := w.nilTests(inner, x.Cond, token.LAND)
		for _, p := range pos {
			body.guarded[p] = true
		}
		elseS := inner.clone()
		_, neg := w.nilTests(inner, x.Cond, token.LOR)
		for _, p := range neg {
			elseS.guarded[p] = true
		}
		after := s
		if which, lit, eq, ok := w.typeTest(inner, x.Cond); ok {
			if eq {
				body.set(which, lit)
			} else {
				elseS.set(which, lit)
				if fedTerminates(x.Body) && x.Else == nil {
					after = s.clone()
					after.set(which, lit)
				}
			}
		}
		w.block(body, x.Body.List)
		if fedTerminates(x.Body) {
			if x.Else == nil {
				after = after.clone()
				for _, p := range neg {
					after.guarded[p] = true
				}
			}
		}
		switch el := x.Else.(type) {
		case *ast.BlockStmt:
			w.block(elseS, el.List)
		case *ast.IfStmt:
			// else-if chain: what follows the chain inherits the negative type knowledge of a terminating arm
			res := w.stmt(elseS, el)
			if fedTerminates(x.Body) {
				after = s.clone()
				after.typ, after.target, after.etype = res.typ, res.target, res.etype
			}
		}
		return after
	case *ast.SwitchStmt:
		inner := s.clone()
		if x.Init != nil {
			inner = w.stmt(inner, x.Init)
		}
		which := ""
		if x.Tag != nil {
			w.expr(inner, x.Tag)
			if p, ok := w.chain(inner, x.Tag); ok {
				switch strings.Join(p, ".") {
				case "Type":
					which = "type"
				case "Event.Target":
					which = "target"
				case "Event.Type":
					which = "etype"
				}
			}
		}
		for _, cc := range x.Body.List {
			cl := cc.(*ast.CaseClause)
			cs := inner.clone()
			if which != "" && len(cl.List) == 1 {
				if l, ok := strLit(cl.List[0]); ok {
					cs.set(which, l)
				}
			}
			for _, e := range cl.List {
				w.expr(inner, e)
			}
			w.block(cs, cl.Body)
		}
	case *ast.TypeSwitchStmt:
		for _, cc := range x.Body.List {
			w.block(s.clone(), cc.(*ast.CaseClause).Body)
		}
	case *ast.ForStmt:
		inner := s.clone()
		if x.Init != nil {
			inner = w.stmt(inner, x.Init)
		}
		w.expr(inner, x.Cond)
		w.block(inner, x.Body.List)
	case *ast.RangeStmt:
		w.expr(s, x.X)
		inner := s.clone()
		if p, ok := w.chain(s, x.X); ok && len(p) > 0 {
			if ff, ok := w.fieldAt(p); ok && ff.slicePtr {
				if v, ok := x.Value.(*ast.Ident); ok {
					inner.elem[v.Name] = strings.Join(p, ".")
				}
			}
		}
		w.block(inner, x.Body.List)
	case *ast.SelectStmt, *ast.LabeledStmt, *ast.SendStmt:
		w.notes = append(w.notes, fmt.Sprintf("unsupported statement %T", st))
	}
	return s
}

func fedParamOfType(fd *ast.FuncDecl, typ string) string {
	if fd == nil {
		return ""
	}
	for _, fl := range fd.Type.Params.List {
		if se, ok := fl.Type.(*ast.StarExpr); ok && isIdent(se.X, typ) && len(fl.Names) == 1 {
			return fl.Names[0].Name
		}
	}
	return ""
}

// fedIsCall: is e a call `<recv>.<method>(…)` (recv an identifier)?
func fedIsCall(e ast.Expr, recv, method string) (*ast.CallExpr, bool) {
	call, ok := e.(*ast.CallExpr)
	if !ok {
		return nil, false
	}
	se, ok := call.Fun.(*ast.SelectorExpr)
	if !ok || se.Sel.Name != method {
		return nil, false
	}
	if recv != "" && !isIdent(se.X, recv) {
		return nil, false
	}
	return call, true
}

func fedContainsCall(n ast.Node, method string) bool {
	found := false
	ast.Inspect(n, func(m ast.Node) bool {
		if call, ok := m.(*ast.CallExpr); ok {
			if se, ok := call.Fun.(*ast.SelectorExpr); ok && se.Sel.Name == method {
				found = true
			}
		}
		return true
	})
	return found
}

// fedFirstLock returns X of the first statement `c.X.Lock()` of the function body.
func fedFirstLock(fd *ast.FuncDecl) (string, bool) {
	if fd == nil || fd.Body == nil {
		return "", false
	}
	for _, st := range fd.Body.List {
		es, ok := st.(*ast.ExprStmt)
		if !ok {
			continue
		}
		call, ok := es.X.(*ast.CallExpr)
		if !ok {
			continue
		}
		se, ok := call.Fun.(*ast.SelectorExpr)
		if !ok || se.Sel.Name != "Lock" {
			continue
		}
		if inner, ok := se.X.(*ast.SelectorExpr); ok {
			return inner.Sel.Name, true
		}
	}
	return "", false
}

func fedLeanPairs(ps [][2]string, group func(string) string) string {
	var parts []string
	var keys []string
	m := map[string][]string{}
	for _, p := range ps {
		if _, ok := m[p[0]]; !ok {
			keys = append(keys, p[0])
		}
		m[p[0]] = append(m[p[0]], p[1])
	}
	for _, k := range keys {
		q := make([]string, len(m[k]))
		for i, v := range m[k] {
			q[i] = leanStr(v)
		}
		parts = append(parts, fmt.Sprintf("(%s, [%s])", group(k), strings.Join(q, ", ")))
	}
	return "[" + strings.Join(parts, ", ") + "]"
}

// fedNilReturn: `if <recv>.<F> == nil { return <non-nil> }` (possibly with an else-if arm) -> F
func fedNilReturn(st ast.Stmt, recv string) (field string, elseIf *ast.IfStmt, ok bool) {
	is, isIf := st.(*ast.IfStmt)
	if !isIf || is.Init != nil {
		return
	}
	be, isBin := is.Cond.(*ast.BinaryExpr)
	if !isBin || be.Op != token.EQL || !isIdent(be.Y, "nil") {
		return
	}
	se, isSel := be.X.(*ast.SelectorExpr)
	if !isSel || !isIdent(se.X, recv) {
		return
	}
	if len(is.Body.List) != 1 {
		return
	}
	rs, isRet := is.Body.List[0].(*ast.ReturnStmt)
	if !isRet || len(rs.Results) != 1 || isIdent(rs.Results[0], "nil") {
		return
	}
	ei, _ := is.Else.(*ast.IfStmt)
	return se.Sel.Name, ei, true
}

func genShapesFederation(c *ctx) *leanFile {
	l := c.newLean("ShapesFederation", "api_signaling.go", "federation.go", "clientsession.go", "client.go")
	api := c.file("api_signaling.go")
	fed := c.file("federation.go")
	cs := c.file("clientsession.go")
	cl := c.file("client.go")

	// ---- constants
	scope := pkgValues(cl)
	var mms int64
	okM := false
	if e, ok := scope["maxMessageSize"]; ok {
		mms, okM = c.evalInt(e, scope, 0)
	}
	l.nat("maxMessageSize", mms, okM && mms > 0, "client.go: const maxMessageSize not found")
	feat, okF := "", false
	if e, ok := pkgValues(api)["ServerFeatureFederation"]; ok {
		feat, okF = strLit(e)
	}
	pw := findFunc(fed, "FederationClient", "processWelcome")
	usesFeat := false
	if pw != nil {
		ast.Inspect(pw.Body, func(n ast.Node) bool {
			if call, ok := n.(*ast.CallExpr); ok {
				if se, ok := call.Fun.(*ast.SelectorExpr); ok && se.Sel.Name == "HasFeature" && len(call.Args) == 1 && isIdent(call.Args[0], "ServerFeatureFederation") {
					usesFeat = true
				}
			}
			return true
		})
	}
	l.str("federationFeature", feat, okF && usesFeat, "ServerFeatureFederation / processWelcome: msg.Welcome.HasFeature(ServerFeatureFederation) not found")

	// ---- ServerMessage.CheckValid
	cv := findFunc(api, "ServerMessage", "CheckValid")
	l.boolean("serverCheckValidExists", cv != nil, true, "")
	typeMust, evValidated := false, false
	var required [][2]string
	okCV := cv == nil
	if cv != nil && cv.Body != nil {
		recv := cv.Recv.List[0].Names[0].Name
		for _, st := range cv.Body.List {
			sw, ok := st.(*ast.SwitchStmt)
			if !ok {
				continue
			}
			if se, ok := sw.Tag.(*ast.SelectorExpr); !ok || !isIdent(se.X, recv) || se.Sel.Name != "Type" {
				continue
			}
			okCV = true
			for _, cc := range sw.Body.List {
				cl := cc.(*ast.CaseClause)
				if len(cl.List) != 1 {
					continue
				}
				lit, ok := strLit(cl.List[0])
				if !ok {
					continue
				}
				if lit == "" {
					if len(cl.Body) == 1 {
						if rs, ok := cl.Body[0].(*ast.ReturnStmt); ok && len(rs.Results) == 1 && !isIdent(rs.Results[0], "nil") {
							typeMust = true
						}
					}
					continue
				}
				for _, bs := range cl.Body {
					f, elseIf, ok := fedNilReturn(bs, recv)
					if !ok {
						continue
					}
					required = append(required, [2]string{lit, f})
					// else if err := r.Event.CheckValid(); err != nil { return err }
					if elseIf != nil && lit == "event" && f == "Event" {
						if as, ok := elseIf.Init.(*ast.AssignStmt); ok && len(as.Rhs) == 1 {
							if call, ok := as.Rhs[0].(*ast.CallExpr); ok {
								if se, ok := call.Fun.(*ast.SelectorExpr); ok && se.Sel.Name == "CheckValid" {
									if inner, ok := se.X.(*ast.SelectorExpr); ok && isIdent(inner.X, recv) && inner.Sel.Name == "Event" &&
										len(elseIf.Body.List) == 1 {
										if rs, ok := elseIf.Body.List[0].(*ast.ReturnStmt); ok && len(rs.Results) == 1 && !isIdent(rs.Results[0], "nil") {
											evValidated = true
										}
									}
								}
							}
						}
					}
				}
			}
		}
	}
	l.boolean("typeMustBeSet", typeMust, okCV, "ServerMessage.CheckValid: `switch r.Type` not found")
	l.fact("requiredByType")
	if !okCV {
		l.fail("requiredByType: ServerMessage.CheckValid has no `switch r.Type`")
	}
	l.raw("/-- `(*ServerMessage).CheckValid`: per message type the sub-objects tested `== nil` with an error return. -/")
	l.raw("def requiredByType : List (String × List String) := " + fedLeanPairs(required, leanStr))

	// ---- EventServerMessage.CheckValid
	ecv := findFunc(api, "EventServerMessage", "CheckValid")
	var evReq, evEntries [][2]string
	entriesHelperOk := func(name string) bool {
		fd := findFunc(api, "", name)
		if fd == nil || fd.Body == nil || len(fd.Type.Params.List) != 1 || len(fd.Type.Params.List[0].Names) != 1 {
			return false
		}
		p := fd.Type.Params.List[0].Names[0].Name
		ok := false
		ast.Inspect(fd.Body, func(n ast.Node) bool {
			rs, isR := n.(*ast.RangeStmt)
			if !isR || !isIdent(rs.X, p) {
				return true
			}
			v, isId := rs.Value.(*ast.Ident)
			if !isId {
				return true
			}
			for _, st := range rs.Body.List {
				if is, isIf := st.(*ast.IfStmt); isIf {
					if be, isB := is.Cond.(*ast.BinaryExpr); isB && be.Op == token.EQL && isIdent(be.X, v.Name) && isIdent(be.Y, "nil") && len(is.Body.List) == 1 {
						if ret, isRet := is.Body.List[0].(*ast.ReturnStmt); isRet && len(ret.Results) == 1 && !isIdent(ret.Results[0], "nil") {
							ok = true
						}
					}
				}
			}
			return true
		})
		return ok
	}
	okECV := ecv == nil
	if ecv != nil && ecv.Body != nil {
		recv := ecv.Recv.List[0].Names[0].Name
		for _, st := range ecv.Body.List {
			sw, ok := st.(*ast.SwitchStmt)
			if !ok {
				continue
			}
			if se, ok := sw.Tag.(*ast.SelectorExpr); !ok || !isIdent(se.X, recv) || se.Sel.Name != "Target" {
				continue
			}
			okECV = true
			for _, cc := range sw.Body.List {
				tcl := cc.(*ast.CaseClause)
				if len(tcl.List) != 1 {
					continue
				}
				target, ok := strLit(tcl.List[0])
				if !ok {
					continue
				}
				for _, bs := range tcl.Body {
					isw, ok := bs.(*ast.SwitchStmt)
					if !ok {
						continue
					}
					if se, ok := isw.Tag.(*ast.SelectorExpr); !ok || !isIdent(se.X, recv) || se.Sel.Name != "Type" {
						continue
					}
					for _, icc := range isw.Body.List {
						icl := icc.(*ast.CaseClause)
						if len(icl.List) != 1 {
							continue
						}
						etype, ok := strLit(icl.List[0])
						if !ok {
							continue
						}
						key := target + "\x00" + etype
						for _, ibs := range icl.Body {
							if f, _, ok := fedNilReturn(ibs, recv); ok {
								evReq = append(evReq, [2]string{key, f})
							}
							if rs, ok := ibs.(*ast.ReturnStmt); ok && len(rs.Results) == 1 {
								if call, ok := rs.Results[0].(*ast.CallExpr); ok && len(call.Args) == 1 {
									if fn, ok := call.Fun.(*ast.Ident); ok && entriesHelperOk(fn.Name) {
										if se, ok := call.Args[0].(*ast.SelectorExpr); ok && isIdent(se.X, recv) {
											evEntries = append(evEntries, [2]string{key, se.Sel.Name})
										}
									}
								}
							}
						}
					}
				}
			}
		}
	}
	pairKey := func(k string) string {
		p := strings.SplitN(k, "\x00", 2)
		return "(" + leanStr(p[0]) + ", " + leanStr(p[1]) + ")"
	}
	l.boolean("eventValidated", evValidated && ecv != nil, okECV, "EventServerMessage.CheckValid: `switch m.Target` not found")
	l.fact("requiredByEvent")
	l.raw("/-- `(*EventServerMessage).CheckValid`: per (target, type) the sub-objects tested `== nil` with an error return. -/")
	l.raw("def requiredByEvent : List ((String × String) × List String) := " + fedLeanPairs(evReq, pairKey))
	l.fact("entriesByEvent")
	l.raw("/-- per (target, type) the entry lists whose elements are all tested `== nil` with an error return. -/")
	l.raw("def entriesByEvent : List ((String × String) × List String) := " + fedLeanPairs(evEntries, pairKey))

	// ---- readPump: decode error skipped, validation before dispatch, dispatch before hello
	rp := findFunc(fed, "FederationClient", "readPump")
	skipsUndecodable, validates, welcomeType := false, false, ""
	okDispatch := false
	if rp != nil && rp.Body != nil {
		var loop *ast.ForStmt
		for _, st := range rp.Body.List {
			if fs, ok := st.(*ast.ForStmt); ok {
				loop = fs
			}
		}
		if loop != nil {
			seenUnmarshal, dispatched := false, false
			for _, st := range loop.Body.List {
				if fedContainsCall(st, "processWelcome") || fedContainsCall(st, "processHello") || fedContainsCall(st, "processMessage") {
					if !dispatched {
						// if c.hello.Load() == nil { switch msg.Type { case "welcome": processWelcome; default: processHello }; continue }
						if is, ok := st.(*ast.IfStmt); ok && fedTerminates(is.Body) {
							for _, bs := range is.Body.List {
								if sw, ok := bs.(*ast.SwitchStmt); ok {
									if se, ok := sw.Tag.(*ast.SelectorExpr); ok && se.Sel.Name == "Type" {
										hasDefaultHello := false
										for _, cc := range sw.Body.List {
											cl := cc.(*ast.CaseClause)
											if len(cl.List) == 1 && fedContainsCall(cl, "processWelcome") {
												welcomeType, _ = strLit(cl.List[0])
											}
											if len(cl.List) == 0 && fedContainsCall(cl, "processHello") {
												hasDefaultHello = true
											}
										}
										okDispatch = welcomeType != "" && hasDefaultHello
									}
								}
							}
						}
					}
					dispatched = true
					continue
				}
				is, ok := st.(*ast.IfStmt)
				if !ok || dispatched {
					continue
				}
				as, ok := is.Init.(*ast.AssignStmt)
				if !ok || len(as.Rhs) != 1 || !fedTerminates(is.Body) {
					continue
				}
				last := is.Body.List[len(is.Body.List)-1]
				if bs, ok := last.(*ast.BranchStmt); !ok || bs.Tok != token.CONTINUE {
					continue
				}
				call, ok := as.Rhs[0].(*ast.CallExpr)
				if !ok {
					continue
				}
				if isSel(call.Fun, "json", "Unmarshal") && len(call.Args) == 2 && sbIsAddrOf(call.Args[1], "msg") {
					seenUnmarshal, skipsUndecodable = true, true
				}
				if _, ok := fedIsCall(call, "msg", "CheckValid"); ok && seenUnmarshal {
					validates = true
				}
			}
		}
	}
	l.boolean("readPumpSkipsUndecodable", skipsUndecodable, rp != nil, "FederationClient.readPump not found")
	l.boolean("readPumpValidates", validates, rp != nil, "FederationClient.readPump not found")
	l.str("preHelloWelcomeType", welcomeType, okDispatch, "readPump: `if c.hello.Load() == nil { switch msg.Type { case \"welcome\": processWelcome; default: processHello }; continue }` not found")

	// ---- dereferences of sub-objects of the received message
	types := fedTypes(api)
	derefs := map[fedDeref]bool{}
	var notes []string
	walk := func(file *ast.File, recv, name string, init fedScope) bool {
		fd := findFunc(file, recv, name)
		p := fedParamOfType(fd, "ServerMessage")
		if fd == nil || fd.Body == nil || p == "" {
			return false
		}
		w := &fedWalker{types: types, file: file, root: p, derefs: derefs}
		w.block(init, fd.Body.List)
		notes = append(notes, w.notes...)
		return true
	}
	empty := func() fedScope {
		return fedScope{guarded: map[string]bool{}, alias: map[string]string{}, elem: map[string]string{}, locals: map[string]string{}}
	}
	okWalk := true
	ws := empty()
	ws.typ = welcomeType
	okWalk = walk(fed, "FederationClient", "processWelcome", ws) && okWalk
	okWalk = walk(fed, "FederationClient", "processHello", empty()) && okWalk
	okWalk = walk(fed, "FederationClient", "processMessage", empty()) && okWalk
	okWalk = walk(cs, "ClientSession", "filterMessage", empty()) && okWalk
	var dl []fedDeref
	for d := range derefs {
		dl = append(dl, d)
	}
	sort.Slice(dl, func(i, j int) bool {
		a, b := dl[i], dl[j]
		if a.typ != b.typ {
			return a.typ < b.typ
		}
		if a.target != b.target {
			return a.target < b.target
		}
		if a.etype != b.etype {
			return a.etype < b.etype
		}
		return a.path < b.path
	})
	var ds []string
	for _, d := range dl {
		ds = append(ds, fmt.Sprintf("(%s, %s, %s, %s)", leanStr(d.typ), leanStr(d.target), leanStr(d.etype), leanStr(d.path)))
	}
	l.fact("derefs")
	if !okWalk || len(notes) > 0 || len(dl) == 0 {
		l.fail("derefs: processWelcome/processHello/processMessage/filterMessage not found or not analysable " + strings.Join(notes, "; "))
	}
	l.raw("/-- (message type, event target, event type, path): sub-objects of the received message dereferenced without a")
	l.raw("nil check by processWelcome / processHello / processMessage / filterMessage (\"[]\": elements of a list of pointers). -/")
	l.raw("def derefs : List (String × String × String × String) := [" + strings.Join(ds, ", ") + "]")

	// ---- unchecked type assertions in filterMessage
	fm := findFunc(cs, "ClientSession", "filterMessage")
	unchecked := 0
	if fm != nil && fm.Body != nil {
		checked := map[*ast.TypeAssertExpr]bool{}
		ast.Inspect(fm.Body, func(n ast.Node) bool {
			switch x := n.(type) {
			case *ast.AssignStmt:
				if len(x.Lhs) == 2 && len(x.Rhs) == 1 {
					if ta, ok := x.Rhs[0].(*ast.TypeAssertExpr); ok {
						checked[ta] = true
					}
				}
			case *ast.ValueSpec:
				if len(x.Names) == 2 && len(x.Values) == 1 {
					if ta, ok := x.Values[0].(*ast.TypeAssertExpr); ok {
						checked[ta] = true
					}
				}
			case *ast.TypeSwitchStmt:
				ast.Inspect(x.Assign, func(m ast.Node) bool {
					if ta, ok := m.(*ast.TypeAssertExpr); ok {
						checked[ta] = true
					}
					return true
				})
			}
			return true
		})
		ast.Inspect(fm.Body, func(n ast.Node) bool {
			if ta, ok := n.(*ast.TypeAssertExpr); ok && !checked[ta] && ta.Type != nil {
				unchecked++
			}
			return true
		})
	}
	l.nat("filterUncheckedAsserts", int64(unchecked), fm != nil, "ClientSession.filterMessage not found")

	// ---- mutexes of the hello path
	hl, ok1 := fedFirstLock(findFunc(fed, "FederationClient", "processHello"))
	hl2, ok2 := fedFirstLock(findFunc(fed, "FederationClient", "sendHello"))
	l.str("helloLock", hl, ok1 && ok2 && hl == hl2, "processHello / sendHello: first statement `c.<mu>.Lock()` not found or different mutexes")
	sl, ok3 := fedFirstLock(findFunc(fed, "FederationClient", "SendMessage"))
	cl2, ok4 := fedFirstLock(findFunc(fed, "FederationClient", "Close"))
	l.str("sendLock", sl, ok3 && ok4 && sl == cl2, "SendMessage / Close: `c.<mu>.Lock()` not found or different mutexes")
	dm, ok5 := fedFirstLock(findFunc(fed, "FederationClient", "deferMessage"))
	l.str("deferMessageLock", dm, ok5, "deferMessage: `c.<mu>.Lock()` not found")
	// the error path of sendMessageLocked: deferMessage + scheduleReconnectLocked
	sml := findFunc(fed, "FederationClient", "sendMessageLocked")
	errDefers, errReconnects, nilDefersNonRoom := false, false, false
	if sml != nil && sml.Body != nil {
		for _, st := range sml.Body.List {
			is, ok := st.(*ast.IfStmt)
			if !ok {
				continue
			}
			if be, ok := is.Cond.(*ast.BinaryExpr); ok && be.Op == token.NEQ && isIdent(be.X, "err") && isIdent(be.Y, "nil") {
				// only the statements directly in the block (not the ErrCloseSent early return)
				for _, bs := range is.Body.List {
					if es, ok := bs.(*ast.ExprStmt); ok {
						if _, ok := fedIsCall(es.X, "c", "deferMessage"); ok {
							errDefers = true
						}
						if _, ok := fedIsCall(es.X, "c", "scheduleReconnectLocked"); ok {
							errReconnects = true
						}
					}
				}
			}
			if be, ok := is.Cond.(*ast.BinaryExpr); ok && be.Op == token.EQL && isIdent(be.Y, "nil") {
				if se, ok := be.X.(*ast.SelectorExpr); ok && se.Sel.Name == "conn" && fedTerminates(is.Body) {
					for _, bs := range is.Body.List {
						if inner, ok := bs.(*ast.IfStmt); ok && fedContainsCall(inner.Body, "deferMessage") {
							if ib, ok := inner.Cond.(*ast.BinaryExpr); ok && ib.Op == token.NEQ {
								if lit, ok := strLit(ib.Y); ok && lit == "room" {
									nilDefersNonRoom = true
								}
							}
						}
					}
				}
			}
		}
	}
	l.boolean("sendErrorDefers", errDefers, sml != nil, "sendMessageLocked not found")
	l.boolean("sendErrorReconnects", errReconnects, sml != nil, "sendMessageLocked not found")
	l.boolean("sendWithoutConnDefersNonRoom", nilDefersNonRoom, sml != nil && nilDefersNonRoom,
		"sendMessageLocked: `if c.conn == nil { if message.Type != \"room\" { c.deferMessage(message) }; return nil }` not found")

	// ---- closeConnection: `if withBye { …sendMessageLocked…; if c.conn == nil { return } }`
	cc := findFunc(fed, "FederationClient", "closeConnection")
	recheck, okCC := false, false
	if cc != nil && cc.Body != nil {
		for _, st := range cc.Body.List {
			is, ok := st.(*ast.IfStmt)
			if !ok || !isIdent(is.Cond, "withBye") {
				continue
			}
			okCC = true
			sent := false
			for _, bs := range is.Body.List {
				if fedContainsCall(bs, "sendMessageLocked") {
					sent = true
					continue
				}
				if inner, ok := bs.(*ast.IfStmt); ok && sent {
					if be, ok := inner.Cond.(*ast.BinaryExpr); ok && be.Op == token.EQL && isIdent(be.Y, "nil") {
						if se, ok := be.X.(*ast.SelectorExpr); ok && se.Sel.Name == "conn" && len(inner.Body.List) > 0 {
							if _, ok := inner.Body.List[len(inner.Body.List)-1].(*ast.ReturnStmt); ok {
								recheck = true
							}
						}
					}
				}
			}
		}
	}
	l.boolean("closeRechecksConn", recheck, okCC, "closeConnection: `if withBye {…}` not found")

	// ---- everything the read loop runs: the three handlers and the methods / functions of federation.go they call
	reach := fedReachable(fed, []string{"processWelcome", "processHello", "processMessage"})
	hUnchecked := 0
	var loops []string
	chanFields := map[string]bool{}
	for name, ff := range fedChanFields(fed, "FederationClient") {
		chanFields[name] = ff
	}
	for _, fd := range reach {
		hUnchecked += fedUncheckedAsserts(fd.Body)
		ast.Inspect(fd.Body, func(n ast.Node) bool {
			switch x := n.(type) {
			case *ast.ForStmt:
				// termination depends on a condition re-evaluated against live state
				loops = append(loops, fd.Name.Name+":for")
			case *ast.RangeStmt:
				if se, ok := x.X.(*ast.SelectorExpr); ok && chanFields[se.Sel.Name] {
					loops = append(loops, fd.Name.Name+":range-chan")
				}
			}
			return true
		})
	}
	sort.Strings(loops)
	l.nat("handlerUncheckedAsserts", int64(hUnchecked), len(reach) >= 3, "processWelcome / processHello / processMessage not found")
	l.strList("unboundedLoops", loops, len(reach) >= 3, "processWelcome / processHello / processMessage not found")

	// ---- the queue deferMessage appends to, and how processHello flushes it after a resume:
	// `messages := c.<queue>; c.<queue> = nil` … `for _, m := range messages { …sendMessageLocked(m)… }` iterates over a
	// snapshot; sendMessageLocked re-queues on a failed write, so a loop over the live queue would not terminate.
	queue := ""
	if dmf := findFunc(fed, "FederationClient", "deferMessage"); dmf != nil && dmf.Body != nil {
		ast.Inspect(dmf.Body, func(n ast.Node) bool {
			as, ok := n.(*ast.AssignStmt)
			if !ok || len(as.Lhs) != 1 || len(as.Rhs) != 1 {
				return true
			}
			call, ok := as.Rhs[0].(*ast.CallExpr)
			if !ok || !isIdent(call.Fun, "append") || len(call.Args) < 2 {
				return true
			}
			if se, ok := as.Lhs[0].(*ast.SelectorExpr); ok {
				if a0, ok := call.Args[0].(*ast.SelectorExpr); ok && a0.Sel.Name == se.Sel.Name {
					queue = se.Sel.Name
				}
			}
			return true
		})
	}
	l.str("pendingQueueField", queue, queue != "", "deferMessage: `c.<queue> = append(c.<queue>, message)` not found")
	snapshot, flushFound := false, false
	if ph := findFunc(fed, "FederationClient", "processHello"); ph != nil && ph.Body != nil && queue != "" {
		// local := c.<queue> and c.<queue> = nil, by position
		snapOf := map[string]token.Pos{}
		var resets []token.Pos
		ast.Inspect(ph.Body, func(n ast.Node) bool {
			as, ok := n.(*ast.AssignStmt)
			if !ok || len(as.Lhs) != 1 || len(as.Rhs) != 1 {
				return true
			}
			if id, ok := as.Lhs[0].(*ast.Ident); ok && as.Tok == token.DEFINE {
				if se, ok := as.Rhs[0].(*ast.SelectorExpr); ok && se.Sel.Name == queue {
					snapOf[id.Name] = as.Pos()
				}
			}
			if se, ok := as.Lhs[0].(*ast.SelectorExpr); ok && se.Sel.Name == queue && isIdent(as.Rhs[0], "nil") {
				resets = append(resets, as.Pos())
			}
			return true
		})
		ast.Inspect(ph.Body, func(n ast.Node) bool {
			var body *ast.BlockStmt
			var rng *ast.RangeStmt
			switch x := n.(type) {
			case *ast.ForStmt:
				body = x.Body
			case *ast.RangeStmt:
				body, rng = x.Body, x
			default:
				return true
			}
			if !fedContainsCall(body, "sendMessageLocked") && !fedContainsCall(body, "SendMessage") {
				return true
			}
			flushFound = true
			ok := false
			if rng != nil {
				if id, isId := rng.X.(*ast.Ident); isId {
					if at, isSnap := snapOf[id.Name]; isSnap && at < rng.Pos() {
						reset := false
						for _, r := range resets {
							reset = reset || (r > at && r < rng.Pos())
						}
						reassigned := false
						ast.Inspect(body, func(m ast.Node) bool {
							if as, isAs := m.(*ast.AssignStmt); isAs {
								for _, lh := range as.Lhs {
									reassigned = reassigned || isIdent(lh, id.Name)
								}
							}
							return true
						})
						ok = reset && !reassigned
					}
				}
			}
			snapshot = ok
			return true
		})
	}
	l.boolean("flushOverSnapshot", snapshot, flushFound,
		"processHello: no loop sending the pending messages (`for … { …sendMessageLocked(…)… }`) found")
	return l
}

// fedReachable: the named methods of federation.go and, transitively, every function / method of the same file they call.
func fedReachable(f *ast.File, roots []string) []*ast.FuncDecl {
	if f == nil {
		return nil
	}
	byName := map[string][]*ast.FuncDecl{}
	for _, d := range f.Decls {
		if fd, ok := d.(*ast.FuncDecl); ok && fd.Body != nil {
			byName[fd.Name.Name] = append(byName[fd.Name.Name], fd)
		}
	}
	seen := map[string]bool{}
	var order []*ast.FuncDecl
	var visit func(name string)
	visit = func(name string) {
		if seen[name] {
			return
		}
		seen[name] = true
		for _, fd := range byName[name] {
			order = append(order, fd)
			ast.Inspect(fd.Body, func(n ast.Node) bool {
				call, ok := n.(*ast.CallExpr)
				if !ok {
					return true
				}
				switch fn := call.Fun.(type) {
				case *ast.Ident:
					if _, ok := byName[fn.Name]; ok {
						visit(fn.Name)
					}
				case *ast.SelectorExpr:
					// c.method(…) only: calls on other objects (c.session.SendMessage) leave the file
					if _, isId := fn.X.(*ast.Ident); isId {
						if _, ok := byName[fn.Sel.Name]; ok {
							visit(fn.Sel.Name)
						}
					}
				}
				return true
			})
		}
	}
	for _, r := range roots {
		if _, ok := byName[r]; ok {
			visit(r)
		}
	}
	return order
}

// fedChanFields: the channel-typed fields of a struct.
func fedChanFields(f *ast.File, typ string) map[string]bool {
	res := map[string]bool{}
	if f == nil {
		return res
	}
	for _, d := range f.Decls {
		gd, ok := d.(*ast.GenDecl)
		if !ok || gd.Tok != token.TYPE {
			continue
		}
		for _, sp := range gd.Specs {
			ts := sp.(*ast.TypeSpec)
			st, ok := ts.Type.(*ast.StructType)
			if !ok || ts.Name.Name != typ {
				continue
			}
			for _, fl := range st.Fields.List {
				if _, ok := fl.Type.(*ast.ChanType); ok {
					for _, n := range fl.Names {
						res[n.Name] = true
					}
				}
			}
		}
	}
	return res
}

// fedUncheckedAsserts counts the type assertions `m[k].(T)` / `v.(T)` not in comma-ok form / a type switch.
func fedUncheckedAsserts(body *ast.BlockStmt) int {
	if body == nil {
		return 0
	}
	checked := map[*ast.TypeAssertExpr]bool{}
	ast.Inspect(body, func(n ast.Node) bool {
		switch x := n.(type) {
		case *ast.AssignStmt:
			if len(x.Lhs) == 2 && len(x.Rhs) == 1 {
				if ta, ok := x.Rhs[0].(*ast.TypeAssertExpr); ok {
					checked[ta] = true
				}
			}
		case *ast.ValueSpec:
			if len(x.Names) == 2 && len(x.Values) == 1 {
				if ta, ok := x.Values[0].(*ast.TypeAssertExpr); ok {
					checked[ta] = true
				}
			}
		case *ast.TypeSwitchStmt:
			ast.Inspect(x.Assign, func(m ast.Node) bool {
				if ta, ok := m.(*ast.TypeAssertExpr); ok {
					checked[ta] = true
				}
				return true
			})
		}
		return true
	})
	n := 0
	ast.Inspect(body, func(m ast.Node) bool {
		if ta, ok := m.(*ast.TypeAssertExpr); ok && !checked[ta] && ta.Type != nil {
			// entries of maps / interface values held in variables are what decoded JSON ends up in; values the client
			// stored itself (`c.roomId.Load().(string)`) are not peer-controlled
			switch ast.Unparen(ta.X).(type) {
			case *ast.IndexExpr, *ast.Ident:
				n++
			}
		}
		return true
	})
	return n
}
