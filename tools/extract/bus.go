package main

import (
	"go/ast"
	"go/token"
	"strings"
)

func init() { register(genBus) }

// Facts of async_events.go, async_events_nats.go, natsclient_loopback.go (C20).
//
// The small-step model of Model/Bus.lean takes its atomic actions from the
// critical sections of these files; the facts below pin down the shape of those
// sections (what is done under which mutex, in which order) and the constants.
func genBus(c *ctx) *leanFile {
	l := c.newLean("Bus", "async_events.go", "async_events_nats.go", "natsclient_loopback.go")
	fe := c.file("async_events.go")
	fn := c.file("async_events_nats.go")
	fl := c.file("natsclient_loopback.go")

	// ---- receiver channel capacity: `receiver := make(chan *nats.Msg, N)` in newAsyncSubscriberNats
	var capN int64
	okCap := false
	if fd := findFunc(fn, "", "newAsyncSubscriberNats"); fd != nil && fd.Body != nil {
		ast.Inspect(fd.Body, func(n ast.Node) bool {
			as, ok := n.(*ast.AssignStmt)
			if !ok || len(as.Lhs) != 1 || len(as.Rhs) != 1 || !isIdent(as.Lhs[0], "receiver") {
				return true
			}
			call, ok := as.Rhs[0].(*ast.CallExpr)
			if !ok || !isIdent(call.Fun, "make") || len(call.Args) != 2 {
				return true
			}
			if _, ok := call.Args[0].(*ast.ChanType); !ok {
				return true
			}
			if v, ok := c.evalInt(call.Args[1], nil, 0); ok {
				capN, okCap = v, true
			}
			return true
		})
	}
	l.nat("chanCap", capN, okCap && capN > 0, "newAsyncSubscriberNats: `receiver := make(chan *nats.Msg, N)` not found")

	// ---- listener iteration of the four subscribers (async_events.go)
	kinds := []struct{ typ, fn, cb, short string }{
		{"asyncBackendRoomSubscriber", "processBackendRoomRequest", "ProcessBackendRoomRequest", "BackendRoom"},
		{"asyncRoomSubscriber", "processAsyncRoomMessage", "ProcessAsyncRoomMessage", "Room"},
		{"asyncUserSubscriber", "processAsyncUserMessage", "ProcessAsyncUserMessage", "User"},
		{"asyncSessionSubscriber", "processAsyncSessionMessage", "ProcessAsyncSessionMessage", "Session"},
	}
	for _, k := range kinds {
		fd := findFunc(fe, k.typ, k.fn)
		prog, ok := "", false
		if fd != nil && fd.Body != nil {
			prog, ok = busProgram(fd.Body.List, "s", k.cb), true
		}
		l.str("iterProgram"+k.short, prog, ok, k.typ+"."+k.fn+" not found")

		// addListener: L D ... s.listeners[listener] = true
		fd = findFunc(fe, k.typ, "addListener")
		okAdd := false
		if fd != nil && fd.Body != nil {
			p := busProgram(fd.Body.List, "s", "")
			okAdd = strings.HasPrefix(p, "LD") && strings.HasSuffix(p, "S")
		}
		l.boolean("addUnderLock"+k.short, okAdd, fd != nil, k.typ+".addListener not found")

		// removeListener: L D delete(s.listeners, listener); return len(s.listeners) > 0
		fd = findFunc(fe, k.typ, "removeListener")
		okRem := false
		if fd != nil && fd.Body != nil {
			p := busProgram(fd.Body.List, "s", "")
			okRem = p == "LDXr"
		}
		l.boolean("removeReportsRemaining"+k.short, okRem, fd != nil, k.typ+".removeListener not found")
	}

	// ---- Register*/Unregister*/publish of asyncEventsNats
	for _, k := range kinds {
		mapName := strings.ToLower(k.short[:1]) + k.short[1:] + "Subscriptions"
		// Register: e.mu.Lock(); defer e.mu.Unlock(); sub, found := e.<map>[key]; if !found {create; e.<map>[key] = sub}; sub.addListener(listener)
		fd := findFunc(fn, "asyncEventsNats", "Register"+k.short+"Listener")
		okReg := false
		if fd != nil && fd.Body != nil {
			okReg = busRegisterShape(fd, mapName)
		}
		l.boolean("registerAtomic"+k.short, okReg, fd != nil, "Register"+k.short+"Listener not found")
		fd = findFunc(fn, "asyncEventsNats", "Unregister"+k.short+"Listener")
		okUn := false
		if fd != nil && fd.Body != nil {
			okUn = busUnregisterShape(fd, mapName)
		}
		l.boolean("unregisterClosesLast"+k.short, okUn, fd != nil, "Unregister"+k.short+"Listener not found")
	}

	// ---- asyncSubscriberNats.run: deferred Unsubscribe, select over receiver / closeChan
	okRun := false
	if fd := findFunc(fn, "asyncSubscriberNats", "run"); fd != nil && fd.Body != nil {
		deferUnsub, selRecv, selClose := false, false, false
		ast.Inspect(fd.Body, func(n ast.Node) bool {
			switch x := n.(type) {
			case *ast.DeferStmt:
				ast.Inspect(x.Call, func(m ast.Node) bool {
					if ce, ok := m.(*ast.CallExpr); ok {
						if se, ok := ce.Fun.(*ast.SelectorExpr); ok && se.Sel.Name == "Unsubscribe" {
							deferUnsub = true
						}
					}
					return true
				})
			case *ast.CommClause:
				s := exprString(c.fset, x.Comm)
				if x.Comm != nil && strings.Contains(s, "receiver") {
					selRecv = true
				}
				if x.Comm != nil && strings.Contains(s, "closeChan") && len(x.Body) == 1 {
					if _, ok := x.Body[0].(*ast.ReturnStmt); ok {
						selClose = true
					}
				}
			}
			return true
		})
		okRun = deferUnsub && selRecv && selClose
	}
	l.boolean("runUnsubscribesOnClose", okRun, true, "")

	// run: `if s.previous != nil { <-s.previous }` before the loop; the deferred function closes s.done after Unsubscribe
	waits, signals := false, false
	if fd := findFunc(fn, "asyncSubscriberNats", "run"); fd != nil && fd.Body != nil {
		for i, st := range fd.Body.List {
			if is, ok := st.(*ast.IfStmt); ok && i+1 < len(fd.Body.List) {
				if _, isFor := fd.Body.List[i+1].(*ast.ForStmt); isFor && len(is.Body.List) == 1 {
					if es, ok := is.Body.List[0].(*ast.ExprStmt); ok {
						if ue, ok := es.X.(*ast.UnaryExpr); ok && ue.Op == token.ARROW && isSel(ue.X, "s", "previous") {
							waits = true
						}
					}
				}
			}
			if ds, ok := st.(*ast.DeferStmt); ok {
				if fl, ok := ds.Call.Fun.(*ast.FuncLit); ok {
					seenUnsub := false
					for _, b := range fl.Body.List {
						if strings.Contains(exprString(c.fset, b), "Unsubscribe") {
							seenUnsub = true
						}
						if es, ok := b.(*ast.ExprStmt); ok {
							if call, ok := es.X.(*ast.CallExpr); ok && isIdent(call.Fun, "close") && len(call.Args) == 1 && isSel(call.Args[0], "s", "done") && seenUnsub {
								signals = true
							}
						}
					}
				}
			}
		}
	}
	l.boolean("runWaitsForPrevious", waits, true, "")
	l.boolean("runSignalsDone", signals, true, "")

	// closeSubscriber: e.closing[key] = done before sub.close()
	remembers := false
	if fd := findFunc(fn, "asyncEventsNats", "closeSubscriber"); fd != nil && fd.Body != nil {
		stored := false
		for _, st := range fd.Body.List {
			if as, ok := st.(*ast.AssignStmt); ok && len(as.Lhs) == 1 {
				if ie, ok := as.Lhs[0].(*ast.IndexExpr); ok && isSel(ie.X, "e", "closing") {
					stored = true
				}
			}
			if es, ok := st.(*ast.ExprStmt); ok {
				if call, ok := es.X.(*ast.CallExpr); ok {
					if se, ok := call.Fun.(*ast.SelectorExpr); ok && se.Sel.Name == "close" && isIdent(se.X, "sub") && stored {
						remembers = true
					}
				}
			}
		}
	}
	l.boolean("closeRemembersSubscriber", remembers, true, "")

	// ---- LoopbackNatsClient.processMessage: snapshot of channels under c.mu, unlock, non-blocking sends
	nonBlocking, okPM, progPM := false, false, ""
	if fd := findFunc(fl, "LoopbackNatsClient", "processMessage"); fd != nil && fd.Body != nil {
		okPM = true
		// expected "C?(r)MI(A)UdI(Z)": lookup, snapshot loop, Unlock, deferred Lock, loop with select
		progPM = busProgram(fd.Body.List, "c", "")
		ast.Inspect(fd.Body, func(n ast.Node) bool {
			if ss, ok := n.(*ast.SelectStmt); ok {
				hasSend, hasDefault := false, false
				for _, cl := range ss.Body.List {
					cc := cl.(*ast.CommClause)
					if cc.Comm == nil {
						hasDefault = true
					} else if _, ok := cc.Comm.(*ast.SendStmt); ok {
						hasSend = true
					}
				}
				nonBlocking = hasSend && hasDefault
			}
			return true
		})
	}
	l.boolean("sendNonBlocking", nonBlocking, okPM, "LoopbackNatsClient.processMessage not found")
	l.str("dispatchProgram", progPM, okPM, "LoopbackNatsClient.processMessage not found")

	// ---- LoopbackNatsClient.processMessages: single goroutine pops the front of `incoming` under c.mu
	okFifo := false
	if fd := findFunc(fl, "LoopbackNatsClient", "processMessages"); fd != nil && fd.Body != nil {
		front, remove := false, false
		ast.Inspect(fd.Body, func(n ast.Node) bool {
			if ce, ok := n.(*ast.CallExpr); ok {
				if se, ok := ce.Fun.(*ast.SelectorExpr); ok {
					if se.Sel.Name == "Front" {
						front = true
					}
					if se.Sel.Name == "Remove" {
						remove = true
					}
				}
			}
			return true
		})
		okFifo = front && remove
	}
	l.boolean("dispatchPopsFront", okFifo, true, "")

	// ---- LoopbackNatsClient.Publish: c.mu.Lock(); defer c.mu.Unlock(); ... c.incoming.PushBack(msg); no channel operation, no Wait
	okPub := false
	if fd := findFunc(fl, "LoopbackNatsClient", "Publish"); fd != nil && fd.Body != nil {
		p := busProgram(fd.Body.List, "c", "")
		pushBack, blocking := false, false
		ast.Inspect(fd.Body, func(n ast.Node) bool {
			switch x := n.(type) {
			case *ast.CallExpr:
				if se, ok := x.Fun.(*ast.SelectorExpr); ok {
					if se.Sel.Name == "PushBack" {
						pushBack = true
					}
					if se.Sel.Name == "Wait" {
						blocking = true
					}
				}
			case *ast.SendStmt, *ast.SelectStmt:
				blocking = true
			case *ast.UnaryExpr:
				if x.Op == token.ARROW {
					blocking = true
				}
			}
			return true
		})
		okPub = strings.Contains(p, "LD") && pushBack && !blocking
	}
	l.boolean("publishNeverWaits", okPub, true, "")

	// ---- Subscribe / unsubscribe under c.mu
	okSub := false
	if fd := findFunc(fl, "LoopbackNatsClient", "Subscribe"); fd != nil && fd.Body != nil {
		okSub = strings.Contains(busProgram(fd.Body.List, "c", ""), "LD")
	}
	if fd := findFunc(fl, "LoopbackNatsClient", "unsubscribe"); fd == nil || fd.Body == nil || !strings.HasPrefix(busProgram(fd.Body.List, "c", ""), "LD") {
		okSub = false
	}
	l.boolean("subscribeUnderClientLock", okSub, true, "")

	// ---- subject table: prefix and whether the backend id is appended
	subj := []struct{ fn, short string }{
		{"GetSubjectForBackendRoomId", "BackendRoom"}, {"GetSubjectForRoomId", "Room"}, {"GetSubjectForUserId", "User"},
	}
	for _, s := range subj {
		fd := findFunc(fn, "", s.fn)
		prefix, withBackend, ok := "", false, false
		if fd != nil && fd.Body != nil {
			var prefixes []string
			ast.Inspect(fd.Body, func(n ast.Node) bool {
				rs, isRet := n.(*ast.ReturnStmt)
				if !isRet || len(rs.Results) != 1 {
					return true
				}
				call, isCall := rs.Results[0].(*ast.CallExpr)
				if !isCall || !isIdent(call.Fun, "GetEncodedSubject") || len(call.Args) != 2 {
					return true
				}
				if p, isLit := strLit(call.Args[0]); isLit {
					prefixes = append(prefixes, p)
				}
				if strings.Contains(exprString(c.fset, call.Args[1]), "backend") {
					withBackend = true
				}
				return true
			})
			if len(prefixes) == 2 && prefixes[0] == prefixes[1] {
				prefix, ok = prefixes[0]+".", true
			}
		}
		l.str("subjectPrefix"+s.short, prefix, ok, s.fn+": two `return GetEncodedSubject(\"<prefix>\", …)` not found")
		l.boolean("subjectHasBackend"+s.short, withBackend, ok, s.fn+" not found")
	}
	{
		fd := findFunc(fn, "", "GetSubjectForSessionId")
		prefix, ok := "", false
		if fd != nil && fd.Body != nil && len(fd.Body.List) == 1 {
			if rs, isRet := fd.Body.List[0].(*ast.ReturnStmt); isRet && len(rs.Results) == 1 {
				if be, isBin := rs.Results[0].(*ast.BinaryExpr); isBin && be.Op == token.ADD && isIdent(be.Y, "sessionId") {
					prefix, ok = strLit(be.X)
				}
			}
		}
		l.str("subjectPrefixSession", prefix, ok, "GetSubjectForSessionId: `return \"<prefix>\" + sessionId` not found")
	}
	// GetEncodedSubject: prefix + "." + base64(suffix)
	okEnc := false
	if fd := findFunc(c.file("natsclient.go"), "", "GetEncodedSubject"); fd != nil && fd.Body != nil && len(fd.Body.List) == 1 {
		s := exprString(c.fset, fd.Body.List[0])
		okEnc = strings.Contains(s, "EncodeToString") && strings.Contains(s, "StdEncoding")
	}
	l.boolean("subjectSuffixBase64", okEnc, true, "")
	return l
}

// busProgram renders the locking skeleton of a statement list:
//
//	L / U   recv.mu.Lock() / recv.mu.Unlock()      D / d  defer recv.mu.Unlock() / defer recv.mu.Lock()
//	R(...)  range over a field of recv (a map)      I(...) range over a local variable
//	M       x := make(...)                          A      x = append(...)
//	C       _, found := recv.<field>[x]             S      recv.<field>[x] = ...
//	X       delete(recv.<field>, x)                 K      listener.<callback>(message)
//	?(...)  if                                      c / r  continue / return
//	Z       select statement                        .      anything else that contains a call
func busProgram(stmts []ast.Stmt, recv string, callback string) string {
	var sb strings.Builder
	isMu := func(e ast.Expr, name string) bool {
		call, ok := e.(*ast.CallExpr)
		if !ok {
			return false
		}
		se, ok := call.Fun.(*ast.SelectorExpr)
		if !ok || se.Sel.Name != name {
			return false
		}
		return isSel(se.X, recv, "mu")
	}
	recvField := func(e ast.Expr) bool {
		se, ok := e.(*ast.SelectorExpr)
		return ok && isIdent(se.X, recv)
	}
	var walk func(list []ast.Stmt)
	walk = func(list []ast.Stmt) {
		for _, st := range list {
			switch x := st.(type) {
			case *ast.ExprStmt:
				switch {
				case isMu(x.X, "Lock"):
					sb.WriteByte('L')
				case isMu(x.X, "Unlock"):
					sb.WriteByte('U')
				default:
					if call, ok := x.X.(*ast.CallExpr); ok {
						if isIdent(call.Fun, "delete") && len(call.Args) == 2 && recvField(call.Args[0]) {
							sb.WriteByte('X')
						} else if se, ok := call.Fun.(*ast.SelectorExpr); ok && callback != "" && se.Sel.Name == callback && isIdent(se.X, "listener") {
							sb.WriteByte('K')
						} else {
							sb.WriteByte('.')
						}
					}
				}
			case *ast.DeferStmt:
				switch {
				case isMu(x.Call, "Unlock"):
					sb.WriteByte('D')
				case isMu(x.Call, "Lock"):
					sb.WriteByte('d')
				default:
					sb.WriteByte('.')
				}
			case *ast.RangeStmt:
				if recvField(x.X) {
					sb.WriteString("R(")
				} else {
					sb.WriteString("I(")
				}
				walk(x.Body.List)
				sb.WriteByte(')')
			case *ast.ForStmt:
				sb.WriteString("F(")
				walk(x.Body.List)
				sb.WriteByte(')')
			case *ast.AssignStmt:
				if len(x.Rhs) == 1 {
					if call, ok := x.Rhs[0].(*ast.CallExpr); ok && isIdent(call.Fun, "make") {
						if len(x.Lhs) == 1 && recvField(x.Lhs[0]) {
							sb.WriteByte('m')
						} else {
							sb.WriteByte('M')
						}
						continue
					}
					if call, ok := x.Rhs[0].(*ast.CallExpr); ok && isIdent(call.Fun, "append") {
						sb.WriteByte('A')
						continue
					}
					if ie, ok := x.Rhs[0].(*ast.IndexExpr); ok && recvField(ie.X) {
						sb.WriteByte('C')
						continue
					}
				}
				if len(x.Lhs) == 1 {
					if ie, ok := x.Lhs[0].(*ast.IndexExpr); ok && recvField(ie.X) {
						sb.WriteByte('S')
						continue
					}
				}
				hasCall := false
				ast.Inspect(x, func(n ast.Node) bool {
					if _, ok := n.(*ast.CallExpr); ok {
						hasCall = true
					}
					return true
				})
				if hasCall {
					sb.WriteByte('.')
				}
			case *ast.IfStmt:
				sb.WriteString("?(")
				walk(x.Body.List)
				sb.WriteByte(')')
			case *ast.BranchStmt:
				if x.Tok == token.CONTINUE {
					sb.WriteByte('c')
				}
			case *ast.ReturnStmt:
				sb.WriteByte('r')
			case *ast.SelectStmt:
				sb.WriteByte('Z')
			}
		}
	}
	walk(stmts)
	return sb.String()
}

// busRegisterShape: key := …; e.mu.Lock(); defer e.mu.Unlock(); sub, found := e.<map>[key];
// if !found { …; e.<map>[key] = sub }; sub.addListener(listener); return nil
func busRegisterShape(fd *ast.FuncDecl, mapName string) bool {
	p := busProgram(fd.Body.List, "e", "")
	if !strings.HasPrefix(strings.TrimLeft(p, "."), "LDC?(") {
		return false
	}
	addAfter := false
	for _, st := range fd.Body.List {
		if es, ok := st.(*ast.ExprStmt); ok {
			if call, ok := es.X.(*ast.CallExpr); ok {
				if se, ok := call.Fun.(*ast.SelectorExpr); ok && se.Sel.Name == "addListener" && isIdent(se.X, "sub") {
					addAfter = true
				}
			}
		}
	}
	usesMap, passesPrevious := false, false
	ast.Inspect(fd.Body, func(n ast.Node) bool {
		if se, ok := n.(*ast.SelectorExpr); ok && isIdent(se.X, "e") && se.Sel.Name == mapName {
			usesMap = true
		}
		// new…SubscriberNats(key, e.client, e.closing[key])
		if call, ok := n.(*ast.CallExpr); ok && len(call.Args) == 3 {
			if ie, ok := call.Args[2].(*ast.IndexExpr); ok && isSel(ie.X, "e", "closing") && isIdent(ie.Index, "key") {
				passesPrevious = true
			}
		}
		return true
	})
	return addAfter && usesMap && passesPrevious
}

// busUnregisterShape: e.mu.Lock(); defer e.mu.Unlock(); sub, found := e.<map>[key]; if !found { return };
// if !sub.removeListener(listener) { delete(e.<map>, key); e.closeSubscriber(sub.asyncSubscriberNats) }
func busUnregisterShape(fd *ast.FuncDecl, mapName string) bool {
	p := strings.TrimLeft(busProgram(fd.Body.List, "e", ""), ".")
	if p != "LDC?(r)?(X.)" {
		return false
	}
	ok := false
	for _, st := range fd.Body.List {
		is, isIf := st.(*ast.IfStmt)
		if !isIf {
			continue
		}
		ue, isNot := is.Cond.(*ast.UnaryExpr)
		if !isNot || ue.Op != token.NOT {
			continue
		}
		call, isCall := ue.X.(*ast.CallExpr)
		if !isCall {
			continue
		}
		se, isSelE := call.Fun.(*ast.SelectorExpr)
		if !isSelE || se.Sel.Name != "removeListener" || len(is.Body.List) != 2 {
			continue
		}
		closes := false
		if es, isE := is.Body.List[1].(*ast.ExprStmt); isE {
			if c2, isC := es.X.(*ast.CallExpr); isC {
				if s2, isS := c2.Fun.(*ast.SelectorExpr); isS && s2.Sel.Name == "closeSubscriber" && isIdent(s2.X, "e") && len(c2.Args) == 1 {
					closes = true
				}
			}
		}
		dl := false
		if es, isE := is.Body.List[0].(*ast.ExprStmt); isE {
			if c2, isC := es.X.(*ast.CallExpr); isC && isIdent(c2.Fun, "delete") && len(c2.Args) == 2 {
				if s2, isS := c2.Args[0].(*ast.SelectorExpr); isS && isIdent(s2.X, "e") && s2.Sel.Name == mapName {
					dl = true
				}
			}
		}
		ok = closes && dl
	}
	return ok
}
