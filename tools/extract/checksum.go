package main

import (
	"go/ast"
	"go/token"
	"os"
	"path/filepath"
	"strings"
)

func init() { register(genChecksum) }

// Facts of api_backend.go (checksum construction/validation), backend_server.go
// (parseRequestBody, roomHandler decision order) and backend_client.go (the one
// outgoing POST site): C02.
func genChecksum(c *ctx) *leanFile {
	l := c.newLean("Checksum", "api_backend.go", "backend_server.go", "backend_client.go", "backend_configuration.go", "backend_storage_static.go", "backend_storage_etcd.go", "http_client_pool.go")
	api := c.file("api_backend.go")
	bs := c.file("backend_server.go")
	bc := c.file("backend_client.go")
	scope := pkgValues(api, bs)

	for _, n := range []string{"HeaderBackendSignalingRandom", "HeaderBackendSignalingChecksum", "HeaderBackendServer"} {
		v, ok := "", false
		if e, found := scope[n]; found {
			v, ok = strLit(e)
		}
		l.str(n, v, ok, "const "+n+" = \"…\" not found in api_backend.go")
	}

	// CalculateBackendChecksum(random, body, secret):
	//   mac := hmac.New(sha256.New, secret); mac.Write([]byte(random)); mac.Write(body); return hex.EncodeToString(mac.Sum(nil))
	hash, okHash := "", false
	var writes []string
	hexOut := false
	if fd := findFunc(api, "", "CalculateBackendChecksum"); fd != nil && fd.Body != nil {
		for _, st := range fd.Body.List {
			switch s := st.(type) {
			case *ast.AssignStmt:
				if len(s.Rhs) == 1 {
					if call, ok := s.Rhs[0].(*ast.CallExpr); ok && isSel(call.Fun, "hmac", "New") && len(call.Args) == 2 && isIdent(call.Args[1], "secret") {
						if sel, ok := call.Args[0].(*ast.SelectorExpr); ok && sel.Sel.Name == "New" {
							if id, ok := sel.X.(*ast.Ident); ok {
								hash, okHash = id.Name, true
							}
						}
					}
				}
			case *ast.ExprStmt:
				if call, ok := s.X.(*ast.CallExpr); ok && isSel(call.Fun, "mac", "Write") && len(call.Args) == 1 {
					arg := call.Args[0]
					if conv, ok := arg.(*ast.CallExpr); ok && len(conv.Args) == 1 { // []byte(random)
						arg = conv.Args[0]
					}
					if id, ok := arg.(*ast.Ident); ok {
						writes = append(writes, id.Name)
					} else {
						writes = append(writes, "?")
					}
				}
			case *ast.ReturnStmt:
				if len(s.Results) == 1 {
					if call, ok := s.Results[0].(*ast.CallExpr); ok && isSel(call.Fun, "hex", "EncodeToString") && len(call.Args) == 1 {
						if sum, ok := call.Args[0].(*ast.CallExpr); ok && isSel(sum.Fun, "mac", "Sum") && len(sum.Args) == 1 && isIdent(sum.Args[0], "nil") {
							hexOut = true
						}
					}
				}
			}
		}
	}
	l.str("checksumHash", hash, okHash, "CalculateBackendChecksum: mac := hmac.New(<hash>.New, secret) not found")
	l.strList("checksumWrites", writes, len(writes) > 0, "CalculateBackendChecksum: mac.Write(…) calls not found")
	l.boolean("checksumIsHexOfMac", hexOut, hexOut, "CalculateBackendChecksum: return hex.EncodeToString(mac.Sum(nil)) not found")

	// ValidateBackendChecksumValue(checksum, random, body, secret):
	//   verify := CalculateBackendChecksum(random, body, secret); return subtle.ConstantTimeCompare([]byte(verify), []byte(checksum)) == 1
	fullCompare := false
	if fd := findFunc(api, "", "ValidateBackendChecksumValue"); fd != nil && fd.Body != nil && len(fd.Body.List) == 2 {
		okVerify := false
		if as, ok := fd.Body.List[0].(*ast.AssignStmt); ok && len(as.Lhs) == 1 && isIdent(as.Lhs[0], "verify") && len(as.Rhs) == 1 {
			if call, ok := as.Rhs[0].(*ast.CallExpr); ok && isIdent(call.Fun, "CalculateBackendChecksum") && len(call.Args) == 3 &&
				isIdent(call.Args[0], "random") && isIdent(call.Args[1], "body") && isIdent(call.Args[2], "secret") {
				okVerify = true
			}
		}
		if rs, ok := fd.Body.List[1].(*ast.ReturnStmt); ok && okVerify && len(rs.Results) == 1 {
			if be, ok := rs.Results[0].(*ast.BinaryExpr); ok && be.Op == token.EQL {
				if v, ok := c.evalInt(be.Y, scope, 0); ok && v == 1 {
					if call, ok := be.X.(*ast.CallExpr); ok && isSel(call.Fun, "subtle", "ConstantTimeCompare") && len(call.Args) == 2 {
						t := srcText(c.fset, call.Args[0]) + "," + srcText(c.fset, call.Args[1])
						if t == "[]byte(verify),[]byte(checksum)" || t == "[]byte(checksum),[]byte(verify)" {
							fullCompare = true
						}
					}
				}
			}
		}
	}
	l.boolean("validateComparesWholeStrings", fullCompare, fullCompare,
		"ValidateBackendChecksumValue: verify := CalculateBackendChecksum(random, body, secret); return subtle.ConstantTimeCompare([]byte(verify), []byte(checksum)) == 1 expected")

	// ValidateBackendChecksum(r, body, secret): reads the two headers and delegates.
	hdrValidate := false
	if fd := findFunc(api, "", "ValidateBackendChecksum"); fd != nil && fd.Body != nil {
		t := srcText(c.fset, fd.Body)
		hdrValidate = strings.Contains(t, "rnd := r.Header.Get(HeaderBackendSignalingRandom)") &&
			strings.Contains(t, "checksum := r.Header.Get(HeaderBackendSignalingChecksum)") &&
			strings.Contains(t, "return ValidateBackendChecksumValue(checksum, rnd, body, secret)")
	}
	l.boolean("validateReadsBothHeaders", hdrValidate, hdrValidate, "ValidateBackendChecksum: header reads + ValidateBackendChecksumValue(checksum, rnd, body, secret) expected")

	// AddBackendChecksum: rnd := newRandomString(N); checksum := CalculateBackendChecksum(rnd, body, secret); both headers set.
	var rndLen int64
	okAdd := false
	if fd := findFunc(api, "", "AddBackendChecksum"); fd != nil && fd.Body != nil {
		t := srcText(c.fset, fd.Body)
		ast.Inspect(fd.Body, func(x ast.Node) bool {
			if call, ok := x.(*ast.CallExpr); ok && isIdent(call.Fun, "newRandomString") && len(call.Args) == 1 {
				if v, ok := c.evalInt(call.Args[0], scope, 0); ok {
					rndLen = v
				}
			}
			return true
		})
		okAdd = rndLen > 0 && strings.Contains(t, "checksum := CalculateBackendChecksum(rnd, body, secret)") &&
			strings.Contains(t, "r.Header.Set(HeaderBackendSignalingRandom, rnd)") &&
			strings.Contains(t, "r.Header.Set(HeaderBackendSignalingChecksum, checksum)")
	}
	l.nat("outgoingRandomLength", rndLen, okAdd, "AddBackendChecksum: rnd := newRandomString(N) + checksum over (rnd, body, secret) + both headers set expected")

	// newRandomString(length): b := make([]byte, length/2); rand.Read(b); hex.EncodeToString(b)
	rndShape := false
	if fd := findFunc(api, "", "newRandomString"); fd != nil && fd.Body != nil {
		t := srcText(c.fset, fd.Body)
		rndShape = strings.Contains(t, "make([]byte, length/2)") && strings.Contains(t, "rand.Read(b)") &&
			strings.Contains(t, "return hex.EncodeToString(b)")
		// crypto/rand, not math/rand
		cr := false
		for _, im := range api.Imports {
			if im.Path.Value == "\"crypto/rand\"" && im.Name == nil {
				cr = true
			}
		}
		rndShape = rndShape && cr
	}
	l.boolean("randomIsHexOfCryptoRandHalfLength", rndShape, rndShape, "newRandomString: hex of length/2 bytes from crypto/rand expected")

	// parseRequestBody: maxBodySize, both headers required (else 403) before the handler runs.
	v, ok := int64(0), false
	if e, found := scope["maxBodySize"]; found {
		v, ok = c.evalInt(e, scope, 0)
	}
	l.nat("maxBodySize", v, ok, "const maxBodySize not found in backend_server.go")
	missing403 := false
	if fd := findFunc(bs, "BackendServer", "parseRequestBody"); fd != nil && fd.Body != nil {
		ast.Inspect(fd.Body, func(x ast.Node) bool {
			is, ok := x.(*ast.IfStmt)
			if !ok {
				return true
			}
			t := srcText(c.fset, is.Cond)
			t = strings.Join(strings.Fields(t), " ")
			if t == `r.Header.Get(HeaderBackendSignalingRandom) == "" || r.Header.Get(HeaderBackendSignalingChecksum) == ""` {
				bt := srcText(c.fset, is.Body)
				if strings.Contains(bt, "http.StatusForbidden") && strings.Contains(bt, "return") {
					missing403 = true
				}
			}
			return true
		})
	}
	l.boolean("missingAuthHeadersForbidden", missing403, missing403, "parseRequestBody: empty Random/Checksum header ⇒ 403 not found")

	// roomHandler: the decision order. Every top-level statement up to the JSON decoding is classified.
	var steps []string
	okOrder := false
	if fd := findFunc(bs, "BackendServer", "roomHandler"); fd != nil && fd.Body != nil {
		forbid := func(b *ast.BlockStmt) bool { // { throttle(r.Context()); http.Error(w, …, http.StatusForbidden); return }
			if b == nil || len(b.List) != 3 {
				return false
			}
			t := srcText(c.fset, b)
			_, isRet := b.List[2].(*ast.ReturnStmt)
			return isRet && strings.Contains(srcText(c.fset, b.List[0]), "throttle(r.Context())") &&
				strings.Contains(srcText(c.fset, b.List[1]), "http.StatusForbidden") && strings.Count(t, "http.Error") == 1
		}
		for _, st := range fd.Body.List {
			t := strings.Join(strings.Fields(srcText(c.fset, st)), " ")
			switch s := st.(type) {
			case *ast.AssignStmt:
				switch {
				case strings.HasPrefix(t, "throttle, err := b.hub.throttler.CheckBruteforce("):
					steps = append(steps, "bruteforce-check")
				case t == "backendUrl := r.Header.Get(HeaderBackendServer)":
					steps = append(steps, "read-backend-header")
				case strings.HasPrefix(t, "v := mux.Vars(r)"), strings.HasPrefix(t, "roomid := v["):
				default:
					steps = append(steps, "?assign")
				}
			case *ast.DeclStmt:
				if strings.HasPrefix(t, "var backend *Backend") {
					steps = append(steps, "backend-nil")
				} else if strings.HasPrefix(t, "var request BackendServerRoomRequest") {
					steps = append(steps, "decode")
				} else {
					steps = append(steps, "?decl")
				}
			case *ast.IfStmt:
				cond := strings.Join(strings.Fields(srcText(c.fset, s.Cond)), " ")
				switch {
				case cond == "err == ErrBruteforceDetected":
					steps = append(steps, "bruteforce-429")
				case cond == `backendUrl != ""`:
					// { if u, err := url.Parse(backendUrl); err == nil { backend = b.hub.backend.GetBackend(u) }; if backend == nil { forbid } }
					okInner := len(s.Body.List) == 2
					if okInner {
						t0 := strings.Join(strings.Fields(srcText(c.fset, s.Body.List[0])), " ")
						okInner = strings.Contains(t0, "url.Parse(backendUrl)") && strings.Contains(t0, "backend = b.hub.backend.GetBackend(u)")
						if i2, ok := s.Body.List[1].(*ast.IfStmt); ok && okInner {
							okInner = srcText(c.fset, i2.Cond) == "backend == nil" && forbid(i2.Body) && i2.Else == nil
						} else {
							okInner = false
						}
					}
					if okInner && s.Else == nil {
						steps = append(steps, "header:lookup-or-403")
					} else {
						steps = append(steps, "?header")
					}
				case cond == "backend == nil":
					// { if compat := GetCompatBackend(); compat != nil { backend = compat } else { for … if Validate… { backend = b; break } }; if backend == nil { forbid } }
					okInner := len(s.Body.List) == 2 && s.Else == nil
					if okInner {
						t0 := strings.Join(strings.Fields(srcText(c.fset, s.Body.List[0])), " ")
						okInner = strings.HasPrefix(t0, "if compatBackend := b.hub.backend.GetCompatBackend(); compatBackend != nil { backend = compatBackend } else {") &&
							strings.Contains(t0, "for _, b := range b.hub.backend.GetBackends() { if ValidateBackendChecksum(r, body, b.Secret()) { backend = b break } }")
						if i2, ok := s.Body.List[1].(*ast.IfStmt); ok && okInner {
							okInner = srcText(c.fset, i2.Cond) == "backend == nil" && forbid(i2.Body) && i2.Else == nil
						} else {
							okInner = false
						}
					}
					if okInner {
						steps = append(steps, "noheader:compat-else-search-or-403")
					} else {
						steps = append(steps, "?fallback")
					}
				case cond == "!ValidateBackendChecksum(r, body, backend.Secret())":
					if forbid(s.Body) && s.Else == nil {
						steps = append(steps, "validate-or-403")
					} else {
						steps = append(steps, "?validate")
					}
				case strings.HasPrefix(cond, "err := json.Unmarshal(body, &request)") || strings.Contains(t, "json.Unmarshal(body, &request)"):
					steps = append(steps, "decode")
				default:
					steps = append(steps, "?if")
				}
			default:
				steps = append(steps, "?stmt")
			}
			if len(steps) > 0 && steps[len(steps)-1] == "decode" {
				break
			}
		}
		// cut after the first "decode"
		for i, s := range steps {
			if s == "decode" {
				steps = steps[:i+1]
				break
			}
		}
		okOrder = true
		for _, s := range steps {
			if strings.HasPrefix(s, "?") {
				okOrder = false
			}
		}
		// nothing is published before the validation statement
		if okOrder {
			var valPos token.Pos
			firstPub := token.Pos(0)
			ast.Inspect(fd.Body, func(x ast.Node) bool {
				switch s := x.(type) {
				case *ast.IfStmt:
					if strings.Join(strings.Fields(srcText(c.fset, s.Cond)), " ") == "!ValidateBackendChecksum(r, body, backend.Secret())" {
						valPos = s.Pos()
					}
				case *ast.CallExpr:
					t := srcText(c.fset, s.Fun)
					if strings.HasPrefix(t, "b.send") || strings.HasPrefix(t, "b.events.") || strings.HasPrefix(t, "b.startDialout") {
						if firstPub == 0 || s.Pos() < firstPub {
							firstPub = s.Pos()
						}
					}
				}
				return true
			})
			if valPos == 0 || (firstPub != 0 && firstPub < valPos) {
				okOrder = false
				steps = append(steps, "?publish-before-validate")
			}
		}
	}
	l.strList("roomHandlerSteps", steps, okOrder, "roomHandler: decision statements before the JSON decoding not recognised: "+strings.Join(steps, ","))

	// Outgoing: every POST request built in the package (non-test files) is signed with the secret of
	// the backend looked up for the target URL.
	postSites, signedSites := 0, 0
	ents, _ := os.ReadDir(c.repo)
	for _, e := range ents {
		n := e.Name()
		if e.IsDir() || !strings.HasSuffix(n, ".go") || strings.HasSuffix(n, "_test.go") {
			continue
		}
		f := c.file(n)
		if f == nil {
			continue
		}
		for _, d := range f.Decls {
			fd, ok := d.(*ast.FuncDecl)
			if !ok || fd.Body == nil {
				continue
			}
			posts := 0
			ast.Inspect(fd.Body, func(x ast.Node) bool {
				call, ok := x.(*ast.CallExpr)
				if !ok || !(isSel(call.Fun, "http", "NewRequestWithContext") || isSel(call.Fun, "http", "NewRequest") || isSel(call.Fun, "http", "Post") || isSel(call.Fun, "http", "PostForm")) {
					return true
				}
				for _, a := range call.Args {
					if s, ok := strLit(a); ok && s == "POST" {
						posts++
					}
					if isSel(a, "http", "MethodPost") {
						posts++
					}
				}
				if isSel(call.Fun, "http", "Post") || isSel(call.Fun, "http", "PostForm") {
					posts++
				}
				return true
			})
			if posts == 0 {
				continue
			}
			postSites += posts
			t := strings.Join(strings.Fields(srcText(c.fset, fd.Body)), " ")
			if strings.Contains(t, "backend := b.backends.GetBackend(u)") && strings.Contains(t, "AddBackendChecksum(req, data.Bytes(), backend.Secret())") &&
				strings.Contains(t, "http.NewRequestWithContext(ctx, \"POST\", requestUrl.String(), data)") {
				signedSites += posts
			}
		}
	}
	_ = filepath.Join

	// Which backend a URL belongs to (the backend header of a room API request, the target of an outgoing
	// request): BackendConfiguration.GetBackend -> storage.GetBackend -> backendStorageCommon.getBackendLocked.
	// The top-level statements of the three functions are written out verbatim (white space normalised, no
	// comments); Model/Checksum.lean interprets the two statements of getBackendLocked that decide the match
	// (the '/'-termination of the looked-up URL and the prefix comparison with the entry's URL), the rest is
	// pinned by C02_source_facts.  getConfiguredHosts: a configured URL is stored '/'-terminated.
	cfgFile := c.file("backend_configuration.go")
	stat := c.file("backend_storage_static.go")
	program := func(f *ast.File, recv, name string) ([]string, bool) {
		fd := findFunc(f, recv, name)
		if fd == nil || fd.Body == nil {
			return nil, false
		}
		var out []string
		for _, st := range fd.Body.List {
			out = append(out, strings.Join(strings.Fields(srcText(c.fset, st)), " "))
		}
		return out, len(out) > 0
	}
	prog, okProg := program(cfgFile, "backendStorageCommon", "getBackendLocked")
	l.strList("lookupProgram", prog, okProg, "backendStorageCommon.getBackendLocked not found in backend_configuration.go")
	prog, okProg = program(cfgFile, "BackendConfiguration", "GetBackend")
	l.strList("lookupEntryProgram", prog, okProg, "BackendConfiguration.GetBackend not found in backend_configuration.go")
	prog, okProg = program(stat, "backendStorageStatic", "GetBackend")
	l.strList("lookupStaticProgram", prog, okProg, "backendStorageStatic.GetBackend not found in backend_storage_static.go")
	// every other implementation of the storage lookup goes through getBackendLocked
	nStorages, nThrough := 0, 0
	for _, e := range ents {
		n := e.Name()
		if e.IsDir() || !strings.HasSuffix(n, ".go") || strings.HasSuffix(n, "_test.go") {
			continue
		}
		f := c.file(n)
		if f == nil {
			continue
		}
		for _, d := range f.Decls {
			fd, ok := d.(*ast.FuncDecl)
			if !ok || fd.Body == nil || fd.Recv == nil || fd.Name.Name != "GetBackend" || !strings.HasPrefix(n, "backend_storage_") {
				continue
			}
			nStorages++
			if len(fd.Body.List) > 0 {
				if rs, ok := fd.Body.List[len(fd.Body.List)-1].(*ast.ReturnStmt); ok && len(rs.Results) == 1 &&
					strings.Join(strings.Fields(srcText(c.fset, rs.Results[0])), " ") == "s.getBackendLocked(u)" {
					nThrough++
				}
			}
		}
	}
	l.nat("lookupStorages", int64(nStorages), nStorages > 0, "no backend_storage_*.go GetBackend method found")
	l.nat("lookupStoragesThroughCommon", int64(nThrough), nStorages > 0, "no backend_storage_*.go GetBackend method found")

	// getConfiguredHosts: the statements that shape the stored url, and `url: u` in the Backend literal
	var cfgProg []string
	okCfg := false
	if fd := findFunc(stat, "", "getConfiguredHosts"); fd != nil && fd.Body != nil {
		ast.Inspect(fd.Body, func(x ast.Node) bool {
			rs, ok := x.(*ast.RangeStmt)
			if !ok || okCfg || !strings.Contains(srcText(c.fset, rs.X), "getConfiguredBackendIDs") {
				return true
			}
			storesU := false
			for _, st := range rs.Body.List {
				t := strings.Join(strings.Fields(srcText(c.fset, st)), " ")
				mentionsU := false
				ast.Inspect(st, func(y ast.Node) bool {
					switch n := y.(type) {
					case *ast.AssignStmt: // the statements that give u a value
						for _, lhs := range n.Lhs {
							if isIdent(lhs, "u") {
								mentionsU = true
							}
						}
					case *ast.KeyValueExpr:
						if isIdent(n.Key, "url") && isIdent(n.Value, "u") {
							storesU = true
						}
					}
					return true
				})
				if storesU {
					break // the statement that stores the entry: everything that shaped u came before
				}
				if mentionsU {
					cfgProg = append(cfgProg, t)
				}
			}
			okCfg = storesU
			return false
		})
	}
	l.strList("configUrlProgram", cfgProg, okCfg, "getConfiguredHosts: loop over getConfiguredBackendIDs(…) storing &Backend{url: u, …} not found")

	// etcd: EtcdKeyUpdated stores `url: info.Url` after info.CheckValid(); the statements of
	// BackendInformationEtcd.CheckValid that give p.Url a value (only the standard-port rewriting: the url
	// is stored as given, in particular without a '/' appended).
	var etcdProg []string
	okEtcd := false
	if fd := findFunc(api, "BackendInformationEtcd", "CheckValid"); fd != nil && fd.Body != nil {
		okEtcd = true
		for _, st := range fd.Body.List {
			assigns := false
			ast.Inspect(st, func(y ast.Node) bool {
				if as, ok := y.(*ast.AssignStmt); ok {
					for _, lhs := range as.Lhs {
						if strings.Join(strings.Fields(srcText(c.fset, lhs)), "") == "p.Url" {
							assigns = true
						}
					}
				}
				return true
			})
			if assigns {
				etcdProg = append(etcdProg, strings.Join(strings.Fields(srcText(c.fset, st)), " "))
			}
		}
	}
	l.strList("etcdUrlProgram", etcdProg, okEtcd, "BackendInformationEtcd.CheckValid not found in api_backend.go")
	etcdStores := false
	if fd := findFunc(c.file("backend_storage_etcd.go"), "backendStorageEtcd", "EtcdKeyUpdated"); fd != nil && fd.Body != nil {
		checked := false
		ast.Inspect(fd.Body, func(y ast.Node) bool {
			switch n := y.(type) {
			case *ast.CallExpr:
				if isSel(n.Fun, "info", "CheckValid") {
					checked = true
				}
			case *ast.KeyValueExpr:
				if isIdent(n.Key, "url") && checked && strings.Join(strings.Fields(srcText(c.fset, n.Value)), "") == "info.Url" {
					etcdStores = true
				}
			}
			return true
		})
	}
	l.boolean("etcdStoresCheckedUrl", etcdStores, etcdStores, "EtcdKeyUpdated: info.CheckValid() followed by &Backend{url: info.Url, …} not found")

	// Which configuration a backend's secret comes from.  getConfiguredHosts: the statements that give `secret`
	// a value or decide on it (own secret of the section, fall-back to the common secret, no secret => skipped)
	// and `secret: []byte(secret)` in the Backend literal.  Its two callers (startup, Reload): the call, and for
	// every argument where its value comes from — a parameter of the caller or the statements of the caller that
	// assign it ("the common secret is read from the configuration that is being loaded").
	norm := func(n ast.Node) string { return strings.Join(strings.Fields(srcText(c.fset, n)), " ") }
	var secProg []string
	okSec := false
	if fd := findFunc(stat, "", "getConfiguredHosts"); fd != nil && fd.Body != nil {
		done := false
		ast.Inspect(fd.Body, func(x ast.Node) bool {
			rs, ok := x.(*ast.RangeStmt)
			if !ok || done || !strings.Contains(srcText(c.fset, rs.X), "getConfiguredBackendIDs") {
				return true
			}
			done = true
			for _, st := range rs.Body.List {
				mentions, stores := false, false
				ast.Inspect(st, func(y ast.Node) bool {
					switch n := y.(type) {
					case *ast.KeyValueExpr:
						if isIdent(n.Key, "secret") {
							if norm(n.Value) == "[]byte(secret)" {
								stores = true
							}
							return false
						}
					case *ast.Ident:
						if n.Name == "secret" {
							mentions = true
						}
					}
					return true
				})
				if stores {
					okSec = true
					break
				}
				if mentions {
					secProg = append(secProg, norm(st))
				}
			}
			return false
		})
	}
	l.strList("secretProgram", secProg, okSec, "getConfiguredHosts: loop over getConfiguredBackendIDs(…) storing &Backend{secret: []byte(secret), …} not found")

	hostsCall := func(recv, name string) (string, []string, bool) {
		fd := findFunc(stat, recv, name)
		if fd == nil || fd.Body == nil {
			return "", nil, false
		}
		var call *ast.CallExpr
		n := 0
		ast.Inspect(fd.Body, func(x ast.Node) bool {
			if ce, ok := x.(*ast.CallExpr); ok && isIdent(ce.Fun, "getConfiguredHosts") {
				call = ce
				n++
			}
			return true
		})
		if call == nil || n != 1 {
			return "", nil, false
		}
		var defs []string
		for _, a := range call.Args {
			id, ok := a.(*ast.Ident)
			if !ok {
				defs = append(defs, "expr")
				continue
			}
			var ds []string
			if fd.Type.Params != nil {
				for _, f := range fd.Type.Params.List {
					for _, pn := range f.Names {
						if pn.Name == id.Name {
							ds = append(ds, "param:"+pn.Name+" "+norm(f.Type))
						}
					}
				}
			}
			// every statement of the caller that assigns the identifier (anywhere: before or after the call)
			ast.Inspect(fd.Body, func(x ast.Node) bool {
				switch s := x.(type) {
				case *ast.AssignStmt:
					for _, lhs := range s.Lhs {
						if isIdent(lhs, id.Name) {
							ds = append(ds, norm(s))
						}
					}
				case *ast.IncDecStmt:
					if isIdent(s.X, id.Name) {
						ds = append(ds, norm(s))
					}
				case *ast.RangeStmt:
					if (s.Key != nil && isIdent(s.Key, id.Name)) || (s.Value != nil && isIdent(s.Value, id.Name)) {
						ds = append(ds, "range")
					}
				case *ast.UnaryExpr:
					if s.Op == token.AND && isIdent(s.X, id.Name) {
						ds = append(ds, "address-taken")
					}
				}
				return true
			})
			if len(ds) == 0 {
				ds = []string{"?"}
			}
			defs = append(defs, strings.Join(ds, " ;; "))
		}
		return norm(call), defs, true
	}
	callS, defsS, okS := hostsCall("", "NewBackendStorageStatic")
	l.str("startHostsCall", callS, okS, "NewBackendStorageStatic: exactly one call of getConfiguredHosts expected")
	l.strList("startHostsArgs", defsS, okS, "NewBackendStorageStatic: exactly one call of getConfiguredHosts expected")
	callR, defsR, okR := hostsCall("backendStorageStatic", "Reload")
	l.str("reloadHostsCall", callR, okR, "backendStorageStatic.Reload: exactly one call of getConfiguredHosts expected")
	l.strList("reloadHostsArgs", defsR, okR, "backendStorageStatic.Reload: exactly one call of getConfiguredHosts expected")
	// getConfiguredHosts is called from nowhere else
	nHostsCalls := 0
	for _, e := range ents {
		n := e.Name()
		if e.IsDir() || !strings.HasSuffix(n, ".go") || strings.HasSuffix(n, "_test.go") {
			continue
		}
		if f := c.file(n); f != nil {
			ast.Inspect(f, func(x ast.Node) bool {
				if ce, ok := x.(*ast.CallExpr); ok && isIdent(ce.Fun, "getConfiguredHosts") {
					nHostsCalls++
				}
				return true
			})
		}
	}
	l.nat("configuredHostsCallSites", int64(nHostsCalls), nHostsCalls > 0, "no call of getConfiguredHosts found")

	// Redirects of an outgoing (signed) request: PerformJSONRequest sends through a client of the pool; every
	// http.Client the pool constructs has a CheckRedirect function — its statements, verbatim.
	hp := c.file("http_client_pool.go")
	var redirProg []string
	nClients, nGuarded := 0, 0
	if hp != nil {
		ast.Inspect(hp, func(x ast.Node) bool {
			cl, ok := x.(*ast.CompositeLit)
			if !ok || !isSel(cl.Type, "http", "Client") {
				return true
			}
			nClients++
			for _, el := range cl.Elts {
				if kv, ok := el.(*ast.KeyValueExpr); ok && isIdent(kv.Key, "CheckRedirect") {
					if fl, ok := kv.Value.(*ast.FuncLit); ok && fl.Body != nil && fl.Type.Params != nil &&
						norm(fl.Type) == "func(req *http.Request, via []*http.Request) error" {
						nGuarded++
						if redirProg == nil {
							for _, st := range fl.Body.List {
								redirProg = append(redirProg, norm(st))
							}
						}
					}
				}
			}
			return true
		})
	}
	l.nat("poolClientLiterals", int64(nClients), nClients > 0, "http_client_pool.go: no http.Client literal found")
	l.nat("poolClientLiteralsWithCheckRedirect", int64(nGuarded), nClients > 0, "http_client_pool.go: no http.Client literal found")
	l.strList("checkRedirectProgram", redirProg, len(redirProg) > 0, "http_client_pool.go: http.Client{CheckRedirect: func(req *http.Request, via []*http.Request) error {…}} not found")
	viaPool := false
	if fd := findFunc(bc, "BackendClient", "PerformJSONRequest"); fd != nil && fd.Body != nil {
		t := norm(fd.Body)
		viaPool = strings.Contains(t, "c, pool, err := b.pool.Get(ctx, u)") && strings.Contains(t, "resp, err := c.Do(req)") &&
			strings.Count(t, ".Do(") == 1
	}
	l.boolean("outgoingSentThroughPoolClient", viaPool, viaPool, "PerformJSONRequest: c, pool, err := b.pool.Get(ctx, u) … resp, err := c.Do(req) (the only Do) expected")
	// http.Client values are built nowhere else in the package (a client without the guard would follow every redirect)
	nOtherClients := 0
	for _, e := range ents {
		n := e.Name()
		if e.IsDir() || !strings.HasSuffix(n, ".go") || strings.HasSuffix(n, "_test.go") || n == "http_client_pool.go" {
			continue
		}
		if f := c.file(n); f != nil {
			for _, d := range f.Decls {
				fd, ok := d.(*ast.FuncDecl)
				if !ok || fd.Body == nil || fd.Recv == nil || fd.Name.Name != "PerformJSONRequest" {
					continue
				}
				ast.Inspect(fd.Body, func(x ast.Node) bool {
					if cl, ok := x.(*ast.CompositeLit); ok && isSel(cl.Type, "http", "Client") {
						nOtherClients++
					}
					if isSel2(x, "http", "DefaultClient") {
						nOtherClients++
					}
					return true
				})
			}
		}
	}
	l.nat("outgoingOwnClients", int64(nOtherClients), true, "")
	l.nat("outgoingPostSites", int64(postSites), postSites > 0, "no outgoing POST request site found in the package")
	l.nat("outgoingPostSitesSigned", int64(signedSites), postSites > 0, "no outgoing POST request site found in the package")
	return l
}
