package main

import (
	"go/ast"
	"go/token"
	"sort"
)

func init() { register(genTransient) }

// isSel2 reports whether n is the selector expression x.name.
func isSel2(n ast.Node, x, name string) bool {
	e, ok := n.(ast.Expr)
	return ok && isSel(e, x, name)
}

// Facts of transient_data.go (+ the wiring in room.go / hub.go) for C14.
func genTransient(c *ctx) *leanFile {
	l := c.newLean("Transient", "transient_data.go", "room.go", "hub.go", "clientsession.go")
	f := c.file("transient_data.go")
	const recv = "TransientData"

	// --- small matchers -------------------------------------------------
	// t.<name>(...)
	isRecvCall := func(e ast.Expr, name string) (*ast.CallExpr, bool) {
		call, ok := e.(*ast.CallExpr)
		if !ok {
			return nil, false
		}
		sel, ok := call.Fun.(*ast.SelectorExpr)
		if !ok || sel.Sel.Name != name || !isIdent(sel.X, "t") {
			return nil, false
		}
		return call, true
	}
	// t.timers
	isTimers := func(e ast.Expr) bool { return isSel(e, "t", "timers") }
	// t.timers[key]
	isTimersAt := func(e ast.Expr) bool {
		ix, ok := e.(*ast.IndexExpr)
		return ok && isTimers(ix.X) && isIdent(ix.Index, "key")
	}
	// does the node contain X.Stop() and delete(t.timers, key)?
	stopsInline := func(n ast.Node) bool {
		stop, del := false, false
		ast.Inspect(n, func(m ast.Node) bool {
			if call, ok := m.(*ast.CallExpr); ok {
				if sel, ok := call.Fun.(*ast.SelectorExpr); ok && sel.Sel.Name == "Stop" && len(call.Args) == 0 {
					stop = true
				}
				if isIdent(call.Fun, "delete") && len(call.Args) == 2 && isTimers(call.Args[0]) && isIdent(call.Args[1], "key") {
					del = true
				}
			}
			return true
		})
		return stop && del
	}
	// helper methods (unexported, on *TransientData) whose whole body is
	// `if old, found := t.timers[key]; found { old.Stop(); delete(t.timers, key) }`
	stopHelpers := map[string]bool{}
	if f != nil {
		for _, d := range f.Decls {
			fd, ok := d.(*ast.FuncDecl)
			if !ok || fd.Body == nil || findFunc(f, recv, fd.Name.Name) != fd || ast.IsExported(fd.Name.Name) {
				continue
			}
			if len(fd.Body.List) != 1 {
				continue
			}
			is, ok := fd.Body.List[0].(*ast.IfStmt)
			if !ok || is.Else != nil || !isIdent(is.Cond, "found") {
				continue
			}
			as, ok := is.Init.(*ast.AssignStmt)
			if !ok || len(as.Rhs) != 1 || !isTimersAt(as.Rhs[0]) {
				continue
			}
			if stopsInline(is.Body) {
				stopHelpers[fd.Name.Name] = true
			}
		}
	}
	// a statement that stops and forgets the timer of `key`
	stopsTimer := func(s ast.Stmt) bool {
		if es, ok := s.(*ast.ExprStmt); ok {
			if call, ok := es.X.(*ast.CallExpr); ok {
				if sel, ok := call.Fun.(*ast.SelectorExpr); ok && isIdent(sel.X, "t") && stopHelpers[sel.Sel.Name] &&
					len(call.Args) == 1 && isIdent(call.Args[0], "key") {
					return true
				}
			}
		}
		if is, ok := s.(*ast.IfStmt); ok && is.Else == nil {
			if as, ok := is.Init.(*ast.AssignStmt); ok && len(as.Rhs) == 1 && isTimersAt(as.Rhs[0]) && isIdent(is.Cond, "found") {
				return stopsInline(is.Body)
			}
		}
		return false
	}
	// `ttl <op> 0`
	ttlCond := func(e ast.Expr) (string, bool) {
		be, ok := e.(*ast.BinaryExpr)
		if !ok || !isIdent(be.X, "ttl") {
			return "", false
		}
		if v, ok := c.evalInt(be.Y, nil, 0); !ok || v != 0 {
			return "", false
		}
		return be.Op.String(), true
	}
	// reflect.DeepEqual(a, b)
	isDeepEqual := func(e ast.Expr, a, b string) bool {
		call, ok := e.(*ast.CallExpr)
		return ok && isSel(call.Fun, "reflect", "DeepEqual") && len(call.Args) == 2 && isIdent(call.Args[0], a) && isIdent(call.Args[1], b)
	}
	// `found && reflect.DeepEqual(prev, value)`
	isUnchangedCond := func(e ast.Expr) bool {
		be, ok := e.(*ast.BinaryExpr)
		return ok && be.Op == token.LAND && isIdent(be.X, "found") && isDeepEqual(be.Y, "prev", "value")
	}
	// body = { t.updateTTL(key, value, ttl); return <lit> }
	updatesTTLOnly := func(b *ast.BlockStmt) (string, bool) {
		if b == nil || len(b.List) != 2 {
			return "", false
		}
		es, ok := b.List[0].(*ast.ExprStmt)
		if !ok {
			return "", false
		}
		if _, ok := isRecvCall(es.X, "updateTTL"); !ok {
			return "", false
		}
		rs, ok := b.List[1].(*ast.ReturnStmt)
		if !ok || len(rs.Results) != 1 {
			return "", false
		}
		id, ok := rs.Results[0].(*ast.Ident)
		if !ok {
			return "", false
		}
		return id.Name, true
	}

	// --- updateTTL ------------------------------------------------------
	var opUpd string
	okUpd, updStops := false, false
	if fd := findFunc(f, recv, "updateTTL"); fd != nil && fd.Body != nil && len(fd.Body.List) == 1 {
		if is, ok := fd.Body.List[0].(*ast.IfStmt); ok {
			if op, ok := ttlCond(is.Cond); ok {
				els, _ := is.Else.(*ast.BlockStmt)
				elseOk := false
				if els != nil && len(els.List) == 1 {
					if es, ok := els.List[0].(*ast.ExprStmt); ok {
						_, elseOk = isRecvCall(es.X, "removeAfterTTL")
					}
				}
				if elseOk && len(is.Body.List) == 1 {
					opUpd, okUpd = op, true
					if stopsTimer(is.Body.List[0]) {
						updStops = true
					} else if es, ok := is.Body.List[0].(*ast.ExprStmt); ok {
						// the original: delete(t.timers, key)
						call, ok := es.X.(*ast.CallExpr)
						okUpd = ok && isIdent(call.Fun, "delete") && len(call.Args) == 2 && isTimers(call.Args[0])
					} else {
						okUpd = false
					}
				}
			}
		}
	}
	l.boolean("updateTTLStopsTimer", updStops, okUpd,
		"updateTTL: `if ttl <op> 0 { <stop and forget timer> | delete(t.timers, key) } else { t.removeAfterTTL(...) }` not found")

	// --- removeAfterTTL -------------------------------------------------
	var opRem string
	okRem, stopsFirst, okStopBeforeArm := false, false, false
	var after *ast.FuncLit
	timerVar := ""
	if fd := findFunc(f, recv, "removeAfterTTL"); fd != nil && fd.Body != nil {
		retIdx, stopIdx, armIdx := -1, -1, -1
		for i, s := range fd.Body.List {
			if is, ok := s.(*ast.IfStmt); ok && is.Init == nil && is.Else == nil && len(is.Body.List) == 1 {
				if rs, ok := is.Body.List[0].(*ast.ReturnStmt); ok && len(rs.Results) == 0 {
					if op, ok := ttlCond(is.Cond); ok && retIdx < 0 {
						retIdx, opRem = i, op
					}
				}
			}
			if stopsTimer(s) && stopIdx < 0 {
				stopIdx = i
			}
			// original form: if old, found := t.timers[key]; found { old.Stop() }   (entry overwritten below)
			if is, ok := s.(*ast.IfStmt); ok && stopIdx < 0 {
				if as, ok := is.Init.(*ast.AssignStmt); ok && len(as.Rhs) == 1 && isTimersAt(as.Rhs[0]) {
					hasStop := false
					ast.Inspect(is.Body, func(m ast.Node) bool {
						if call, ok := m.(*ast.CallExpr); ok {
							if sel, ok := call.Fun.(*ast.SelectorExpr); ok && sel.Sel.Name == "Stop" {
								hasStop = true
							}
						}
						return true
					})
					if hasStop {
						stopIdx = i
					}
				}
			}
			if as, ok := s.(*ast.AssignStmt); ok && len(as.Lhs) == 1 && len(as.Rhs) == 1 {
				if call, ok := as.Rhs[0].(*ast.CallExpr); ok && isSel(call.Fun, "time", "AfterFunc") && len(call.Args) == 2 && isIdent(call.Args[0], "ttl") {
					if fl, ok := call.Args[1].(*ast.FuncLit); ok {
						if id, ok := as.Lhs[0].(*ast.Ident); ok {
							after, timerVar, armIdx = fl, id.Name, i
						}
					}
				}
			}
		}
		// the new timer is stored under the key after having been created
		stored := false
		for i, s := range fd.Body.List {
			if as, ok := s.(*ast.AssignStmt); ok && len(as.Lhs) == 1 && len(as.Rhs) == 1 && isTimersAt(as.Lhs[0]) &&
				timerVar != "" && isIdent(as.Rhs[0], timerVar) && i > armIdx {
				stored = true
			}
		}
		okRem = retIdx >= 0 && armIdx > retIdx && stored
		stopsFirst = stopIdx >= 0 && stopIdx < retIdx
		okStopBeforeArm = stopIdx >= 0 && stopIdx < armIdx
	}
	l.boolean("removeAfterTTLStopsFirst", stopsFirst, okRem && okStopBeforeArm,
		"removeAfterTTL: `if ttl <op> 0 { return }`, a stop of the previous timer before `time.AfterFunc(ttl, func(){…})`, and `t.timers[key] = timer` not found in this order")
	l.str("ttlNoExpiryCmp", opUpd, okUpd && okRem && opUpd == opRem,
		"`ttl <op> 0` differs between updateTTL and removeAfterTTL or was not found")

	// --- the expiry callback ---------------------------------------------
	okCb, cbChecks, cbLocked := false, false, false
	if after != nil && after.Body != nil {
		b := after.Body.List
		if len(b) >= 2 {
			if es, ok := b[0].(*ast.ExprStmt); ok {
				if call, ok := es.X.(*ast.CallExpr); ok {
					if sel, ok := call.Fun.(*ast.SelectorExpr); ok && sel.Sel.Name == "Lock" && isSel(sel.X, "t", "mu") {
						if ds, ok := b[1].(*ast.DeferStmt); ok {
							if sel, ok := ds.Call.Fun.(*ast.SelectorExpr); ok && sel.Sel.Name == "Unlock" && isSel(sel.X, "t", "mu") {
								cbLocked = true
							}
						}
					}
				}
			}
		}
		isRemoveCall := func(s ast.Stmt) bool {
			es, ok := s.(*ast.ExprStmt)
			if !ok {
				return false
			}
			call, ok := isRecvCall(es.X, "compareAndRemove")
			return ok && len(call.Args) == 2 && isIdent(call.Args[0], "key") && isIdent(call.Args[1], "value")
		}
		n := 0
		for _, s := range b {
			if isRemoveCall(s) {
				n++
				okCb = true
			}
			if is, ok := s.(*ast.IfStmt); ok && is.Init == nil && is.Else == nil && len(is.Body.List) == 1 && isRemoveCall(is.Body.List[0]) {
				n++
				if be, ok := is.Cond.(*ast.BinaryExpr); ok && be.Op == token.EQL &&
					((isTimersAt(be.X) && isIdent(be.Y, timerVar)) || (isTimersAt(be.Y) && isIdent(be.X, timerVar))) {
					okCb, cbChecks = true, true
				}
			}
		}
		if n != 1 {
			okCb = false
		}
	}
	l.boolean("expiryChecksCurrentTimer", cbChecks, okCb,
		"expiry callback: exactly one `t.compareAndRemove(key, value)`, bare or guarded by `t.timers[key] == timer`, not found")
	l.boolean("expiryCallbackLocked", cbLocked, after != nil,
		"expiry callback does not start with t.mu.Lock(); defer t.mu.Unlock()")

	// --- SetTTL / CompareAndSetTTL ----------------------------------------
	okSet, setSilent := false, false
	if fd := findFunc(f, recv, "SetTTL"); fd != nil && fd.Body != nil {
		for _, s := range fd.Body.List {
			if es, ok := s.(*ast.ExprStmt); ok {
				if _, ok := isRecvCall(es.X, "doSet"); ok {
					okSet = true
				}
			}
			if is, ok := s.(*ast.IfStmt); ok && !okSet && isUnchangedCond(is.Cond) && is.Else == nil {
				if r, ok := updatesTTLOnly(is.Body); ok && r == "false" {
					setSilent = true
				}
			}
		}
	}
	l.boolean("setUnchangedSilent", setSilent, okSet,
		"SetTTL: `t.doSet(...)` preceded (or not) by `if found && reflect.DeepEqual(prev, value) { t.updateTTL(...); return false }` not found")
	okCas, casSilent := false, false
	if fd := findFunc(f, recv, "CompareAndSetTTL"); fd != nil && fd.Body != nil {
		for _, s := range fd.Body.List {
			if es, ok := s.(*ast.ExprStmt); ok {
				if _, ok := isRecvCall(es.X, "doSet"); ok {
					okCas = true
				}
			}
			if is, ok := s.(*ast.IfStmt); ok && !okCas && isUnchangedCond(is.Cond) && is.Else == nil {
				if r, ok := updatesTTLOnly(is.Body); ok && r == "true" {
					casSilent = true
				}
			}
		}
	}
	l.boolean("casUnchangedSilent", casSilent, okCas,
		"CompareAndSetTTL: `t.doSet(...)` preceded (or not) by `if found && reflect.DeepEqual(prev, value) { t.updateTTL(...); return true }` not found")

	// --- AddListener: initial snapshot only when there is data ------------
	okInit, initNonEmpty := false, false
	if fd := findFunc(f, recv, "AddListener"); fd != nil && fd.Body != nil {
		sends := func(n ast.Node) bool {
			r := false
			ast.Inspect(n, func(m ast.Node) bool {
				if call, ok := m.(*ast.CallExpr); ok {
					if sel, ok := call.Fun.(*ast.SelectorExpr); ok && sel.Sel.Name == "SendMessage" && isIdent(sel.X, "listener") {
						r = true
					}
				}
				return true
			})
			return r
		}
		for _, s := range fd.Body.List {
			if is, ok := s.(*ast.IfStmt); ok && sends(is.Body) {
				if be, ok := is.Cond.(*ast.BinaryExpr); ok && be.Op == token.GTR {
					if call, ok := be.X.(*ast.CallExpr); ok && isIdent(call.Fun, "len") && len(call.Args) == 1 && isSel(call.Args[0], "t", "data") {
						if v, ok := c.evalInt(be.Y, nil, 0); ok && v == 0 {
							okInit, initNonEmpty = true, true
						}
					}
				}
			} else if es, ok := s.(*ast.ExprStmt); ok && sends(es) {
				okInit = true
			}
		}
	}
	l.boolean("initialOnlyIfNonEmpty", initNonEmpty, okInit,
		"AddListener: `if len(t.data) > 0 { … listener.SendMessage(msg) }` (or an unconditional send) not found")

	// --- every exported method is one critical section ----------------------
	var exported, atomic, listenerLocked []string
	// t.<mutex>.Lock() / defer t.<mutex>.Unlock(); returns the mutex field name
	lockOf := func(s ast.Stmt) string {
		es, ok := s.(*ast.ExprStmt)
		if !ok {
			return ""
		}
		call, ok := es.X.(*ast.CallExpr)
		if !ok {
			return ""
		}
		sel, ok := call.Fun.(*ast.SelectorExpr)
		if !ok || sel.Sel.Name != "Lock" {
			return ""
		}
		if m, ok := sel.X.(*ast.SelectorExpr); ok && isIdent(m.X, "t") {
			return m.Sel.Name
		}
		return ""
	}
	deferUnlockOf := func(s ast.Stmt) string {
		ds, ok := s.(*ast.DeferStmt)
		if !ok {
			return ""
		}
		sel, ok := ds.Call.Fun.(*ast.SelectorExpr)
		if !ok || sel.Sel.Name != "Unlock" {
			return ""
		}
		if m, ok := sel.X.(*ast.SelectorExpr); ok && isIdent(m.X, "t") {
			return m.Sel.Name
		}
		return ""
	}
	isLock := func(s ast.Stmt) bool { return lockOf(s) == "mu" }
	// `return t.<Exported>(...)`
	isDelegation := func(s ast.Stmt) bool {
		rs, ok := s.(*ast.ReturnStmt)
		if !ok || len(rs.Results) != 1 {
			return false
		}
		call, ok := rs.Results[0].(*ast.CallExpr)
		if !ok {
			return false
		}
		sel, ok := call.Fun.(*ast.SelectorExpr)
		return ok && isIdent(sel.X, "t") && ast.IsExported(sel.Sel.Name)
	}
	if f != nil {
		for _, d := range f.Decls {
			fd, ok := d.(*ast.FuncDecl)
			if !ok || fd.Body == nil || !ast.IsExported(fd.Name.Name) || findFunc(f, recv, fd.Name.Name) != fd {
				continue
			}
			exported = append(exported, fd.Name.Name)
			b := fd.Body.List
			// optional leading `if value == nil { return t.X(...) }`
			if len(b) > 0 {
				if is, ok := b[0].(*ast.IfStmt); ok && is.Else == nil && len(is.Body.List) == 1 && isDelegation(is.Body.List[0]) {
					if be, ok := is.Cond.(*ast.BinaryExpr); ok && be.Op == token.EQL && isIdent(be.X, "value") && isIdent(be.Y, "nil") {
						b = b[1:]
					}
				}
			}
			switch {
			case len(b) == 1 && isDelegation(b[0]):
				atomic = append(atomic, fd.Name.Name)
			case len(b) >= 2 && lockOf(b[0]) != "" && lockOf(b[0]) == deferUnlockOf(b[1]):
				// no second Lock of the store mutex further down
				again := false
				for _, s := range b[2:] {
					ast.Inspect(s, func(m ast.Node) bool {
						if st, ok := m.(ast.Stmt); ok && isLock(st) {
							again = true
						}
						return true
					})
				}
				if !again {
					atomic = append(atomic, fd.Name.Name)
					if lockOf(b[0]) != "mu" {
						listenerLocked = append(listenerLocked, fd.Name.Name+":"+lockOf(b[0]))
					}
				}
			}
		}
	}
	sort.Strings(exported)
	sort.Strings(atomic)
	l.strList("exportedMethods", exported, len(exported) > 0, "no exported methods of TransientData found")
	l.strList("atomicMethods", atomic, len(exported) > 0, "no exported methods of TransientData found")
	sort.Strings(listenerLocked)
	l.strList("otherLockMethods", listenerLocked, len(exported) > 0, "no exported methods of TransientData found")

	// --- the listener set: every access to t.listeners is inside a t.listenersMu section,
	// and the functions that send (notifySet / notifyDeleted) are reached only from doSet / doRemove
	var listenerUsers, unguarded, leafViolations []string
	var notifyCallers []string
	if f != nil {
		for _, d := range f.Decls {
			fd, ok := d.(*ast.FuncDecl)
			if !ok || fd.Body == nil || findFunc(f, recv, fd.Name.Name) != fd {
				continue
			}
			uses := false
			ast.Inspect(fd.Body, func(n ast.Node) bool {
				if isSel2(n, "t", "listeners") {
					uses = true
				}
				if call, ok := n.(*ast.CallExpr); ok {
					if sel, ok := call.Fun.(*ast.SelectorExpr); ok && isIdent(sel.X, "t") &&
						(sel.Sel.Name == "notifySet" || sel.Sel.Name == "notifyDeleted") {
						notifyCallers = append(notifyCallers, fd.Name.Name+"->"+sel.Sel.Name)
					}
				}
				return true
			})
			if !uses {
				continue
			}
			listenerUsers = append(listenerUsers, fd.Name.Name)
			// guarded: every statement (top level) that mentions t.listeners lies between
			// t.listenersMu.Lock() and the matching Unlock (deferred or explicit)
			held := false
			deferred := false
			for _, st := range fd.Body.List {
				if lockOf(st) == "listenersMu" {
					held = true
					continue
				}
				if deferUnlockOf(st) == "listenersMu" {
					deferred = true
					continue
				}
				if es, ok := st.(*ast.ExprStmt); ok {
					if call, ok := es.X.(*ast.CallExpr); ok {
						if sel, ok := call.Fun.(*ast.SelectorExpr); ok && sel.Sel.Name == "Unlock" {
							if m, ok := sel.X.(*ast.SelectorExpr); ok && isIdent(m.X, "t") && m.Sel.Name == "listenersMu" && !deferred {
								held = false
								continue
							}
						}
					}
				}
				mentions := false
				ast.Inspect(st, func(n ast.Node) bool {
					if isSel2(n, "t", "listeners") {
						mentions = true
					}
					if call, ok := n.(*ast.CallExpr); ok && held {
						// while t.listenersMu is held only map / slice builtins may be called
						if id, ok := call.Fun.(*ast.Ident); !ok || !(id.Name == "make" || id.Name == "delete" || id.Name == "append" || id.Name == "len") {
							leafViolations = append(leafViolations, fd.Name.Name)
						}
					}
					return true
				})
				if mentions && !held {
					unguarded = append(unguarded, fd.Name.Name)
				}
			}
		}
	}
	sort.Strings(listenerUsers)
	sort.Strings(notifyCallers)
	l.strList("listenerSetUsers", listenerUsers, f != nil, "transient_data.go not readable")
	l.strList("listenerSetUnguarded", unguarded, f != nil, "transient_data.go not readable")
	l.strList("notifyCallers", notifyCallers, f != nil, "transient_data.go not readable")
	l.strList("listenersMuCallsOut", leafViolations, f != nil, "transient_data.go not readable")

	// --- nil value means remove ---------------------------------------------
	nilDelegates := func(name, target string) bool {
		fd := findFunc(f, recv, name)
		if fd == nil || fd.Body == nil || len(fd.Body.List) == 0 {
			return false
		}
		is, ok := fd.Body.List[0].(*ast.IfStmt)
		if !ok || len(is.Body.List) != 1 {
			return false
		}
		be, ok := is.Cond.(*ast.BinaryExpr)
		if !ok || be.Op != token.EQL || !isIdent(be.X, "value") || !isIdent(be.Y, "nil") {
			return false
		}
		rs, ok := is.Body.List[0].(*ast.ReturnStmt)
		if !ok || len(rs.Results) != 1 {
			return false
		}
		_, ok = isRecvCall(rs.Results[0], target)
		return ok
	}
	l.boolean("setNilRemoves", nilDelegates("SetTTL", "Remove"), findFunc(f, recv, "SetTTL") != nil, "SetTTL not found")
	l.boolean("casNilRemoves", nilDelegates("CompareAndSetTTL", "CompareAndRemove"), findFunc(f, recv, "CompareAndSetTTL") != nil, "CompareAndSetTTL not found")

	// --- wiring in room.go / hub.go -------------------------------------------
	var wiring []string
	rf := c.file("room.go")
	callsOn := func(fd *ast.FuncDecl, recvName, field, method string) bool {
		if fd == nil || fd.Body == nil {
			return false
		}
		r := false
		ast.Inspect(fd.Body, func(m ast.Node) bool {
			if call, ok := m.(*ast.CallExpr); ok {
				if sel, ok := call.Fun.(*ast.SelectorExpr); ok && sel.Sel.Name == method && isSel(sel.X, recvName, field) {
					r = true
				}
			}
			return true
		})
		return r
	}
	for _, w := range [][3]string{
		{"SetTransientData", "Set", "Room.SetTransientData->Set"},
		{"SetTransientDataTTL", "SetTTL", "Room.SetTransientDataTTL->SetTTL"},
		{"RemoveTransientData", "Remove", "Room.RemoveTransientData->Remove"},
		{"AddSession", "AddListener", "Room.AddSession->AddListener"},
		{"RemoveSession", "RemoveListener", "Room.RemoveSession->RemoveListener"},
	} {
		fd := findFunc(rf, "Room", w[0])
		if callsOn(fd, "r", "transientData", w[1]) {
			// the three setters must be plain delegations
			if w[0] == "AddSession" || w[0] == "RemoveSession" || len(fd.Body.List) == 1 {
				wiring = append(wiring, w[2])
			}
		}
	}
	hf := c.file("hub.go")
	if fd := findFunc(hf, "Hub", "processTransientMsg"); fd != nil && fd.Body != nil {
		for _, m := range []string{"SetTransientDataTTL", "RemoveTransientData"} {
			found := false
			ast.Inspect(fd.Body, func(n ast.Node) bool {
				if call, ok := n.(*ast.CallExpr); ok {
					if sel, ok := call.Fun.(*ast.SelectorExpr); ok && sel.Sel.Name == m && isIdent(sel.X, "room") {
						found = true
					}
				}
				return true
			})
			if found {
				wiring = append(wiring, "Hub.processTransientMsg->Room."+m)
			}
		}
	}
	l.strList("wiring", wiring, rf != nil && hf != nil, "room.go / hub.go not readable")

	// --- the embedding: who is registered as listener of a room's data, and when (transientembed.go)
	genTransientEmbedding(c, l)
	return l
}
