package main

// Facts for C10, recipient side: what happens to a message *after* the handler
// of the sender's frame has built a ServerMessage from it.  The raw `data` of a
// `message` / `control` is client-controlled and travels on inside a
// ServerMessage (possibly inside an AsyncMessage over the event bus); it is
// looked at again on paths that depend on the state of the *recipient*: when it
// is filtered on delivery (filterAsyncMessage, filterMessage), when it has to
// be queued because the recipient's connection is gone (storePendingMessage and
// the predicates it calls), when the queue is flushed on resume.
//
// Tables, over every hand-written file of the root package except the media
// code (Generated/ShapesMedia) and federation.go (messages of a remote hub:
// Generated/ShapesFederation, C12):
//
//   - payloadParsers: every place where raw bytes are decoded into a local
//     variable (`json.Unmarshal(src, &x)`, `x.UnmarshalJSON(src)`,
//     `….Decode(&x)`) in a function that has a ServerMessage / AsyncMessage /
//     client-message parameter or receiver: (function, type of x, src),
//   - payloadDerefs: the dereference walker of shapesclient.go with such a local
//     as root (`<@T>.<path>`): pointer members of the re-parsed payload that are
//     dereferenced without a syntactic nil guard, with the `.Type == "lit"`
//     conditions in force,
//   - envelopeDerefs: the same walker with the ServerMessage / AsyncMessage
//     parameter (or receiver) as root,
//   - envelopeFlows: for those functions, every call the message flows into (as
//     receiver or argument): (function, callee as written),
//   - deferredTypeAssertions / deferredIndexExprs: single-value type assertions
//     and index expressions over tracked values in those functions.

import (
	"go/ast"
	"go/token"
	"sort"
	"strings"
)

func init() { register(genShapesDeferred) }

func c10DeferredFiles(c *ctx) []string {
	media := map[string]bool{}
	for _, f := range c10MediaFiles(c) {
		media[f] = true
	}
	var out []string
	for _, f := range c10PkgFiles(c, ".") {
		if media[f] || f == "federation.go" || f == "test_helpers.go" {
			continue
		}
		out = append(out, f)
	}
	return out
}

func c10IsEnvelopeType(name string) bool { return name == "ServerMessage" || name == "AsyncMessage" }

// c10UnmarshalTarget: is call a decode into a plain local variable?  Returns
// the variable and the source expression.
func c10UnmarshalTarget(call *ast.CallExpr) (target *ast.Ident, src ast.Expr) {
	addrOf := func(e ast.Expr) *ast.Ident {
		if u, ok := e.(*ast.UnaryExpr); ok && u.Op == token.AND {
			if id, ok := u.X.(*ast.Ident); ok {
				return id
			}
		}
		if id, ok := e.(*ast.Ident); ok {
			return id // a pointer-typed local
		}
		return nil
	}
	sel, ok := call.Fun.(*ast.SelectorExpr)
	if !ok {
		return nil, nil
	}
	switch {
	case isSel(call.Fun, "json", "Unmarshal") && len(call.Args) == 2:
		return addrOf(call.Args[1]), call.Args[0]
	case sel.Sel.Name == "UnmarshalJSON" && len(call.Args) == 1:
		if id, ok := sel.X.(*ast.Ident); ok {
			return id, call.Args[0]
		}
	case sel.Sel.Name == "Decode" && len(call.Args) == 1:
		return addrOf(call.Args[0]), sel.X
	}
	return nil, nil
}

// c10LocalInit: `T{}`, `&T{}`, `new(T)` -> T.
func c10LocalInit(e ast.Expr) (string, bool) {
	switch x := e.(type) {
	case *ast.CompositeLit:
		if x.Type != nil {
			n, _ := c10TypeName(x.Type)
			return n, n != ""
		}
	case *ast.UnaryExpr:
		if x.Op == token.AND {
			return c10LocalInit(x.X)
		}
	case *ast.CallExpr:
		if isIdent(x.Fun, "new") && len(x.Args) == 1 {
			n, _ := c10TypeName(x.Args[0])
			return n, n != ""
		}
	}
	return "", false
}

// c10LocalDecls: declarations of local variables of a function body with the
// declared (or initialised) type, in source order.
type c10LocalDecl struct {
	name, typ string
	pos       token.Pos
}

func c10LocalDecls(body *ast.BlockStmt) []c10LocalDecl {
	var res []c10LocalDecl
	ast.Inspect(body, func(n ast.Node) bool {
		switch x := n.(type) {
		case *ast.DeclStmt:
			if gd, ok := x.Decl.(*ast.GenDecl); ok && gd.Tok == token.VAR {
				for _, sp := range gd.Specs {
					vs, ok := sp.(*ast.ValueSpec)
					if !ok {
						continue
					}
					tn := ""
					if vs.Type != nil {
						tn, _ = c10TypeName(vs.Type)
					}
					for i, n := range vs.Names {
						t := tn
						if t == "" && i < len(vs.Values) {
							t, _ = c10LocalInit(vs.Values[i])
						}
						res = append(res, c10LocalDecl{n.Name, t, n.Pos()})
					}
				}
			}
		case *ast.AssignStmt:
			if x.Tok == token.DEFINE {
				for i, l := range x.Lhs {
					if id, ok := l.(*ast.Ident); ok {
						t := ""
						if len(x.Lhs) == len(x.Rhs) {
							t, _ = c10LocalInit(x.Rhs[i])
						}
						res = append(res, c10LocalDecl{id.Name, t, id.Pos()})
					}
				}
			}
		}
		return true
	})
	return res
}

// c10DeclaredType: the type of the latest declaration of name before pos.
func c10DeclaredType(decls []c10LocalDecl, name string, pos token.Pos) string {
	typ := ""
	var best token.Pos
	for _, d := range decls {
		if d.name == name && d.pos < pos && d.pos >= best {
			typ, best = d.typ, d.pos
		}
	}
	return typ
}

func genShapesDeferred(c *ctx) *leanFile {
	files := c10DeferredFiles(c)
	l := c.newLean("ShapesDeferred", "every hand-written file of the root package except mcu_*.go, janus_client.go, federation.go")
	types := c10Types{}
	for _, rel := range append(append([]string(nil), files...), "federation.go") {
		for k, v := range c10CollectTypes(c.file(rel)) {
			types[k] = v
		}
	}
	isRoot := func(tn string) bool { return c10IsEnvelopeType(tn) }

	envDerefs, payDerefs := map[string]bool{}, map[string]bool{}
	asserts, indexes, flows := map[string]bool{}, map[string]bool{}, map[string]bool{}
	var parsers []string
	nEnv := 0

	type unit struct {
		name string
		body *ast.BlockStmt
		par  string // envelope parameter ("" = none)
		typ  string
		msg  bool // has an envelope or client-message parameter
	}
	for _, rel := range files {
		f := c.file(rel)
		if f == nil {
			l.fail("cannot read " + rel)
			continue
		}
		for _, d := range f.Decls {
			fd, ok := d.(*ast.FuncDecl)
			if !ok || fd.Body == nil {
				continue
			}
			name := c10FuncName(fd)
			params := fd.Type.Params.List
			if fd.Recv != nil {
				params = append(append([]*ast.Field(nil), fd.Recv.List...), params...)
			}
			var units []unit
			seesMessage := false
			for _, fl := range params {
				tn, ptr := c10TypeName(fl.Type)
				if ptr && (c10IsEnvelopeType(tn) || c10IsClientType(tn)) {
					seesMessage = true
				}
				if ptr && c10IsEnvelopeType(tn) {
					for _, n := range fl.Names {
						units = append(units, unit{name: name, body: fd.Body, par: n.Name, typ: tn})
					}
				}
			}
			// function literals with an envelope parameter are functions of their own
			nlit := 0
			ast.Inspect(fd.Body, func(n ast.Node) bool {
				fl, ok := n.(*ast.FuncLit)
				if !ok {
					return true
				}
				nlit++
				for _, p := range fl.Type.Params.List {
					tn, ptr := c10TypeName(p.Type)
					if ptr && c10IsEnvelopeType(tn) && len(p.Names) == 1 {
						units = append(units, unit{name: name + ".func" + itoa(nlit), body: fl.Body, par: p.Names[0].Name, typ: tn})
					}
				}
				return true
			})
			for _, u := range units {
				nEnv++
				w := &c10Walker{c: c, types: types, fn: u.name, root: u.typ, derefs: envDerefs, asserts: asserts, indexes: indexes,
					isRoot: isRoot, flows: flows}
				s := &c10Scope{vars: map[string]c10Val{u.par: {typ: u.typ}}, guarded: map[string]bool{}}
				w.block(s, u.body.List)
			}

			// decode targets: anywhere in a function that sees a message (also through a
			// function literal of it), or whose source is a member of one
			locals := c10LocalDecls(fd.Body)
			seen := map[string]bool{}
			ast.Inspect(fd.Body, func(n ast.Node) bool {
				call, ok := n.(*ast.CallExpr)
				if !ok {
					return true
				}
				target, src := c10UnmarshalTarget(call)
				if target == nil {
					return true
				}
				tn := c10DeclaredType(locals, target.Name, call.Pos())
				srcStr := c10Src(c.fset, src)
				if !seesMessage && len(units) == 0 {
					return true
				}
				if tn == "" {
					tn = "?"
				}
				parsers = append(parsers, name+"|"+tn+"|"+srcStr)
				if _, known := types[tn]; known && !seen[target.Name+"|"+tn] {
					seen[target.Name+"|"+tn] = true
					w := &c10Walker{c: c, types: types, fn: name, root: "@" + tn, derefs: payDerefs, asserts: asserts, indexes: indexes,
						isRoot: func(string) bool { return false }, localName: target.Name, localType: tn}
					s := &c10Scope{vars: map[string]c10Val{}, guarded: map[string]bool{}}
					w.block(s, fd.Body.List)
				}
				return true
			})
		}
	}
	sort.Strings(parsers)

	l.fact("payloadParsers")
	if len(parsers) < 3 {
		l.fail("payloadParsers: fewer than 3 decode sites found in functions that see a message")
	}
	l.raw("/-- (function, type of the local decoded into, source expression): raw bytes decoded again in a function that has a\nserver-message, async-message or client-message parameter. -/")
	l.raw("def payloadParsers : List (String × String × String) := " + c10Lean(parsers, 3))
	l.fact("payloadDerefs")
	l.raw("/-- (function, pointer path below the decoded local `<@T>`, conditions): dereferenced without a syntactic nil guard. -/")
	l.raw("def payloadDerefs : List (String × String × String) := " + c10Lean(c10Minimal(payDerefs), 3))
	l.fact("envelopeDerefs")
	if nEnv < 8 {
		l.fail("envelopeDerefs: fewer than 8 functions with a *ServerMessage / *AsyncMessage parameter found")
	}
	l.raw("/-- the same below a `*ServerMessage` / `*AsyncMessage` parameter or receiver. -/")
	l.raw("def envelopeDerefs : List (String × String × String) := " + c10Lean(c10Minimal(envDerefs), 3))
	l.fact("envelopeFlows")
	l.raw("/-- (function, callee): calls the message flows into, as receiver or argument. -/")
	l.raw("def envelopeFlows : List (String × String) := " + c10Lean(c10Sorted(flows), 2))
	l.fact("deferredTypeAssertions")
	l.raw("def deferredTypeAssertions : List (String × String) := " + c10Lean(c10Sorted(asserts), 2))
	l.fact("deferredIndexExprs")
	l.raw("def deferredIndexExprs : List (String × String) := " + c10Lean(c10Sorted(indexes), 2))
	return l
}

func itoa(n int) string {
	if n == 0 {
		return "0"
	}
	var b []byte
	for n > 0 {
		b = append([]byte{byte('0' + n%10)}, b...)
		n /= 10
	}
	return string(b)
}

var _ = strings.Join
