package main

import (
	"go/ast"
	"go/token"
	"strings"
)

func init() { register(genProxy) }

// Facts of proxy/proxy_server.go, proxy/proxy_session.go and client.go (C18).
func genProxy(c *ctx) *leanFile {
	l := c.newLean("Proxy", "proxy/proxy_server.go", "proxy/proxy_session.go", "client.go")
	srv := c.file("proxy/proxy_server.go")
	ses := c.file("proxy/proxy_session.go")
	cli := c.file("client.go")

	constant := func(f *ast.File, name string) {
		scope := pkgValues(f)
		e, ok := scope[name]
		var v int64
		if ok {
			v, ok = c.evalInt(e, scope, 0)
		}
		l.nat(name, v, ok && v >= 0, "package-level constant not found or not a constant integer expression")
	}
	constant(srv, "maxTokenAge")
	constant(srv, "tokenLeeway")
	constant(ses, "sessionExpirationTime")
	constant(cli, "pongWait")
	constant(cli, "pingPeriod")

	// ---- parseToken -------------------------------------------------------
	pt := findFunc(srv, "ProxyServer", "parseToken")
	var methods []string
	okMethods, withIat, leewayIsConst := false, false, false
	keyfuncType, okKeyfunc := "", false
	keyfuncLookup := false
	minIatOK, iatNil, iatCmp := false, false, ""
	if pt != nil && pt.Body != nil {
		ast.Inspect(pt.Body, func(n ast.Node) bool {
			switch x := n.(type) {
			case *ast.CallExpr:
				switch {
				case isSel(x.Fun, "jwt", "ParseWithClaims"):
					for _, a := range x.Args {
						call, ok := a.(*ast.CallExpr)
						if !ok {
							continue
						}
						switch {
						case isSel(call.Fun, "jwt", "WithValidMethods") && len(call.Args) == 1:
							if cl, ok := call.Args[0].(*ast.CompositeLit); ok {
								okMethods = true
								for _, el := range cl.Elts {
									// jwt.SigningMethodRS256.Alg()
									name := ""
									if ce, ok := el.(*ast.CallExpr); ok {
										if s1, ok := ce.Fun.(*ast.SelectorExpr); ok && s1.Sel.Name == "Alg" {
											if s2, ok := s1.X.(*ast.SelectorExpr); ok && isIdent(s2.X, "jwt") && strings.HasPrefix(s2.Sel.Name, "SigningMethod") {
												name = strings.TrimPrefix(s2.Sel.Name, "SigningMethod")
											}
										}
									} else if s, ok := strLit(el); ok {
										name = s
									}
									if name == "" {
										okMethods = false
									}
									methods = append(methods, name)
								}
							}
						case isSel(call.Fun, "jwt", "WithIssuedAt"):
							withIat = true
						case isSel(call.Fun, "jwt", "WithLeeway") && len(call.Args) == 1:
							leewayIsConst = isIdent(call.Args[0], "tokenLeeway")
						}
					}
				case len(x.Args) == 1:
					// now.Add(-(maxTokenAge + tokenLeeway))
					if s, ok := x.Fun.(*ast.SelectorExpr); ok && s.Sel.Name == "Add" && isIdent(s.X, "now") {
						if u, ok := x.Args[0].(*ast.UnaryExpr); ok && u.Op == token.SUB {
							e := u.X
							if p, ok := e.(*ast.ParenExpr); ok {
								e = p.X
							}
							if b, ok := e.(*ast.BinaryExpr); ok && b.Op == token.ADD && isIdent(b.X, "maxTokenAge") && isIdent(b.Y, "tokenLeeway") {
								minIatOK = true
							}
						}
					}
					// s.tokens.Get(claims.Issuer)
					if s, ok := x.Fun.(*ast.SelectorExpr); ok && s.Sel.Name == "Get" {
						if a, ok := x.Args[0].(*ast.SelectorExpr); ok && isIdent(a.X, "claims") && a.Sel.Name == "Issuer" {
							keyfuncLookup = true
						}
					}
				}
			case *ast.TypeAssertExpr:
				// token.Method.(*jwt.SigningMethodRSA)
				if s, ok := x.X.(*ast.SelectorExpr); ok && isIdent(s.X, "token") && s.Sel.Name == "Method" {
					if st, ok := x.Type.(*ast.StarExpr); ok {
						if t, ok := st.X.(*ast.SelectorExpr); ok && isIdent(t.X, "jwt") {
							keyfuncType, okKeyfunc = t.Sel.Name, true
						}
					}
				}
			case *ast.IfStmt:
				// if issuedAt := claims.IssuedAt; issuedAt == nil || issuedAt.Before(minIssuedAt) { return ... TokenExpired }
				b, ok := x.Cond.(*ast.BinaryExpr)
				if !ok || b.Op != token.LOR {
					return true
				}
				l1, ok1 := b.X.(*ast.BinaryExpr)
				r1, ok2 := b.Y.(*ast.CallExpr)
				if !ok1 || !ok2 || l1.Op != token.EQL || !isIdent(l1.X, "issuedAt") || !isIdent(l1.Y, "nil") {
					return true
				}
				if s, ok := r1.Fun.(*ast.SelectorExpr); ok && isIdent(s.X, "issuedAt") && len(r1.Args) == 1 && isIdent(r1.Args[0], "minIssuedAt") {
					if len(x.Body.List) == 1 {
						if rs, ok := x.Body.List[0].(*ast.ReturnStmt); ok && len(rs.Results) == 3 && isIdent(rs.Results[2], "TokenExpired") {
							iatNil, iatCmp = true, s.Sel.Name
						}
					}
				}
			}
			return true
		})
	}
	l.strList("validMethods", methods, okMethods, "parseToken: jwt.WithValidMethods([]string{jwt.SigningMethodX.Alg(), ...}) not found")
	l.boolean("withIssuedAt", withIat, pt != nil, "parseToken not found")
	l.boolean("leewayIsTokenLeeway", leewayIsConst, pt != nil, "parseToken not found")
	l.str("keyfuncMethodType", keyfuncType, okKeyfunc, "parseToken: token.Method.(*jwt.T) type assertion not found")
	l.boolean("keyByIssuer", keyfuncLookup, pt != nil, "parseToken not found")
	l.boolean("minIssuedAtIsAgePlusLeeway", minIatOK, pt != nil, "parseToken not found")
	l.boolean("iatNilRejected", iatNil, pt != nil, "parseToken not found")
	l.str("iatTooOldCmp", iatCmp, iatNil, "parseToken: `issuedAt == nil || issuedAt.<Cmp>(minIssuedAt)` returning TokenExpired not found")

	// NewSession: parseToken error returns before the session is stored
	ns := findFunc(srv, "ProxyServer", "NewSession")
	nsGuard := false
	if ns != nil && ns.Body != nil {
		seenParse, seenGuard := false, false
		for _, st := range ns.Body.List {
			switch x := st.(type) {
			case *ast.AssignStmt:
				if len(x.Rhs) == 1 {
					if call, ok := x.Rhs[0].(*ast.CallExpr); ok {
						if s, ok := call.Fun.(*ast.SelectorExpr); ok && s.Sel.Name == "parseToken" && len(call.Args) == 1 {
							if a, ok := call.Args[0].(*ast.SelectorExpr); ok && isIdent(a.X, "hello") && a.Sel.Name == "Token" {
								seenParse = true
							}
						}
					}
				}
			case *ast.IfStmt:
				if b, ok := x.Cond.(*ast.BinaryExpr); ok && seenParse && !seenGuard && b.Op == token.NEQ && isIdent(b.X, "err") && isIdent(b.Y, "nil") {
					if n := len(x.Body.List); n > 0 {
						if rs, ok := x.Body.List[n-1].(*ast.ReturnStmt); ok && len(rs.Results) == 2 && isIdent(rs.Results[0], "nil") {
							seenGuard = true
						}
					}
				}
			case *ast.ExprStmt:
				if call, ok := x.X.(*ast.CallExpr); ok {
					if s, ok := call.Fun.(*ast.SelectorExpr); ok && s.Sel.Name == "StoreSession" && seenGuard {
						nsGuard = true
					}
				}
			}
		}
	}
	l.boolean("newSessionNeedsToken", nsGuard, ns != nil, "NewSession not found")

	// ---- processMessage: pre-hello dispatch ----------------------------------
	pm := findFunc(srv, "ProxyServer", "processMessage")
	preType, preErr, okPre := "", "", false
	checkValidFirst := false
	if pm != nil && pm.Body != nil {
		seenCheckValid := false
		for _, st := range pm.Body.List {
			ifs, ok := st.(*ast.IfStmt)
			if !ok {
				continue
			}
			// if err := message.CheckValid(); err != nil { ... return }
			if as, ok := ifs.Init.(*ast.AssignStmt); ok && len(as.Rhs) == 1 {
				if call, ok := as.Rhs[0].(*ast.CallExpr); ok {
					if s, ok := call.Fun.(*ast.SelectorExpr); ok && isIdent(s.X, "message") && s.Sel.Name == "CheckValid" {
						if n := len(ifs.Body.List); n > 0 {
							if _, ok := ifs.Body.List[n-1].(*ast.ReturnStmt); ok {
								seenCheckValid = true
							}
						}
					}
				}
			}
			// if session == nil { if message.Type != "hello" { client.SendMessage(message.NewErrorServerMessage(signaling.HelloExpected)); return } ...
			if b, ok := ifs.Cond.(*ast.BinaryExpr); ok && b.Op == token.EQL && isIdent(b.X, "session") && isIdent(b.Y, "nil") && len(ifs.Body.List) > 0 {
				inner, ok := ifs.Body.List[0].(*ast.IfStmt)
				if !ok {
					continue
				}
				ib, ok := inner.Cond.(*ast.BinaryExpr)
				if !ok || ib.Op != token.NEQ {
					continue
				}
				sel, ok := ib.X.(*ast.SelectorExpr)
				if !ok || !isIdent(sel.X, "message") || sel.Sel.Name != "Type" {
					continue
				}
				ty, ok := strLit(ib.Y)
				if !ok || len(inner.Body.List) != 2 {
					continue
				}
				if _, ok := inner.Body.List[1].(*ast.ReturnStmt); !ok {
					continue
				}
				ast.Inspect(inner.Body.List[0], func(n ast.Node) bool {
					if s, ok := n.(*ast.SelectorExpr); ok && isIdent(s.X, "signaling") {
						preErr = s.Sel.Name
					}
					return true
				})
				// the whole `session == nil` block must end in a return (no fall-through to the dispatcher)
				if _, ok := ifs.Body.List[len(ifs.Body.List)-1].(*ast.ReturnStmt); ok && preErr != "" {
					preType, okPre = ty, true
					checkValidFirst = seenCheckValid
				}
			}
		}
	}
	l.str("preHelloOnlyType", preType, okPre, "processMessage: `if session == nil { if message.Type != \"hello\" { …; return } … return }` not found")
	l.str("preHelloError", preErr, okPre, "processMessage: pre-hello error not found")
	l.boolean("checkValidBeforeDispatch", checkValidFirst, okPre, "processMessage: CheckValid guard not found before the session check")

	// ---- processCommand: ownership check on delete ---------------------------
	pc := findFunc(srv, "ProxyServer", "processCommand")
	ownerCheck := func(caseName, method string) (bool, bool) {
		if pc == nil || pc.Body == nil {
			return false, false
		}
		found, guarded := false, false
		ast.Inspect(pc.Body, func(n ast.Node) bool {
			cc, ok := n.(*ast.CaseClause)
			if !ok || len(cc.List) != 1 {
				return true
			}
			if s, ok := strLit(cc.List[0]); !ok || s != caseName {
				return true
			}
			found = true
			seenGuard := false
			for _, st := range cc.Body {
				ifs, ok := st.(*ast.IfStmt)
				if !ok {
					continue
				}
				// if session.DeleteX(x) == "" { ...; return }
				if b, ok := ifs.Cond.(*ast.BinaryExpr); ok && b.Op == token.EQL {
					if call, ok := b.X.(*ast.CallExpr); ok {
						if s, ok := call.Fun.(*ast.SelectorExpr); ok && isIdent(s.X, "session") && s.Sel.Name == method {
							if v, ok := strLit(b.Y); ok && v == "" && len(ifs.Body.List) > 0 {
								if _, ok := ifs.Body.List[len(ifs.Body.List)-1].(*ast.ReturnStmt); ok {
									seenGuard = true
								}
							}
						}
					}
				}
				// if s.DeleteClient(...) — must come after the guard
				if call, ok := ifs.Cond.(*ast.CallExpr); ok {
					if s, ok := call.Fun.(*ast.SelectorExpr); ok && s.Sel.Name == "DeleteClient" {
						guarded = seenGuard
					}
				}
			}
			return false
		})
		return guarded, found
	}
	g, f := ownerCheck("delete-publisher", "DeletePublisher")
	l.boolean("deletePublisherOwnerCheck", g, f, "processCommand: case \"delete-publisher\" not found")
	g, f = ownerCheck("delete-subscriber", "DeleteSubscriber")
	l.boolean("deleteSubscriberOwnerCheck", g, f, "processCommand: case \"delete-subscriber\" not found")

	// ---- ProxySession.Close / NotifyDisconnected: what is cleared ------------
	calls := func(fd *ast.FuncDecl) []string {
		var res []string
		if fd == nil || fd.Body == nil {
			return nil
		}
		for _, st := range fd.Body.List {
			es, ok := st.(*ast.ExprStmt)
			if !ok {
				continue
			}
			call, ok := es.X.(*ast.CallExpr)
			if !ok {
				continue
			}
			if s, ok := call.Fun.(*ast.SelectorExpr); ok {
				res = append(res, s.Sel.Name)
			}
		}
		return res
	}
	cl := findFunc(ses, "ProxySession", "Close")
	l.strList("closeCalls", calls(cl), cl != nil, "(*ProxySession).Close not found")
	nd := findFunc(ses, "ProxySession", "NotifyDisconnected")
	l.strList("notifyDisconnectedCalls", calls(nd), nd != nil, "(*ProxySession).NotifyDisconnected not found")

	// clearPublishers / clearSubscribers: the goroutine removes the id from the
	// global table (DeleteClient) and closes the object (Close)
	clears := func(name string) (bool, bool) {
		fd := findFunc(ses, "ProxySession", name)
		if fd == nil || fd.Body == nil {
			return false, false
		}
		del, cls := false, false
		ast.Inspect(fd.Body, func(n ast.Node) bool {
			rs, ok := n.(*ast.RangeStmt)
			if !ok {
				return true
			}
			ast.Inspect(rs.Body, func(m ast.Node) bool {
				if call, ok := m.(*ast.CallExpr); ok {
					if s, ok := call.Fun.(*ast.SelectorExpr); ok {
						switch s.Sel.Name {
						case "DeleteClient":
							del = true
						case "Close":
							cls = true
						}
					}
				}
				return true
			})
			return false
		})
		return del && cls, true
	}
	g, f = clears("clearPublishers")
	l.boolean("clearPublishersDeletesAndCloses", g, f, "clearPublishers not found")
	g, f = clears("clearSubscribers")
	l.boolean("clearSubscribersDeletesAndCloses", g, f, "clearSubscribers not found")

	// Store{Publisher,Subscriber} refuse a closed session: `if s.ctx.Err() != nil { return false }`
	// before the map assignment; processCommand undoes the creation when refused:
	// `if !session.StoreX(...) { s.DeleteClient(...); go x.Close(...); return }`
	storeRefuses := func(name string) (bool, bool) {
		fd := findFunc(ses, "ProxySession", name)
		if fd == nil || fd.Body == nil {
			return false, false
		}
		guard := false
		for _, st := range fd.Body.List {
			switch x := st.(type) {
			case *ast.IfStmt:
				b, ok := x.Cond.(*ast.BinaryExpr)
				if !ok || b.Op != token.NEQ || !isIdent(b.Y, "nil") {
					continue
				}
				call, ok := b.X.(*ast.CallExpr)
				if !ok {
					continue
				}
				sel, ok := call.Fun.(*ast.SelectorExpr)
				if !ok || sel.Sel.Name != "Err" {
					continue
				}
				inner, ok := sel.X.(*ast.SelectorExpr)
				if !ok || !isIdent(inner.X, "s") || inner.Sel.Name != "ctx" || len(x.Body.List) == 0 {
					continue
				}
				if rs, ok := x.Body.List[len(x.Body.List)-1].(*ast.ReturnStmt); ok && len(rs.Results) == 1 && isIdent(rs.Results[0], "false") {
					guard = true
				}
			case *ast.AssignStmt:
				// the first map store must come after the guard
				if _, ok := x.Lhs[0].(*ast.IndexExpr); ok {
					return guard, true
				}
			}
		}
		return false, true
	}
	g, f = storeRefuses("StorePublisher")
	l.boolean("storePublisherRefusesClosed", g, f, "(*ProxySession).StorePublisher not found")
	g, f = storeRefuses("StoreSubscriber")
	l.boolean("storeSubscriberRefusesClosed", g, f, "(*ProxySession).StoreSubscriber not found")

	undoesRefused := func(caseName, method string) (bool, bool) {
		if pc == nil || pc.Body == nil {
			return false, false
		}
		found, okUndo := false, false
		ast.Inspect(pc.Body, func(n ast.Node) bool {
			cc, ok := n.(*ast.CaseClause)
			if !ok || len(cc.List) != 1 {
				return true
			}
			if s, ok := strLit(cc.List[0]); !ok || s != caseName {
				return true
			}
			found = true
			storedGlobally := false
			for _, st := range cc.Body {
				switch x := st.(type) {
				case *ast.ExprStmt:
					if call, ok := x.X.(*ast.CallExpr); ok {
						if s, ok := call.Fun.(*ast.SelectorExpr); ok && s.Sel.Name == "StoreClient" {
							storedGlobally = true
						}
					}
				case *ast.IfStmt:
					u, ok := x.Cond.(*ast.UnaryExpr)
					if !ok || u.Op != token.NOT {
						continue
					}
					call, ok := u.X.(*ast.CallExpr)
					if !ok {
						continue
					}
					s, ok := call.Fun.(*ast.SelectorExpr)
					if !ok || !isIdent(s.X, "session") || s.Sel.Name != method || len(x.Body.List) == 0 {
						continue
					}
					del, cls := false, false
					ast.Inspect(x.Body, func(m ast.Node) bool {
						if c2, ok := m.(*ast.CallExpr); ok {
							if s2, ok := c2.Fun.(*ast.SelectorExpr); ok {
								switch s2.Sel.Name {
								case "DeleteClient":
									del = true
								case "Close":
									cls = true
								}
							}
						}
						return true
					})
					_, ret := x.Body.List[len(x.Body.List)-1].(*ast.ReturnStmt)
					// the id is put into the global table first, so that a Close racing with the
					// store finds it there; when the session refuses, both are undone
					okUndo = storedGlobally && del && cls && ret
				}
			}
			return false
		})
		return okUndo, found
	}
	g, f = undoesRefused("create-publisher", "StorePublisher")
	l.boolean("createPublisherUndoesRefused", g, f, "processCommand: case \"create-publisher\" not found")
	g, f = undoesRefused("create-subscriber", "StoreSubscriber")
	l.boolean("createSubscriberUndoesRefused", g, f, "processCommand: case \"create-subscriber\" not found")

	// clearPublishers / clearSubscribers take the lock that guards the map they empty
	lockOf := func(name string) (string, bool) {
		fd := findFunc(ses, "ProxySession", name)
		if fd == nil || fd.Body == nil {
			return "", false
		}
		for _, st := range fd.Body.List {
			if es, ok := st.(*ast.ExprStmt); ok {
				if call, ok := es.X.(*ast.CallExpr); ok {
					if s, ok := call.Fun.(*ast.SelectorExpr); ok && s.Sel.Name == "Lock" {
						if in, ok := s.X.(*ast.SelectorExpr); ok && isIdent(in.X, "s") {
							return in.Sel.Name, true
						}
					}
				}
			}
		}
		return "", false
	}
	lk, f2 := lockOf("clearPublishers")
	l.str("clearPublishersLock", lk, f2, "clearPublishers: s.<lock>.Lock() not found")
	lk, f2 = lockOf("clearSubscribers")
	l.str("clearSubscribersLock", lk, f2, "clearSubscribers: s.<lock>.Lock() not found")
	lk, f2 = lockOf("StorePublisher")
	l.str("storePublisherLock", lk, f2, "StorePublisher: s.<lock>.Lock() not found")
	lk, f2 = lockOf("StoreSubscriber")
	l.str("storeSubscriberLock", lk, f2, "StoreSubscriber: s.<lock>.Lock() not found")

	// onMcuDisconnected notifies every session
	omd := findFunc(srv, "ProxyServer", "onMcuDisconnected")
	notifies := false
	if omd != nil && omd.Body != nil {
		ast.Inspect(omd.Body, func(n ast.Node) bool {
			if call, ok := n.(*ast.CallExpr); ok {
				if s, ok := call.Fun.(*ast.SelectorExpr); ok && s.Sel.Name == "IterateSessions" && len(call.Args) == 1 {
					ast.Inspect(call.Args[0], func(m ast.Node) bool {
						if c2, ok := m.(*ast.CallExpr); ok {
							if s2, ok := c2.Fun.(*ast.SelectorExpr); ok && s2.Sel.Name == "NotifyDisconnected" {
								notifies = true
							}
						}
						return true
					})
				}
			}
			return true
		})
	}
	l.boolean("mcuDisconnectNotifiesAllSessions", notifies, omd != nil, "onMcuDisconnected not found")

	// expireSessions / processBye end a session through deleteSessionLocked -> session.Close
	dsl := findFunc(srv, "ProxyServer", "deleteSessionLocked")
	closes := false
	if dsl != nil && dsl.Body != nil {
		ast.Inspect(dsl.Body, func(n ast.Node) bool {
			if call, ok := n.(*ast.CallExpr); ok {
				if s, ok := call.Fun.(*ast.SelectorExpr); ok && isIdent(s.X, "session") && s.Sel.Name == "Close" {
					closes = true
				}
			}
			return true
		})
	}
	l.boolean("deleteSessionCloses", closes, dsl != nil, "deleteSessionLocked not found")
	return l
}
