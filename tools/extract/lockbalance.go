package main

import (
	"fmt"
	"go/ast"
	"go/token"
	"os"
	"sort"
	"strings"
)

func init() { register(genLockBalance) }

// Lock balance of every function of the signaling package (C11).
//
// "The server stays responsive" fails silently when a function that runs on a
// long-lived goroutine (Hub.Run, a room's bus subscriber, a session's writer)
// comes back with a mutex still held, or takes a mutex it already holds: the
// request that caused it was answered, every later one waits forever.  The
// harness sees that only when a generated request reaches the path; this file
// looks at ALL paths.
//
// For every function and function literal of the non-test files of the root
// package, an abstract interpretation over the control-flow graph tracks, per
// mutex expression (`<recv>.mu` is named `<Type>.mu`, anything else keeps its
// source text), one of the states
//
//	U   as found on entry (nothing known, nothing changed)
//	W   locked here with Lock()          R   locked here with RLock()
//	N   found locked by the caller and released here (Unlock in state U)
//
// plus "an unlock is deferred".  Findings (each one line of `lockFindings`):
//
//	held-at-return     a path ends in state W/R without a deferred unlock
//	released-at-return a path ends in state N (the caller's lock is not retaken)
//	loop-imbalance     a pass through a loop body (fall-through or `continue`)
//	                   ends in another state than it began in
//	relock             Lock/RLock in state W/R (sync mutexes are not re-entrant)
//	unlock-mismatch    Unlock in state R, RUnlock in state W, double unlock
//	reentrant          while `<Type>.f` is W/R, a call of a method of the same
//	                   receiver that (transitively, through same-receiver calls)
//	                   locks `<Type>.f` from state U
//	unsupported        goto, or a lock operation in a place the walk cannot order
//
// `lockFunctions` lists the functions that contain lock operations (what was
// analysed); Props/C11.lean states that the findings are exactly the reviewed
// list and that the functions behind the room API are among the analysed.

type lbState struct {
	m   map[string]string // mutex -> "W" | "R" | "N"   (absent = U)
	def map[string]bool   // unlock deferred
}

func (s lbState) clone() lbState {
	t := lbState{m: map[string]string{}, def: map[string]bool{}}
	for k, v := range s.m {
		t.m[k] = v
	}
	for k, v := range s.def {
		t.def[k] = v
	}
	return t
}

func (s lbState) key() string {
	var ks []string
	for k, v := range s.m {
		ks = append(ks, k+"="+v)
	}
	for k := range s.def {
		ks = append(ks, k+"=defer")
	}
	sort.Strings(ks)
	return strings.Join(ks, ";")
}

type lbExit struct {
	st    lbState
	label string
}

type lbFlow struct {
	next []lbState
	brk  []lbExit
	cont []lbExit
}

func lbDedupe(ss []lbState) []lbState {
	seen := map[string]bool{}
	var out []lbState
	for _, s := range ss {
		k := s.key()
		if !seen[k] {
			seen[k] = true
			out = append(out, s)
		}
	}
	return out
}

type lbFunc struct {
	name   string // Type.method, func, Type.method$1 …
	file   string
	typ    string // receiver type ("" for plain functions and literals of them)
	rv     string // receiver variable
	body   *ast.BlockStmt
	hasOps bool
	// summary for the re-entrancy check
	acquires map[string]bool // mutexes (Type.f) locked from state U, directly
	calls    []lbCall        // same-receiver calls with the lock state they are made in
	callKeys map[string]bool
}

type lbCall struct {
	callee string
	st     map[string]string
}

type lbAn struct {
	c        *ctx
	f        *lbFunc
	findings map[string]bool
	lits     []*lbFunc
	nlit     int
	labels   map[string][]lbState
}

func (a *lbAn) find(kind, mutex, detail string) {
	a.findings[fmt.Sprintf("%s:%s:%s:%s:%s", a.f.file, a.f.name, kind, mutex, detail)] = true
}

// mutexName: the operand of .Lock() etc.
func (a *lbAn) mutexName(x ast.Expr) string {
	src := authSrc(a.c.fset, x)
	if a.f.rv != "" && strings.HasPrefix(src, a.f.rv+".") && a.f.typ != "" {
		return a.f.typ + "." + src[len(a.f.rv)+1:]
	}
	return src
}

func lbLockOp(n ast.Node) (op string, x ast.Expr) {
	call, ok := n.(*ast.CallExpr)
	if !ok || len(call.Args) != 0 {
		return "", nil
	}
	sel, ok := call.Fun.(*ast.SelectorExpr)
	if !ok {
		return "", nil
	}
	switch sel.Sel.Name {
	case "Lock", "Unlock", "RLock", "RUnlock":
		return sel.Sel.Name, sel.X
	}
	return "", nil
}

func lbHasLockOp(n ast.Node) bool {
	found := false
	if n == nil {
		return false
	}
	ast.Inspect(n, func(x ast.Node) bool {
		if x == nil || found {
			return false
		}
		if _, ok := x.(*ast.FuncLit); ok {
			return false
		}
		if op, _ := lbLockOp(x); op != "" {
			found = true
		}
		return !found
	})
	return found
}

func (a *lbAn) apply(ss []lbState, op, mu string) []lbState {
	out := make([]lbState, 0, len(ss))
	for _, s := range ss {
		s = s.clone()
		cur := s.m[mu]
		switch op {
		case "Lock", "RLock":
			mode := "W"
			if op == "RLock" {
				mode = "R"
			}
			switch cur {
			case "W", "R":
				a.find("relock", mu, op+" in state "+cur)
				s.m[mu] = mode
			case "N":
				delete(s.m, mu) // the caller's lock is taken again
			default:
				s.m[mu] = mode
				if a.f.typ != "" && strings.HasPrefix(mu, a.f.typ+".") {
					a.f.acquires[mu] = true
				}
			}
		case "Unlock", "RUnlock":
			want := "W"
			if op == "RUnlock" {
				want = "R"
			}
			switch cur {
			case "W", "R":
				if cur != want {
					a.find("unlock-mismatch", mu, op+" in state "+cur)
				}
				delete(s.m, mu)
			case "N":
				a.find("unlock-mismatch", mu, op+" after the lock was released")
			default:
				s.m[mu] = "N"
			}
		}
		out = append(out, s)
	}
	return lbDedupe(out)
}

// scan applies, in source order, the lock operations and the same-receiver calls
// of an expression or simple statement.  Function literals are functions of their own.
func (a *lbAn) scan(ss []lbState, n ast.Node) []lbState {
	if n == nil {
		return ss
	}
	ast.Inspect(n, func(x ast.Node) bool {
		if x == nil {
			return false
		}
		if fl, ok := x.(*ast.FuncLit); ok {
			a.literal(fl)
			return false
		}
		if op, mx := lbLockOp(x); op != "" {
			ss = a.apply(ss, op, a.mutexName(mx))
			return false
		}
		if call, ok := x.(*ast.CallExpr); ok {
			// arguments are evaluated before the call
			for _, arg := range call.Args {
				ss = a.scan(ss, arg)
			}
			if sel, ok := call.Fun.(*ast.SelectorExpr); ok {
				if a.f.rv != "" && a.f.typ != "" && isIdent(sel.X, a.f.rv) {
					a.sameRecvCall(ss, sel.Sel.Name)
				} else {
					ss = a.scan(ss, sel.X)
				}
			} else {
				ss = a.scan(ss, call.Fun)
			}
			return false
		}
		return true
	})
	return ss
}

func (a *lbAn) sameRecvCall(ss []lbState, callee string) {
	callee = a.f.typ + "." + callee
	for _, s := range ss {
		k := callee + "|" + s.key()
		if a.f.callKeys[k] {
			continue
		}
		a.f.callKeys[k] = true
		a.f.calls = append(a.f.calls, lbCall{callee: callee, st: s.clone().m})
	}
}

func (a *lbAn) literal(fl *ast.FuncLit) {
	a.nlit++
	// literals inherit receiver naming (they close over the receiver variable)
	base := a.f.name
	if i := strings.Index(base, "$"); i >= 0 {
		base = base[:i]
	}
	a.lits = append(a.lits, &lbFunc{name: fmt.Sprintf("%s$%d", base, a.nlit), file: a.f.file, typ: a.f.typ, rv: a.f.rv, body: fl.Body})
}

func (a *lbAn) finish(ss []lbState, how string) {
	for _, s := range ss {
		for mu, v := range s.m {
			switch v {
			case "W", "R":
				if !s.def[mu] {
					a.find("held-at-return", mu, v+" at "+how)
				}
			case "N":
				if !s.def[mu] {
					a.find("released-at-return", mu, "at "+how)
				}
			}
		}
	}
}

func (a *lbAn) stmts(ss []lbState, list []ast.Stmt) lbFlow {
	var fl lbFlow
	for _, st := range list {
		if len(ss) == 0 {
			break
		}
		f := a.stmt(ss, st, "")
		fl.brk = append(fl.brk, f.brk...)
		fl.cont = append(fl.cont, f.cont...)
		ss = f.next
	}
	fl.next = ss
	return fl
}

func lbTerminates(call *ast.CallExpr) bool {
	if isIdent(call.Fun, "panic") {
		return true
	}
	if s, ok := call.Fun.(*ast.SelectorExpr); ok {
		if isIdent(s.X, "os") && s.Sel.Name == "Exit" {
			return true
		}
		if isIdent(s.X, "log") && (s.Sel.Name == "Fatal" || s.Sel.Name == "Fatalf" || s.Sel.Name == "Fatalln" || s.Sel.Name == "Panicf" || s.Sel.Name == "Panic") {
			return true
		}
	}
	return false
}

func lbStates(xs []lbExit, labels ...string) (mine []lbState, rest []lbExit) {
	for _, x := range xs {
		ok := false
		for _, l := range labels {
			if x.label == l {
				ok = true
			}
		}
		if ok {
			mine = append(mine, x.st)
		} else {
			rest = append(rest, x)
		}
	}
	return
}

func (a *lbAn) stmt(ss []lbState, s ast.Stmt, label string) lbFlow {
	switch x := s.(type) {
	case nil:
		return lbFlow{next: ss}
	case *ast.BlockStmt:
		return a.stmts(ss, x.List)
	case *ast.LabeledStmt:
		if a.labels == nil {
			a.labels = map[string][]lbState{}
		}
		a.labels[x.Label.Name] = append([]lbState{}, ss...)
		return a.stmt(ss, x.Stmt, x.Label.Name)
	case *ast.IfStmt:
		ss = a.scan(ss, x.Init)
		ss = a.scan(ss, x.Cond)
		th := a.stmts(ss, x.Body.List)
		var el lbFlow
		if x.Else != nil {
			el = a.stmt(ss, x.Else, "")
		} else {
			el = lbFlow{next: ss}
		}
		return lbFlow{next: lbDedupe(append(append([]lbState{}, th.next...), el.next...)),
			brk: append(th.brk, el.brk...), cont: append(th.cont, el.cont...)}
	case *ast.ReturnStmt:
		for _, r := range x.Results {
			ss = a.scan(ss, r)
		}
		a.finish(ss, "return")
		return lbFlow{}
	case *ast.DeferStmt:
		if op, mx := lbLockOp(x.Call); op != "" {
			mu := a.mutexName(mx)
			if op == "Unlock" || op == "RUnlock" {
				out := make([]lbState, 0, len(ss))
				for _, st := range ss {
					st = st.clone()
					st.def[mu] = true
					out = append(out, st)
				}
				return lbFlow{next: lbDedupe(out)}
			}
			// `mu.Unlock(); defer mu.Lock()`: a function entered with the lock held gives it up for a
			// while and retakes it when it returns
			out := make([]lbState, 0, len(ss))
			for _, st := range ss {
				st = st.clone()
				if st.m[mu] == "N" {
					st.def[mu] = true
				} else if st.m[mu] == "" && st.def[mu] {
					// locked with a deferred unlock, released, retaken by this deferred call before
					// the deferred unlock runs
				} else {
					a.find("unsupported", mu, "deferred "+op+" while the lock was not released here")
				}
				out = append(out, st)
			}
			return lbFlow{next: lbDedupe(out)}
		}
		if fl, ok := x.Call.Fun.(*ast.FuncLit); ok {
			// `defer func() { …; mu.Unlock() }()`: its unlocks are deferred unlocks; other lock
			// operations inside make it a function of its own
			onlyUnlocks := true
			var mus []string
			ast.Inspect(fl.Body, func(n ast.Node) bool {
				if n == nil {
					return false
				}
				if op, mx := lbLockOp(n); op != "" {
					if op == "Unlock" || op == "RUnlock" {
						mus = append(mus, a.mutexName(mx))
					} else {
						onlyUnlocks = false
					}
				}
				return true
			})
			if onlyUnlocks && len(mus) > 0 {
				out := make([]lbState, 0, len(ss))
				for _, st := range ss {
					st = st.clone()
					for _, mu := range mus {
						st.def[mu] = true
					}
					out = append(out, st)
				}
				for _, arg := range x.Call.Args {
					out = a.scan(out, arg)
				}
				return lbFlow{next: lbDedupe(out)}
			}
			a.literal(fl)
			return lbFlow{next: ss}
		}
		// a deferred call runs at return: its arguments are evaluated now, the call itself is not ordered
		for _, arg := range x.Call.Args {
			ss = a.scan(ss, arg)
		}
		return lbFlow{next: ss}
	case *ast.GoStmt:
		if fl, ok := x.Call.Fun.(*ast.FuncLit); ok {
			a.literal(fl)
		}
		for _, arg := range x.Call.Args {
			ss = a.scan(ss, arg)
		}
		return lbFlow{next: ss}
	case *ast.ExprStmt:
		if call, ok := x.X.(*ast.CallExpr); ok && lbTerminates(call) {
			a.scan(ss, x.X)
			return lbFlow{}
		}
		return lbFlow{next: a.scan(ss, x.X)}
	case *ast.SwitchStmt, *ast.TypeSwitchStmt, *ast.SelectStmt:
		var clauses []ast.Stmt
		switch y := x.(type) {
		case *ast.SwitchStmt:
			ss = a.scan(ss, y.Init)
			ss = a.scan(ss, y.Tag)
			clauses = y.Body.List
		case *ast.TypeSwitchStmt:
			ss = a.scan(ss, y.Init)
			ss = a.scan(ss, y.Assign)
			clauses = y.Body.List
		case *ast.SelectStmt:
			clauses = y.Body.List
		}
		var out lbFlow
		hasDefault := false
		var fall []lbState
		for _, cc := range clauses {
			in := append([]lbState{}, ss...)
			var body []ast.Stmt
			switch cl := cc.(type) {
			case *ast.CaseClause:
				if cl.List == nil {
					hasDefault = true
				}
				for _, e := range cl.List {
					in = a.scan(in, e)
				}
				body = cl.Body
			case *ast.CommClause:
				if cl.Comm == nil {
					hasDefault = true
				} else {
					f := a.stmt(in, cl.Comm, "")
					in = f.next
				}
				body = cl.Body
			}
			in = lbDedupe(append(in, fall...))
			fall = nil
			falls := false
			if n := len(body); n > 0 {
				if bs, ok := body[n-1].(*ast.BranchStmt); ok && bs.Tok == token.FALLTHROUGH {
					falls = true
					body = body[:n-1]
				}
			}
			f := a.stmts(in, body)
			if falls {
				fall = f.next
			} else {
				out.next = append(out.next, f.next...)
			}
			out.brk = append(out.brk, f.brk...)
			out.cont = append(out.cont, f.cont...)
		}
		if _, isSel := x.(*ast.SelectStmt); !hasDefault && !isSel {
			out.next = append(out.next, ss...)
		}
		mine, rest := lbStates(out.brk, "", label)
		out.next = lbDedupe(append(out.next, mine...))
		out.brk = rest
		return out
	case *ast.ForStmt, *ast.RangeStmt:
		var body *ast.BlockStmt
		var post ast.Stmt
		infinite := false
		if f, ok := x.(*ast.ForStmt); ok {
			ss = a.scan(ss, f.Init)
			ss = a.scan(ss, f.Cond)
			body, post = f.Body, f.Post
			infinite = f.Cond == nil
		} else {
			r := x.(*ast.RangeStmt)
			ss = a.scan(ss, r.X)
			body = r.Body
		}
		var after []lbState
		var outer lbFlow
		if !infinite {
			after = append(after, ss...)
		}
		// every entry state on its own, so that an imbalance is attributed to one pass
		for _, s0 := range ss {
			f := a.stmts([]lbState{s0}, body.List)
			labels := []string{""}
			if label != "" {
				labels = append(labels, label)
			}
			conts, restC := lbStates(f.cont, labels...)
			brks, restB := lbStates(f.brk, labels...)
			outer.cont = append(outer.cont, restC...)
			outer.brk = append(outer.brk, restB...)
			ends := f.next
			if post != nil {
				ends = a.scan(append(append([]lbState{}, ends...), conts...), post)
				conts = nil
			}
			check := func(es []lbState, via string) {
				for _, e := range es {
					if e.key() != s0.key() {
						mus := map[string]bool{}
						for mu := range e.m {
							if e.m[mu] != s0.m[mu] {
								mus[mu] = true
							}
						}
						for mu := range s0.m {
							if e.m[mu] != s0.m[mu] {
								mus[mu] = true
							}
						}
						for mu := range e.def {
							if !s0.def[mu] {
								mus[mu] = true
							}
						}
						for mu := range mus {
							from, to := s0.m[mu], e.m[mu]
							if from == "" {
								from = "U"
							}
							if to == "" {
								to = "U"
							}
							if e.def[mu] && !s0.def[mu] {
								to += "+defer"
							}
							a.find("loop-imbalance", mu, fmt.Sprintf("%s -> %s via %s", from, to, via))
						}
						if !infinite {
							after = append(after, e)
						}
					}
				}
			}
			check(ends, "end of body")
			check(conts, "continue")
			after = append(after, brks...)
		}
		outer.next = lbDedupe(after)
		return outer
	case *ast.BranchStmt:
		lab := ""
		if x.Label != nil {
			lab = x.Label.Name
		}
		var f lbFlow
		switch x.Tok {
		case token.BREAK:
			for _, s := range ss {
				f.brk = append(f.brk, lbExit{st: s, label: lab})
			}
		case token.CONTINUE:
			for _, s := range ss {
				f.cont = append(f.cont, lbExit{st: s, label: lab})
			}
		case token.GOTO:
			// a backward goto closes a loop: the lock state must be the one the label was reached with
			at, seen := a.labels[lab]
			if !seen {
				if a.f.hasOps {
					a.find("unsupported", "-", "forward goto in a function with lock operations")
				}
				break
			}
			for _, s := range ss {
				same := false
				for _, t := range at {
					if t.key() == s.key() {
						same = true
					}
				}
				if !same {
					a.find("loop-imbalance", "-", "goto "+lab+" in state "+s.key())
				}
			}
		}
		return f
	default:
		// assignment, declaration, send, inc/dec, empty
		return lbFlow{next: a.scan(ss, s)}
	}
}

func (a *lbAn) run(f *lbFunc) {
	a.f = f
	if !strings.Contains(f.name, "$") {
		a.nlit = 0
	}
	a.labels = nil
	f.acquires = map[string]bool{}
	f.callKeys = map[string]bool{}
	if f.body == nil {
		return
	}
	f.hasOps = lbHasLockOp(f.body)
	fl := a.stmts([]lbState{{m: map[string]string{}, def: map[string]bool{}}}, f.body.List)
	a.finish(fl.next, "end")
	for _, e := range fl.brk {
		_ = e
		a.find("unsupported", "-", "break outside loop")
	}
}

func lbRecv(fd *ast.FuncDecl) (typ, rv string) {
	if fd.Recv == nil || len(fd.Recv.List) != 1 {
		return "", ""
	}
	t := fd.Recv.List[0].Type
	if s, ok := t.(*ast.StarExpr); ok {
		t = s.X
	}
	if ix, ok := t.(*ast.IndexExpr); ok {
		t = ix.X
	}
	if id, ok := t.(*ast.Ident); ok {
		typ = id.Name
	}
	if len(fd.Recv.List[0].Names) == 1 {
		rv = fd.Recv.List[0].Names[0].Name
	}
	return
}

func genLockBalance(c *ctx) *leanFile {
	var files []string
	if ents, err := os.ReadDir(c.repo); err == nil {
		for _, e := range ents {
			n := e.Name()
			if e.IsDir() || !strings.HasSuffix(n, ".go") || strings.HasSuffix(n, "_test.go") || strings.HasPrefix(n, "zz_") {
				continue
			}
			files = append(files, n)
		}
	}
	sort.Strings(files)
	l := c.newLean("LockBalance", "every non-test *.go file of the root package")

	an := &lbAn{c: c, findings: map[string]bool{}}
	var funcs []*lbFunc
	byName := map[string]*lbFunc{}
	parsed := 0
	for _, fn := range files {
		f := c.file(fn)
		if f == nil {
			continue
		}
		if f.Name.Name != "signaling" {
			continue
		}
		parsed++
		for _, d := range f.Decls {
			fd, ok := d.(*ast.FuncDecl)
			if !ok || fd.Body == nil {
				continue
			}
			typ, rv := lbRecv(fd)
			name := fd.Name.Name
			if typ != "" {
				name = typ + "." + name
			}
			lf := &lbFunc{name: name, file: fn, typ: typ, rv: rv, body: fd.Body}
			queue := []*lbFunc{lf}
			for len(queue) > 0 {
				g := queue[0]
				queue = queue[1:]
				an.lits = nil
				an.run(g)
				funcs = append(funcs, g)
				if _, dup := byName[g.name]; !dup {
					byName[g.name] = g
				}
				queue = append(queue, an.lits...)
			}
		}
	}

	// re-entrancy: acquires*(m) = mutexes of the receiver type that m locks from state U,
	// directly or through same-receiver calls made while the mutex is not held
	acq := map[string]map[string]bool{}
	for _, f := range funcs {
		acq[f.name] = map[string]bool{}
		for mu := range f.acquires {
			acq[f.name][mu] = true
		}
	}
	for changed := true; changed; {
		changed = false
		for _, f := range funcs {
			for _, call := range f.calls {
				for mu := range acq[call.callee] {
					if call.st[mu] == "" && !acq[f.name][mu] {
						acq[f.name][mu] = true
						changed = true
					}
				}
			}
		}
	}
	for _, f := range funcs {
		for _, call := range f.calls {
			for mu := range acq[call.callee] {
				if v := call.st[mu]; v == "W" || v == "R" {
					an.f = f
					an.find("reentrant", mu, "held "+v+", calls "+call.callee+" which locks it")
				}
			}
		}
	}

	var findings []string
	for k := range an.findings {
		findings = append(findings, k)
	}
	sort.Strings(findings)
	var withOps []string
	seen := map[string]bool{}
	for _, f := range funcs {
		if f.hasOps && !seen[f.name] {
			seen[f.name] = true
			withOps = append(withOps, f.name)
		}
	}
	sort.Strings(withOps)
	l.nat("lockFilesAnalysed", int64(parsed), parsed > 0, "no file of package signaling found")
	l.strList("lockFunctions", withOps, len(withOps) > 0, "no function with lock operations found")
	l.strList("lockFindings", findings, parsed > 0, "no file of package signaling found")
	return l
}
