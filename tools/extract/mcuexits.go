package main

import (
	"go/ast"
	"go/token"
	"os"
	"path/filepath"
	"sort"
	"strings"
)

// Facts for C09 about the ways a session stops being in the call / in the room /
// alive (part of Generated/Mcu.lean, called from genMcu):
//
//   - inCallRemovals: every statement of the package that takes sessions out of a
//     room's in-call set (`delete(x.inCallSessions, k)`, `x.inCallSessions = …`),
//     with the function it is in and *for which of the removed sessions LeaveCall()
//     is called*: the path from the removal to the LeaveCall() call (delete) resp.
//     the loop that feeds the sessions to the LeaveCall() call (reset), as source
//     expression + guards;
//   - roomClearSites / cancelSites: the ClientSession methods that clear the room
//     pointer resp. cancel the session's context (they must be releasers);
//   - exitCalls: for the functions of the hub / client code that end a room stay or
//     a session (bye, expiry, room deleted, room-session reconnect, disinvite, …)
//     the Close / LeaveRoom / closeAndWait calls they make on sessions, in order.

func mxContains(n ast.Node, target ast.Node) bool {
	return n != nil && target.Pos() >= n.Pos() && target.End() <= n.End()
}

func mxJumps(b *ast.BlockStmt) bool {
	if b == nil || len(b.List) == 0 {
		return false
	}
	switch x := b.List[len(b.List)-1].(type) {
	case *ast.BranchStmt:
		return x.Tok == token.CONTINUE || x.Tok == token.BREAK
	case *ast.ReturnStmt:
		return true
	}
	return false
}

// mxAssert recognises `v, ok := k.(*T)` and returns ("k", "T").
func mxAssert(s ast.Stmt) (string, string, bool) {
	as, ok := s.(*ast.AssignStmt)
	if !ok || len(as.Lhs) != 2 || len(as.Rhs) != 1 || !isIdent(as.Lhs[1], "ok") {
		return "", "", false
	}
	ta, ok := as.Rhs[0].(*ast.TypeAssertExpr)
	if !ok || ta.Type == nil {
		return "", "", false
	}
	t := ta.Type
	if st, ok := t.(*ast.StarExpr); ok {
		t = st.X
	}
	id, ok := t.(*ast.Ident)
	if !ok {
		return "", "", false
	}
	return pSrc(ta.X), id.Name, true
}

// mxCond is the canonical text of an if condition; a successful type assertion
// is written `is-T(k)` whatever its syntactic form.
func mxCond(is *ast.IfStmt, prev ast.Stmt, negate bool) string {
	if is.Init != nil && isIdent(is.Cond, "ok") {
		if k, t, ok := mxAssert(is.Init); ok {
			if negate {
				return "not is-" + t + "(" + k + ")"
			}
			return "is-" + t + "(" + k + ")"
		}
	}
	if ue, ok := is.Cond.(*ast.UnaryExpr); ok && ue.Op == token.NOT && isIdent(ue.X, "ok") && is.Init == nil && prev != nil {
		if k, t, ok := mxAssert(prev); ok {
			if negate {
				return "is-" + t + "(" + k + ")"
			}
			return "not is-" + t + "(" + k + ")"
		}
	}
	txt := pSrc(is.Cond)
	if is.Init != nil {
		txt = pInline(is.Init) + "; " + txt
	}
	if negate {
		return "not(" + txt + ")"
	}
	return txt
}

type mxPath struct {
	guards []string
	ranges []*ast.RangeStmt
}

// mxPathTo walks from a statement list to the node `target` and collects the
// conditions under which control reaches it: enclosing ifs, and the negations of
// earlier `if c { continue | break | return }` statements of the same lists.
func mxPathTo(list []ast.Stmt, target ast.Node, p *mxPath) bool {
	for i, s := range list {
		if !mxContains(s, target) {
			continue
		}
		for j, q := range list[:i] {
			if is, ok := q.(*ast.IfStmt); ok && is.Else == nil && mxJumps(is.Body) {
				var prev ast.Stmt
				if j > 0 {
					prev = list[j-1]
				}
				p.guards = append(p.guards, mxCond(is, prev, true))
			}
		}
		var prev ast.Stmt
		if i > 0 {
			prev = list[i-1]
		}
		return mxDescend(s, prev, target, p)
	}
	return false
}

func mxDescend(s ast.Stmt, prev ast.Stmt, target ast.Node, p *mxPath) bool {
	switch x := s.(type) {
	case *ast.IfStmt:
		if mxContains(x.Body, target) {
			p.guards = append(p.guards, mxCond(x, prev, false))
			return mxPathTo(x.Body.List, target, p)
		}
		if x.Else != nil && mxContains(x.Else, target) {
			p.guards = append(p.guards, mxCond(x, prev, true))
			if b, ok := x.Else.(*ast.BlockStmt); ok {
				return mxPathTo(b.List, target, p)
			}
			return mxDescend(x.Else, nil, target, p)
		}
		return true // inside Init / Cond
	case *ast.RangeStmt:
		if mxContains(x.Body, target) {
			p.ranges = append(p.ranges, x)
			return mxPathTo(x.Body.List, target, p)
		}
		return true
	case *ast.ForStmt:
		if mxContains(x.Body, target) {
			return mxPathTo(x.Body.List, target, p)
		}
		return true
	case *ast.BlockStmt:
		return mxPathTo(x.List, target, p)
	case *ast.LabeledStmt:
		return mxDescend(x.Stmt, prev, target, p)
	case *ast.SwitchStmt, *ast.TypeSwitchStmt, *ast.SelectStmt:
		var body *ast.BlockStmt
		switch y := x.(type) {
		case *ast.SwitchStmt:
			body = y.Body
		case *ast.TypeSwitchStmt:
			body = y.Body
		case *ast.SelectStmt:
			body = y.Body
		}
		for _, c := range body.List {
			if !mxContains(c, target) {
				continue
			}
			switch cc := c.(type) {
			case *ast.CaseClause:
				if cc.List == nil {
					p.guards = append(p.guards, "default")
				} else {
					p.guards = append(p.guards, "case "+pExprs(cc.List))
				}
				return mxPathTo(cc.Body, target, p)
			case *ast.CommClause:
				p.guards = append(p.guards, "comm")
				return mxPathTo(cc.Body, target, p)
			}
		}
		return true
	}
	// a simple statement: the target may sit inside a function literal of it
	var lit *ast.FuncLit
	ast.Inspect(s, func(n ast.Node) bool {
		if fl, ok := n.(*ast.FuncLit); ok && lit == nil && mxContains(fl.Body, target) {
			lit = fl
			return false
		}
		return lit == nil
	})
	if lit != nil {
		return mxPathTo(lit.Body.List, target, p)
	}
	return true
}

// mxLeaveCalls returns the `X.LeaveCall()` calls below n with the receiver name.
func mxLeaveCalls(n ast.Node) []*ast.CallExpr {
	var res []*ast.CallExpr
	ast.Inspect(n, func(m ast.Node) bool {
		if call, ok := m.(*ast.CallExpr); ok {
			if sel, ok := call.Fun.(*ast.SelectorExpr); ok && sel.Sel.Name == "LeaveCall" && len(call.Args) == 0 {
				res = append(res, call)
			}
		}
		return true
	})
	return res
}

func mxRecv(call *ast.CallExpr) string {
	return pSrc(call.Fun.(*ast.SelectorExpr).X)
}

// mxOrigin follows a variable back through type assertions (`v, ok := k.(*T)`)
// found in `scope` and returns the chain of names, the last one being the origin.
func mxOrigins(scope ast.Node, name string) []string {
	chain := []string{name}
	for depth := 0; depth < 4; depth++ {
		next := ""
		ast.Inspect(scope, func(n ast.Node) bool {
			as, ok := n.(*ast.AssignStmt)
			if !ok || len(as.Lhs) == 0 || !isIdent(as.Lhs[0], chain[len(chain)-1]) {
				return true
			}
			if k, _, ok := mxAssert(as); ok && next == "" {
				next = k
			}
			return true
		})
		if next == "" || next == chain[len(chain)-1] {
			break
		}
		chain = append(chain, next)
	}
	return chain
}

func mxDescribe(p *mxPath) string {
	if len(p.guards) == 0 {
		return "always"
	}
	return strings.Join(p.guards, " & ")
}

type mxSite struct {
	fn    string
	entry string
}

func mxInCallRemovals(files []*ast.File) ([]string, bool) {
	var sites []mxSite
	isSet := func(e ast.Expr) bool {
		sel, ok := e.(*ast.SelectorExpr)
		return ok && sel.Sel.Name == "inCallSessions"
	}
	for _, f := range files {
		for _, d := range f.Decls {
			fd, ok := d.(*ast.FuncDecl)
			if !ok || fd.Body == nil {
				continue
			}
			var walk func(list []ast.Stmt)
			visitNested := func(s ast.Stmt) {
				// every statement list below s
				ast.Inspect(s, func(n ast.Node) bool {
					if n == ast.Node(s) {
						return true
					}
					switch x := n.(type) {
					case *ast.BlockStmt:
						walk(x.List)
						return false
					case *ast.CaseClause:
						walk(x.Body)
						return false
					case *ast.CommClause:
						walk(x.Body)
						return false
					}
					return true
				})
			}
			walk = func(list []ast.Stmt) {
				for i, s := range list {
					switch x := s.(type) {
					case *ast.CaseClause:
						walk(x.Body)
						continue
					case *ast.CommClause:
						walk(x.Body)
						continue
					}
					if es, ok := s.(*ast.ExprStmt); ok {
						if call, ok := es.X.(*ast.CallExpr); ok && isIdent(call.Fun, "delete") && len(call.Args) == 2 && isSet(call.Args[0]) {
							key := pSrc(call.Args[1])
							entry := fd.Name.Name + ":delete(" + key + "):"
							var leaves []string
							for _, lc := range mxLeaveCalls(&ast.BlockStmt{List: list[i+1:], Lbrace: s.End(), Rbrace: list[len(list)-1].End() + 1}) {
								chain := mxOrigins(&ast.BlockStmt{List: list[i+1:], Lbrace: s.End(), Rbrace: list[len(list)-1].End() + 1}, mxRecv(lc))
								if chain[len(chain)-1] != key {
									continue
								}
								p := &mxPath{}
								mxPathTo(list[i+1:], lc, p)
								leaves = append(leaves, mxDescribe(p))
							}
							if len(leaves) == 0 {
								entry += "none"
							} else {
								entry += strings.Join(leaves, " | ")
							}
							sites = append(sites, mxSite{fd.Name.Name, entry})
							continue
						}
					}
					if as, ok := s.(*ast.AssignStmt); ok && len(as.Lhs) == 1 && isSet(as.Lhs[0]) {
						// the whole set is replaced: which sessions are fed to LeaveCall() in this block?
						block := &ast.BlockStmt{List: list, Lbrace: list[0].Pos() - 1, Rbrace: list[len(list)-1].End() + 1}
						var feeds []string
						for _, lc := range mxLeaveCalls(block) {
							feeds = append(feeds, mxFeeds(list, block, lc)...)
						}
						sort.Strings(feeds)
						entry := fd.Name.Name + ":reset:"
						if len(feeds) == 0 {
							entry += "none"
						} else {
							entry += strings.Join(feeds, " | ")
						}
						sites = append(sites, mxSite{fd.Name.Name, entry})
						continue
					}
					visitNested(s)
				}
			}
			walk(fd.Body.List)
		}
	}
	var res []string
	for _, s := range sites {
		res = append(res, s.entry)
	}
	sort.Strings(res)
	return res, len(res) > 0
}

// mxFeeds describes where the receiver of the LeaveCall() call `lc` gets its
// values from inside `block`: directly from a range loop, or through a channel /
// slice that is filled by range loops of the block. One string per feeding loop:
// `<range expression> : <guards>`.
func mxFeeds(list []ast.Stmt, block *ast.BlockStmt, lc *ast.CallExpr) []string {
	chain := mxOrigins(block, mxRecv(lc))
	name := chain[len(chain)-1]
	p := &mxPath{}
	mxPathTo(list, lc, p)
	// (a) the variable is the key / value of an enclosing range loop
	for i := len(p.ranges) - 1; i >= 0; i-- {
		r := p.ranges[i]
		if isIdent(r.Key, name) || isIdent(r.Value, name) {
			if _, isSel := r.X.(*ast.SelectorExpr); isSel {
				return []string{pSrc(r.X) + " : " + mxDescribe(p)}
			}
			// a local container: who fills it?
			return mxFillers(list, block, pSrc(r.X), p)
		}
	}
	// (b) the variable is received from a channel
	container := ""
	ast.Inspect(block, func(n ast.Node) bool {
		as, ok := n.(*ast.AssignStmt)
		if !ok || len(as.Lhs) == 0 || len(as.Rhs) != 1 || !isIdent(as.Lhs[0], name) {
			return true
		}
		if ue, ok := as.Rhs[0].(*ast.UnaryExpr); ok && ue.Op == token.ARROW && container == "" {
			container = pSrc(ue.X)
		}
		return true
	})
	if container == "" {
		return []string{"?" + name + " : " + mxDescribe(p)}
	}
	return mxFillers(list, block, container, p)
}

func mxFillers(list []ast.Stmt, block *ast.BlockStmt, container string, consumer *mxPath) []string {
	var res []string
	// guards of the consumer that are not about the container itself (e.g. the nil
	// check that ends the receive loop) are kept as they are
	var cg []string
	for _, g := range consumer.guards {
		if !strings.Contains(g, "==nil") {
			cg = append(cg, g)
		}
	}
	ast.Inspect(block, func(n ast.Node) bool {
		var fed ast.Expr
		var at ast.Node
		switch x := n.(type) {
		case *ast.SendStmt:
			if pSrc(x.Chan) == container {
				fed, at = x.Value, x
			}
		case *ast.AssignStmt:
			if len(x.Lhs) == 1 && len(x.Rhs) == 1 && pSrc(x.Lhs[0]) == container {
				if call, ok := x.Rhs[0].(*ast.CallExpr); ok && isIdent(call.Fun, "append") && len(call.Args) == 2 {
					fed, at = call.Args[1], x
				}
			}
		}
		if fed == nil {
			return true
		}
		p := &mxPath{}
		mxPathTo(list, at, p)
		src := "?"
		if len(p.ranges) > 0 {
			src = pSrc(p.ranges[len(p.ranges)-1].X)
		}
		guards := append(append([]string(nil), p.guards...), cg...)
		d := "always"
		if len(guards) > 0 {
			d = strings.Join(guards, " & ")
		}
		res = append(res, src+" : "+d)
		return true
	})
	if len(res) == 0 {
		res = append(res, "?"+container+" : never-filled")
	}
	return res
}

// mxSessionCalls lists, in source order, the Close / LeaveRoom / … calls made on
// session-like receivers in n.
func mxSessionCalls(n ast.Node) []string {
	recv := map[string]bool{"session": true, "sess": true, "s": true, "clientSession": true, "vsess": true, "cs": true}
	meth := map[string]bool{"Close": true, "LeaveRoom": true, "LeaveRoomWithMessage": true, "LeaveCall": true, "closeAndWait": true, "CloseWithFeedback": true}
	var res []string
	ast.Inspect(n, func(m ast.Node) bool {
		call, ok := m.(*ast.CallExpr)
		if !ok {
			return true
		}
		sel, ok := call.Fun.(*ast.SelectorExpr)
		if !ok || !meth[sel.Sel.Name] {
			return true
		}
		if id, ok := sel.X.(*ast.Ident); ok && recv[id.Name] {
			res = append(res, sel.Sel.Name)
		}
		return true
	})
	return res
}

func genMcuExits(c *ctx, l *leanFile) {
	// every non-test file of the package
	var files []*ast.File
	ents, _ := os.ReadDir(c.repo)
	for _, e := range ents {
		n := e.Name()
		if e.IsDir() || !strings.HasSuffix(n, ".go") || strings.HasSuffix(n, "_test.go") || strings.HasSuffix(n, "_easyjson.go") || strings.HasSuffix(n, ".pb.go") {
			continue
		}
		data, err := os.ReadFile(filepath.Join(c.repo, n))
		if err != nil || !strings.Contains(string(data), "inCallSessions") {
			continue
		}
		if f := c.file(n); f != nil {
			files = append(files, f)
		}
	}
	removals, ok := mxInCallRemovals(files)
	l.strList("inCallRemovals", removals, ok, "no statement removing sessions from a room's inCallSessions found")

	cs := c.file("clientsession.go")
	methodsWith := func(pred func(call *ast.CallExpr) bool) []string {
		var res []string
		if cs == nil {
			return res
		}
		for _, d := range cs.Decls {
			fd, ok := d.(*ast.FuncDecl)
			if !ok || fd.Body == nil {
				continue
			}
			hit := false
			ast.Inspect(fd.Body, func(n ast.Node) bool {
				if call, ok := n.(*ast.CallExpr); ok && pred(call) {
					hit = true
				}
				return true
			})
			if hit {
				res = append(res, fd.Name.Name)
			}
		}
		sort.Strings(res)
		return res
	}
	clears := methodsWith(func(call *ast.CallExpr) bool {
		sel, ok := call.Fun.(*ast.SelectorExpr)
		if !ok || len(call.Args) != 1 || !isIdent(call.Args[0], "nil") {
			return false
		}
		return (sel.Sel.Name == "SetRoom" && isIdent(sel.X, "s")) || (sel.Sel.Name == "Store" && isSel(sel.X, "s", "room"))
	})
	l.strList("roomClearSites", clears, len(clears) > 0, "clientsession.go: no s.SetRoom(nil) found")
	cancels := methodsWith(func(call *ast.CallExpr) bool { return isSel(call.Fun, "s", "closeFunc") })
	l.strList("cancelSites", cancels, len(cancels) > 0, "clientsession.go: no s.closeFunc() found")

	// ---- the functions that end a room stay / a session, and what they call on the session
	hub := c.file("hub.go")
	client := c.file("client.go")
	var exits []string
	okExits := true
	add := func(name string, n ast.Node) {
		if n == nil {
			okExits = false
			exits = append(exits, name+":?")
			return
		}
		exits = append(exits, name+":"+strings.Join(mxSessionCalls(n), ","))
	}
	fnBody := func(f *ast.File, recv, name string) ast.Node {
		if fd := findFunc(f, recv, name); fd != nil && fd.Body != nil {
			return fd.Body
		}
		return nil
	}
	for _, fn := range []string{"processByeMsg", "checkExpiredSessions", "checkAnonymousSessions", "processRoomDeleted", "disconnectByRoomSessionId", "removeSession"} {
		add(fn, fnBody(hub, "Hub", fn))
	}
	// Client.writeMessageLocked: if message.CloseAfterSend(session) { … go session.Close() … }
	var closeAfter ast.Node
	if fd := findFunc(client, "Client", "writeMessageLocked"); fd != nil && fd.Body != nil {
		ast.Inspect(fd.Body, func(n ast.Node) bool {
			if is, ok := n.(*ast.IfStmt); ok && closeAfter == nil {
				if call, ok := is.Cond.(*ast.CallExpr); ok {
					if sel, ok := call.Fun.(*ast.SelectorExpr); ok && sel.Sel.Name == "CloseAfterSend" {
						closeAfter = is.Body
					}
				}
			}
			return true
		})
	}
	add("writeMessageLocked.CloseAfterSend", closeAfter)
	// processAsyncMessage: case "message": if … "bye" … "room_session_reconnected" { … }
	var asyncBye ast.Node
	if fd := findFunc(cs, "ClientSession", "processAsyncMessage"); fd != nil {
		if body, ok := pCaseBody(fd, "message.Type", "message"); ok {
			for _, st := range body {
				if is, ok := st.(*ast.IfStmt); ok && strings.Contains(pSrc(is.Cond), "\"room_session_reconnected\"") {
					asyncBye = is.Body
				}
			}
		}
	}
	add("processAsyncMessage.bye", asyncBye)
	l.strList("exitCalls", exits, okExits, "hub.go / client.go / clientsession.go: a function that ends a room stay or a session was not found")
}
