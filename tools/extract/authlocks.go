package main

import (
	"fmt"
	"go/ast"
	"go/token"
	"sort"
	"strings"
)

// Critical sections of the hello path (C01).
//
// The Lean model of the hello path is sequential: "look the session up, check it,
// attach the connection" is one step of `helloResume`, "connection still there,
// insert into the tables" one step of `register`.  The source does the same only
// while each of these check-then-act sequences sits inside ONE critical section
// of the mutex that guards the tables.  This file regenerates, per control-flow
// path of the functions concerned, the sequence of critical sections together
// with the events (lookup / checks / table writes / replies) inside them:
//
//   ("W", [...])  between <mu>.Lock()  and <mu>.Unlock() (or to the end with `defer`)
//   ("R", [...])  between <mu>.RLock() and <mu>.RUnlock()
//   ("-", [...])  events while the mutex is not held
//   ("W!", …) / ("R!", …)  a section still held when the path returns (no deferred unlock)
//
// Events keep their order of first occurrence inside a section.  The predicates
// over these lists (one section from lookup to attach, …) are stated and decided
// in lean/SigModel/Props/C01.lean.  Anything the walk does not understand (a lock
// operation inside a loop, a goto, a second Lock while holding) is a failed
// pattern = broken tie.

type alkSec struct {
	mode string
	evs  []string
}

type alkPath struct {
	secs     []alkSec
	held     string // "", "W", "R"
	deferred bool   // an unlock of the mutex has been deferred
	done     bool
}

func (p alkPath) clone() alkPath {
	q := alkPath{held: p.held, deferred: p.deferred, done: p.done}
	for _, s := range p.secs {
		q.secs = append(q.secs, alkSec{mode: s.mode, evs: append([]string{}, s.evs...)})
	}
	return q
}

func (p alkPath) lean() string {
	var secs []string
	for _, s := range p.secs {
		if s.mode == "-" && len(s.evs) == 0 {
			continue
		}
		q := make([]string, len(s.evs))
		for i, e := range s.evs {
			q[i] = leanStr(e)
		}
		secs = append(secs, fmt.Sprintf("(%s, [%s])", leanStr(s.mode), strings.Join(q, ", ")))
	}
	return "[" + strings.Join(secs, ", ") + "]"
}

func (p alkPath) key() string {
	return fmt.Sprintf("%s|%s|%v|%v", p.lean(), p.held, p.deferred, p.done)
}

func (p *alkPath) event(ev string) {
	if len(p.secs) == 0 || (p.held == "" && p.secs[len(p.secs)-1].mode != "-") {
		p.secs = append(p.secs, alkSec{mode: "-"})
	}
	s := &p.secs[len(p.secs)-1]
	for _, e := range s.evs {
		if e == ev {
			return
		}
	}
	s.evs = append(s.evs, ev)
}

// alkMatcher names the event a node stands for ("" = none).  `src` is the node's
// source text with white space normalised.
type alkMatcher func(n ast.Node, src string) string

type alkAn struct {
	c     *ctx
	mu    string // source text of the mutex, e.g. "h.mu"
	match alkMatcher
	fails []string
}

func (a *alkAn) fail(format string, args ...interface{}) {
	a.fails = append(a.fails, fmt.Sprintf(format, args...))
}

// lockOp: n is `<mu>.Lock()` etc.; gives the method name.
func (a *alkAn) lockOp(n ast.Node) string {
	call, ok := n.(*ast.CallExpr)
	if !ok || len(call.Args) != 0 {
		return ""
	}
	sel, ok := call.Fun.(*ast.SelectorExpr)
	if !ok || authSrc(a.c.fset, sel.X) != a.mu {
		return ""
	}
	switch sel.Sel.Name {
	case "Lock", "Unlock", "RLock", "RUnlock":
		return sel.Sel.Name
	}
	return ""
}

// scan records, in source order, the lock operations and events of an expression
// or simple statement on every path of ps.  Function literals are opaque (their
// bodies run elsewhere: goroutines, callbacks) unless they contain a lock
// operation of the mutex, which the walk does not follow.
func (a *alkAn) scan(ps []alkPath, n ast.Node) []alkPath {
	if n == nil {
		return ps
	}
	ast.Inspect(n, func(x ast.Node) bool {
		if x == nil {
			return false
		}
		if fl, ok := x.(*ast.FuncLit); ok {
			ast.Inspect(fl.Body, func(y ast.Node) bool {
				if y != nil && a.lockOp(y) != "" {
					a.fail("lock operation of %s inside a function literal", a.mu)
				}
				return true
			})
			return false
		}
		if op := a.lockOp(x); op != "" {
			for i := range ps {
				p := &ps[i]
				if p.done {
					continue
				}
				switch op {
				case "Lock", "RLock":
					if p.held != "" {
						a.fail("%s.%s() while the mutex is held", a.mu, op)
					}
					p.held = "W"
					if op == "RLock" {
						p.held = "R"
					}
					p.secs = append(p.secs, alkSec{mode: p.held})
				case "Unlock", "RUnlock":
					want := "W"
					if op == "RUnlock" {
						want = "R"
					}
					if p.held != want {
						a.fail("%s.%s() without the matching lock", a.mu, op)
					}
					p.held = ""
				}
			}
			return false
		}
		if ev := a.match(x, authSrc(a.c.fset, x)); ev != "" {
			for i := range ps {
				if !ps[i].done {
					ps[i].event(ev)
				}
			}
		}
		return true
	})
	return ps
}

func alkDedupe(ps []alkPath) []alkPath {
	seen := map[string]bool{}
	var out []alkPath
	for _, p := range ps {
		k := p.key()
		if !seen[k] {
			seen[k] = true
			out = append(out, p)
		}
	}
	return out
}

func alkSplit(ps []alkPath) (live, done []alkPath) {
	for _, p := range ps {
		if p.done {
			done = append(done, p)
		} else {
			live = append(live, p)
		}
	}
	return
}

func alkCloneAll(ps []alkPath) []alkPath {
	out := make([]alkPath, len(ps))
	for i, p := range ps {
		out[i] = p.clone()
	}
	return out
}

func (a *alkAn) hasLockOp(n ast.Node) bool {
	found := false
	ast.Inspect(n, func(x ast.Node) bool {
		if x != nil && a.lockOp(x) != "" {
			found = true
		}
		return !found
	})
	return found
}

func (a *alkAn) stmts(ps []alkPath, list []ast.Stmt) []alkPath {
	for _, s := range list {
		live, done := alkSplit(ps)
		if len(live) == 0 {
			return ps
		}
		ps = alkDedupe(append(done, a.stmt(live, s)...))
	}
	return ps
}

func (a *alkAn) finish(p *alkPath) {
	p.done = true
	if p.held != "" && !p.deferred {
		// returns while holding the mutex
		for i := len(p.secs) - 1; i >= 0; i-- {
			if p.secs[i].mode == p.held {
				p.secs[i].mode += "!"
				break
			}
		}
	}
}

func (a *alkAn) stmt(ps []alkPath, s ast.Stmt) []alkPath {
	switch x := s.(type) {
	case nil:
		return ps
	case *ast.BlockStmt:
		return a.stmts(ps, x.List)
	case *ast.IfStmt:
		ps = a.scan(ps, x.Init)
		ps = a.scan(ps, x.Cond)
		thenPs := a.stmts(alkCloneAll(ps), x.Body.List)
		var elsePs []alkPath
		if x.Else != nil {
			elsePs = a.stmt(alkCloneAll(ps), x.Else)
		} else {
			elsePs = ps
		}
		return alkDedupe(append(thenPs, elsePs...))
	case *ast.ReturnStmt:
		for _, r := range x.Results {
			ps = a.scan(ps, r)
		}
		if ev := a.match(x, authSrc(a.c.fset, x)); ev != "" {
			for i := range ps {
				if !ps[i].done {
					ps[i].event(ev)
				}
			}
		}
		for i := range ps {
			if !ps[i].done {
				ps[i].event("return")
				a.finish(&ps[i])
			}
		}
		return ps
	case *ast.DeferStmt:
		switch a.lockOp(x.Call) {
		case "Unlock", "RUnlock":
			for i := range ps {
				ps[i].deferred = true
			}
			return ps
		case "Lock", "RLock":
			a.fail("deferred %s.Lock()", a.mu)
			return ps
		}
		if a.hasLockOp(x.Call) {
			a.fail("deferred call with a lock operation of %s", a.mu)
		}
		// a deferred call runs when the function returns: recorded as such, in place
		if ev := a.match(x.Call, authSrc(a.c.fset, x.Call)); ev != "" {
			for i := range ps {
				ps[i].event("defer:" + ev)
			}
		}
		return ps
	case *ast.GoStmt:
		if a.hasLockOp(x.Call) {
			a.fail("go statement with a lock operation of %s", a.mu)
		}
		return ps
	case *ast.SwitchStmt, *ast.TypeSwitchStmt:
		var body *ast.BlockStmt
		if sw, ok := x.(*ast.SwitchStmt); ok {
			ps = a.scan(ps, sw.Init)
			ps = a.scan(ps, sw.Tag)
			body = sw.Body
		} else {
			ts := x.(*ast.TypeSwitchStmt)
			ps = a.scan(ps, ts.Init)
			ps = a.scan(ps, ts.Assign)
			body = ts.Body
		}
		var out []alkPath
		hasDefault := false
		for _, cc := range body.List {
			clause := cc.(*ast.CaseClause)
			if clause.List == nil {
				hasDefault = true
			}
			q := alkCloneAll(ps)
			for _, e := range clause.List {
				q = a.scan(q, e)
			}
			for _, st := range clause.Body {
				if bs, ok := st.(*ast.BranchStmt); ok && bs.Tok == token.FALLTHROUGH {
					if a.hasLockOp(body) {
						a.fail("fallthrough in a switch with lock operations of %s", a.mu)
					}
				}
			}
			out = append(out, a.stmts(q, clause.Body)...)
		}
		if !hasDefault {
			out = append(out, ps...)
		}
		return alkDedupe(out)
	case *ast.ForStmt, *ast.RangeStmt:
		if a.hasLockOp(x) {
			a.fail("lock operation of %s inside a loop", a.mu)
			return ps
		}
		// no lock operations inside: zero or one pass through the body gives the events in order
		var body *ast.BlockStmt
		if f, ok := x.(*ast.ForStmt); ok {
			ps = a.scan(ps, f.Init)
			ps = a.scan(ps, f.Cond)
			body = f.Body
		} else {
			r := x.(*ast.RangeStmt)
			ps = a.scan(ps, r.X)
			body = r.Body
		}
		// a return inside the loop body is a return of the function; break/continue end the pass
		once := a.stmts(alkCloneAll(ps), body.List)
		return alkDedupe(append(once, ps...))
	case *ast.BranchStmt:
		if x.Tok == token.GOTO {
			a.fail("goto")
		}
		// break / continue / fallthrough: end of this pass, the statements after the enclosing
		// construct follow (loops and switches with lock operations inside are refused above)
		return ps
	case *ast.LabeledStmt:
		return a.stmt(ps, x.Stmt)
	case *ast.SelectStmt:
		if a.hasLockOp(x) {
			a.fail("lock operation of %s inside a select", a.mu)
			return ps
		}
		var out []alkPath
		for _, cc := range x.Body.List {
			clause := cc.(*ast.CommClause)
			q := alkCloneAll(ps)
			if clause.Comm != nil {
				q = a.stmt(q, clause.Comm)
			}
			out = append(out, a.stmts(q, clause.Body)...)
		}
		return alkDedupe(out)
	default:
		// expression, assignment, declaration, send, inc/dec, empty
		return a.scan(ps, s)
	}
}

// paths walks a statement list from "mutex not held".
func (a *alkAn) paths(list []ast.Stmt) []alkPath {
	ps := a.stmts([]alkPath{{}}, list)
	for i := range ps {
		if !ps[i].done {
			ps[i].event("end")
			a.finish(&ps[i])
		}
	}
	ps = alkDedupe(ps)
	sort.Slice(ps, func(i, j int) bool { return ps[i].lean() < ps[j].lean() })
	return ps
}

func alkEmit(l *leanFile, name string, ps []alkPath, fails []string, ok bool, why string) {
	l.fact(name)
	if ok && len(fails) > 0 {
		ok, why = false, fails[0]
	}
	if ok && len(ps) == 0 {
		ok, why = false, "no path found"
	}
	if !ok {
		l.fail(name + ": " + why)
		l.raw(fmt.Sprintf("def %s : List (List (String × List String)) := [] -- EXTRACTION FAILED: %s", name, why))
		return
	}
	q := make([]string, len(ps))
	for i, p := range ps {
		q[i] = p.lean()
	}
	l.raw(fmt.Sprintf("def %s : List (List (String × List String)) :=\n  [%s]", name, strings.Join(q, ",\n   ")))
}

// alkSentError: `<x>.SendMessage(message.NewErrorServerMessage(<Ident>))` / NewWrappedErrorServerMessage
func alkSentError(n ast.Node) string {
	c, ok := n.(*ast.CallExpr)
	if !ok || len(c.Args) != 1 {
		return ""
	}
	s, ok := c.Fun.(*ast.SelectorExpr)
	if !ok || s.Sel.Name != "SendMessage" {
		return ""
	}
	in, ok := c.Args[0].(*ast.CallExpr)
	if !ok {
		return ""
	}
	s2, ok := in.Fun.(*ast.SelectorExpr)
	if !ok {
		return ""
	}
	switch s2.Sel.Name {
	case "NewErrorServerMessage":
		if len(in.Args) == 1 {
			if id, ok := in.Args[0].(*ast.Ident); ok {
				return "error:" + id.Name
			}
			if sel, ok := in.Args[0].(*ast.SelectorExpr); ok {
				if id, ok := sel.X.(*ast.Ident); ok {
					return "error:" + id.Name + "." + sel.Sel.Name
				}
			}
		}
		return "error:?"
	case "NewWrappedErrorServerMessage":
		if len(in.Args) == 1 {
			if id, ok := in.Args[0].(*ast.Ident); ok && id.Name != "err" {
				return "error:" + id.Name
			}
		}
		return "error:wrapped"
	}
	return ""
}

func alkCallName(n ast.Node) (recv, name string, ok bool) {
	c, isCall := n.(*ast.CallExpr)
	if !isCall {
		return "", "", false
	}
	switch f := c.Fun.(type) {
	case *ast.SelectorExpr:
		if id, isId := f.X.(*ast.Ident); isId {
			return id.Name, f.Sel.Name, true
		}
		return "?", f.Sel.Name, true
	case *ast.Ident:
		return "", f.Name, true
	}
	return "", "", false
}

// alkHubTables: events on the tables of the Hub (receiver variable rv).
func alkHubTable(n ast.Node, rv string) string {
	isTable := func(e ast.Expr, table string) bool {
		ix, ok := e.(*ast.IndexExpr)
		if !ok {
			return false
		}
		s, ok := ix.X.(*ast.SelectorExpr)
		return ok && isIdent(s.X, rv) && s.Sel.Name == table
	}
	switch x := n.(type) {
	case *ast.AssignStmt:
		for _, lhs := range x.Lhs {
			for _, tb := range []string{"sessions", "clients", "expectHelloClients", "expiredSessions", "anonymousSessions", "dialoutSessions"} {
				if isTable(lhs, tb) {
					return "store:" + tb
				}
			}
		}
		// `session, found := h.sessions[…]`
		for _, rhs := range x.Rhs {
			if isTable(rhs, "sessions") {
				return "lookup:sessions"
			}
		}
	case *ast.CallExpr:
		if isIdent(x.Fun, "delete") && len(x.Args) == 2 {
			if s, ok := x.Args[0].(*ast.SelectorExpr); ok && isIdent(s.X, rv) {
				return "delete:" + s.Sel.Name
			}
		}
	}
	return ""
}

func genAuthLocks(c *ctx, l *leanFile) {
	hub := c.file("hub.go")
	bc := c.file("backend_configuration.go")

	// ---- resume branch of processHello: the body of `if resumeId != "" { … }`
	{
		an := &alkAn{c: c, mu: "h.mu"}
		an.match = func(n ast.Node, src string) string {
			if ev := alkHubTable(n, "h"); ev != "" {
				return ev
			}
			if ev := alkSentError(n); ev != "" {
				return ev
			}
			switch x := n.(type) {
			case *ast.BinaryExpr:
				if (x.Op == token.NEQ || x.Op == token.EQL) && (strings.HasSuffix(authSrc(c.fset, x.X), ".PrivateId()") || strings.HasSuffix(authSrc(c.fset, x.Y), ".PrivateId()")) {
					return "check:privateId"
				}
			case *ast.TypeAssertExpr:
				if x.Type != nil && authSrc(c.fset, x.Type) == "*ClientSession" {
					return "check:clientSession"
				}
			case *ast.CallExpr:
				_, name, ok := alkCallName(x)
				if !ok {
					return ""
				}
				switch name {
				case "IsConnected":
					return "check:connected"
				case "SetClient":
					return "attach:SetClient"
				case "sendHelloResponse":
					return "reply:hello"
				case "tryProxyResume":
					return "proxy"
				case "CheckBruteforce":
					return "throttle:check"
				case "decodePrivateSessionId":
					return "decode"
				}
			}
			return ""
		}
		var body *ast.BlockStmt
		if ph := findFunc(hub, "Hub", "processHello"); ph != nil && ph.Body != nil {
			for _, s := range ph.Body.List {
				if ifs, ok := s.(*ast.IfStmt); ok && authSrc(c.fset, ifs.Cond) == `resumeId != ""` && ifs.Else == nil {
					body = ifs.Body
				}
			}
		}
		var ps []alkPath
		if body != nil {
			ps = an.paths(body.List)
		}
		alkEmit(l, "resumePaths", ps, an.fails, body != nil, "processHello: `if resumeId != \"\" { … }` not found")

		// every function of hub.go that removes an entry of h.sessions does so while holding h.mu for writing
		var removers []string
		okRem := hub != nil
		if hub != nil {
			for _, d := range hub.Decls {
				fd, ok := d.(*ast.FuncDecl)
				if !ok || fd.Body == nil || fd.Recv == nil || len(fd.Recv.List) != 1 || len(fd.Recv.List[0].Names) != 1 {
					continue
				}
				rv := fd.Recv.List[0].Names[0].Name
				an2 := &alkAn{c: c, mu: rv + ".mu"}
				an2.match = func(n ast.Node, src string) string {
					if ev := alkHubTable(n, rv); ev == "delete:sessions" {
						return ev
					}
					return ""
				}
				touches := false
				ast.Inspect(fd.Body, func(n ast.Node) bool {
					if n != nil && an2.match(n, "") != "" {
						touches = true
					}
					return !touches
				})
				if !touches {
					continue
				}
				verdict := "W"
				for _, p := range an2.paths(fd.Body.List) {
					for _, s := range p.secs {
						for _, e := range s.evs {
							if e == "delete:sessions" && s.mode != "W" {
								verdict = s.mode
							}
						}
					}
				}
				if len(an2.fails) > 0 {
					verdict = "?"
				}
				removers = append(removers, fd.Name.Name+":"+verdict)
			}
		}
		sort.Strings(removers)
		l.strList("sessionRemovers", removers, okRem && len(removers) > 0, "hub.go: no method deletes from h.sessions")
	}

	// ---- non-resume part of processHello: the connection leaves the waiting list before the backend is asked
	{
		an := &alkAn{c: c, mu: "h.mu"}
		an.match = func(n ast.Node, src string) string {
			if ev := alkHubTable(n, "h"); ev != "" {
				return ev
			}
			if ev := alkSentError(n); ev != "" {
				return ev
			}
			if _, name, ok := alkCallName(n); ok {
				switch name {
				case "processHelloClient", "processHelloInternal":
					return "dispatch:" + name
				case "startExpectHello":
					return "expectHello"
				}
			}
			return ""
		}
		var tail []ast.Stmt
		found := false
		if ph := findFunc(hub, "Hub", "processHello"); ph != nil && ph.Body != nil {
			for i, s := range ph.Body.List {
				if ifs, ok := s.(*ast.IfStmt); ok && authSrc(c.fset, ifs.Cond) == `resumeId != ""` {
					tail, found = ph.Body.List[i+1:], true
				}
			}
		}
		var ps []alkPath
		if found {
			ps = an.paths(tail)
		}
		alkEmit(l, "helloDispatchPaths", ps, an.fails, found, "processHello: statements after the resume branch not found")
	}

	// ---- processRegister
	{
		an := &alkAn{c: c, mu: "h.mu"}
		an.match = func(n ast.Node, src string) string {
			if ev := alkHubTable(n, "h"); ev != "" {
				return ev
			}
			if ev := alkSentError(n); ev != "" {
				return ev
			}
			if recv, name, ok := alkCallName(n); ok {
				switch name {
				case "IsConnected":
					return "check:connected"
				case "SetClient":
					return "attach:SetClient"
				case "sendHelloResponse":
					return "reply:hello"
				case "NewClientSession":
					return "new"
				case "AddSession":
					return "limit:add"
				case "RemoveSession":
					return "limit:remove"
				case "Close":
					if recv == "session" {
						return "close"
					}
				case "startWaitAnonymousSessionRoomLocked":
					return "anonymous"
				}
			}
			return ""
		}
		fd := findFunc(hub, "Hub", "processRegister")
		var ps []alkPath
		if fd != nil && fd.Body != nil {
			ps = an.paths(fd.Body.List)
		}
		alkEmit(l, "registerPaths", ps, an.fails, fd != nil && fd.Body != nil, "Hub.processRegister not found")
	}

	// ---- startExpectHello: "still connected, not authenticated" is checked where the entry is made
	{
		an := &alkAn{c: c, mu: "h.mu"}
		an.match = func(n ast.Node, src string) string {
			if ev := alkHubTable(n, "h"); ev != "" {
				return ev
			}
			if _, name, ok := alkCallName(n); ok {
				switch name {
				case "IsConnected":
					return "check:connected"
				case "IsAuthenticated":
					return "check:authenticated"
				}
			}
			return ""
		}
		fd := findFunc(hub, "Hub", "startExpectHello")
		var ps []alkPath
		if fd != nil && fd.Body != nil {
			ps = an.paths(fd.Body.List)
		}
		alkEmit(l, "expectHelloPaths", ps, an.fails, fd != nil && fd.Body != nil, "Hub.startExpectHello not found")
	}

	// ---- Backend.AddSession: limit compared and session recorded
	{
		an := &alkAn{c: c, mu: "b.sessionsLock"}
		an.match = func(n ast.Node, src string) string {
			switch x := n.(type) {
			case *ast.BinaryExpr:
				switch x.Op {
				case token.GEQ, token.GTR, token.LSS, token.LEQ:
					if strings.Contains(src, "sessionLimit") {
						if strings.Contains(src, "len(b.sessions)") {
							return "limit:compare"
						}
						return "limit:compare?"
					}
				}
			case *ast.AssignStmt:
				for _, lhs := range x.Lhs {
					if ix, ok := lhs.(*ast.IndexExpr); ok && authSrc(c.fset, ix.X) == "b.sessions" {
						return "record"
					}
				}
			case *ast.ReturnStmt:
				if len(x.Results) == 1 {
					if id, ok := x.Results[0].(*ast.Ident); ok && id.Name != "nil" {
						return "error:" + id.Name
					}
				}
			case *ast.CallExpr:
				// b.Len() takes the lock by itself: a comparison through it is a section of its own
				if _, name, ok := alkCallName(x); ok && name == "Len" {
					return "limit:len-call"
				}
			}
			return ""
		}
		fd := findFunc(bc, "Backend", "AddSession")
		var ps []alkPath
		if fd != nil && fd.Body != nil {
			ps = an.paths(fd.Body.List)
		}
		alkEmit(l, "addSessionPaths", ps, an.fails, fd != nil && fd.Body != nil, "Backend.AddSession not found")
	}
}
