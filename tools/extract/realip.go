package main

import (
	"fmt"
	"go/ast"
	"go/token"
	"net"
	"os"
	"path/filepath"
	"sort"
	"strings"
)

func init() { register(genRealIP) }

// Facts of hub.go GetRealUserIP, allowed_ips.go, and the stats/metrics/serverinfo
// gating of backend_server.go and proxy/proxy_server.go (C16).
func genRealIP(c *ctx) *leanFile {
	l := c.newLean("RealIP", "hub.go", "allowed_ips.go", "backend_server.go", "proxy/proxy_server.go")
	hub := c.file("hub.go")
	aips := c.file("allowed_ips.go")
	bs := c.file("backend_server.go")
	ps := c.file("proxy/proxy_server.go")

	// ---------------------------------------------------------------- GetRealUserIP
	type hdrUse struct {
		pos  token.Pos
		name string
		how  string
	}
	var uses []hdrUse
	var gatePos, firstHdrPos, reversePos, loopPos token.Pos
	gateReturnsAddr := false
	if fd := findFunc(hub, "", "GetRealUserIP"); fd != nil && fd.Body != nil {
		ast.Inspect(fd.Body, func(n ast.Node) bool {
			switch x := n.(type) {
			case *ast.CallExpr:
				// r.Header.Get("..") / r.Header.Values("..")
				if sel, ok := x.Fun.(*ast.SelectorExpr); ok && (sel.Sel.Name == "Get" || sel.Sel.Name == "Values") && len(x.Args) == 1 {
					if inner, ok := sel.X.(*ast.SelectorExpr); ok && inner.Sel.Name == "Header" && isIdent(inner.X, "r") {
						if s, ok := strLit(x.Args[0]); ok {
							uses = append(uses, hdrUse{x.Pos(), s, sel.Sel.Name})
						} else {
							uses = append(uses, hdrUse{x.Pos(), "<non-literal>", sel.Sel.Name})
						}
						if firstHdrPos == token.NoPos || x.Pos() < firstHdrPos {
							firstHdrPos = x.Pos()
						}
					}
				}
				if isSel(x.Fun, "slices", "Reverse") && len(x.Args) == 1 && isIdent(x.Args[0], "forwarded") && reversePos == token.NoPos {
					reversePos = x.Pos()
				}
			case *ast.RangeStmt:
				if isIdent(x.X, "forwarded") && loopPos == token.NoPos {
					loopPos = x.Pos()
				}
			case *ast.IfStmt:
				// if trusted == nil || !trusted.Allowed(ip) { return addr }
				be, ok := x.Cond.(*ast.BinaryExpr)
				if !ok || be.Op != token.LOR || gatePos != token.NoPos || x.Init != nil || x.Else != nil {
					return true
				}
				l1, ok1 := be.X.(*ast.BinaryExpr)
				r1, ok2 := be.Y.(*ast.UnaryExpr)
				if !ok1 || !ok2 || l1.Op != token.EQL || !isIdent(l1.X, "trusted") || !isIdent(l1.Y, "nil") || r1.Op != token.NOT {
					return true
				}
				call, ok := r1.X.(*ast.CallExpr)
				if !ok || !isSel(call.Fun, "trusted", "Allowed") || len(call.Args) != 1 || !isIdent(call.Args[0], "ip") {
					return true
				}
				gatePos = x.Pos()
				if len(x.Body.List) == 1 {
					if rs, ok := x.Body.List[0].(*ast.ReturnStmt); ok && len(rs.Results) == 1 && isIdent(rs.Results[0], "addr") {
						gateReturnsAddr = true
					}
				}
			}
			return true
		})
	}
	sort.Slice(uses, func(i, j int) bool { return uses[i].pos < uses[j].pos })
	var order []string
	realHdr, fwdHdr := "", ""
	nGet, nValues := 0, 0
	for _, u := range uses {
		order = append(order, u.name)
		if u.how == "Get" {
			nGet++
			realHdr = u.name
		} else {
			nValues++
			fwdHdr = u.name
		}
	}
	l.str("realIPHeader", realHdr, nGet == 1, "GetRealUserIP: exactly one r.Header.Get(\"<literal>\") expected")
	l.str("forwardedHeader", fwdHdr, nValues == 1, "GetRealUserIP: exactly one r.Header.Values(\"<literal>\") expected")
	l.strList("headerOrder", order, len(order) > 0, "GetRealUserIP: no r.Header.Get/Values call found")
	l.boolean("peerGateFirst", gatePos != token.NoPos && gateReturnsAddr && (firstHdrPos == token.NoPos || gatePos < firstHdrPos),
		fdFound(hub, "", "GetRealUserIP"), "func GetRealUserIP not found in hub.go")
	l.boolean("hopsReversed", reversePos != token.NoPos && loopPos != token.NoPos && reversePos < loopPos,
		fdFound(hub, "", "GetRealUserIP"), "func GetRealUserIP not found in hub.go")

	// ---------------------------------------------------------------- defaults
	// DefaultAllowedIps: []*net.IPNet{{IP: net.ParseIP("a.b.c.d"), Mask: net.CIDRMask(o, b)}}
	var defAllowed []string
	var defAllowedNets []string
	okDef := false
	if fd := findFunc(aips, "", "DefaultAllowedIps"); fd != nil && fd.Body != nil {
		okDef = true
		n := 0
		ast.Inspect(fd.Body, func(nd ast.Node) bool {
			cl, ok := nd.(*ast.CompositeLit)
			if !ok || cl.Type != nil { // inner element literals have no explicit type
				return true
			}
			var ipS string
			var ones, bits int64 = -1, -1
			for _, el := range cl.Elts {
				kv, ok := el.(*ast.KeyValueExpr)
				if !ok {
					continue
				}
				call, ok := kv.Value.(*ast.CallExpr)
				if !ok {
					continue
				}
				if isIdent(kv.Key, "IP") && isSel(call.Fun, "net", "ParseIP") && len(call.Args) == 1 {
					ipS, _ = strLit(call.Args[0])
				}
				if isIdent(kv.Key, "Mask") && isSel(call.Fun, "net", "CIDRMask") && len(call.Args) == 2 {
					ones, _ = c.evalInt(call.Args[0], nil, 0)
					bits, _ = c.evalInt(call.Args[1], nil, 0)
				}
			}
			ip := net.ParseIP(ipS)
			m := net.CIDRMask(int(ones), int(bits))
			if ip == nil || m == nil {
				okDef = false
				return true
			}
			n++
			defAllowed = append(defAllowed, fmt.Sprintf("%s/%d", ipS, ones))
			defAllowedNets = append(defAllowedNets, leanNet(ip, m))
			return true
		})
		if n == 0 {
			okDef = false
		}
	}
	l.strList("defaultAllowedIps", defAllowed, okDef, "DefaultAllowedIps: list of {IP: net.ParseIP(lit), Mask: net.CIDRMask(n, m)} not found")
	rawNets(l, "defaultAllowedNets", defAllowedNets, okDef, "DefaultAllowedIps literal not found")

	// privateIpNets = []string{...}; DefaultPrivateIps parses them with ParseAllowedIps.
	var priv []string
	var privNets []string
	okPriv := false
	if e, ok := pkgValues(aips)["privateIpNets"]; ok {
		if cl, ok := e.(*ast.CompositeLit); ok {
			okPriv = true
			for _, el := range cl.Elts {
				s, ok := strLit(el)
				if !ok {
					okPriv = false
					break
				}
				ip, m, ok := stdNet(s)
				if !ok {
					okPriv = false
					break
				}
				priv = append(priv, s)
				privNets = append(privNets, leanNet(ip, m))
			}
		}
	}
	usesPriv := false
	if fd := findFunc(aips, "", "DefaultPrivateIps"); fd != nil && fd.Body != nil {
		ast.Inspect(fd.Body, func(nd ast.Node) bool {
			if call, ok := nd.(*ast.CallExpr); ok && isIdent(call.Fun, "ParseAllowedIps") && len(call.Args) == 1 {
				if j, ok := call.Args[0].(*ast.CallExpr); ok && isSel(j.Fun, "strings", "Join") && len(j.Args) == 2 && isIdent(j.Args[0], "privateIpNets") {
					if sep, ok := strLit(j.Args[1]); ok && sep == "," {
						usesPriv = true
					}
				}
			}
			return true
		})
	}
	l.strList("privateIpNets", priv, okPriv && usesPriv, "var privateIpNets = []string{literals} parsed by DefaultPrivateIps via ParseAllowedIps(strings.Join(privateIpNets, \",\")) not found")
	rawNets(l, "privateNets", privNets, okPriv && usesPriv, "privateIpNets not found")

	// DefaultTrustedProxies = DefaultPrivateIps()
	trustedIsPrivate := false
	if e, ok := pkgValues(hub)["DefaultTrustedProxies"]; ok {
		if call, ok := e.(*ast.CallExpr); ok && isIdent(call.Fun, "DefaultPrivateIps") && len(call.Args) == 0 {
			trustedIsPrivate = true
		}
	}
	l.boolean("defaultTrustedIsPrivate", trustedIsPrivate, hub != nil, "hub.go not readable")

	// Fallback to the defaults when the configured list is empty:
	//   if !X.Empty() {...} else { X = <default> }     in the constructors and Reload of both servers.
	fallback := func(f *ast.File, recv, fn, varName string, isDefault func(ast.Expr) bool) bool {
		fd := findFunc(f, recv, fn)
		if fd == nil || fd.Body == nil {
			return false
		}
		found := false
		ast.Inspect(fd.Body, func(nd ast.Node) bool {
			is, ok := nd.(*ast.IfStmt)
			if !ok || is.Else == nil {
				return true
			}
			un, ok := is.Cond.(*ast.UnaryExpr)
			if !ok || un.Op != token.NOT {
				return true
			}
			call, ok := un.X.(*ast.CallExpr)
			if !ok || len(call.Args) != 0 {
				return true
			}
			sel, ok := call.Fun.(*ast.SelectorExpr)
			if !ok || sel.Sel.Name != "Empty" || !isIdent(sel.X, varName) {
				return true
			}
			eb, ok := is.Else.(*ast.BlockStmt)
			if !ok {
				return true
			}
			for _, st := range eb.List {
				if as, ok := st.(*ast.AssignStmt); ok && as.Tok == token.ASSIGN && len(as.Lhs) == 1 && len(as.Rhs) == 1 &&
					isIdent(as.Lhs[0], varName) && isDefault(as.Rhs[0]) {
					found = true
				}
			}
			// the "then" branch must not reassign the variable
			for _, st := range is.Body.List {
				if as, ok := st.(*ast.AssignStmt); ok && len(as.Lhs) == 1 && isIdent(as.Lhs[0], varName) {
					found = false
				}
			}
			return true
		})
		return found
	}
	isDefTrusted := func(e ast.Expr) bool {
		return isIdent(e, "DefaultTrustedProxies") || isSel(e, "signaling", "DefaultTrustedProxies")
	}
	isDefAllowed := func(e ast.Expr) bool {
		call, ok := e.(*ast.CallExpr)
		return ok && len(call.Args) == 0 && (isIdent(call.Fun, "DefaultAllowedIps") || isSel(call.Fun, "signaling", "DefaultAllowedIps"))
	}
	var missing []string
	for _, s := range []struct {
		f              *ast.File
		file, recv, fn string
		v              string
		d              func(ast.Expr) bool
	}{
		{hub, "hub.go", "", "NewHub", "trustedProxiesIps", isDefTrusted},
		{hub, "hub.go", "Hub", "Reload", "trustedProxiesIps", isDefTrusted},
		{bs, "backend_server.go", "", "NewBackendServer", "statsAllowedIps", isDefAllowed},
		{bs, "backend_server.go", "BackendServer", "Reload", "statsAllowedIps", isDefAllowed},
		{ps, "proxy/proxy_server.go", "", "NewProxyServer", "trustedProxiesIps", isDefTrusted},
		{ps, "proxy/proxy_server.go", "ProxyServer", "Reload", "trustedProxiesIps", isDefTrusted},
		{ps, "proxy/proxy_server.go", "", "NewProxyServer", "statsAllowedIps", isDefAllowed},
		{ps, "proxy/proxy_server.go", "ProxyServer", "Reload", "statsAllowedIps", isDefAllowed},
	} {
		if !fallback(s.f, s.recv, s.fn, s.v, s.d) {
			missing = append(missing, s.file+":"+s.fn+":"+s.v)
		}
	}
	l.boolean("emptyFallsBackToDefault", len(missing) == 0, len(missing) == 0,
		"`if !X.Empty() {…} else { X = <default> }` not found at: "+strings.Join(missing, ", "))

	// ---------------------------------------------------------------- gated endpoints
	gMain, oMain, okMain := routes(bs, "BackendServer", "Start")
	l.strList("gatedRoutesMain", gMain, okMain, "(*BackendServer).Start: no HandleFunc(\"/path\", …) registrations found")
	l.strList("openRoutesMain", oMain, okMain, "(*BackendServer).Start: no HandleFunc registrations found")
	gProxy, oProxy, okProxy := routes(ps, "", "NewProxyServer")
	l.strList("gatedRoutesProxy", gProxy, okProxy, "NewProxyServer: no HandleFunc(\"/path\", …) registrations found")
	l.strList("openRoutesProxy", oProxy, okProxy, "NewProxyServer: no HandleFunc registrations found")

	// validateStatsRequest: if !X.allowStatsAccess(r) { http.Error(w, msg, http.StatusNNN); return }
	s1, ok1 := deniedStatus(bs, "BackendServer")
	s2, ok2 := deniedStatus(ps, "ProxyServer")
	l.nat("deniedStatusMain", s1, ok1, "(*BackendServer).validateStatsRequest: `if !b.allowStatsAccess(r) { http.Error(w, …, http.StatusX); return }` not found")
	l.nat("deniedStatusProxy", s2, ok2, "(*ProxyServer).validateStatsRequest: `if !s.allowStatsAccess(r) { http.Error(w, …, http.StatusX); return }` not found")

	// allowStatsAccess: address from getRealUserIP / GetRealUserIP, parsed, then X.Allowed(ip)
	l.boolean("gateUsesRealIPMain", allowStatsShape(bs, "BackendServer"), bs != nil, "backend_server.go not readable")
	l.boolean("gateUsesRealIPProxy", allowStatsShape(ps, "ProxyServer"), ps != nil, "proxy/proxy_server.go not readable")
	// ---------------------------------------------------------------- sole source of client addresses
	// Every non-test file of the three packages: the field `RemoteAddr` of a request is read in
	// GetRealUserIP only, forwarding headers are mentioned there only, and these are the callers.
	var remoteAddrSites, headerSites, callers []string
	okScan := true
	for _, dir := range []string{"", "proxy", "server", "client"} {
		names, err := goFiles(c.repo, dir)
		if err != nil {
			if dir == "" || dir == "proxy" {
				okScan = false
			}
			continue
		}
		for _, rel := range names {
			f := c.file(rel)
			if f == nil {
				okScan = false
				continue
			}
			for _, d := range f.Decls {
				fd, ok := d.(*ast.FuncDecl)
				if !ok || fd.Body == nil {
					continue
				}
				where := rel + ":" + fd.Name.Name
				ast.Inspect(fd.Body, func(nd ast.Node) bool {
					switch x := nd.(type) {
					case *ast.CallExpr:
						if sel, ok := x.Fun.(*ast.SelectorExpr); ok {
							if sel.Sel.Name == "RemoteAddr" && len(x.Args) == 0 {
								// method call such as client.RemoteAddr(): not the socket field of a request
								return false
							}
							if sel.Sel.Name == "getRealUserIP" || sel.Sel.Name == "GetRealUserIP" {
								callers = append(callers, where)
							}
						} else if id, ok := x.Fun.(*ast.Ident); ok && id.Name == "GetRealUserIP" {
							callers = append(callers, where)
						}
					case *ast.SelectorExpr:
						if x.Sel.Name == "RemoteAddr" {
							remoteAddrSites = append(remoteAddrSites, where)
						}
					case *ast.BasicLit:
						if x.Kind == token.STRING {
							low := strings.ToLower(x.Value)
							if strings.Contains(low, "x-forwarded") || strings.Contains(low, "x-real") || strings.Contains(low, "\"forwarded\"") ||
								strings.Contains(low, "client-ip") {
								headerSites = append(headerSites, where)
							}
						}
					}
					return true
				})
			}
		}
	}
	sort.Strings(callers)
	onlyIn := func(sites []string, want string) bool {
		if len(sites) == 0 {
			return false
		}
		for _, s := range sites {
			if s != want {
				return false
			}
		}
		return true
	}
	l.boolean("soleAddressSource", onlyIn(remoteAddrSites, "hub.go:GetRealUserIP") && onlyIn(headerSites, "hub.go:GetRealUserIP"), okScan,
		"could not read the sources of the packages")
	l.strList("realIPCallers", callers, okScan && len(callers) > 0, "no caller of GetRealUserIP / getRealUserIP found")
	return l
}

// goFiles lists the non-test .go files of one directory of the repository (relative paths).
func goFiles(repo, dir string) ([]string, error) {
	ents, err := os.ReadDir(filepath.Join(repo, dir))
	if err != nil {
		return nil, err
	}
	var out []string
	for _, e := range ents {
		n := e.Name()
		if e.IsDir() || !strings.HasSuffix(n, ".go") || strings.HasSuffix(n, "_test.go") {
			continue
		}
		out = append(out, filepath.Join(dir, n))
	}
	sort.Strings(out)
	return out, nil
}

func fdFound(f *ast.File, recv, name string) bool { return findFunc(f, recv, name) != nil }

// stdNet turns one configuration entry into (ip, mask) with the standard
// library only — the same rule the harness tokeniser uses.
func stdNet(s string) (net.IP, net.IPMask, bool) {
	if strings.ContainsRune(s, '/') {
		_, n, err := net.ParseCIDR(s)
		if err != nil {
			return nil, nil, false
		}
		return n.IP, n.Mask, true
	}
	ip := net.ParseIP(s)
	if ip == nil {
		return nil, nil, false
	}
	return ip, net.CIDRMask(len(ip)*8, len(ip)*8), true
}

func leanBytes(b []byte) string {
	parts := make([]string, len(b))
	for i, x := range b {
		parts[i] = fmt.Sprint(x)
	}
	return "[" + strings.Join(parts, ", ") + "]"
}

func leanNet(ip net.IP, m net.IPMask) string { return "(" + leanBytes(ip) + ", " + leanBytes(m) + ")" }

func rawNets(l *leanFile, name string, nets []string, ok bool, why string) {
	l.fact(name)
	if !ok {
		l.fail(name + ": " + why)
		l.raw(fmt.Sprintf("def %s : List (List Nat × List Nat) := [] -- EXTRACTION FAILED: %s", name, why))
		return
	}
	l.raw(fmt.Sprintf("def %s : List (List Nat × List Nat) := [%s]", name, strings.Join(nets, ", ")))
}

// routes lists the paths registered with X.HandleFunc("/path", handler) inside
// the given function, split by whether the handler expression passes through
// validateStatsRequest. Paths registered on a `s := r.PathPrefix("/p").Subrouter()`
// get the prefix.
func routes(f *ast.File, recv, fn string) (gated, open []string, ok bool) {
	fd := findFunc(f, recv, fn)
	if fd == nil || fd.Body == nil {
		return nil, nil, false
	}
	prefix := map[string]string{}
	ast.Inspect(fd.Body, func(nd ast.Node) bool {
		as, ok := nd.(*ast.AssignStmt)
		if !ok || len(as.Lhs) != 1 || len(as.Rhs) != 1 {
			return true
		}
		id, ok := as.Lhs[0].(*ast.Ident)
		if !ok {
			return true
		}
		// X.PathPrefix("/p").Subrouter()
		call, ok := as.Rhs[0].(*ast.CallExpr)
		if !ok {
			return true
		}
		sel, ok := call.Fun.(*ast.SelectorExpr)
		if !ok || sel.Sel.Name != "Subrouter" {
			return true
		}
		pc, ok := sel.X.(*ast.CallExpr)
		if !ok || len(pc.Args) != 1 {
			return true
		}
		ps, ok := pc.Fun.(*ast.SelectorExpr)
		if !ok || ps.Sel.Name != "PathPrefix" {
			return true
		}
		if p, ok := strLit(pc.Args[0]); ok {
			prefix[id.Name] = p
		}
		return true
	})
	ast.Inspect(fd.Body, func(nd ast.Node) bool {
		call, ok := nd.(*ast.CallExpr)
		if !ok || len(call.Args) != 2 {
			return true
		}
		sel, ok := call.Fun.(*ast.SelectorExpr)
		if !ok || (sel.Sel.Name != "HandleFunc" && sel.Sel.Name != "Handle") {
			return true
		}
		p, ok := strLit(call.Args[0])
		if !ok {
			return true
		}
		if id, ok := sel.X.(*ast.Ident); ok {
			p = prefix[id.Name] + p
		}
		isGated := false
		ast.Inspect(call.Args[1], func(x ast.Node) bool {
			if c2, ok := x.(*ast.CallExpr); ok {
				if s2, ok := c2.Fun.(*ast.SelectorExpr); ok && s2.Sel.Name == "validateStatsRequest" {
					isGated = true
				}
			}
			return true
		})
		if isGated {
			gated = append(gated, p)
		} else if !strings.HasPrefix(p, "/debug/") {
			open = append(open, p)
		}
		return true
	})
	return gated, open, len(gated)+len(open) > 0
}

var httpStatusNames = map[string]int64{
	"StatusOK": 200, "StatusBadRequest": 400, "StatusUnauthorized": 401, "StatusForbidden": 403,
	"StatusNotFound": 404, "StatusMethodNotAllowed": 405, "StatusTooManyRequests": 429,
	"StatusInternalServerError": 500, "StatusServiceUnavailable": 503,
}

func deniedStatus(f *ast.File, recv string) (int64, bool) {
	fd := findFunc(f, recv, "validateStatsRequest")
	if fd == nil || fd.Body == nil {
		return 0, false
	}
	var status int64
	found := false
	ast.Inspect(fd.Body, func(nd ast.Node) bool {
		is, ok := nd.(*ast.IfStmt)
		if !ok || found {
			return true
		}
		un, ok := is.Cond.(*ast.UnaryExpr)
		if !ok || un.Op != token.NOT {
			return true
		}
		call, ok := un.X.(*ast.CallExpr)
		if !ok || len(call.Args) != 1 || !isIdent(call.Args[0], "r") {
			return true
		}
		sel, ok := call.Fun.(*ast.SelectorExpr)
		if !ok || sel.Sel.Name != "allowStatsAccess" {
			return true
		}
		if len(is.Body.List) != 2 {
			return true
		}
		es, ok1 := is.Body.List[0].(*ast.ExprStmt)
		rs, ok2 := is.Body.List[1].(*ast.ReturnStmt)
		if !ok1 || !ok2 || len(rs.Results) != 0 {
			return true
		}
		ec, ok := es.X.(*ast.CallExpr)
		if !ok || !isSel(ec.Fun, "http", "Error") || len(ec.Args) != 3 {
			return true
		}
		if s, ok := ec.Args[2].(*ast.SelectorExpr); ok && isIdent(s.X, "http") {
			if v, ok := httpStatusNames[s.Sel.Name]; ok {
				status, found = v, true
			}
		}
		return true
	})
	return status, found
}

// allowStatsShape: addr := <…>etRealUserIP(r…); ip := net.ParseIP(addr);
// if len(ip) == 0 { return false }; allowed := X.statsAllowedIps.Load();
// return allowed != nil && allowed.Allowed(ip)
func allowStatsShape(f *ast.File, recv string) bool {
	fd := findFunc(f, recv, "allowStatsAccess")
	if fd == nil || fd.Body == nil || len(fd.Body.List) != 5 {
		return false
	}
	b := fd.Body.List
	// 1
	as, ok := b[0].(*ast.AssignStmt)
	if !ok || len(as.Lhs) != 1 || !isIdent(as.Lhs[0], "addr") || len(as.Rhs) != 1 {
		return false
	}
	call, ok := as.Rhs[0].(*ast.CallExpr)
	if !ok || len(call.Args) < 1 || !isIdent(call.Args[0], "r") {
		return false
	}
	sel, ok := call.Fun.(*ast.SelectorExpr)
	if !ok || (sel.Sel.Name != "getRealUserIP" && sel.Sel.Name != "GetRealUserIP") {
		return false
	}
	// 2
	as, ok = b[1].(*ast.AssignStmt)
	if !ok || len(as.Lhs) != 1 || !isIdent(as.Lhs[0], "ip") || len(as.Rhs) != 1 {
		return false
	}
	call, ok = as.Rhs[0].(*ast.CallExpr)
	if !ok || !isSel(call.Fun, "net", "ParseIP") || len(call.Args) != 1 || !isIdent(call.Args[0], "addr") {
		return false
	}
	// 3
	is, ok := b[2].(*ast.IfStmt)
	if !ok || len(is.Body.List) != 1 {
		return false
	}
	if rs, ok := is.Body.List[0].(*ast.ReturnStmt); !ok || len(rs.Results) != 1 || !isIdent(rs.Results[0], "false") {
		return false
	}
	// 5
	rs, ok := b[4].(*ast.ReturnStmt)
	if !ok || len(rs.Results) != 1 {
		return false
	}
	be, ok := rs.Results[0].(*ast.BinaryExpr)
	if !ok || be.Op != token.LAND {
		return false
	}
	call, ok = be.Y.(*ast.CallExpr)
	if !ok || !isSel(call.Fun, "allowed", "Allowed") || len(call.Args) != 1 || !isIdent(call.Args[0], "ip") {
		return false
	}
	return true
}
