package main

import (
	"bytes"
	"go/ast"
	"go/printer"
	"go/token"
	"os"
	"path/filepath"
	"regexp"
	"strings"
)

func init() { register(genAuth) }

// Facts of hub.go / api_signaling.go / backend_configuration.go / go.mod for C01
// (no session without valid credentials; nothing happens before hello).
//
// Everything the Lean model of the hello path is defined over or pinned to:
// constants, the JWT algorithm allow-list and key-loader type switch, the parser
// options, the error mappings, the hub's own iat/exp rules, the pre-auth
// dispatch of processMessage and the internal-client check.

func authSrc(fset *token.FileSet, n ast.Node) string {
	var b bytes.Buffer
	printer.Fprint(&b, fset, n)
	return strings.Join(strings.Fields(b.String()), " ")
}

// authReturnsIdent: the statement list ends in `return …, <ident>` / contains a
// return whose last result is an identifier; gives that identifier.
func authLastReturnIdent(list []ast.Stmt) (string, bool) {
	for _, s := range list {
		if rs, ok := s.(*ast.ReturnStmt); ok && len(rs.Results) > 0 {
			if id, ok := rs.Results[len(rs.Results)-1].(*ast.Ident); ok {
				return id.Name, true
			}
		}
	}
	return "", false
}

func authEndsInReturn(b *ast.BlockStmt) bool {
	if b == nil || len(b.List) == 0 {
		return false
	}
	_, ok := b.List[len(b.List)-1].(*ast.ReturnStmt)
	return ok
}

// authErrorsIsNames lists the jwt.ErrXxx names used in errors.Is(err, jwt.ErrXxx) calls inside e.
func authErrorsIsNames(e ast.Expr) []string {
	var out []string
	ast.Inspect(e, func(n ast.Node) bool {
		if c, ok := n.(*ast.CallExpr); ok && isSel(c.Fun, "errors", "Is") && len(c.Args) == 2 {
			if s, ok := c.Args[1].(*ast.SelectorExpr); ok && isIdent(s.X, "jwt") {
				out = append(out, s.Sel.Name)
			}
		}
		return true
	})
	return out
}

// authSentMessageError: the block contains `<x>.SendMessage(message.NewErrorServerMessage(<Ident>))`; gives Ident.
func authSentErrors(b ast.Node) []string {
	var out []string
	ast.Inspect(b, func(n ast.Node) bool {
		c, ok := n.(*ast.CallExpr)
		if !ok {
			return true
		}
		if s, ok := c.Fun.(*ast.SelectorExpr); ok && s.Sel.Name == "SendMessage" && len(c.Args) == 1 {
			if in, ok := c.Args[0].(*ast.CallExpr); ok {
				if s2, ok := in.Fun.(*ast.SelectorExpr); ok && s2.Sel.Name == "NewErrorServerMessage" && len(in.Args) == 1 {
					if id, ok := in.Args[0].(*ast.Ident); ok {
						out = append(out, id.Name)
					}
				}
			}
		}
		return true
	})
	return out
}

func genAuth(c *ctx) *leanFile {
	l := c.newLean("Auth", "hub.go", "api_signaling.go", "backend_configuration.go", "federation.go", "go.mod")
	hub := c.file("hub.go")
	api := c.file("api_signaling.go")
	bc := c.file("backend_configuration.go")
	fed := c.file("federation.go")
	scope := pkgValues(hub, api, bc, fed)

	// ---- constants
	for _, n := range []string{"minTokenRandomLength", "tokenLeeway"} {
		e, ok := scope[n]
		var v int64
		if ok {
			v, ok = c.evalInt(e, scope, 0)
		}
		l.nat(n, v, ok && v >= 0, "package-level value of hub.go not found or not a constant integer expression")
	}
	for _, n := range []string{"HelloVersionV1", "HelloVersionV2", "HelloClientTypeClient", "HelloClientTypeInternal", "HelloClientTypeFederation"} {
		s, ok := "", false
		if e, found := scope[n]; found {
			s, ok = strLit(e)
		}
		l.str(n, s, ok, "string constant of api_signaling.go not found")
	}

	// ---- error codes: X = NewError("code", …)
	var codeLines []string
	okCodes := true
	for _, n := range []string{"HelloExpected", "InvalidHelloVersion", "UserAuthFailed", "InvalidClientType", "InvalidBackendUrl",
		"InvalidToken", "NoSuchSession", "TokenNotValidYet", "TokenExpired", "TooManyRequests", "InvalidFormat",
		"SessionLimitExceeded", "ErrFederationNotSupported"} {
		code, ok := "", false
		e, found := scope[n]
		if !found {
			// InvalidFormat lives elsewhere in the package
			for _, rel := range []string{"api_signaling.go", "api_backend.go", "session.go", "client.go", "hub.go"} {
				if e2, f2 := pkgValues(c.file(rel))[n]; f2 {
					e, found = e2, true
					break
				}
			}
		}
		if found {
			if call, isCall := e.(*ast.CallExpr); isCall && isIdent(call.Fun, "NewError") && len(call.Args) >= 1 {
				code, ok = strLit(call.Args[0])
			}
		}
		if !ok {
			okCodes = false
			l.fail("errorCodes: " + n + " = NewError(\"code\", …) not found")
			continue
		}
		codeLines = append(codeLines, "("+leanStr(n)+", "+leanStr(code)+")")
	}
	l.fact("errorCodes")
	if okCodes {
		l.raw("def errorCodes : List (String × String) := [" + strings.Join(codeLines, ", ") + "]")
	} else {
		l.raw("def errorCodes : List (String × String) := [] -- EXTRACTION FAILED")
	}

	// ---- processHelloV2
	v2 := findFunc(hub, "Hub", "processHelloV2")
	var validMethods []string
	okValid := false
	withIat, withLeeway, leewayArg := false, false, ""
	okParse := false
	type kcase struct{ method, loader string }
	var kcases []kcase
	okSwitch, defaultErrors := false, false
	var errMap [][2]string // (jwt error names joined by |, hub error)
	errDefault := ""
	okErrMap := false
	var timeRules [][2]string
	okRules := false
	getBackendFirst := false
	if v2 != nil && v2.Body != nil {
		// first statements: url := …parsedUrl; backend := h.backend.GetBackend(url); if backend == nil { return …, InvalidBackendUrl }
		for i, s := range v2.Body.List {
			if as, ok := s.(*ast.AssignStmt); ok && len(as.Lhs) == 1 && isIdent(as.Lhs[0], "backend") && len(as.Rhs) == 1 {
				if strings.Contains(authSrc(c.fset, as.Rhs[0]), "GetBackend(url)") && i+1 < len(v2.Body.List) {
					if ifs, ok := v2.Body.List[i+1].(*ast.IfStmt); ok && authSrc(c.fset, ifs.Cond) == "backend == nil" {
						if id, ok := authLastReturnIdent(ifs.Body.List); ok && id == "InvalidBackendUrl" && i <= 1 {
							getBackendFirst = true
						}
					}
				}
			}
		}
		ast.Inspect(v2.Body, func(n ast.Node) bool {
			switch x := n.(type) {
			case *ast.CallExpr:
				if isSel(x.Fun, "jwt", "ParseWithClaims") {
					okParse = true
					for _, a := range x.Args {
						ca, ok := a.(*ast.CallExpr)
						if !ok {
							continue
						}
						switch {
						case isSel(ca.Fun, "jwt", "WithIssuedAt"):
							withIat = true
						case isSel(ca.Fun, "jwt", "WithLeeway") && len(ca.Args) == 1:
							withLeeway = true
							leewayArg = authSrc(c.fset, ca.Args[0])
						case isSel(ca.Fun, "jwt", "WithValidMethods") && len(ca.Args) == 1:
							if cl, ok := ca.Args[0].(*ast.CompositeLit); ok {
								okValid = true
								for _, el := range cl.Elts {
									// jwt.SigningMethodXXX.Alg()
									call, ok := el.(*ast.CallExpr)
									if !ok {
										okValid = false
										break
									}
									sel, ok := call.Fun.(*ast.SelectorExpr)
									if !ok || sel.Sel.Name != "Alg" {
										okValid = false
										break
									}
									inner, ok := sel.X.(*ast.SelectorExpr)
									if !ok || !isIdent(inner.X, "jwt") || !strings.HasPrefix(inner.Sel.Name, "SigningMethod") {
										okValid = false
										break
									}
									validMethods = append(validMethods, strings.TrimPrefix(inner.Sel.Name, "SigningMethod"))
								}
							}
						}
					}
				}
			case *ast.TypeSwitchStmt:
				if strings.Contains(authSrc(c.fset, x.Assign), "token.Method.(type)") {
					okSwitch = true
					for _, cc := range x.Body.List {
						clause := cc.(*ast.CaseClause)
						if clause.List == nil {
							// default: must return an error
							for _, s := range clause.Body {
								if rs, ok := s.(*ast.ReturnStmt); ok && len(rs.Results) == 2 && !isIdent(rs.Results[1], "nil") && isIdent(rs.Results[0], "nil") {
									defaultErrors = true
								}
							}
							continue
						}
						for _, ty := range clause.List {
							st, ok := ty.(*ast.StarExpr)
							if !ok {
								okSwitch = false
								continue
							}
							sel, ok := st.X.(*ast.SelectorExpr)
							if !ok || !isIdent(sel.X, "jwt") {
								okSwitch = false
								continue
							}
							loader := ""
							for _, s := range clause.Body {
								ast.Inspect(s, func(m ast.Node) bool {
									if call, ok := m.(*ast.CallExpr); ok {
										if fs, ok := call.Fun.(*ast.SelectorExpr); ok && isIdent(fs.X, "jwt") &&
											strings.HasPrefix(fs.Sel.Name, "Parse") && strings.HasSuffix(fs.Sel.Name, "PublicKeyFromPEM") {
											loader = fs.Sel.Name
										}
									}
									return true
								})
							}
							if loader == "" {
								okSwitch = false
							}
							kcases = append(kcases, kcase{sel.Sel.Name, loader})
						}
					}
				}
			}
			return true
		})

		// error mapping + hub time rules: top-level statements of the function body
		for i, s := range v2.Body.List {
			ifs, ok := s.(*ast.IfStmt)
			if !ok {
				continue
			}
			if authSrc(c.fset, ifs.Cond) == "err != nil" && !okErrMap && i > 0 {
				// the one right after `token, err := jwt.ParseWithClaims(…)`
				if as, ok := v2.Body.List[i-1].(*ast.AssignStmt); ok && strings.Contains(authSrc(c.fset, as), "jwt.ParseWithClaims(") {
					okErrMap = true
					for _, inner := range ifs.Body.List {
						switch y := inner.(type) {
						case *ast.IfStmt:
							var cur ast.Stmt = y
							for cur != nil {
								ci, ok := cur.(*ast.IfStmt)
								if !ok {
									okErrMap = false
									break
								}
								names := authErrorsIsNames(ci.Cond)
								id, ok2 := authLastReturnIdent(ci.Body.List)
								if len(names) == 0 || !ok2 {
									okErrMap = false
								}
								errMap = append(errMap, [2]string{strings.Join(names, "|"), id})
								cur = ci.Else
							}
						case *ast.ReturnStmt:
							if id, ok := y.Results[len(y.Results)-1].(*ast.Ident); ok {
								errDefault = id.Name
							}
						}
					}
					if errDefault == "" {
						okErrMap = false
					}
				}
			}
			// `now := time.Now()` followed by the if / else-if chain
			if i > 0 {
				if as, ok := v2.Body.List[i-1].(*ast.AssignStmt); ok && authSrc(c.fset, as) == "now := time.Now()" {
					okRules = true
					var cur ast.Stmt = ifs
					for cur != nil {
						ci, ok := cur.(*ast.IfStmt)
						if !ok {
							okRules = false
							break
						}
						cond := authSrc(c.fset, ci.Cond)
						if ci.Init != nil {
							cond = authSrc(c.fset, ci.Init) + "; " + cond
						}
						id, ok2 := authLastReturnIdent(ci.Body.List)
						if !ok2 {
							okRules = false
						}
						timeRules = append(timeRules, [2]string{cond, id})
						cur = ci.Else
					}
				}
			}
		}
	}
	l.strList("validMethods", validMethods, okValid && len(validMethods) > 0, "processHelloV2: jwt.WithValidMethods([]string{jwt.SigningMethodX.Alg(), …}) not found")
	l.boolean("jwtWithIssuedAt", withIat, okParse, "processHelloV2: jwt.ParseWithClaims call not found")
	l.boolean("jwtWithLeeway", withLeeway, okParse, "processHelloV2: jwt.ParseWithClaims call not found")
	l.str("jwtLeewayArg", leewayArg, okParse, "processHelloV2: jwt.ParseWithClaims call not found")
	l.boolean("v2BackendLookupFirst", getBackendFirst, v2 != nil, "processHelloV2 not found")
	l.fact("keyfuncCases")
	if okSwitch && len(kcases) > 0 {
		var xs []string
		for _, k := range kcases {
			xs = append(xs, "("+leanStr(k.method)+", "+leanStr(k.loader)+")")
		}
		l.raw("def keyfuncCases : List (String × String) := [" + strings.Join(xs, ", ") + "]")
	} else {
		l.fail("keyfuncCases: `switch token.Method.(type)` with `case *jwt.SigningMethodX:` + jwt.ParseXPublicKeyFromPEM not found")
		l.raw("def keyfuncCases : List (String × String) := [] -- EXTRACTION FAILED")
	}
	l.boolean("keyfuncDefaultErrors", defaultErrors, okSwitch, "type switch of the keyfunc not found")
	pairList := func(name string, xs [][2]string, ok bool, why string) {
		l.fact(name)
		if !ok {
			l.fail(name + ": " + why)
			l.raw("def " + name + " : List (String × String) := [] -- EXTRACTION FAILED: " + why)
			return
		}
		var ys []string
		for _, x := range xs {
			ys = append(ys, "("+leanStr(x[0])+", "+leanStr(x[1])+")")
		}
		l.raw("def " + name + " : List (String × String) := [" + strings.Join(ys, ", ") + "]")
	}
	l.fact("jwtErrorMap")
	if okErrMap {
		var ys []string
		for _, x := range errMap {
			var ns []string
			for _, n := range strings.Split(x[0], "|") {
				ns = append(ns, leanStr(n))
			}
			ys = append(ys, "(["+strings.Join(ns, ", ")+"], "+leanStr(x[1])+")")
		}
		l.raw("def jwtErrorMap : List (List String × String) := [" + strings.Join(ys, ", ") + "]")
	} else {
		l.fail("jwtErrorMap: processHelloV2: `if err != nil { if errors.Is(…) … }` after jwt.ParseWithClaims not found")
		l.raw("def jwtErrorMap : List (List String × String) := [] -- EXTRACTION FAILED")
	}
	l.str("jwtErrorDefault", errDefault, okErrMap, "processHelloV2: default error of the jwt error mapping not found")
	pairList("hubTimeRules", timeRules, okRules && len(timeRules) > 0, "processHelloV2: if/else-if chain after `now := time.Now()` not found")

	// ---- processMessage: pre-auth dispatch
	preType, preErr := "", ""
	okPre, checkValidReturns, decodeReturns := false, false, false
	if pm := findFunc(hub, "Hub", "processMessage"); pm != nil && pm.Body != nil {
		sessionPos := token.NoPos
		for i, s := range pm.Body.List {
			if as, ok := s.(*ast.AssignStmt); ok && authSrc(c.fset, as) == "session := client.GetSession()" {
				sessionPos = as.Pos()
				if i+1 < len(pm.Body.List) {
					if ifs, ok := pm.Body.List[i+1].(*ast.IfStmt); ok && authSrc(c.fset, ifs.Cond) == "session == nil" && authEndsInReturn(ifs.Body) && len(ifs.Body.List) == 3 {
						if inner, ok := ifs.Body.List[0].(*ast.IfStmt); ok && authEndsInReturn(inner.Body) {
							if be, ok := inner.Cond.(*ast.BinaryExpr); ok && be.Op == token.NEQ && authSrc(c.fset, be.X) == "message.Type" {
								if t, ok := strLit(be.Y); ok {
									errs := authSentErrors(inner.Body)
									call := authSrc(c.fset, ifs.Body.List[1])
									if len(errs) == 1 && len(inner.Body.List) == 2 && call == "h.processHello(client, &message)" {
										preType, preErr, okPre = t, errs[0], true
									}
								}
							}
						}
					}
				}
			}
		}
		for _, s := range pm.Body.List {
			ifs, ok := s.(*ast.IfStmt)
			if !ok || ifs.Init == nil || (sessionPos != token.NoPos && ifs.Pos() > sessionPos) {
				continue
			}
			init := authSrc(c.fset, ifs.Init)
			if init == "err := message.CheckValid()" && authSrc(c.fset, ifs.Cond) == "err != nil" && authEndsInReturn(ifs.Body) {
				checkValidReturns = sessionPos != token.NoPos
			}
			if init == "err := message.UnmarshalJSON(data)" && authSrc(c.fset, ifs.Cond) == "err != nil" && authEndsInReturn(ifs.Body) {
				decodeReturns = sessionPos != token.NoPos
			}
		}
	}
	l.str("preAuthOnlyType", preType, okPre, "processMessage: `if session == nil { if message.Type != \"hello\" { …HelloExpected…; return }; h.processHello(…); return }` not found")
	l.str("preAuthError", preErr, okPre, "processMessage: pre-auth dispatch not found")
	l.boolean("checkValidBeforeDispatch", checkValidReturns, true, "")
	l.boolean("decodeBeforeDispatch", decodeReturns, true, "")

	// ---- processHello: resume comparison, client type switch
	resumeCond, okResume := "", false
	var typeCases []string
	okTypes := false
	typeDefaultErr := ""
	if ph := findFunc(hub, "Hub", "processHello"); ph != nil && ph.Body != nil {
		ast.Inspect(ph.Body, func(n ast.Node) bool {
			switch x := n.(type) {
			case *ast.IfStmt:
				s := authSrc(c.fset, x.Cond)
				if strings.Contains(s, "session.PrivateId()") && !okResume {
					resumeCond, okResume = s, true
				}
			case *ast.SwitchStmt:
				if x.Tag != nil && authSrc(c.fset, x.Tag) == "message.Hello.Auth.Type" {
					okTypes = true
					for _, cc := range x.Body.List {
						clause := cc.(*ast.CaseClause)
						if clause.List == nil {
							if errs := authSentErrors(clause); len(errs) == 1 {
								typeDefaultErr = errs[0]
							}
							continue
						}
						target := ""
						for _, s := range clause.Body {
							if es, ok := s.(*ast.ExprStmt); ok {
								if call, ok := es.X.(*ast.CallExpr); ok {
									if sel, ok := call.Fun.(*ast.SelectorExpr); ok {
										target = sel.Sel.Name
									}
								}
							}
							if bs, ok := s.(*ast.BranchStmt); ok && bs.Tok == token.FALLTHROUGH {
								target = "fallthrough"
							}
						}
						for _, e := range clause.List {
							typeCases = append(typeCases, authSrc(c.fset, e)+"→"+target)
						}
					}
				}
			}
			return true
		})
	}
	l.str("resumeCompare", resumeCond, okResume, "processHello: comparison with session.PrivateId() not found")
	l.strList("clientTypeSwitch", typeCases, okTypes, "processHello: `switch message.Hello.Auth.Type` not found")
	l.str("clientTypeDefaultError", typeDefaultErr, okTypes && typeDefaultErr != "", "processHello: default case of the client type switch sends no error")

	// ---- processHelloInternal
	secretGuard, secretGuardErr := false, ""
	tokenCond, okTokenCond := "", false
	hmacNew, hmacWrite, hmacHex := false, false, false
	var internalOrder []string
	if pi := findFunc(hub, "Hub", "processHelloInternal"); pi != nil && pi.Body != nil {
		for _, s := range pi.Body.List {
			if ifs, ok := s.(*ast.IfStmt); ok {
				cond := authSrc(c.fset, ifs.Cond)
				errs := authSentErrors(ifs.Body)
				if cond == "len(h.internalClientsSecret) == 0" && authEndsInReturn(ifs.Body) && len(errs) == 1 {
					secretGuard, secretGuardErr = true, errs[0]
					internalOrder = append(internalOrder, "secret")
				}
				if strings.Contains(cond, "minTokenRandomLength") && authEndsInReturn(ifs.Body) && len(errs) == 1 {
					tokenCond, okTokenCond = cond+" ⇒ "+errs[0], true
					internalOrder = append(internalOrder, "token")
				}
				if cond == "backend == nil" && authEndsInReturn(ifs.Body) && len(errs) == 1 {
					internalOrder = append(internalOrder, "backend:"+errs[0])
				}
				if strings.Contains(cond, "ErrBruteforceDetected") {
					internalOrder = append(internalOrder, "throttle")
				}
			}
			if es, ok := s.(*ast.ExprStmt); ok && strings.HasPrefix(authSrc(c.fset, es), "h.processRegister(") {
				internalOrder = append(internalOrder, "register")
			}
			src := authSrc(c.fset, s)
			if src == "mac := hmac.New(sha256.New, h.internalClientsSecret)" {
				hmacNew = true
			}
			if strings.HasPrefix(src, "mac.Write([]byte(rnd))") {
				hmacWrite = true
			}
			if src == "check := hex.EncodeToString(mac.Sum(nil))" {
				hmacHex = true
			}
		}
	}
	l.boolean("internalSecretGuard", secretGuard, true, "")
	l.str("internalSecretGuardError", secretGuardErr, secretGuard, "processHelloInternal: `if len(h.internalClientsSecret) == 0 { …; return }` not found")
	l.str("internalTokenCheck", tokenCond, okTokenCond, "processHelloInternal: random-length / token comparison not found")
	l.boolean("internalMacIsHexHmacSha256OfRandom", hmacNew && hmacWrite && hmacHex, true, "")
	l.strList("internalOrder", internalOrder, len(internalOrder) > 0, "processHelloInternal not found")

	// ---- hasStandardPort
	var ports []string
	okPorts := false
	if hp := findFunc(api, "", "hasStandardPort"); hp != nil && hp.Body != nil {
		ast.Inspect(hp.Body, func(n ast.Node) bool {
			if cc, ok := n.(*ast.CaseClause); ok && len(cc.List) == 1 && len(cc.Body) == 1 {
				if scheme, ok := strLit(cc.List[0]); ok {
					if rs, ok := cc.Body[0].(*ast.ReturnStmt); ok && len(rs.Results) == 1 {
						if be, ok := rs.Results[0].(*ast.BinaryExpr); ok && be.Op == token.EQL && authSrc(c.fset, be.X) == "u.Port()" {
							if p, ok := strLit(be.Y); ok {
								ports = append(ports, scheme+":"+p)
								okPorts = true
							}
						}
					}
				}
			}
			return true
		})
	}
	l.strList("standardPorts", ports, okPorts, "hasStandardPort: `case \"scheme\": return u.Port() == \"n\"` not found")

	// ---- getBackendLocked / IsUrlAllowed (lookup rule the model's getBackend follows)
	prefixRule, compatRule, dotGuard := false, false, false
	if gb := findFunc(bc, "backendStorageCommon", "getBackendLocked"); gb != nil && gb.Body != nil {
		src := authSrc(c.fset, gb.Body)
		// the entry's url, '/'-terminated for the comparison when stored without the slash (etcd), is a prefix of the looked-up url
		prefixRule = strings.Contains(src, `entryUrl := entry.url if entryUrl[len(entryUrl)-1] != '/' { entryUrl += "/" } if strings.HasPrefix(url, entryUrl) { return entry }`) &&
			strings.Contains(src, `if url[len(url)-1] != '/' { url += "/" }`)
		compatRule = strings.Contains(src, `entry.url == ""`)
	}
	if gb := findFunc(bc, "BackendConfiguration", "GetBackend"); gb != nil && gb.Body != nil {
		src := authSrc(c.fset, gb.Body)
		dotGuard = strings.Contains(src, "hasDotSegments(u)")
	}
	l.boolean("lookupByUrlPrefix", prefixRule, true, "")
	l.boolean("lookupCompatHostOnly", compatRule, true, "")
	l.boolean("lookupRejectsDotSegments", dotGuard, true, "")

	// ---- go.mod: version of the JWT library whose parser/validator the model restates
	ver, okVer := "", false
	if data, err := os.ReadFile(filepath.Join(c.repo, "go.mod")); err == nil {
		if m := regexp.MustCompile(`(?m)^\s*github\.com/golang-jwt/jwt/v5\s+(\S+)`).FindSubmatch(data); m != nil {
			ver, okVer = string(m[1]), true
		}
	}
	l.str("jwtLibVersion", ver, okVer, "go.mod: github.com/golang-jwt/jwt/v5 requirement not found")

	// ---- critical sections of the hello path (authlocks.go)
	genAuthLocks(c, l)
	return l
}
