package main

// Facts for C10, media part: the code that receives (parts of) a client message
// *behind* the hub's handlers - the Janus client (mcu_janus*.go,
// janus_client.go), the proxy MCU client (mcu_proxy.go) and the media proxy
// that forwards the same payloads to its own Janus client (proxy/*.go).  The
// payload of a `message` that is addressed to the media server
// (MessageClientMessageData.Payload, a map[string]interface{} decoded from the
// client's bytes) travels through these files as plain maps and interface
// values, so the tables are taken over *whole files*:
//
//   - mediaTypeAssertions: every single-value type assertion `x.(T)` (the form
//     that panics; comma-ok forms and type switches are not listed),
//   - mediaIndexExprs: every index / slice expression that is not recognisably
//     a map lookup (string literal key, or a map-typed field / variable /
//     parameter by declaration),
//   - mediaMapWrites: every `m[k] = v` whose map is neither created in the same
//     function nor a table of the method's receiver (so: a parameter, a member
//     of a parameter, an alias of one, a call result): a nil map panics,
//   - mediaDerefs: the dereference table of shapesclient.go for every function
//     of these files that has a parameter of a client message type.
//
// All tables keep duplicates (a second identical assertion in the same function
// changes the table).  The Lean side compares them with reviewed lists.

import (
	"go/ast"
	"go/token"
	"os"
	"path/filepath"
	"sort"
	"strings"
)

func init() { register(genShapesMedia) }

// c10MediaFiles: every mcu_*.go of the root package, the Janus transport, and
// the media proxy.
func c10MediaFiles(c *ctx) []string {
	var out []string
	for _, pat := range []string{"mcu_*.go", "janus_client.go", "proxy/proxy_*.go"} {
		m, _ := filepath.Glob(filepath.Join(c.repo, pat))
		for _, p := range m {
			rel, err := filepath.Rel(c.repo, p)
			if err != nil || strings.HasSuffix(rel, "_test.go") || strings.HasPrefix(filepath.Base(rel), "zz_") {
				continue
			}
			out = append(out, filepath.ToSlash(rel))
		}
	}
	sort.Strings(out)
	return out
}

// c10PkgFiles: the hand-written sources of the directory of rel (for the
// declared types of fields and package variables).
func c10PkgFiles(c *ctx, dir string) []string {
	ents, err := os.ReadDir(filepath.Join(c.repo, dir))
	if err != nil {
		return nil
	}
	var out []string
	for _, e := range ents {
		n := e.Name()
		if e.IsDir() || !strings.HasSuffix(n, ".go") || strings.HasSuffix(n, "_test.go") || strings.HasSuffix(n, ".pb.go") ||
			strings.HasSuffix(n, "_easyjson.go") || strings.HasPrefix(n, "zz_") {
			continue
		}
		out = append(out, filepath.ToSlash(filepath.Join(dir, n)))
	}
	sort.Strings(out)
	return out
}

type c10Kinds struct {
	// name -> "map" / "other" / "mixed"
	fields map[string]string
	vars   map[string]string
}

func c10IsMapType(e ast.Expr) bool {
	_, ok := e.(*ast.MapType)
	return ok
}

func c10MapValued(e ast.Expr) bool {
	switch x := e.(type) {
	case *ast.CompositeLit:
		return x.Type != nil && c10IsMapType(x.Type)
	case *ast.CallExpr:
		if isIdent(x.Fun, "make") && len(x.Args) > 0 {
			return c10IsMapType(x.Args[0])
		}
	}
	return false
}

func (k *c10Kinds) note(m map[string]string, name string, isMap bool) {
	kind := "other"
	if isMap {
		kind = "map"
	}
	if old, ok := m[name]; ok && old != kind {
		kind = "mixed"
	}
	m[name] = kind
}

func c10CollectKinds(c *ctx, files []string) *c10Kinds {
	k := &c10Kinds{fields: map[string]string{}, vars: map[string]string{}}
	for _, rel := range files {
		f := c.file(rel)
		if f == nil {
			continue
		}
		for _, d := range f.Decls {
			gd, ok := d.(*ast.GenDecl)
			if !ok {
				continue
			}
			for _, sp := range gd.Specs {
				switch s := sp.(type) {
				case *ast.TypeSpec:
					if st, ok := s.Type.(*ast.StructType); ok {
						for _, fl := range st.Fields.List {
							for _, n := range fl.Names {
								k.note(k.fields, n.Name, c10IsMapType(fl.Type))
							}
						}
					}
				case *ast.ValueSpec:
					if gd.Tok != token.VAR {
						continue
					}
					for i, n := range s.Names {
						isMap := s.Type != nil && c10IsMapType(s.Type)
						if s.Type == nil && i < len(s.Values) {
							isMap = c10MapValued(s.Values[i])
						}
						k.note(k.vars, n.Name, isMap)
					}
				}
			}
		}
	}
	return k
}

type c10MediaScan struct {
	c       *ctx
	kinds   *c10Kinds
	fn      string
	asserts *[]string
	indexes *[]string
	writes  *[]string
}

// scanFunc walks one function declaration (its literals included).
func (m *c10MediaScan) scanFunc(fd *ast.FuncDecl) {
	// locals: name -> "map" (declared / created as a map), "fresh" (created here)
	localMap := map[string]bool{}
	fresh := map[string]bool{}
	noteParams := func(ft *ast.FuncType) {
		if ft == nil || ft.Params == nil {
			return
		}
		for _, fl := range ft.Params.List {
			if c10IsMapType(fl.Type) {
				for _, n := range fl.Names {
					localMap[n.Name] = true
					delete(fresh, n.Name)
				}
			}
		}
	}
	noteParams(fd.Type)
	recv := map[string]bool{}
	if fd.Recv != nil {
		for _, fl := range fd.Recv.List {
			for _, n := range fl.Names {
				recv[n.Name] = true
			}
		}
	}
	isMapExpr := func(e ast.Expr) bool {
		switch x := e.(type) {
		case *ast.Ident:
			if localMap[x.Name] {
				return true
			}
			return m.kinds.vars[x.Name] == "map"
		case *ast.SelectorExpr:
			return m.kinds.fields[x.Sel.Name] == "map"
		}
		return c10MapValued(e)
	}
	// pass 1: declarations (flow-insensitive: a name that is ever bound to a map is a map)
	ast.Inspect(fd.Body, func(n ast.Node) bool {
		switch x := n.(type) {
		case *ast.FuncLit:
			noteParams(x.Type)
		case *ast.AssignStmt:
			if len(x.Lhs) == len(x.Rhs) {
				for i, l := range x.Lhs {
					id, ok := l.(*ast.Ident)
					if !ok {
						continue
					}
					if c10MapValued(x.Rhs[i]) {
						localMap[id.Name] = true
						if x.Tok == token.DEFINE {
							fresh[id.Name] = true
						}
					} else if isMapExpr(x.Rhs[i]) {
						localMap[id.Name] = true
						delete(fresh, id.Name)
					}
				}
			}
		case *ast.DeclStmt:
			if gd, ok := x.Decl.(*ast.GenDecl); ok {
				for _, sp := range gd.Specs {
					if vs, ok := sp.(*ast.ValueSpec); ok {
						for i, n := range vs.Names {
							if vs.Type != nil && c10IsMapType(vs.Type) {
								localMap[n.Name] = true
							} else if vs.Type == nil && i < len(vs.Values) && c10MapValued(vs.Values[i]) {
								localMap[n.Name] = true
								fresh[n.Name] = true
							}
						}
					}
				}
			}
		}
		return true
	})
	checked := map[*ast.TypeAssertExpr]bool{}
	unparen := func(e ast.Expr) ast.Expr {
		for {
			p, ok := e.(*ast.ParenExpr)
			if !ok {
				return e
			}
			e = p.X
		}
	}
	lhsIndex := map[*ast.IndexExpr]bool{}
	ast.Inspect(fd.Body, func(n ast.Node) bool {
		switch x := n.(type) {
		case *ast.AssignStmt:
			if len(x.Lhs) == 2 && len(x.Rhs) == 1 {
				if ta, ok := unparen(x.Rhs[0]).(*ast.TypeAssertExpr); ok {
					checked[ta] = true
				}
			}
			for _, l := range x.Lhs {
				if ie, ok := unparen(l).(*ast.IndexExpr); ok {
					lhsIndex[ie] = true
				}
			}
		case *ast.ValueSpec:
			if len(x.Names) == 2 && len(x.Values) == 1 {
				if ta, ok := unparen(x.Values[0]).(*ast.TypeAssertExpr); ok {
					checked[ta] = true
				}
			}
		case *ast.IncDecStmt:
			if ie, ok := unparen(x.X).(*ast.IndexExpr); ok {
				lhsIndex[ie] = true
			}
		}
		return true
	})
	ast.Inspect(fd.Body, func(n ast.Node) bool {
		switch x := n.(type) {
		case *ast.TypeAssertExpr:
			if x.Type != nil && !checked[x] {
				*m.asserts = append(*m.asserts, m.fn+"|"+c10Src(m.c.fset, x))
			}
		case *ast.IndexExpr:
			_, strKey := strLit(x.Index)
			isMap := strKey || isMapExpr(unparen(x.X))
			if lhsIndex[x] {
				// a write: harmless on a map made in this function, a panic on a nil map otherwise;
				// on a slice it is an index expression like any other
				if isMap {
					root := unparen(x.X)
					for {
						if sel, ok := root.(*ast.SelectorExpr); ok {
							root = unparen(sel.X)
							continue
						}
						break
					}
					id, isId := root.(*ast.Ident)
					switch {
					case isId && id == unparen(x.X) && fresh[id.Name]:
						// made in this function
					case isId && id != unparen(x.X) && recv[id.Name]:
						// a table of the receiver (made by its constructor)
					default:
						*m.writes = append(*m.writes, m.fn+"|"+c10Src(m.c.fset, x))
					}
					return true
				}
			}
			if !isMap {
				*m.indexes = append(*m.indexes, m.fn+"|"+c10Src(m.c.fset, x))
			}
		case *ast.SliceExpr:
			*m.indexes = append(*m.indexes, m.fn+"|"+c10Src(m.c.fset, x))
		}
		return true
	})
}

func genShapesMedia(c *ctx) *leanFile {
	files := c10MediaFiles(c)
	l := c.newLean("ShapesMedia", files...)
	api := c.file("api_signaling.go")
	types := c10CollectTypes(api)

	kindsByDir := map[string]*c10Kinds{}
	var asserts, indexes, writes []string
	derefs, dAsserts, dIndexes := map[string]bool{}, map[string]bool{}, map[string]bool{}
	nfuncs, nclient := 0, 0
	for _, rel := range files {
		f := c.file(rel)
		if f == nil {
			l.fail("media: cannot read " + rel)
			continue
		}
		dir := filepath.ToSlash(filepath.Dir(rel))
		kinds, ok := kindsByDir[dir]
		if !ok {
			kinds = c10CollectKinds(c, c10PkgFiles(c, dir))
			kindsByDir[dir] = kinds
		}
		prefix := ""
		if dir != "." {
			prefix = dir + "/"
		}
		for _, d := range f.Decls {
			fd, ok := d.(*ast.FuncDecl)
			if !ok || fd.Body == nil {
				continue
			}
			nfuncs++
			name := prefix + c10FuncName(fd)
			sc := &c10MediaScan{c: c, kinds: kinds, fn: name, asserts: &asserts, indexes: &indexes, writes: &writes}
			sc.scanFunc(fd)

			// dereferences below a parameter of a client message type (root package only: the proxy
			// has the types under another package name and builds the values itself)
			if prefix != "" {
				continue
			}
			var work []c10Lit
			for _, fl := range fd.Type.Params.List {
				tn, ptr := c10TypeName(fl.Type)
				if _, known := types[tn]; known && ptr && c10IsClientType(tn) {
					for _, n := range fl.Names {
						work = append(work, c10Lit{name: name, par: n.Name, typ: tn})
					}
				}
			}
			if len(work) == 0 {
				work = append(work, c10Lit{name: name})
			}
			for len(work) > 0 {
				it := work[0]
				work = work[1:]
				w := &c10Walker{c: c, types: types, fn: it.name, root: it.typ, derefs: derefs, asserts: dAsserts, indexes: dIndexes}
				s := &c10Scope{vars: map[string]c10Val{}, guarded: map[string]bool{}}
				body := fd.Body
				if it.lit != nil {
					body = it.lit.Body
				}
				if it.par != "" {
					s.vars[it.par] = c10Val{path: nil, typ: it.typ}
					nclient++
					w.block(s, body.List)
				} else {
					ast.Inspect(body, func(n ast.Node) bool {
						if fl, ok := n.(*ast.FuncLit); ok {
							w.expr(s, fl)
							return false
						}
						return true
					})
				}
				work = append(work, w.lits...)
			}
		}
	}
	sort.Strings(asserts)
	sort.Strings(indexes)
	sort.Strings(writes)
	l.strList("mediaFiles", files, len(files) >= 8, "media: fewer than 8 media source files found (mcu_*.go, janus_client.go, proxy/proxy_*.go)")
	l.fact("mediaTypeAssertions")
	if nfuncs < 100 {
		l.fail("media: fewer than 100 functions found in the media files")
	}
	l.raw("/-- (function, expression): single-value type assertions (panic on a mismatch) anywhere in the media files. -/")
	l.raw("def mediaTypeAssertions : List (String × String) := " + c10Lean(asserts, 2))
	l.fact("mediaIndexExprs")
	l.raw("/-- (function, expression): index / slice expressions that are not recognisably map lookups. -/")
	l.raw("def mediaIndexExprs : List (String × String) := " + c10Lean(indexes, 2))
	l.fact("mediaMapWrites")
	l.raw("/-- (function, expression): writes to a map that was not created in the same function. -/")
	l.raw("def mediaMapWrites : List (String × String) := " + c10Lean(writes, 2))
	l.fact("mediaDerefs")
	if nclient < 4 {
		l.fail("media: fewer than 4 functions with a client message parameter found in the media files")
	}
	l.raw("/-- (function, pointer path below its client-message parameter, conditions): dereferenced without a syntactic nil guard. -/")
	l.raw("def mediaDerefs : List (String × String × String) := " + c10Lean(c10Minimal(derefs), 3))
	return l
}
