package main

// Facts for C10 (client message shapes): read from api_signaling.go, hub.go,
// client.go and the files that receive (parts of) a ClientMessage.
//
//   - maxMessageSize and the read-path pattern of Client.ReadPump,
//   - the order decode -> CheckValid -> dispatch in Hub.processMessage, the
//     pre-hello rule, the "local" types, the dispatch table, and how the
//     message counter is labelled,
//   - the validation table: for every CheckValid method of api_signaling.go,
//     per `case "<tag>"` which pointer fields are compared with nil under an
//     error return ("nil") and which sub-objects are validated ("sub"),
//   - the dereference table: for every function of the listed files that has a
//     parameter of a client message type, which pointer-typed paths below that
//     parameter are dereferenced without a syntactic nil guard, together with
//     the `<path>.Type == "<lit>"` conditions in force,
//   - unchecked type assertions and index expressions in those functions.

import (
	"fmt"
	"go/ast"
	"go/printer"
	"go/token"
	"sort"
	"strings"
)

func c10Src(fset *token.FileSet, e ast.Node) string {
	var sb strings.Builder
	printer.Fprint(&sb, fset, e) // nolint
	return strings.Join(strings.Fields(sb.String()), " ")
}

func init() { register(genShapesClient) }

var c10Files = []string{"hub.go", "clientsession.go", "federation.go", "backend_server.go", "virtualsession.go",
	"room.go", "api_backend.go", "remotesession.go", "client.go", "api_signaling.go"}

type c10Field struct {
	typ      string // named struct type ("" if not a struct declared in api_signaling.go)
	ptr      bool
	embedded bool
}

type c10Types map[string]map[string]c10Field

func c10TypeName(e ast.Expr) (name string, ptr bool) {
	switch t := e.(type) {
	case *ast.StarExpr:
		n, _ := c10TypeName(t.X)
		return n, true
	case *ast.Ident:
		return t.Name, false
	case *ast.SelectorExpr:
		if id, ok := t.X.(*ast.Ident); ok {
			return id.Name + "." + t.Sel.Name, false
		}
	}
	return "", false
}

func c10CollectTypes(f *ast.File) c10Types {
	res := c10Types{}
	if f == nil {
		return res
	}
	for _, d := range f.Decls {
		gd, ok := d.(*ast.GenDecl)
		if !ok || gd.Tok != token.TYPE {
			continue
		}
		for _, s := range gd.Specs {
			ts := s.(*ast.TypeSpec)
			st, ok := ts.Type.(*ast.StructType)
			if !ok {
				continue
			}
			fields := map[string]c10Field{}
			for _, fl := range st.Fields.List {
				tn, ptr := c10TypeName(fl.Type)
				if len(fl.Names) == 0 {
					base := tn
					if i := strings.LastIndex(base, "."); i >= 0 {
						base = base[i+1:]
					}
					fields[base] = c10Field{typ: tn, ptr: ptr, embedded: true}
					continue
				}
				for _, n := range fl.Names {
					fields[n.Name] = c10Field{typ: tn, ptr: ptr}
				}
			}
			res[ts.Name.Name] = fields
		}
	}
	return res
}

// lookup finds a (possibly promoted) field; returns the path of field names
// including the embedded steps.
func (ts c10Types) lookup(typ, field string, depth int) ([]string, c10Field, bool) {
	fs, ok := ts[typ]
	if !ok || depth > 4 {
		return nil, c10Field{}, false
	}
	if f, ok := fs[field]; ok {
		return []string{field}, f, true
	}
	var names []string
	for n := range fs {
		names = append(names, n)
	}
	sort.Strings(names)
	for _, n := range names {
		f := fs[n]
		if !f.embedded {
			continue
		}
		if p, ff, ok := ts.lookup(f.typ, field, depth+1); ok {
			return append([]string{n}, p...), ff, true
		}
	}
	return nil, c10Field{}, false
}

// ---- the walker ----

type c10Val struct {
	path []string
	typ  string // struct type of the value the path denotes ("" unknown)
	ptr  bool   // the path denotes a pointer (that may be nil)
}

type c10Scope struct {
	vars    map[string]c10Val
	guarded map[string]bool
	conds   []string
}

func (s *c10Scope) clone() *c10Scope {
	n := &c10Scope{vars: map[string]c10Val{}, guarded: map[string]bool{}, conds: append([]string(nil), s.conds...)}
	for k, v := range s.vars {
		n.vars[k] = v
	}
	for k, v := range s.guarded {
		n.guarded[k] = v
	}
	return n
}

type c10Walker struct {
	c       *ctx
	types   c10Types
	fn      string
	root    string
	derefs  map[string]bool
	asserts map[string]bool
	indexes map[string]bool
	nlit    int
	lits    []c10Lit

	// used by shapesdeferred.go
	isRoot    func(typeName string) bool // which parameter types make a function literal a function of its own (default: client types)
	flows     map[string]bool            // calls the root value flows into (nil: not recorded)
	localName string                     // a local variable that becomes the root where it is declared
	localType string
}

func (w *c10Walker) rootType(tn string) bool {
	if w.isRoot != nil {
		return w.isRoot(tn)
	}
	return c10IsClientType(tn)
}

// declared: a declaration of the tracked local brings it into scope.
func (w *c10Walker) declared(s *c10Scope, name string, typ string, ptr bool) bool {
	if w.localName == "" || name != w.localName || typ != w.localType {
		return false
	}
	s.vars[name] = c10Val{typ: typ, ptr: false}
	_ = ptr
	return true
}

type c10Lit struct {
	name string
	lit  *ast.FuncLit
	par  string
	typ  string
}

func c10PathStr(root string, p []string) string {
	if root != "ClientMessage" {
		return "<" + root + ">." + strings.Join(p, ".")
	}
	return strings.Join(p, ".")
}

func (w *c10Walker) deref(s *c10Scope, v c10Val) {
	if !v.ptr || len(v.path) == 0 {
		return
	}
	key := strings.Join(v.path, ".")
	if s.guarded[key] {
		return
	}
	conds := append([]string(nil), s.conds...)
	sort.Strings(conds)
	w.derefs[w.fn+"|"+c10PathStr(w.root, v.path)+"|"+strings.Join(conds, ";")] = true
}

// resolve interprets e as a path below a tracked variable, recording the
// dereferences made on the way.
func (w *c10Walker) resolve(s *c10Scope, e ast.Expr) (c10Val, bool) {
	switch x := e.(type) {
	case *ast.ParenExpr:
		return w.resolve(s, x.X)
	case *ast.Ident:
		v, ok := s.vars[x.Name]
		return v, ok
	case *ast.UnaryExpr:
		if x.Op == token.AND {
			v, ok := w.resolve(s, x.X)
			if ok {
				// address of a value: never nil
				return c10Val{path: v.path, typ: v.typ, ptr: false}, true
			}
		}
		return c10Val{}, false
	case *ast.StarExpr:
		v, ok := w.resolve(s, x.X)
		if ok {
			w.deref(s, v)
			return c10Val{path: v.path, typ: v.typ}, true
		}
		return c10Val{}, false
	case *ast.SelectorExpr:
		v, ok := w.resolve(s, x.X)
		if !ok {
			return c10Val{}, false
		}
		// selecting through a pointer dereferences it (also for method calls)
		w.deref(s, v)
		p, f, found := w.types.lookup(v.typ, x.Sel.Name, 0)
		if !found {
			return c10Val{}, false
		}
		np := append(append([]string(nil), v.path...), p...)
		typ := f.typ
		if _, known := w.types[typ]; !known {
			typ = ""
		}
		return c10Val{path: np, typ: typ, ptr: f.ptr}, true
	}
	return c10Val{}, false
}

func (w *c10Walker) expr(s *c10Scope, e ast.Expr) {
	if e == nil {
		return
	}
	if _, ok := w.resolve(s, e); ok {
		return
	}
	switch x := e.(type) {
	case *ast.FuncLit:
		// own client-message parameter => analysed as a function of its own
		for _, fl := range x.Type.Params.List {
			tn, ptr := c10TypeName(fl.Type)
			if _, known := w.types[tn]; known && ptr && w.rootType(tn) && len(fl.Names) == 1 {
				w.nlit++
				w.lits = append(w.lits, c10Lit{name: fmt.Sprintf("%s.func%d", w.fn, w.nlit), lit: x, par: fl.Names[0].Name, typ: tn})
				return
			}
		}
		w.block(s.clone(), x.Body.List)
	case *ast.TypeAssertExpr:
		if x.Type != nil && w.root != "" {
			w.asserts[w.fn+"|"+c10Src(w.c.fset, x)] = true
		}
		w.expr(s, x.X)
	case *ast.IndexExpr:
		if _, ok := w.resolve(s.clone(), x.X); ok {
			w.indexes[w.fn+"|"+c10Src(w.c.fset, x)] = true
		}
		w.expr(s, x.X)
		w.expr(s, x.Index)
	case *ast.BinaryExpr:
		if x.Op == token.LAND || x.Op == token.LOR {
			w.cond(s, x)
			return
		}
		w.expr(s, x.X)
		w.expr(s, x.Y)
	case *ast.CallExpr:
		if w.flows != nil {
			into := false
			if sel, ok := x.Fun.(*ast.SelectorExpr); ok {
				if v, ok := w.resolve(s.clone(), sel.X); ok && len(v.path) == 0 {
					into = true
				}
			}
			for _, a := range x.Args {
				if v, ok := w.resolve(s.clone(), a); ok && len(v.path) == 0 {
					into = true
				}
			}
			if callee := c10Src(w.c.fset, x.Fun); into && !strings.HasPrefix(callee, "log.") && !strings.HasPrefix(callee, "fmt.") {
				w.flows[w.fn+"|"+c10Src(w.c.fset, x.Fun)] = true
			}
		}
		w.expr(s, x.Fun)
		for _, a := range x.Args {
			w.expr(s, a)
		}
	case *ast.SelectorExpr:
		w.expr(s, x.X)
	case *ast.StarExpr:
		w.expr(s, x.X)
	case *ast.UnaryExpr:
		w.expr(s, x.X)
	case *ast.ParenExpr:
		w.expr(s, x.X)
	case *ast.CompositeLit:
		for _, el := range x.Elts {
			w.expr(s, el)
		}
	case *ast.KeyValueExpr:
		w.expr(s, x.Value)
	case *ast.SliceExpr:
		if _, ok := w.resolve(s.clone(), x.X); ok {
			w.indexes[w.fn+"|"+c10Src(w.c.fset, x)] = true
		}
		w.expr(s, x.X)
		w.expr(s, x.Low)
		w.expr(s, x.High)
	}
}

type c10CondInfo struct {
	gTrue, gFalse []string // paths known non-nil if the condition is true / false
	cTrue, cFalse []string // "<path>=<lit>" known if true / false
}

func isNil(e ast.Expr) bool { return isIdent(e, "nil") }

// cond visits a condition left to right with short-circuit knowledge.
func (w *c10Walker) cond(s *c10Scope, e ast.Expr) c10CondInfo {
	switch x := e.(type) {
	case *ast.ParenExpr:
		return w.cond(s, x.X)
	case *ast.UnaryExpr:
		if x.Op == token.NOT {
			i := w.cond(s, x.X)
			return c10CondInfo{gTrue: i.gFalse, gFalse: i.gTrue, cTrue: i.cFalse, cFalse: i.cTrue}
		}
	case *ast.BinaryExpr:
		switch x.Op {
		case token.LAND:
			a := w.cond(s, x.X)
			s2 := s.clone()
			for _, g := range a.gTrue {
				s2.guarded[g] = true
			}
			s2.conds = append(s2.conds, a.cTrue...)
			b := w.cond(s2, x.Y)
			return c10CondInfo{gTrue: append(a.gTrue, b.gTrue...), cTrue: append(a.cTrue, b.cTrue...)}
		case token.LOR:
			a := w.cond(s, x.X)
			s2 := s.clone()
			for _, g := range a.gFalse {
				s2.guarded[g] = true
			}
			s2.conds = append(s2.conds, a.cFalse...)
			b := w.cond(s2, x.Y)
			return c10CondInfo{gFalse: append(a.gFalse, b.gFalse...), cFalse: append(a.cFalse, b.cFalse...)}
		case token.NEQ, token.EQL:
			var other ast.Expr
			var side ast.Expr
			if isNil(x.Y) {
				side, other = x.X, x.Y
			} else if isNil(x.X) {
				side, other = x.Y, x.X
			}
			if other != nil {
				// comparing a pointer with nil does not dereference it, but does
				// dereference everything before it
				if sel, ok := side.(*ast.SelectorExpr); ok {
					if v, ok := w.resolve(s, sel); ok && len(v.path) > 0 {
						key := strings.Join(v.path, ".")
						if x.Op == token.NEQ {
							return c10CondInfo{gTrue: []string{key}}
						}
						return c10CondInfo{gFalse: []string{key}}
					}
				} else if id, ok := side.(*ast.Ident); ok {
					if v, ok := s.vars[id.Name]; ok && len(v.path) > 0 {
						key := strings.Join(v.path, ".")
						if x.Op == token.NEQ {
							return c10CondInfo{gTrue: []string{key}}
						}
						return c10CondInfo{gFalse: []string{key}}
					}
				}
				w.expr(s, side)
				return c10CondInfo{}
			}
			// <path>.Type ==/!= "lit"
			if lit, ok := strLit(x.Y); ok {
				if v, ok := w.resolve(s, x.X); ok && len(v.path) > 0 && v.path[len(v.path)-1] == "Type" {
					c := strings.Join(v.path, ".") + "=" + lit
					if x.Op == token.EQL {
						return c10CondInfo{cTrue: []string{c}}
					}
					return c10CondInfo{cFalse: []string{c}}
				}
			}
		}
	}
	w.expr(s, e)
	return c10CondInfo{}
}

func c10Terminates(b *ast.BlockStmt) bool {
	if b == nil || len(b.List) == 0 {
		return false
	}
	switch last := b.List[len(b.List)-1].(type) {
	case *ast.ReturnStmt:
		return true
	case *ast.BranchStmt:
		return last.Tok == token.CONTINUE || last.Tok == token.BREAK || last.Tok == token.GOTO
	case *ast.ExprStmt:
		if call, ok := last.X.(*ast.CallExpr); ok && isIdent(call.Fun, "panic") {
			return true
		}
	}
	return false
}

func (w *c10Walker) assign(s *c10Scope, lhs []ast.Expr, rhs []ast.Expr) {
	for _, r := range rhs {
		if ta, ok := r.(*ast.TypeAssertExpr); ok && len(lhs) == 2 && len(rhs) == 1 {
			// comma-ok form: cannot panic
			w.expr(s, ta.X)
			continue
		}
		w.expr(s, r)
	}
	if len(lhs) == 1 && len(rhs) == 1 {
		if id, ok := lhs[0].(*ast.Ident); ok {
			if t, ok := c10LocalInit(rhs[0]); ok && w.declared(s, id.Name, t, false) {
				return
			}
			if v, ok := w.resolve(s.clone(), rhs[0]); ok {
				s.vars[id.Name] = v
				return
			}
			delete(s.vars, id.Name)
			return
		}
	}
	for _, l := range lhs {
		if id, ok := l.(*ast.Ident); ok {
			delete(s.vars, id.Name)
		} else {
			w.expr(s, l)
		}
	}
}

func (w *c10Walker) block(s *c10Scope, stmts []ast.Stmt) {
	for _, st := range stmts {
		w.stmt(s, st)
	}
}

func (w *c10Walker) stmt(s *c10Scope, st ast.Stmt) {
	switch x := st.(type) {
	case *ast.AssignStmt:
		w.assign(s, x.Lhs, x.Rhs)
	case *ast.DeclStmt:
		if gd, ok := x.Decl.(*ast.GenDecl); ok {
			for _, sp := range gd.Specs {
				if vs, ok := sp.(*ast.ValueSpec); ok {
					var lhs []ast.Expr
					for _, n := range vs.Names {
						lhs = append(lhs, n)
					}
					w.assign(s, lhs, vs.Values)
					if vs.Type != nil && len(vs.Values) == 0 {
						tn, ptr := c10TypeName(vs.Type)
						for _, n := range vs.Names {
							w.declared(s, n.Name, tn, ptr)
						}
					}
				}
			}
		}
	case *ast.ExprStmt:
		w.expr(s, x.X)
	case *ast.GoStmt:
		w.expr(s, x.Call)
	case *ast.DeferStmt:
		w.expr(s, x.Call)
	case *ast.SendStmt:
		w.expr(s, x.Chan)
		w.expr(s, x.Value)
	case *ast.IncDecStmt:
		w.expr(s, x.X)
	case *ast.ReturnStmt:
		for _, r := range x.Results {
			w.expr(s, r)
		}
	case *ast.BlockStmt:
		w.block(s.clone(), x.List)
	case *ast.LabeledStmt:
		w.stmt(s, x.Stmt)
	case *ast.IfStmt:
		s1 := s.clone()
		if x.Init != nil {
			w.stmt(s1, x.Init)
		}
		info := w.cond(s1, x.Cond)
		sThen := s1.clone()
		for _, g := range info.gTrue {
			sThen.guarded[g] = true
		}
		sThen.conds = append(sThen.conds, info.cTrue...)
		w.block(sThen, x.Body.List)
		sElse := s1.clone()
		for _, g := range info.gFalse {
			sElse.guarded[g] = true
		}
		sElse.conds = append(sElse.conds, info.cFalse...)
		elseTerminates := false
		if x.Else != nil {
			w.stmt(sElse, x.Else)
			if b, ok := x.Else.(*ast.BlockStmt); ok {
				elseTerminates = c10Terminates(b)
			}
		}
		if c10Terminates(x.Body) && x.Init == nil {
			// the rest of the enclosing block runs only if the condition was false
			for _, g := range info.gFalse {
				s.guarded[g] = true
			}
			s.conds = append(s.conds, info.cFalse...)
		} else if elseTerminates && x.Init == nil {
			for _, g := range info.gTrue {
				s.guarded[g] = true
			}
			s.conds = append(s.conds, info.cTrue...)
		}
	case *ast.ForStmt:
		s1 := s.clone()
		if x.Init != nil {
			w.stmt(s1, x.Init)
		}
		if x.Cond != nil {
			w.expr(s1, x.Cond)
		}
		if x.Post != nil {
			w.stmt(s1, x.Post)
		}
		w.block(s1, x.Body.List)
	case *ast.RangeStmt:
		s1 := s.clone()
		w.expr(s1, x.X)
		for _, e := range []ast.Expr{x.Key, x.Value} {
			if id, ok := e.(*ast.Ident); ok {
				delete(s1.vars, id.Name)
			}
		}
		w.block(s1, x.Body.List)
	case *ast.SwitchStmt:
		s1 := s.clone()
		if x.Init != nil {
			w.stmt(s1, x.Init)
		}
		tagPath := ""
		if x.Tag != nil {
			if v, ok := w.resolve(s1, x.Tag); ok && len(v.path) > 0 && v.path[len(v.path)-1] == "Type" {
				tagPath = strings.Join(v.path, ".")
			} else {
				w.expr(s1, x.Tag)
			}
		}
		fallen := false
		for _, cc := range x.Body.List {
			clause := cc.(*ast.CaseClause)
			sc := s1.clone()
			for _, e := range clause.List {
				w.expr(sc, e)
			}
			if tagPath != "" && len(clause.List) == 1 && !fallen {
				if lit, ok := strLit(clause.List[0]); ok {
					sc.conds = append(sc.conds, tagPath+"="+lit)
				}
			}
			w.block(sc, clause.Body)
			fallen = false
			if n := len(clause.Body); n > 0 {
				if br, ok := clause.Body[n-1].(*ast.BranchStmt); ok && br.Tok == token.FALLTHROUGH {
					fallen = true
				}
			}
		}
	case *ast.TypeSwitchStmt:
		s1 := s.clone()
		if x.Init != nil {
			w.stmt(s1, x.Init)
		}
		w.stmt(s1, x.Assign)
		for _, cc := range x.Body.List {
			w.block(s1.clone(), cc.(*ast.CaseClause).Body)
		}
	case *ast.SelectStmt:
		for _, cc := range x.Body.List {
			cl := cc.(*ast.CommClause)
			sc := s.clone()
			if cl.Comm != nil {
				w.stmt(sc, cl.Comm)
			}
			w.block(sc, cl.Body)
		}
	}
}

func c10IsClientType(name string) bool {
	if strings.HasSuffix(name, "ClientMessage") {
		return true
	}
	switch name {
	case "HelloClientMessageAuth", "RoomFederationMessage", "MessageClientMessageRecipient", "MessageClientMessageData",
		"AddSessionOptions", "ClientTypeInternalAuthParams", "HelloV2AuthParams", "FederationAuthParams":
		return true
	}
	return false
}

func c10FuncName(fd *ast.FuncDecl) string {
	if fd.Recv != nil && len(fd.Recv.List) == 1 {
		tn, _ := c10TypeName(fd.Recv.List[0].Type)
		return tn + "." + fd.Name.Name
	}
	return fd.Name.Name
}

func c10Lean(items []string, cols int) string {
	var rows []string
	for _, it := range items {
		parts := strings.SplitN(it, "|", cols)
		for len(parts) < cols {
			parts = append(parts, "")
		}
		q := make([]string, len(parts))
		for i, p := range parts {
			q[i] = leanStr(p)
		}
		rows = append(rows, "  ("+strings.Join(q, ", ")+")")
	}
	if len(rows) == 0 {
		return "[]"
	}
	return "[\n" + strings.Join(rows, ",\n") + "]"
}

func c10Sorted(m map[string]bool) []string {
	var out []string
	for k := range m {
		out = append(out, k)
	}
	sort.Strings(out)
	return out
}

func genShapesClient(c *ctx) *leanFile {
	l := c.newLean("ShapesClient", c10Files...)
	api := c.file("api_signaling.go")
	types := c10CollectTypes(api)

	// ---- client.go: size limit and read path ----
	cl := c.file("client.go")
	scope := pkgValues(cl)
	var maxSize int64
	okMax := false
	if e, ok := scope["maxMessageSize"]; ok {
		maxSize, okMax = c.evalInt(e, scope, 0)
	}
	l.nat("maxMessageSize", maxSize, okMax && maxSize > 0, "const maxMessageSize not found in client.go")
	readLimit, binaryRejected := false, false
	if fd := findFunc(cl, "Client", "ReadPump"); fd != nil && fd.Body != nil {
		ast.Inspect(fd.Body, func(n ast.Node) bool {
			switch x := n.(type) {
			case *ast.CallExpr:
				if sel, ok := x.Fun.(*ast.SelectorExpr); ok && sel.Sel.Name == "SetReadLimit" && len(x.Args) == 1 && isIdent(x.Args[0], "maxMessageSize") {
					readLimit = true
				}
			case *ast.IfStmt:
				if be, ok := x.Cond.(*ast.BinaryExpr); ok && be.Op == token.NEQ && isIdent(be.X, "messageType") && isSel(be.Y, "websocket", "TextMessage") {
					sendsError, continues := false, false
					for _, st := range x.Body.List {
						if es, ok := st.(*ast.ExprStmt); ok {
							if call, ok := es.X.(*ast.CallExpr); ok {
								if sel, ok := call.Fun.(*ast.SelectorExpr); ok && sel.Sel.Name == "SendError" && len(call.Args) == 1 && isIdent(call.Args[0], "InvalidFormat") {
									sendsError = true
								}
							}
						}
						if br, ok := st.(*ast.BranchStmt); ok && br.Tok == token.CONTINUE {
							continues = true
						}
					}
					binaryRejected = sendsError && continues
				}
			}
			return true
		})
	}
	l.boolean("readLimitIsMaxMessageSize", readLimit, readLimit, "ReadPump: conn.SetReadLimit(maxMessageSize) not found")
	l.boolean("binaryFrameAnsweredInvalidFormat", binaryRejected, binaryRejected,
		"ReadPump: `if messageType != websocket.TextMessage { ...; c.SendError(InvalidFormat); continue }` not found")

	// ---- hub.go: processMessage ----
	hub := c.file("hub.go")
	pm := findFunc(hub, "Hub", "processMessage")
	decodeFirst, validateBefore, preAuth, labelMapped := false, false, false, false
	var localTypes []string
	var dispatch []string
	okLocal, okDispatch, okLabel := false, false, false
	if pm != nil && pm.Body != nil {
		stmts := pm.Body.List
		idxDecode, idxValid, idxFirstUse := -1, -1, -1
		endsWithReturn := func(b *ast.BlockStmt) bool {
			return len(b.List) > 0 && func() bool { _, ok := b.List[len(b.List)-1].(*ast.ReturnStmt); return ok }()
		}
		isCallOn := func(e ast.Expr, recv, method string) bool {
			call, ok := e.(*ast.CallExpr)
			if !ok {
				return false
			}
			sel, ok := call.Fun.(*ast.SelectorExpr)
			return ok && isIdent(sel.X, recv) && sel.Sel.Name == method
		}
		for i, st := range stmts {
			if is, ok := st.(*ast.IfStmt); ok && is.Init != nil {
				if as, ok := is.Init.(*ast.AssignStmt); ok && len(as.Rhs) == 1 {
					if isCallOn(as.Rhs[0], "message", "UnmarshalJSON") && endsWithReturn(is.Body) && idxDecode < 0 {
						idxDecode = i
					}
					if isCallOn(as.Rhs[0], "message", "CheckValid") && endsWithReturn(is.Body) && idxValid < 0 {
						idxValid = i
					}
				}
				continue
			}
			uses := false
			ast.Inspect(st, func(n ast.Node) bool {
				if sel, ok := n.(*ast.SelectorExpr); ok && isIdent(sel.X, "message") {
					uses = true
				}
				if u, ok := n.(*ast.UnaryExpr); ok && u.Op == token.AND && isIdent(u.X, "message") {
					uses = true
				}
				return true
			})
			if uses && idxFirstUse < 0 {
				idxFirstUse = i
			}
		}
		decodeFirst = idxDecode >= 0 && (idxFirstUse < 0 || idxDecode < idxFirstUse) && (idxValid < 0 || idxDecode < idxValid)
		validateBefore = idxValid >= 0 && (idxFirstUse < 0 || idxValid < idxFirstUse)
		ast.Inspect(pm.Body, func(n ast.Node) bool {
			switch x := n.(type) {
			case *ast.IfStmt:
				// if session == nil { if message.Type != "hello" {...return}; h.processHello(...); return }
				if be, ok := x.Cond.(*ast.BinaryExpr); ok && be.Op == token.EQL && isIdent(be.X, "session") && isNil(be.Y) && len(x.Body.List) == 3 {
					inner, ok1 := x.Body.List[0].(*ast.IfStmt)
					call, ok2 := x.Body.List[1].(*ast.ExprStmt)
					_, ok3 := x.Body.List[2].(*ast.ReturnStmt)
					if ok1 && ok2 && ok3 && endsWithReturn(inner.Body) && isCallOn(call.X, "h", "processHello") {
						if ib, ok := inner.Cond.(*ast.BinaryExpr); ok && ib.Op == token.NEQ && isSel(ib.X, "message", "Type") {
							if lit, ok := strLit(ib.Y); ok && lit == "hello" {
								preAuth = true
							}
						}
					}
				}
			case *ast.AssignStmt:
				if len(x.Lhs) == 1 && isIdent(x.Lhs[0], "isLocalMessage") && len(x.Rhs) == 1 {
					okLocal = true
					var collect func(e ast.Expr)
					collect = func(e ast.Expr) {
						be, ok := e.(*ast.BinaryExpr)
						if !ok {
							okLocal = false
							return
						}
						if be.Op == token.LOR {
							collect(be.X)
							collect(be.Y)
							return
						}
						lit, ok := strLit(be.Y)
						if be.Op == token.EQL && isSel(be.X, "message", "Type") && ok {
							localTypes = append(localTypes, lit)
							return
						}
						okLocal = false
					}
					collect(x.Rhs[0])
				}
			case *ast.SwitchStmt:
				if x.Tag != nil && isSel(x.Tag, "message", "Type") {
					okDispatch = true
					for _, cc := range x.Body.List {
						clause := cc.(*ast.CaseClause)
						target := ""
						for _, st := range clause.Body {
							if es, ok := st.(*ast.ExprStmt); ok {
								if call, ok := es.X.(*ast.CallExpr); ok {
									if sel, ok := call.Fun.(*ast.SelectorExpr); ok && isIdent(sel.X, "h") {
										target = sel.Sel.Name
									}
								}
							}
						}
						if clause.List == nil {
							dispatch = append(dispatch, "*|"+target)
						}
						for _, e := range clause.List {
							if lit, ok := strLit(e); ok {
								dispatch = append(dispatch, lit+"|"+target)
							} else {
								okDispatch = false
							}
						}
					}
				}
			case *ast.CallExpr:
				// statsMessagesTotal.WithLabelValues(<arg>)
				if sel, ok := x.Fun.(*ast.SelectorExpr); ok && sel.Sel.Name == "WithLabelValues" && isIdent(sel.X, "statsMessagesTotal") && len(x.Args) == 1 {
					okLabel = true
					if inner, ok := x.Args[0].(*ast.CallExpr); ok && len(inner.Args) == 1 && isSel(inner.Args[0], "message", "Type") {
						if id, ok := inner.Fun.(*ast.Ident); ok {
							labelMapped = c10IsLiteralMapper(findFunc(hub, "", id.Name))
						}
					}
				}
			}
			return true
		})
	}
	l.boolean("decodeBeforeUse", decodeFirst, pm != nil, "Hub.processMessage not found")
	l.boolean("validateBeforeDispatch", validateBefore, pm != nil, "Hub.processMessage not found")
	l.boolean("preHelloOnlyHello", preAuth, pm != nil, "Hub.processMessage not found")
	l.strList("localTypes", localTypes, okLocal, "processMessage: `isLocalMessage := message.Type == \"..\" || ...` not found")
	l.fact("dispatchTable")
	if !okDispatch {
		l.fail("dispatchTable: `switch message.Type` with literal cases not found in processMessage")
	}
	l.raw("def dispatchTable : List (String × String) := " + c10Lean(dispatch, 2))
	l.boolean("messageCounterLabelFromFixedSet", labelMapped, okLabel,
		"processMessage: statsMessagesTotal.WithLabelValues(..) not found")

	// ---- api_signaling.go: validation table ----
	var table []string
	nCheckValid := 0
	if api != nil {
		for _, d := range api.Decls {
			fd, ok := d.(*ast.FuncDecl)
			if !ok || fd.Name.Name != "CheckValid" || fd.Recv == nil || fd.Body == nil || len(fd.Recv.List) != 1 || len(fd.Recv.List[0].Names) != 1 {
				continue
			}
			recvType, _ := c10TypeName(fd.Recv.List[0].Type)
			if !c10IsClientType(recvType) {
				continue
			}
			nCheckValid++
			recvVar := fd.Recv.List[0].Names[0].Name
			table = append(table, c10ValidationRows(c, recvType, recvVar, fd.Body.List, "*")...)
		}
	}
	sort.Strings(table)
	l.fact("validation")
	if nCheckValid < 10 {
		l.fail(fmt.Sprintf("validation: only %d CheckValid methods found in api_signaling.go", nCheckValid))
	}
	l.raw("/-- (receiver type, case tag or `*`, field, kind): kind `nil` = compared with nil under an error return,\n`sub` = its own CheckValid is called and its error returned, `optsub` = validated if present. -/")
	l.raw("def validation : List (String × String × String × String) := " + c10Lean(table, 4))

	// ---- raw JSON members of client message types, and which of them CheckValid passes to json.Valid ----
	var rawMembers, rawValidated []string
	if api != nil {
		for _, d := range api.Decls {
			switch x := d.(type) {
			case *ast.GenDecl:
				if x.Tok != token.TYPE {
					continue
				}
				for _, sp := range x.Specs {
					ts := sp.(*ast.TypeSpec)
					st, ok := ts.Type.(*ast.StructType)
					if !ok || !c10IsClientType(ts.Name.Name) {
						continue
					}
					for _, fl := range st.Fields.List {
						if isSel(fl.Type, "json", "RawMessage") {
							for _, n := range fl.Names {
								rawMembers = append(rawMembers, ts.Name.Name+"|"+n.Name)
							}
						}
					}
				}
			case *ast.FuncDecl:
				if x.Name.Name != "CheckValid" || x.Recv == nil || x.Body == nil || len(x.Recv.List) != 1 || len(x.Recv.List[0].Names) != 1 {
					continue
				}
				recvType, _ := c10TypeName(x.Recv.List[0].Type)
				recvVar := x.Recv.List[0].Names[0].Name
				if !c10IsClientType(recvType) {
					continue
				}
				// if [...] !json.Valid(m.F) { return <error> }  (also as `else if`)
				ast.Inspect(x.Body, func(n ast.Node) bool {
					is, ok := n.(*ast.IfStmt)
					if !ok || len(is.Body.List) == 0 {
						return true
					}
					rs, ok := is.Body.List[len(is.Body.List)-1].(*ast.ReturnStmt)
					if !ok || len(rs.Results) != 1 || isNil(rs.Results[0]) {
						return true
					}
					var conj func(e ast.Expr)
					conj = func(e ast.Expr) {
						switch y := e.(type) {
						case *ast.BinaryExpr:
							if y.Op == token.LAND {
								conj(y.X)
								conj(y.Y)
							}
						case *ast.UnaryExpr:
							if y.Op != token.NOT {
								return
							}
							call, ok := y.X.(*ast.CallExpr)
							if !ok || !isSel(call.Fun, "json", "Valid") || len(call.Args) != 1 {
								return
							}
							if sel, ok := call.Args[0].(*ast.SelectorExpr); ok && isIdent(sel.X, recvVar) {
								rawValidated = append(rawValidated, recvType+"|"+sel.Sel.Name)
							}
						}
					}
					conj(is.Cond)
					return true
				})
			}
		}
	}
	sort.Strings(rawMembers)
	sort.Strings(rawValidated)
	l.fact("rawMembers")
	if len(rawMembers) < 3 {
		l.fail("rawMembers: json.RawMessage members of the client message types not found")
	}
	l.raw("/-- json.RawMessage members of the client message types (the decoder only skips over them). -/")
	l.raw("def rawMembers : List (String × String) := " + c10Lean(rawMembers, 2))
	l.fact("rawValidated")
	l.raw("/-- those of them a CheckValid passes to json.Valid under an error return. -/")
	l.raw("def rawValidated : List (String × String) := " + c10Lean(rawValidated, 2))

	// ---- dereference table ----
	derefs, asserts, indexes := map[string]bool{}, map[string]bool{}, map[string]bool{}
	nfuncs := 0
	for _, rel := range c10Files {
		f := c.file(rel)
		if f == nil {
			l.fail("derefs: cannot read " + rel)
			continue
		}
		for _, d := range f.Decls {
			fd, ok := d.(*ast.FuncDecl)
			if !ok || fd.Body == nil {
				continue
			}
			var work []c10Lit
			name := c10FuncName(fd)
			params := fd.Type.Params.List
			if fd.Recv != nil {
				params = append(append([]*ast.Field(nil), fd.Recv.List...), params...)
			}
			for _, fl := range params {
				tn, ptr := c10TypeName(fl.Type)
				if _, known := types[tn]; known && ptr && c10IsClientType(tn) {
					for _, n := range fl.Names {
						work = append(work, c10Lit{name: name, par: n.Name, typ: tn})
					}
				}
			}
			if len(work) == 0 {
				// still look for function literals with a client-message parameter
				work = append(work, c10Lit{name: name})
			}
			for len(work) > 0 {
				it := work[0]
				work = work[1:]
				w := &c10Walker{c: c, types: types, fn: it.name, root: it.typ, derefs: derefs, asserts: asserts, indexes: indexes}
				s := &c10Scope{vars: map[string]c10Val{}, guarded: map[string]bool{}}
				tracked := it.par != ""
				if tracked {
					s.vars[it.par] = c10Val{path: nil, typ: it.typ}
					nfuncs++
				}
				body := fd.Body
				if it.lit != nil {
					body = it.lit.Body
				}
				if tracked {
					w.block(s, body.List)
				} else {
					// only discover literals
					ast.Inspect(body, func(n ast.Node) bool {
						if fl, ok := n.(*ast.FuncLit); ok {
							w.expr(s, fl)
							return false
						}
						return true
					})
					// forget what the untracked walk recorded about indexes/asserts
				}
				work = append(work, w.lits...)
			}
		}
	}
	// assertions / index expressions are only reported for functions that see a client message
	seen := map[string]bool{}
	for k := range derefs {
		seen[strings.SplitN(k, "|", 2)[0]] = true
	}
	l.fact("derefs")
	if nfuncs < 20 {
		l.fail(fmt.Sprintf("derefs: only %d functions with a client message parameter found", nfuncs))
	}
	l.raw("/-- (function, pointer path below its client-message parameter, `<path>.Type=<lit>` conditions in force):\ndereferenced without a syntactic nil guard. -/")
	l.raw("def derefs : List (String × String × String) := " + c10Lean(c10Minimal(derefs), 3))
	l.fact("typeAssertions")
	l.raw("def typeAssertions : List (String × String) := " + c10Lean(c10Sorted(asserts), 2))
	l.fact("indexExprs")
	l.raw("def indexExprs : List (String × String) := " + c10Lean(c10Sorted(indexes), 2))

	// ---- uses of the (nil) result of a failed comma-ok type assertion ----
	var failed []string
	for _, rel := range c10DeferredFiles(c) {
		f := c.file(rel)
		if f == nil {
			continue
		}
		for _, d := range f.Decls {
			if fd, ok := d.(*ast.FuncDecl); ok && fd.Body != nil {
				failed = append(failed, c10FailedAssertionUses(c, c10FuncName(fd), fd.Body)...)
			}
		}
	}
	if ff := c.file("federation.go"); ff != nil {
		for _, d := range ff.Decls {
			if fd, ok := d.(*ast.FuncDecl); ok && fd.Body != nil {
				failed = append(failed, c10FailedAssertionUses(c, c10FuncName(fd), fd.Body)...)
			}
		}
	}
	sort.Strings(failed)
	l.fact("failedAssertionUses")
	l.raw("/-- (function, selector expression): `x, ok := e.(T)` with a pointer or named type, and `x.<sel>` used on the\npath where `ok` is false (x is nil there: a method call or field access panics). Whole root package\nexcept the media code. -/")
	l.raw("def failedAssertionUses : List (String × String) := " + c10Lean(failed, 2))
	return l
}

// c10FailedAssertionUses: `x, ok := e.(T)` (as a statement or as the init of an `if`) and a use `x.<sel>` in
// the branch taken when ok is false.
func c10FailedAssertionUses(c *ctx, fn string, body *ast.BlockStmt) []string {
	var out []string
	nilable := func(t ast.Expr) bool {
		switch x := t.(type) {
		case *ast.StarExpr:
			return true
		case *ast.Ident:
			switch x.Name {
			case "string", "bool", "int", "int8", "int16", "int32", "int64", "uint", "uint8", "uint16", "uint32", "uint64",
				"float32", "float64", "byte", "rune", "uintptr", "complex64", "complex128":
				return false
			}
			return true // a named type: may be an interface
		case *ast.SelectorExpr, *ast.InterfaceType:
			return true
		}
		return false
	}
	commaOk := func(st ast.Stmt) (x, ok string) {
		as, isAs := st.(*ast.AssignStmt)
		if !isAs || len(as.Lhs) != 2 || len(as.Rhs) != 1 {
			return "", ""
		}
		ta, isTa := as.Rhs[0].(*ast.TypeAssertExpr)
		if !isTa || ta.Type == nil || !nilable(ta.Type) {
			return "", ""
		}
		xi, ok1 := as.Lhs[0].(*ast.Ident)
		oi, ok2 := as.Lhs[1].(*ast.Ident)
		if !ok1 || !ok2 || xi.Name == "_" || oi.Name == "_" {
			return "", ""
		}
		return xi.Name, oi.Name
	}
	uses := func(x string, n ast.Node) {
		if n == nil {
			return
		}
		reassigned := false
		ast.Inspect(n, func(m ast.Node) bool {
			if reassigned {
				return false
			}
			switch y := m.(type) {
			case *ast.AssignStmt:
				for _, l := range y.Lhs {
					if isIdent(l, x) {
						reassigned = true
					}
				}
			case *ast.SelectorExpr:
				if isIdent(y.X, x) {
					out = append(out, fn+"|"+c10Src(c.fset, y))
				}
			}
			return true
		})
	}
	// the branch of `if` taken when `okName` is false
	failedBranch := func(is *ast.IfStmt, x, okName string) bool {
		if u, isU := is.Cond.(*ast.UnaryExpr); isU && u.Op == token.NOT && isIdent(u.X, okName) {
			uses(x, is.Body)
			return true
		} else if isIdent(is.Cond, okName) {
			if is.Else != nil {
				uses(x, is.Else)
			}
			return true
		}
		return false
	}
	ast.Inspect(body, func(n ast.Node) bool {
		switch b := n.(type) {
		case *ast.BlockStmt:
			for i, st := range b.List {
				if x, okName := commaOk(st); x != "" {
					for _, later := range b.List[i+1:] {
						if is, isIf := later.(*ast.IfStmt); isIf && is.Init == nil && failedBranch(is, x, okName) {
							break
						}
					}
				}
			}
		case *ast.CaseClause:
			for i, st := range b.Body {
				if x, okName := commaOk(st); x != "" {
					for _, later := range b.Body[i+1:] {
						if is, isIf := later.(*ast.IfStmt); isIf && is.Init == nil && failedBranch(is, x, okName) {
							break
						}
					}
				}
			}
		case *ast.IfStmt:
			if b.Init != nil {
				if x, okName := commaOk(b.Init); x != "" {
					failedBranch(b, x, okName)
				}
			}
		}
		return true
	})
	return out
}

// c10IsLiteralMapper: func f(x string) string { switch x { case "a", "b": return x; default: return "lit" } }
func c10IsLiteralMapper(fd *ast.FuncDecl) bool {
	if fd == nil || fd.Body == nil || len(fd.Body.List) != 1 || len(fd.Type.Params.List) != 1 || len(fd.Type.Params.List[0].Names) != 1 {
		return false
	}
	par := fd.Type.Params.List[0].Names[0].Name
	sw, ok := fd.Body.List[0].(*ast.SwitchStmt)
	if !ok || !isIdent(sw.Tag, par) {
		return false
	}
	hasDefault := false
	for _, cc := range sw.Body.List {
		clause := cc.(*ast.CaseClause)
		if len(clause.Body) != 1 {
			return false
		}
		rs, ok := clause.Body[0].(*ast.ReturnStmt)
		if !ok || len(rs.Results) != 1 {
			return false
		}
		if clause.List == nil {
			hasDefault = true
			if _, ok := strLit(rs.Results[0]); !ok {
				return false
			}
			continue
		}
		for _, e := range clause.List {
			if _, ok := strLit(e); !ok {
				return false
			}
		}
		if _, isLit := strLit(rs.Results[0]); !isLit && !isIdent(rs.Results[0], par) {
			return false
		}
	}
	return hasDefault
}

// c10ValidationRows reads the guard structure of one CheckValid body.
func c10ValidationRows(c *ctx, recvType, recvVar string, stmts []ast.Stmt, tag string) []string {
	var rows []string
	fieldOf := func(e ast.Expr) (string, bool) {
		sel, ok := e.(*ast.SelectorExpr)
		if ok && isIdent(sel.X, recvVar) {
			return sel.Sel.Name, true
		}
		return "", false
	}
	returnsError := func(b *ast.BlockStmt) bool {
		if len(b.List) == 0 {
			return false
		}
		rs, ok := b.List[len(b.List)-1].(*ast.ReturnStmt)
		return ok && len(rs.Results) == 1 && !isNil(rs.Results[0])
	}
	// sub-validation: `<x> := m.F.CheckValid(); err != nil { return err }` or `return m.F.CheckValid()`
	subCall := func(e ast.Expr) (string, bool) {
		call, ok := e.(*ast.CallExpr)
		if !ok {
			return "", false
		}
		sel, ok := call.Fun.(*ast.SelectorExpr)
		if !ok || sel.Sel.Name != "CheckValid" {
			return "", false
		}
		return fieldOf(sel.X)
	}
	var ifChain func(is *ast.IfStmt, tag string, optional string)
	ifChain = func(is *ast.IfStmt, tag string, optional string) {
		// if m.F == nil [|| ...] { return err }
		if be, ok := is.Cond.(*ast.BinaryExpr); ok {
			first := be
			for first.Op == token.LOR {
				if inner, ok := first.X.(*ast.BinaryExpr); ok {
					first = inner
				} else {
					break
				}
			}
			if first.Op == token.EQL && isNil(first.Y) && returnsError(is.Body) {
				if f, ok := fieldOf(first.X); ok {
					rows = append(rows, recvType+"|"+tag+"|"+f+"|nil")
				}
			}
			if first.Op == token.NEQ && isNil(first.Y) {
				if f, ok := fieldOf(first.X); ok {
					// if m.F != nil { if err := m.F.CheckValid(); err != nil { return err } }
					for _, st := range is.Body.List {
						if inner, ok := st.(*ast.IfStmt); ok && inner.Init != nil {
							if as, ok := inner.Init.(*ast.AssignStmt); ok && len(as.Rhs) == 1 {
								if sf, ok := subCall(as.Rhs[0]); ok && sf == f && returnsError(inner.Body) {
									rows = append(rows, recvType+"|"+tag+"|"+f+"|optsub")
								}
							}
						}
					}
				}
			}
		}
		if is.Init != nil {
			if as, ok := is.Init.(*ast.AssignStmt); ok && len(as.Rhs) == 1 {
				if f, ok := subCall(as.Rhs[0]); ok && returnsError(is.Body) {
					rows = append(rows, recvType+"|"+tag+"|"+f+"|sub")
				}
			}
		}
		if next, ok := is.Else.(*ast.IfStmt); ok {
			ifChain(next, tag, optional)
		}
	}
	for _, st := range stmts {
		switch x := st.(type) {
		case *ast.SwitchStmt:
			if f, ok := fieldOf(x.Tag); ok && f == "Type" {
				for _, cc := range x.Body.List {
					clause := cc.(*ast.CaseClause)
					for _, e := range clause.List {
						lit, ok := strLit(e)
						if !ok {
							continue
						}
						rows = append(rows, recvType+"|"+lit+"||case")
						for _, cs := range clause.Body {
							if is, ok := cs.(*ast.IfStmt); ok {
								before := len(rows)
								ifChain(is, lit, "")
								_ = before
							}
							if rs, ok := cs.(*ast.ReturnStmt); ok && len(rs.Results) == 1 && !isNil(rs.Results[0]) {
								rows = append(rows, recvType+"|"+lit+"||reject")
							}
						}
					}
				}
			}
		case *ast.IfStmt:
			// HelloClientMessage: if m.ResumeId == "" { if m.Auth == nil || ... { return err } ... }
			if be, ok := x.Cond.(*ast.BinaryExpr); ok && be.Op == token.EQL {
				if f, ok := fieldOf(be.X); ok {
					if lit, ok := strLit(be.Y); ok && lit == "" {
						if len(x.Body.List) > 0 {
							if inner, ok := x.Body.List[0].(*ast.IfStmt); ok {
								n := len(rows)
								ifChain(inner, f+"=", "")
								_ = n
							}
						}
						continue
					}
				}
			}
			ifChain(x, tag, "")
		case *ast.ReturnStmt:
			if len(x.Results) == 1 {
				if call, ok := x.Results[0].(*ast.CallExpr); ok {
					if sel, ok := call.Fun.(*ast.SelectorExpr); ok && sel.Sel.Name == "CheckValid" {
						if inner, ok := sel.X.(*ast.SelectorExpr); ok && isIdent(inner.X, recvVar) {
							rows = append(rows, recvType+"|"+tag+"|"+inner.Sel.Name+"|sub")
						}
					}
				}
			}
		}
	}
	return rows
}

// c10Minimal drops an entry when the same function/path is also dereferenced
// under a subset of its conditions (the weaker entry subsumes it).
func c10Minimal(m map[string]bool) []string {
	all := c10Sorted(m)
	subset := func(a, b []string) bool {
		for _, x := range a {
			found := false
			for _, y := range b {
				if x == y {
					found = true
				}
			}
			if !found {
				return false
			}
		}
		return true
	}
	split := func(k string) (string, []string) {
		p := strings.SplitN(k, "|", 3)
		var conds []string
		if p[2] != "" {
			conds = strings.Split(p[2], ";")
		}
		return p[0] + "|" + p[1], conds
	}
	var out []string
	for i, k := range all {
		key, conds := split(k)
		dominated := false
		for j, k2 := range all {
			if i == j {
				continue
			}
			key2, conds2 := split(k2)
			if key2 == key && subset(conds2, conds) && (len(conds2) < len(conds) || j < i) {
				dominated = true
			}
		}
		if !dominated {
			out = append(out, k)
		}
	}
	return out
}
