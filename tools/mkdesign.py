#!/usr/bin/env python3
"""Refresh the generated blocks of DESIGN.md (between <!-- AUTO:name --> and <!-- /AUTO:name -->) from the files
that are the source of truth: MANIFEST.json (what each check claims), tools/props/*.py (theorem lists),
known_findings.json (findings and fixes), seeded/*/meta.json (seeded changes and what the checks reported)."""
import glob, json, os, re, sys

VERIF = os.path.dirname(os.path.dirname(os.path.abspath(__file__)))
sys.path.insert(0, os.path.join(VERIF, "tools"))


def esc(s):
    return (s or "").replace("|", "\\|").replace("\n", " ")


def asbuilt():
    m = json.load(open(os.path.join(VERIF, "MANIFEST.json")))
    return {c["property_id"]: c for c in m["checks"]}


def block_asbuilt(pid, checks):
    c = checks.get(pid)
    if not c:
        return "**As built.** not claimed (see MANIFEST.json `not_applicable`)."
    th = theorem_names(pid)
    s = "**As built.** " + c["level_claimed"]["text"].strip()
    s += "\n\n*Theorems registered for the check* (%d; axioms audited on every run): %s." % (len(th), ", ".join("`%s`" % t.split(".")[-1] for t in th))
    s += "\n\n*Limits / trusted.* " + c["level_note"].strip()
    return s


def theorem_names(pid):
    import props
    return list(props.PROPS.get(pid, {}).get("theorems", []))


def block_findings():
    k = json.load(open(os.path.join(VERIF, "known_findings.json")))
    rows = ["| Property | Finding | Status | What failed on the pinned tree |", "|---|---|---|---|"]
    for e in sorted(k, key=lambda e: (e["property"], e["id"])):
        st = e["status"] + (" `%s`" % e["commit"] if e.get("commit") else "")
        rows.append("| %s | %s | %s | %s |" % (e["property"], e["id"], st, esc(e["what"])[:420]))
    n_fixed = sum(1 for e in k if e["status"] == "fixed")
    n_open = sum(1 for e in k if e["status"] == "open")
    return "%d findings: %d repaired by `fix:` commits in /repo, %d open (printed as KNOWN-FINDING by its check).\n\n%s" % (len(k), n_fixed, n_open, "\n".join(rows))


def block_seeded():
    rows = ["| Seeded change | Breaks | What it is (needs) | quick tier | thorough tier |", "|---|---|---|---|---|"]
    n = det = conc = 0
    for d in sorted(glob.glob(os.path.join(VERIF, "seeded", "C??-?"))):
        m = json.load(open(os.path.join(d, "meta.json")))
        n += 1
        def cell(t):
            r = (m.get("checks") or {}).get(t)
            if not r:
                return "not run"
            if not r.get("detected"):
                return "**missed**"
            how = "; ".join(r.get("reported") or [])[:160]
            return ("VIOLATION with failing input" if r.get("concrete_failing_input") else "VIOLATION, no-failing-input-found") + " — " + esc(how)
        q = (m.get("checks") or {}).get("quick") or {}
        t = (m.get("checks") or {}).get("thorough") or {}
        if q.get("detected") or t.get("detected"):
            det += 1
        if q.get("concrete_failing_input") or t.get("concrete_failing_input"):
            conc += 1
        rows.append("| %s | %s | %s | %s | %s |" % (m["id"], m["breaks_property"], esc(m.get("summary"))[:260] + " *Needs:* " + esc(m.get("needs_to_manifest"))[:200], cell("quick"), cell("thorough")))
    return "%d seeded changes kept; %d detected by the check of the property they break (%d with a concrete failing input).\n\n%s" % (n, det, conc, "\n".join(rows))


def main():
    p = os.path.join(VERIF, "DESIGN.md")
    s = open(p).read()
    checks = asbuilt()
    def repl(m):
        name = m.group(1)
        if name.startswith("asbuilt-"):
            body = block_asbuilt(name.split("-", 1)[1], checks)
        elif name == "findings":
            body = block_findings()
        elif name == "seeded":
            body = block_seeded()
        else:
            return m.group(0)
        return "<!-- AUTO:%s -->\n%s\n<!-- /AUTO:%s -->" % (name, body, name)
    s2 = re.sub(r"<!-- AUTO:([\w-]+) -->.*?<!-- /AUTO:\1 -->", repl, s, flags=re.S)
    open(p, "w").write(s2)
    print("DESIGN.md refreshed")

main()
