/-
Byte strings for the models that handle wire data (C15 session ids, C02 checksums, …).
Core Lean only.  `Bytes = List UInt8`, so that theorems are ordinary list theorems.
-/
import SigModel.Basic.Proto

namespace SigModel

abbrev Bytes := List UInt8

namespace Bytes

/-- Bytes of an ASCII string constant (reduces under `decide`, unlike `String.toUTF8`).
For non-ASCII characters the low 8 bits of the code point are taken; only used on
identifiers / header names extracted from the Go source. -/
def ascii (s : String) : Bytes := s.toList.map (fun c => UInt8.ofNat c.toNat)

/-- UTF-8 bytes of an arbitrary string (for the drivers). -/
def utf8 (s : String) : Bytes := s.toUTF8.toList

def hexDigit (n : Nat) : UInt8 :=
  if n < 10 then UInt8.ofNat (48 + n) else UInt8.ofNat (87 + n)

/-- Lower-case hex, two digits per byte (Go: `hex.EncodeToString`). -/
def toHex : Bytes → Bytes
  | [] => []
  | b :: rest => hexDigit (b.toNat / 16) :: hexDigit (b.toNat % 16) :: toHex rest

def toHexString (b : Bytes) : String := String.ofList ((toHex b).map (fun c => Char.ofNat c.toNat))

def hexVal (c : UInt8) : Option Nat :=
  let n := c.toNat
  if 48 ≤ n ∧ n ≤ 57 then some (n - 48)
  else if 97 ≤ n ∧ n ≤ 102 then some (n - 87)
  else if 65 ≤ n ∧ n ≤ 70 then some (n - 55)
  else none

def ofHex : Bytes → Option Bytes
  | [] => some []
  | a :: b :: rest =>
    match hexVal a, hexVal b, ofHex rest with
    | some x, some y, some r => some (UInt8.ofNat (x * 16 + y) :: r)
    | _, _, _ => none
  | _ => none

def ofHexString (s : String) : Option Bytes := ofHex (ascii s)

/-- Decimal digits of a natural number (Go: `%d` of a non-negative integer). -/
def decDigits (n : Nat) : Bytes := (Nat.repr n).toList.map (fun c => UInt8.ofNat c.toNat)

/-- Everything before the first occurrence of `sep` and everything after it
(`none` when `sep` does not occur). -/
def splitFirst (sep : UInt8) : Bytes → Option (Bytes × Bytes)
  | [] => none
  | b :: rest =>
    if b = sep then some ([], rest)
    else match splitFirst sep rest with
      | some (l, r) => some (b :: l, r)
      | none => none

theorem splitFirst_spec {sep : UInt8} {bs l r : Bytes} (h : splitFirst sep bs = some (l, r)) :
    bs = l ++ sep :: r ∧ sep ∉ l := by
  induction bs generalizing l r with
  | nil => simp [splitFirst] at h
  | cons b rest ih =>
    unfold splitFirst at h
    by_cases hb : b = sep
    · simp [hb] at h
      obtain ⟨rfl, rfl⟩ := h
      simp [hb]
    · simp only [hb, if_false] at h
      cases hs : splitFirst sep rest with
      | none => simp [hs] at h
      | some p =>
        obtain ⟨l', r'⟩ := p
        simp [hs] at h
        obtain ⟨rfl, rfl⟩ := h
        obtain ⟨h1, h2⟩ := ih hs
        refine ⟨by simp [h1], ?_⟩
        simp only [List.mem_cons, not_or]
        exact ⟨fun h => hb h.symm, h2⟩

theorem splitFirst_append {sep : UInt8} {l : Bytes} (r : Bytes) (h : sep ∉ l) :
    splitFirst sep (l ++ sep :: r) = some (l, r) := by
  induction l with
  | nil => simp [splitFirst]
  | cons b l ih =>
    simp only [List.mem_cons, not_or] at h
    have hb : b ≠ sep := fun e => h.1 e.symm
    simp [splitFirst, hb, ih h.2]

theorem splitFirst_none {sep : UInt8} {bs : Bytes} (h : sep ∉ bs) : splitFirst sep bs = none := by
  induction bs with
  | nil => rfl
  | cons b l ih =>
    simp only [List.mem_cons, not_or] at h
    have hb : b ≠ sep := fun e => h.1 e.symm
    simp [splitFirst, hb, ih h.2]

end Bytes
end SigModel
