/-
Byte strings for the models that handle wire data (C15 session ids, C02 checksums, …).
Core Lean only.  `Bytes = List UInt8`, so that theorems are ordinary list theorems.
-/
import SigModel.Basic.Proto

namespace SigModel

abbrev Bytes := List UInt8

namespace Bytes

/-- Bytes of an ASCII string constant (reduces under `decide`, unlike `String.toUTF8`).
For non-ASCII characters the low 8 bits of the code point are taken; only used on
identifiers / header names extracted from the Go source. -/
def ascii (s : String) : Bytes := s.toList.map (fun c => UInt8.ofNat c.toNat)

/-- UTF-8 bytes of an arbitrary string (for the drivers). -/
def utf8 (s : String) : Bytes := s.toUTF8.toList

def hexDigit (n : Nat) : UInt8 :=
  if n < 10 then UInt8.ofNat (48 + n) else UInt8.ofNat (87 + n)

/-- Lower-case hex, two digits per byte (Go: `hex.EncodeToString`). -/
def toHex : Bytes → Bytes
  | [] => []
  | b :: rest => hexDigit (b.toNat / 16) :: hexDigit (b.toNat % 16) :: toHex rest

def toHexString (b : Bytes) : String := String.ofList ((toHex b).map (fun c => Char.ofNat c.toNat))

def hexVal (c : UInt8) : Option Nat :=
  let n := c.toNat
  if 48 ≤ n ∧ n ≤ 57 then some (n - 48)
  else if 97 ≤ n ∧ n ≤ 102 then some (n - 87)
  else if 65 ≤ n ∧ n ≤ 70 then some (n - 55)
  else none

def ofHex : Bytes → Option Bytes
  | [] => some []
  | a :: b :: rest =>
    match hexVal a, hexVal b, ofHex rest with
    | some x, some y, some r => some (UInt8.ofNat (x * 16 + y) :: r)
    | _, _, _ => none
  | _ => none

def ofHexString (s : String) : Option Bytes := ofHex (ascii s)

/-- Decimal digits of a natural number (Go: `%d` of a non-negative integer). -/
def decDigits (n : Nat) : Bytes := (Nat.repr n).toList.map (fun c => UInt8.ofNat c.toNat)

/-- Everything before the first occurrence of `sep` and everything after it
(`none` when `sep` does not occur). -/
def splitFirst (sep : UInt8) : Bytes → Option (Bytes × Bytes)
  | [] => none
  | b :: rest =>
    if b = sep then some ([], rest)
    else match splitFirst sep rest with
      | some (l, r) => some (b :: l, r)
      | none => none

theorem splitFirst_spec {sep : UInt8} {bs l r : Bytes} (h : splitFirst sep bs = some (l, r)) :
    bs = l ++ sep :: r ∧ sep ∉ l := by
  induction bs generalizing l r with
  | nil => simp [splitFirst] at h
  | cons b rest ih =>
    unfold splitFirst at h
    by_cases hb : b = sep
    · simp [hb] at h
      obtain ⟨rfl, rfl⟩ := h
      simp [hb]
    · simp only [hb, if_false] at h
      cases hs : splitFirst sep rest with
      | none => simp [hs] at h
      | some p =>
        obtain ⟨l', r'⟩ := p
        simp [hs] at h
        obtain ⟨rfl, rfl⟩ := h
        obtain ⟨h1, h2⟩ := ih hs
        refine ⟨by simp [h1], ?_⟩
        simp only [List.mem_cons, not_or]
        exact ⟨fun h => hb h.symm, h2⟩

theorem splitFirst_append {sep : UInt8} {l : Bytes} (r : Bytes) (h : sep ∉ l) :
    splitFirst sep (l ++ sep :: r) = some (l, r) := by
  induction l with
  | nil => simp [splitFirst]
  | cons b l ih =>
    simp only [List.mem_cons, not_or] at h
    have hb : b ≠ sep := fun e => h.1 e.symm
    simp [splitFirst, hb, ih h.2]

theorem splitFirst_none {sep : UInt8} {bs : Bytes} (h : sep ∉ bs) : splitFirst sep bs = none := by
  induction bs with
  | nil => rfl
  | cons b l ih =>
    simp only [List.mem_cons, not_or] at h
    have hb : b ≠ sep := fun e => h.1 e.symm
    simp [splitFirst, hb, ih h.2]

/-! ### hex is injective -/

theorem hexDigit_inj : ∀ x, x < 16 → ∀ y, y < 16 → hexDigit x = hexDigit y → x = y := by decide

theorem toHex_injective : ∀ {a b : Bytes}, toHex a = toHex b → a = b
  | [], [], _ => rfl
  | [], _ :: _, h => by simp [toHex] at h
  | _ :: _, [], h => by simp [toHex] at h
  | x :: a, y :: b, h => by
    simp only [toHex, List.cons.injEq] at h
    obtain ⟨h1, h2, h3⟩ := h
    have hx := x.toNat_lt
    have hy := y.toNat_lt
    have e1 := hexDigit_inj _ (by omega) _ (by omega) h1
    have e2 := hexDigit_inj _ (Nat.mod_lt _ (by omega)) _ (Nat.mod_lt _ (by omega)) h2
    have : x.toNat = y.toNat := by omega
    rw [UInt8.toNat_inj.mp this, toHex_injective h3]

theorem toHex_length (b : Bytes) : (toHex b).length = 2 * b.length := by
  induction b with
  | nil => rfl
  | cons x r ih => simp only [toHex, List.length_cons, ih]; omega

/-- Hex text consists of the characters `0-9a-f`. -/
theorem hexDigit_range : ∀ x, x < 16 → (48 ≤ (hexDigit x).toNat ∧ (hexDigit x).toNat ≤ 57) ∨
    (97 ≤ (hexDigit x).toNat ∧ (hexDigit x).toNat ≤ 102) := by decide

theorem mem_toHex {c : UInt8} {b : Bytes} (h : c ∈ toHex b) :
    (48 ≤ c.toNat ∧ c.toNat ≤ 57) ∨ (97 ≤ c.toNat ∧ c.toNat ≤ 102) := by
  induction b with
  | nil => simp [toHex] at h
  | cons x r ih =>
    simp only [toHex, List.mem_cons] at h
    have hx := x.toNat_lt
    rcases h with rfl | rfl | h
    · exact hexDigit_range _ (by omega)
    · exact hexDigit_range _ (Nat.mod_lt _ (by omega))
    · exact ih h

end Bytes
end SigModel
