/-
Base64 as Go's `encoding/base64` does it (padded encodings `URLEncoding` and
`StdEncoding`, non-strict) — including the decoder's leniency, which is what the
session-id finding of C15 is about:

* `\r` and `\n` are skipped wherever they occur (also between and after padding);
* the unused low bits of the last sextet before padding are *not* checked;
* everything else is rejected: foreign characters, a quantum cut short without
  padding, padding after fewer than two sextets, a single `=` where two are due,
  anything but CR/LF after the padding.

Source read: go1.23 `encoding/base64/base64.go` (`decodeQuantum`, `Decode`; the
`assemble32/64` fast paths agree with `decodeQuantum` on all-alphabet input).
Callers: gorilla/securecookie `encode`/`decode` (URLEncoding.Encode/Decode) and
`reverseSessionId` (URLEncoding.DecodeString/EncodeToString).
-/
import SigModel.Basic.Bytes

namespace SigModel.Base64

/-- The two characters in which the URL-safe and the standard alphabet differ. -/
structure Alphabet where
  c62 : UInt8
  c63 : UInt8
  deriving DecidableEq, Repr

def url : Alphabet := ⟨45, 95⟩    -- '-' '_'
def std : Alphabet := ⟨43, 47⟩    -- '+' '/'

def padChar : UInt8 := 61          -- '='

def encChar (al : Alphabet) (n : Nat) : UInt8 :=
  if n < 26 then UInt8.ofNat (65 + n)
  else if n < 52 then UInt8.ofNat (97 + (n - 26))
  else if n < 62 then UInt8.ofNat (48 + (n - 52))
  else if n = 62 then al.c62 else al.c63

def decChar (al : Alphabet) (c : UInt8) : Option Nat :=
  let n := c.toNat
  if 65 ≤ n ∧ n ≤ 90 then some (n - 65)
  else if 97 ≤ n ∧ n ≤ 122 then some (n - 97 + 26)
  else if 48 ≤ n ∧ n ≤ 57 then some (n - 48 + 52)
  else if c = al.c62 then some 62
  else if c = al.c63 then some 63
  else none

def isNL (c : UInt8) : Bool := c == 10 || c == 13

/-! ### Encoder (`Encoding.Encode`, with padding) -/

def encode (al : Alphabet) : Bytes → Bytes
  | a :: b :: c :: rest =>
    encChar al (a.toNat / 4) :: encChar al ((a.toNat % 4) * 16 + b.toNat / 16) ::
    encChar al ((b.toNat % 16) * 4 + c.toNat / 64) :: encChar al (c.toNat % 64) :: encode al rest
  | [a, b] =>
    [encChar al (a.toNat / 4), encChar al ((a.toNat % 4) * 16 + b.toNat / 16),
     encChar al ((b.toNat % 16) * 4), padChar]
  | [a] => [encChar al (a.toNat / 4), encChar al ((a.toNat % 4) * 16), padChar, padChar]
  | [] => []

/-! ### Decoder (`Encoding.Decode`, non-strict) -/

def skipNL : Bytes → Bytes
  | [] => []
  | c :: r => if isNL c then skipNL r else c :: r

def byte0 (v0 v1 : Nat) : UInt8 := UInt8.ofNat (v0 * 4 + v1 / 16)
def byte1 (v1 v2 : Nat) : UInt8 := UInt8.ofNat ((v1 % 16) * 16 + v2 / 4)
def byte2 (v2 v3 : Nat) : UInt8 := UInt8.ofNat ((v2 % 4) * 64 + v3)

/-- `q` = sextets of the quantum being assembled (fewer than four). -/
def decodeAux (al : Alphabet) : Bytes → List Nat → Option Bytes
  | [], q => if q.isEmpty then some [] else none
  | c :: rest, q =>
    match decChar al c with
    | some v =>
      match q with
      | [v0, v1, v2] =>
        match decodeAux al rest [] with
        | some out => some (byte0 v0 v1 :: byte1 v1 v2 :: byte2 v2 v :: out)
        | none => none
      | _ => decodeAux al rest (q ++ [v])
    | none =>
      if isNL c then decodeAux al rest q
      else if c = padChar then
        match q with
        | [v0, v1] =>
          match skipNL rest with
          | p :: r2 => if p = padChar ∧ skipNL r2 = [] then some [byte0 v0 v1] else none
          | [] => none
        | [v0, v1, v2] => if skipNL rest = [] then some [byte0 v0 v1, byte1 v1 v2] else none
        | _ => none
      else none

def decode (al : Alphabet) (s : Bytes) : Option Bytes := decodeAux al s []

/-- `s` is the one spelling the encoder produces for the bytes it decodes to. -/
def canonical (al : Alphabet) (s : Bytes) : Bool :=
  match decode al s with
  | some bs => encode al bs == s
  | none => false

/-! ### Round trip -/

theorem decChar_encChar_url : ∀ n, n < 64 → decChar url (encChar url n) = some n := by decide
theorem decChar_encChar_std : ∀ n, n < 64 → decChar std (encChar std n) = some n := by decide

/-- The alphabets for which the round-trip theorem is stated. -/
def Alphabet.Good (al : Alphabet) : Prop :=
  (∀ n, n < 64 → decChar al (encChar al n) = some n) ∧ decChar al padChar = none

theorem url_good : url.Good := ⟨decChar_encChar_url, by decide⟩
theorem std_good : std.Good := ⟨decChar_encChar_std, by decide⟩

private theorem b0 (a b : UInt8) : byte0 (a.toNat / 4) ((a.toNat % 4) * 16 + b.toNat / 16) = a := by
  have ha := a.toNat_lt
  have hb := b.toNat_lt
  unfold byte0
  have : a.toNat / 4 * 4 + ((a.toNat % 4) * 16 + b.toNat / 16) / 16 = a.toNat := by omega
  rw [this]; exact UInt8.ofNat_toNat

private theorem b1 (a b c : UInt8) :
    byte1 ((a.toNat % 4) * 16 + b.toNat / 16) ((b.toNat % 16) * 4 + c.toNat / 64) = b := by
  have ha := a.toNat_lt
  have hb := b.toNat_lt
  have hc := c.toNat_lt
  unfold byte1
  have : (((a.toNat % 4) * 16 + b.toNat / 16) % 16) * 16 + ((b.toNat % 16) * 4 + c.toNat / 64) / 4 = b.toNat := by
    omega
  rw [this]; exact UInt8.ofNat_toNat

private theorem b2 (b c : UInt8) : byte2 ((b.toNat % 16) * 4 + c.toNat / 64) (c.toNat % 64) = c := by
  have hb := b.toNat_lt
  have hc := c.toNat_lt
  unfold byte2
  have : (((b.toNat % 16) * 4 + c.toNat / 64) % 4) * 64 + c.toNat % 64 = c.toNat := by omega
  rw [this]; exact UInt8.ofNat_toNat

theorem decode_encode {al : Alphabet} (hg : al.Good) (bs : Bytes) : decode al (encode al bs) = some bs := by
  unfold decode
  induction bs using encode.induct with
  | case1 a b c rest ih =>
    have ha := a.toNat_lt
    have hb := b.toNat_lt
    have hc := c.toNat_lt
    have h0 := hg.1 (a.toNat / 4) (by omega)
    have h1 := hg.1 ((a.toNat % 4) * 16 + b.toNat / 16) (by omega)
    have h2 := hg.1 ((b.toNat % 16) * 4 + c.toNat / 64) (by omega)
    have h3 := hg.1 (c.toNat % 64) (by omega)
    simp only [encode, decodeAux, h0, h1, h2, h3, List.nil_append, List.cons_append, ih, b0, b1, b2]
  | case2 a b =>
    have ha := a.toNat_lt
    have hb := b.toNat_lt
    have h0 := hg.1 (a.toNat / 4) (by omega)
    have h1 := hg.1 ((a.toNat % 4) * 16 + b.toNat / 16) (by omega)
    have h2 := hg.1 ((b.toNat % 16) * 4) (by omega)
    have hb1 : byte1 ((a.toNat % 4) * 16 + b.toNat / 16) ((b.toNat % 16) * 4) = b := by
      have := b1 a b 0; simpa using this
    have hnl : isNL padChar = false := by decide
    simp [encode, decodeAux, h0, h1, h2, hg.2, hnl, skipNL, b0, hb1]
  | case3 a =>
    have ha := a.toNat_lt
    have h0 := hg.1 (a.toNat / 4) (by omega)
    have h1 := hg.1 ((a.toNat % 4) * 16) (by omega)
    have hb0 : byte0 (a.toNat / 4) ((a.toNat % 4) * 16) = a := by
      have := b0 a 0; simpa using this
    have hnl : isNL padChar = false := by decide
    simp [encode, decodeAux, h0, h1, hg.2, hnl, skipNL, hb0]
  | case4 => simp [encode, decodeAux]

/-- A canonical string is the encoding of what it decodes to — so two canonical
strings that decode to the same bytes are the same string. -/
theorem canonical_iff {al : Alphabet} {s : Bytes} :
    canonical al s = true ↔ ∃ bs, decode al s = some bs ∧ encode al bs = s := by
  unfold canonical
  cases h : decode al s with
  | none => simp
  | some bs => simp

theorem canonical_encode {al : Alphabet} (hg : al.Good) (bs : Bytes) : canonical al (encode al bs) = true := by
  rw [canonical_iff]; exact ⟨bs, decode_encode hg bs, rfl⟩

/-- The encoder is injective (for a good alphabet). -/
theorem encode_injective {al : Alphabet} (hg : al.Good) {x y : Bytes} (h : encode al x = encode al y) : x = y := by
  have hx := decode_encode hg x
  rw [h, decode_encode hg y] at hx
  exact (Option.some.inj hx).symm

/-! ### The leniency, exhibited (non-strict decoding is many-to-one) -/

/-- `"QQ=="` and `"QR=="` both decode to `"A"` (padding bits ignored), and so does
`"QQ=\n="` (newlines skipped). -/
example : decode url [81, 81, 61, 61] = some [65] ∧ decode url [81, 82, 61, 61] = some [65]
    ∧ decode url [81, 81, 61, 10, 61] = some [65] ∧ decode url [81, 13, 81, 61, 61, 10] = some [65] := by decide

example : canonical url [81, 81, 61, 61] = true ∧ canonical url [81, 82, 61, 61] = false
    ∧ canonical url [81, 81, 61, 10, 61] = false := by decide

end SigModel.Base64
