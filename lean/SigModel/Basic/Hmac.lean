/-
HMAC (RFC 2104) over SHA-256, executable, core Lean only.

In the theorems a MAC is always a *parameter* `mac : Bytes → Bytes → Bytes`
(key, message ↦ tag) constrained by the explicit hypothesis `IdealMac` below;
`hmacSha256` is the instance the drivers execute and the harness compares with
Go's `crypto/hmac` on every generated input.
-/
import SigModel.Basic.Sha256

namespace SigModel.Hmac

def blockSize : Nat := 64

def hmacSha256 (key msg : Bytes) : Bytes :=
  let k0 := if key.length > blockSize then Sha256.hash key else key
  let k := k0 ++ List.replicate (blockSize - k0.length) (0 : UInt8)
  let ipad := k.map (· ^^^ 0x36)
  let opad := k.map (· ^^^ 0x5c)
  Sha256.hash (opad ++ Sha256.hash (ipad ++ msg))

/-- A MAC function: key, message ↦ tag. -/
abbrev Mac := Bytes → Bytes → Bytes

/-- The idealisation under which the security theorems are stated: different
(key, message) pairs never share a tag.  A hypothesis of the theorems, never an
axiom; `IdealMac.example` shows it is satisfiable. -/
def IdealMac (mac : Mac) : Prop :=
  ∀ k₁ m₁ k₂ m₂, mac k₁ m₁ = mac k₂ m₂ → k₁ = k₂ ∧ m₁ = m₂

/-- A (useless, but injective) MAC: the key length in unary, a zero, the key, the
message — so that the pair can be read back from the tag. -/
def toyMac : Mac := fun k m => List.replicate k.length (1 : UInt8) ++ (0 : UInt8) :: (k ++ m)

private theorem replicate_zero_split {a b : Nat} {x y : Bytes}
    (h : List.replicate a (1 : UInt8) ++ (0 : UInt8) :: x = List.replicate b (1 : UInt8) ++ (0 : UInt8) :: y) :
    a = b ∧ x = y := by
  induction a generalizing b with
  | zero =>
    cases b with
    | zero => simpa using h
    | succ b => simp [List.replicate_succ] at h
  | succ a ih =>
    cases b with
    | zero => simp [List.replicate_succ] at h
    | succ b =>
      simp only [List.replicate_succ, List.cons_append, List.cons.injEq, true_and] at h
      obtain ⟨h1, h2⟩ := ih h
      exact ⟨by omega, h2⟩

theorem toyMac_ideal : IdealMac toyMac := by
  intro k₁ m₁ k₂ m₂ h
  unfold toyMac at h
  obtain ⟨hl, hx⟩ := replicate_zero_split h
  exact List.append_inj hx hl

end SigModel.Hmac
