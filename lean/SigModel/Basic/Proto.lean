/-
Line protocol helpers shared by all drivers (core Lean only).

One operation per line, tokens separated by single spaces.  Strings travel
percent-encoded (every byte outside `[A-Za-z0-9_.:/@+=,-]` becomes `%XX`; the empty
string is `%`), so a token never contains a space.  The implementation's
observed output follows the op after a ` | ` separator.
-/
namespace SigModel.Proto

def hexDigit (n : Nat) : Char :=
  if n < 10 then Char.ofNat (48 + n) else Char.ofNat (87 + n)

def hexVal (c : Char) : Option Nat :=
  if '0' ≤ c ∧ c ≤ '9' then some (c.toNat - 48)
  else if 'a' ≤ c ∧ c ≤ 'f' then some (c.toNat - 87)
  else if 'A' ≤ c ∧ c ≤ 'F' then some (c.toNat - 55)
  else none

def safeByte (b : UInt8) : Bool :=
  let n := b.toNat
  (48 ≤ n && n ≤ 57) || (65 ≤ n && n ≤ 90) || (97 ≤ n && n ≤ 122) ||
  n == 95 || n == 46 || n == 58 || n == 47 || n == 64 || n == 43 || n == 61 || n == 44 || n == 45

def encBytes (bs : List UInt8) : String :=
  if bs.isEmpty then "%" else
  String.ofList <| bs.foldr (fun b acc =>
    if safeByte b then Char.ofNat b.toNat :: acc
    else '%' :: hexDigit (b.toNat / 16) :: hexDigit (b.toNat % 16) :: acc) []

def enc (s : String) : String := encBytes s.toUTF8.toList

def decBytesAux : List Char → List UInt8 → Option (List UInt8)
  | [], acc => some acc.reverse
  | '%' :: a :: b :: rest, acc =>
    match hexVal a, hexVal b with
    | some x, some y => decBytesAux rest (UInt8.ofNat (x * 16 + y) :: acc)
    | _, _ => none
  | '%' :: _, _ => none
  | c :: rest, acc => decBytesAux rest (UInt8.ofNat c.toNat :: acc)

def decBytes (tok : String) : Option (List UInt8) :=
  if tok == "%" then some [] else decBytesAux tok.toList []

def dec (tok : String) : Option String :=
  match decBytes tok with
  | some bs => String.fromUTF8? (ByteArray.mk bs.toArray)
  | none => none

/-- Hex string (two digits per byte) to bytes as naturals. -/
def hexToNats : List Char → Option (List Nat)
  | [] => some []
  | a :: b :: rest =>
    match hexVal a, hexVal b, hexToNats rest with
    | some x, some y, some r => some ((x * 16 + y) :: r)
    | _, _, _ => none
  | _ => none

def natsToHex (bs : List Nat) : String :=
  String.ofList <| bs.foldr (fun b acc => hexDigit (b / 16) :: hexDigit (b % 16) :: acc) []

def dropS (n : Nat) (s : String) : String := String.ofList (s.toList.drop n)
def takeS (n : Nat) (s : String) : String := String.ofList (s.toList.take n)
def hasPrefix (p s : String) : Bool := p.toList.isPrefixOf s.toList
def stripEOL (s : String) : String :=
  String.ofList (s.toList.reverse.dropWhile (fun c => c == '\n' || c == '\r')).reverse

def toInt? (s : String) : Option Int := s.toInt?
def toNat? (s : String) : Option Nat := s.toNat?

def tokens (line : String) : List String :=
  (line.splitOn " ").filter (· ≠ "")

/-- Split `op … | impl …` into the two token lists. -/
def splitLine (line : String) : List String × List String :=
  let toks := tokens line
  let l := toks.takeWhile (· ≠ "|")
  let r := (toks.dropWhile (· ≠ "|")).drop 1
  (l, r)

def joinToks (ts : List String) : String := " ".intercalate ts

end SigModel.Proto
