import SigModel.Driver.C15

open SigModel.Driver

def main (_args : List String) : IO UInt32 := do
  let inp ← IO.getStdin
  let out ← IO.getStdout
  loop ({} : C15.St) C15.step inp out {}
  return 0
