import SigModel.Driver.Loop
import SigModel.Spec.Throttle

namespace SigModel.Driver.C17
open SigModel.Proto SigModel.Throttle

def parseAddr (tok : String) : Option Addr :=
  if hasPrefix "r:" tok then (dec (dropS 2 tok)).map Addr.raw
  else if hasPrefix "6:" tok then
    -- `6:<32 hex digits>/<raw string>`: the raw string is for the implementation side only
    match hexToNats (takeS 32 (dropS 2 tok)).toList with
    | some bs => if bs.length = 16 then some (.v6 bs) else none
    | none => none
  else none

def parseOp : List String → Option Op
  | ["attempt", now, addr, act, f] => do
    let n ← toInt? now; let a ← parseAddr addr; let s ← dec act
    some (.attempt n a s (f == "1"))
  | ["cleanup", now] => do some (.cleanup (← toInt? now))
  | ["check", now, addr, act] => do
    some (.checkOnly (← toInt? now) (← parseAddr addr) (← dec act))
  | ["throttle", now, addr, act] => do
    some (.throttleOnly (← toInt? now) (← parseAddr addr) (← dec act))
  -- `par <now> <addr> <action> <n> <mode> <m> <dt>`: the mode (how the goroutines are released) and the
  -- number `m` of checks made at `now + dt` alongside the failures are the harness's business: no
  -- interleaving loses a record (`C17_concurrent_no_record_lost`), so what is left at rest is what one
  -- check at `now + dt` leaves
  | ["par", now, addr, act, n, _mode, _m, dt] => do
    some (.par (← toInt? now) (← parseAddr addr) (← dec act) (← toNat? n) (← toNat? dt))
  | _ => none

def showList {α : Type} (f : α → String) (pfx : String) (l : List α) : String :=
  pfx ++ (if l.isEmpty then "-" else ",".intercalate (l.map f))

/-- `<pfx>-` or `<pfx>n1,n2,…` -/
def parseNats (pfx tok : String) : Option (List Nat) :=
  if !hasPrefix pfx tok then none else
  let body := dropS pfx.length tok
  if body == "-" then some [] else (body.splitOn ",").mapM toNat?

def showOut : Out → String
  | .refused => "refused"
  | .passed => "passed"
  | .delayed ns => s!"delayed {ns}"
  | .none => "none"
  | .rest p r b ds => s!"rest {p} {r} {if b then 1 else 0} " ++ showList toString "d:" ds

def parseOut : List String → Option Out
  | ["refused"] => some .refused
  | ["passed"] => some .passed
  | ["delayed", ns] => (toNat? ns).map .delayed
  | ["none"] => some .none
  -- the trailing `r:` token (records) is compared with the model's state as text only; `D:` = delays whose
  -- pairing with counts depends on the interleaving (dropped from the textual comparison)
  | ["rest", p, r, b, ds, _recs] => do
    some (.rest (← toNat? p) (← toNat? r) (b == "1")
      (← (parseNats "d:" ds).orElse fun _ => parseNats "D:" ds))
  | _ => none

structure St where
  model : State := State.empty
  judge : Judge := {}

def step (st : St) (op impl : List String) : St × String × String :=
  match op with
  | ["keyeq", a, b] =>
    match parseAddr a, parseAddr b with
    | some x, some y =>
      let m := if throttleKey x = throttleKey y then "1" else "0"
      -- statement: IPv6 ⇒ same /64; anything else ⇒ the address itself
      let spec := match x, y with
        | .v6 p, .v6 q => decide (p.take 8 = q.take 8)
        | .raw p, .raw q => decide (p = q)
        | _, _ => false
      let v := match impl with
        | [i] => if (i == "1") == spec then "ok" else "violated:key-sharing"
        | _ => "na"
      (st, m, v)
    | _, _ => (st, "bad-op", "na")
  -- `site <now> <addr> <action> <cred>`: one attempt as it arrives at the handler of its kind (room API,
  -- internal hello, resuming hello).  Model: `siteAttempt` over the regenerated facts about that call
  -- site, plus the answer; judge: the statement's whole attempt — a blocked address is refused whatever
  -- it presents, a rejected credential is a failure.  Implementation line: `<outcome> <answer>`.
  | ["site", now, addr, act, cred] =>
    match toInt? now, parseAddr addr, dec act with
    | some n, some ad, some a =>
      match siteOf a, credFails a cred with
      | some sp, some failed =>
        let (m', out) := siteAttempt (siteCfg sp.1 sp.2) st.model n ad a failed
        let answer := match out with
          | .refused => refusalOf sp.2
          | _ => credAnswer a cred
        let (j', v) := match impl.reverse with
          | _ans :: rest =>
            match parseOut rest.reverse with
            | some io => st.judge.observe (.attempt n ad a failed) io
            | none => (st.judge, "na")
          | [] => (st.judge, "na")
        ({ model := m', judge := j' }, showOut out ++ " " ++ answer, v)
      | _, _ => (st, "bad-op", "na")
    | _, _, _ => (st, "bad-op", "na")
  | _ =>
  match parseOp op with
  | none => (st, "bad-op", "na")
  | some o =>
    let (m', out) := SigModel.Throttle.step st.model o
    let (j', v) := match parseOut impl with
      | some io => st.judge.observe o io
      | none => (st.judge, "na")
    -- a `par` also shows the records of its key/kind at rest (the model's state itself is compared):
    -- those not older than twelve hours at `now + dt` — whether an expired record is still in the list
    -- depends on which of the concurrent checks saw the address blocked
    let shown := match o, out, op with
      | .par now addr a _ dt, .rest p r b ds, [_, _, _, _, _, _, m, _] =>
        let recs := (m' (throttleKey addr) a).filter fun t => decide (now + dt - t ≤ (stmtAge : Int))
        let loose := dt != 0 && m != "0"
        s!"rest {p} {r} {if b then 1 else 0} " ++ showList toString (if loose then "D:" else "d:") ds
          ++ " " ++ showList toString "r:" recs
      | _, _, _ => showOut out
    ({ model := m', judge := j' }, shown, v)

end SigModel.Driver.C17
