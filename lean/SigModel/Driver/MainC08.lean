import SigModel.Driver.C08

open SigModel.Driver

def main (_args : List String) : IO UInt32 := do
  let inp ← IO.getStdin
  let out ← IO.getStdout
  loop ({} : C08.St) C08.step inp out {}
  return 0
