import SigModel.Driver.C02

open SigModel.Driver

def main (_args : List String) : IO UInt32 := do
  let inp ← IO.getStdin
  let out ← IO.getStdout
  loop ({} : C02.St) C02.step inp out {}
  return 0
