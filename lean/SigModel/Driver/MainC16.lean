import SigModel.Driver.C16

open SigModel.Driver

def main (_args : List String) : IO UInt32 := do
  let inp ← IO.getStdin
  let out ← IO.getStdout
  loop ({} : C16.St) C16.step inp out {}
  return 0
