import SigModel.Driver.Loop
import SigModel.Spec.Transient
import SigModel.Spec.TransientRooms

/-! Driver for C14 — transient room data (`Model/Transient.lean`, `Spec/Transient.lean`).

Keys and values stay the (percent-encoded) tokens of the op line: the model treats
them as opaque; `~` is Go's `nil`. -/
namespace SigModel.Driver.C14
open SigModel.Proto SigModel.Transient

def nilTok : String := "~"

def optVal (tok : String) : Option Val := if tok == nilTok then none else some tok

def parseOp : List String → Option Op
  | ["set", k, v, ttl] => do some (.set k (optVal v) (← toInt? ttl))
  | ["set0", k, v] => some (.set k (optVal v) 0)
  | ["cas", k, old, v, ttl] => do some (.cas k (optVal old) (optVal v) (← toInt? ttl))
  | ["cas0", k, old, v] => some (.cas k (optVal old) (optVal v) 0)
  | ["rm", k] => some (.remove k)
  | ["casrm", k, old] => some (.casRemove k (optVal old))
  | ["add", l] => do some (.addListener (← toNat? l))
  | ["del", l] => do some (.removeListener (← toNat? l))
  | ["get"] => some .get
  | ["adv", dt] => do
    let d ← toInt? dt
    some (.advance d.toNat)
  | _ => none

/-! ### rendering (must match `vC14World.observe` of the harness) -/

def showOpt : Option Val → String
  | some v => v
  | none => nilTok

def showMap (m : List (Key × Val)) : String :=
  "{" ++ ",".intercalate ((canonMap m).map (fun p => p.1 ++ "=" ++ p.2)) ++ "}"

def showMsg : Msg → String
  | .initial d => "init" ++ showMap d
  | .set k v old => "set(" ++ k ++ "," ++ v ++ "," ++ showOpt old ++ ")"
  | .remove k old => "rm(" ++ k ++ "," ++ old ++ ")"

def insertNat (n : Nat) : List Nat → List Nat
  | [] => [n]
  | m :: r => if n < m then n :: m :: r else if n = m then m :: r else m :: insertNat n r

def sortNats (ns : List Nat) : List Nat := ns.foldr insertNat []

def showRet : Option Bool → String
  | some true => "1"
  | some false => "0"
  | none => "-"

def showOut (out : Out) : List String :=
  (sortNats (out.map (·.1))).map (fun l =>
    s!"L{l}:" ++ ";".intercalate ((msgsFor l out).map showMsg))

def showRes (r : Res) : String :=
  joinToks (["r=" ++ showRet r.ret] ++ showOut r.out ++
    ["d=" ++ showMap r.st.data,
     "t={" ++ ",".intercalate ((canonMap r.st.tmap).map (·.1)) ++ "}"])

/-! ### parsing the implementation's line -/

def splitTop (s : String) (sep : Char) : List String :=
  if s.isEmpty then [] else s.splitOn (String.singleton sep)

/-- `{k=v,k=v}` -/
def parseMap (s : String) : Option (List (Key × Val)) :=
  let cs := s.toList
  if cs.head? ≠ some '{' ∨ cs.getLast? ≠ some '}' then none else
  let inner := String.ofList ((cs.drop 1).dropLast)
  (splitTop inner ',').mapM (fun item =>
    match item.splitOn "=" with
    | [k, v] => some (k, v)
    | _ => none)

def stripParens (pfx s : String) : Option String :=
  if hasPrefix pfx s ∧ s.toList.getLast? = some ')' then
    some (String.ofList ((s.toList.drop pfx.length).dropLast))
  else none

def parseMsg (s : String) : Option Msg :=
  if hasPrefix "init" s then (parseMap (dropS 4 s)).map .initial
  else if hasPrefix "set(" s then
    match (stripParens "set(" s).map (·.splitOn ",") with
    | some [k, v, old] => some (.set k v (optVal old))
    | _ => none
  else if hasPrefix "rm(" s then
    match (stripParens "rm(" s).map (·.splitOn ",") with
    | some [k, old] => some (.remove k old)
    | _ => none
  else none

/-- `L<id>:<msg>;<msg>` -/
def parseListenerTok (tok : String) : Option Out :=
  match (dropS 1 tok).splitOn ":" with
  | idS :: rest =>
    match toNat? idS with
    | some l =>
      -- the messages themselves contain ':' (value tokens), so re-join
      let body := ":".intercalate rest
      ((splitTop body ';').mapM parseMsg).map (fun ms => ms.map (fun m => (l, m)))
    | none => none
  | [] => none

def parseObs (toks : List String) : Option Obs :=
  let rec go (ts : List String) (o : Obs) (seenR seenD seenT : Bool) : Option Obs :=
    match ts with
    | [] => if seenR ∧ seenD ∧ seenT then some o else none
    | t :: rest =>
      if hasPrefix "r=" t then
        let r := dropS 2 t
        let ret := if r == "1" then some (some true) else if r == "0" then some (some false)
                   else if r == "-" then some none else none
        match ret with
        | some x => go rest { o with ret := x } true seenD seenT
        | none => none
      else if hasPrefix "d=" t then
        match parseMap (dropS 2 t) with
        | some d => go rest { o with data := d } seenR true seenT
        | none => none
      else if hasPrefix "t=" t then
        match parseMap' (dropS 2 t) with
        | some ks => go rest { o with tkeys := ks } seenR seenD true
        | none => none
      else if hasPrefix "L" t then
        match parseListenerTok t with
        | some ms => go rest { o with msgs := o.msgs ++ ms } seenR seenD seenT
        | none => none
      else none
  go toks { ret := none, msgs := [], data := [], tkeys := [] } false false false
where
  parseMap' (s : String) : Option (List Key) :=
    let cs := s.toList
    if cs.head? ≠ some '{' ∨ cs.getLast? ≠ some '}' then none else
    some (splitTop (String.ofList ((cs.drop 1).dropLast)) ',')

/-! ### room level (`Model/TransientRooms.lean`, `Spec/TransientRooms.lean`; harness `zz_verif_c14_rooms_test.go`) -/

def wordOk (w : String) : Bool := !w.isEmpty && w.toList.all (fun c => c.isAlphanum)

/-- value token of the JSON string `"w"` a client sends (`json.RawMessage`) -/
def clientVal (w : String) : Val := "j:%22" ++ w ++ "%22"

/-- value token of the Go string `w` a room request on the bus carries -/
def backendVal (w : String) : Val := "s:" ++ w

def parseSess (t : String) : Option Lid := do
  let n ← toNat? t
  if n < 4 then some n else none

def parseRoom (t : String) : Option Nat := do
  let n ← toNat? t
  if 1 ≤ n ∧ n ≤ 2 then some n else none

def parseROp : List String → Option ROp
  | ["rjoin", s, r] => do some (.join (← parseSess s) (← parseRoom r))
  | ["rleave", s] => do some (.leave (← parseSess s))
  | ["rclose", s] => do some (.close (← parseSess s))
  | ["rset", s, k, w, ttl] => do
    let s ← parseSess s
    let t ← toInt? ttl
    if w == nilTok then some (.set s k none t)
    else if wordOk w then some (.set s k (some (clientVal w)) t) else none
  | ["rrm", s, k] => do some (.rm (← parseSess s) k)
  | ["rbset", r, k, w, ttl] => do
    let r ← parseRoom r
    let t ← toInt? ttl
    if wordOk w then some (.bset r k (backendVal w) t) else none
  | ["rbrm", r, k] => do some (.brm (← parseRoom r) k)
  | ["rdel", r] => do some (.del (← parseRoom r))
  | ["radv", dt] => do
    let d ← toInt? dt
    if 0 ≤ d ∧ d ≤ 600000000000 then some (.adv d.toNat) else none
  | ["rget"] => some .get
  | _ => none

def isRoomOp (op : List String) : Bool :=
  match op with
  | t :: _ => ["rjoin", "rleave", "rclose", "rset", "rrm", "rbset", "rbrm", "rdel", "radv", "rget"].contains t
  | [] => false

def showIds (ls : List Lid) : String :=
  if ls.isEmpty then "-" else ",".intercalate ((sortNats ls).map toString)

/-- sorted with repetitions (the `Z=` token lists every registration) -/
def insertNatDup (n : Nat) : List Nat → List Nat
  | [] => [n]
  | m :: r => if n ≤ m then n :: m :: r else m :: insertNatDup n r

def showIn (w : World) : String :=
  "in=" ++ String.join (sessions.map (fun s =>
    if s ∈ w.closed then "x" else
    match w.roomOf s with
    | none => "-"
    | some i =>
      match w.obj i with
      | some o => (if o.live then "" else "!") ++ toString o.rid
      | none => "?"))

def showWRes (r : WRes) : String :=
  let w := r.w
  let rooms := roomIds.flatMap (fun rid =>
    match w.liveRoom rid with
    | none => []
    | some o =>
      [s!"D{rid}=" ++ showMap o.td.data,
       s!"T{rid}=" ++ "{" ++ ",".intercalate ((canonMap o.td.tmap).map (·.1)) ++ "}",
       s!"A{rid}=" ++ showIds o.td.listeners])
  let z := ((w.objs.filter (fun o => !o.live)).flatMap (fun o => o.td.listeners)).foldr insertNatDup []
  joinToks ([r.oc] ++ showOut r.out ++ [showIn w] ++ rooms ++
    ["Z=" ++ (if z.isEmpty then "-" else ",".intercalate (z.map toString))])

def parseRObs (toks : List String) : Option RObs :=
  match toks with
  | [] => none
  | oc :: rest =>
    let rec go (ts : List String) (o : RObs) : Option RObs :=
      match ts with
      | [] => some o
      | t :: r =>
        if hasPrefix "L" t then
          match parseListenerTok t with
          | some ms => go r { o with msgs := o.msgs ++ ms }
          | none => none
        else if hasPrefix "D" t then
          match (dropS 1 t).splitOn "=" with
          | rid :: restEq =>
            match toNat? rid, parseMap ("=".intercalate restEq) with
            | some n, some d => go r { o with datas := o.datas ++ [(n, d)] }
            | _, _ => none
          | [] => none
        else if hasPrefix "in=" t || hasPrefix "T" t || hasPrefix "A" t || hasPrefix "Z=" t then go r o
        else none
    go rest { oc := oc, msgs := [], datas := [] }

structure St where
  model : State := {}
  judge : Judge := {}
  world : World := {}
  rjudge : RJudge := {}

/-- `late k v ttl <a…>`: the four model steps of the harness choreography. -/
def lateSteps (st : State) (k : Key) (v : Val) (ttl : Int) (a : Op) : Res :=
  let r1 := SigModel.Transient.step st (.set k (some v) ttl)
  let id := r1.st.nextId - 1                       -- the timer this SetTTL armed
  let r2 := SigModel.Transient.step r1.st (.fire ttl.toNat)
  let r3 := SigModel.Transient.step r2.st a
  let r4 := SigModel.Transient.step r3.st (.runCb id)
  { st := r4.st, out := r1.out ++ r2.out ++ r3.out ++ r4.out, ret := r3.ret }

/-- `conc <seed> <n>`: real goroutines — nothing to predict; the two permanent listeners'
sequences, applied to nothing, must give the final data. -/
def judgeConc (impl : List String) : String :=
  match impl with
  | ["conc", "hang"] => "violated:deadlock"
  | "conc" :: rest =>
    let ls := rest.filter (fun t => hasPrefix "L" t)
    let ds := rest.filter (fun t => hasPrefix "d=" t)
    match ds, ls.mapM parseListenerTok with
    | [d], some outs =>
      match parseMap (dropS 2 d) with
      | some data =>
        let bad := outs.filter (fun o => canonMap (applyMsgs [] (o.map (·.2))) != canonMap data)
        -- a listener that received nothing is right iff the data is empty
        if ls.length < 2 ∧ canonMap data != [] then "violated:replica-diverged:silent-listener"
        else if bad.isEmpty then "ok" else "violated:replica-diverged:concurrent"
      | none => "violated:unparsable-implementation-output"
    | _, _ => "violated:unparsable-implementation-output"
  | _ => "violated:unparsable-implementation-output"

def stepRoom (st : St) (op impl : List String) : St × String × String :=
  match parseROp op with
  | none => (st, "bad-op", "na")
  | some o =>
    let r := stepR st.world o
    let (j', v) := match parseRObs impl with
      | some obs => st.rjudge.observe o obs
      | none => (st.rjudge, if impl.isEmpty then "na" else "violated:unparsable-implementation-output")
    ({ st with world := r.w, rjudge := j' }, showWRes r, v)

def step (st : St) (op impl : List String) : St × String × String :=
  if isRoomOp op then stepRoom st op impl else
  match op with
  | ["conc", _, _] =>
    if impl.isEmpty then (st, "conc", "na") else (st, joinToks impl, judgeConc impl)
  | "late" :: k :: v :: ttl :: rest =>
    match toInt? ttl, parseOp rest with
    | some t, some a =>
      let isAdv : Bool := match a with | .advance _ => true | _ => false
      if v == nilTok || decide (t ≤ 0) || !a.quiescent || isAdv then
        (st, "bad-op", "na")
      else
        let r := lateSteps st.model k v t a
        let (j', verdict) := match parseObs impl with
          | some obs => st.judge.observeLate k v t a obs
          | none => (st.judge, if impl.isEmpty then "na" else "violated:unparsable-implementation-output")
        ({ st with model := r.st, judge := j' }, showRes r, verdict)
    | _, _ => (st, "bad-op", "na")
  | _ =>
  match parseOp op with
  | none => (st, "bad-op", "na")
  | some o =>
    let r := SigModel.Transient.step st.model o
    let (j', v) := match parseObs impl with
      | some obs => st.judge.observe o obs
      | none => (st.judge, if impl.isEmpty then "na" else "violated:unparsable-implementation-output")
    ({ st with model := r.st, judge := j' }, showRes r, v)

end SigModel.Driver.C14
