import SigModel.Driver.C11

open SigModel.Driver

def main (_args : List String) : IO UInt32 := do
  let inp ← IO.getStdin
  let out ← IO.getStdout
  loop ({} : C11.St) C11.step inp out {}
  return 0
