import SigModel.Driver.C04

open SigModel.Driver

def main (_args : List String) : IO UInt32 := do
  let inp ← IO.getStdin
  let out ← IO.getStdout
  loop ({} : C04.St) C04.step inp out {}
  return 0
