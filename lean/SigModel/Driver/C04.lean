import SigModel.Driver.HubCommon
import SigModel.Model.HubView

/-! Driver for C04: the shared hub model (`Model/Hub.lean`) with this property's judge. -/
namespace SigModel.Driver.C04
open SigModel.Proto SigModel.Hub SigModel.Driver.HubCommon

abbrev St := HubCommon.St

/-- The member sets the server holds (`rm:` entries of its tables) against the member sets the statement
gives for the history so far -- the model's rooms: each session is a member of the room its latest successful
join targeted unless it has left, was removed by the backend, said bye or expired since. -/
def judgeMembers (st : St) (impl : ImplOut) : List String :=
  if !impl.hasDigest then [] else
  let want := sortStrings ((digestTokens st.hub st.seen).filter (hasPrefix "rm:"))
  let got := sortStrings (((digestFind impl.digest "rm")).map (joinWith ":"))
  if want == got then [] else
    let d := (got.filter (!want.contains ·)).map ("+" ++ ·) ++ (want.filter (!got.contains ·)).map ("-" ++ ·)
    [s!"member-set-differs:{joinWith "," (d.take 4)}"]

def step (st : St) (op impl : List String) : St × String × String :=
  stepWith (fun st _ _ impl => verdictOf ((judgeTables impl).filter (fun e => !(hasPrefix "residue" e) && !(hasPrefix "listener" e)) ++ judgeViews st.views impl ++ judgeMembers st impl ++ (viewBad st.hub).map (fun s => s!"model-view-differs:s{s}"))) st op impl

end SigModel.Driver.C04
