import SigModel.Driver.C03

open SigModel.Driver

def main (_args : List String) : IO UInt32 := do
  let inp ← IO.getStdin
  let out ← IO.getStdout
  loop ({} : C03.St) C03.step inp out {}
  return 0
