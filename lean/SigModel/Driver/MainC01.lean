import SigModel.Driver.C01

open SigModel.Driver

def main (_args : List String) : IO UInt32 := do
  let inp ← IO.getStdin
  let out ← IO.getStdout
  loop ({} : C01.St) C01.step inp out {}
  return 0
