import SigModel.Driver.C07

open SigModel.Driver

def main (_args : List String) : IO UInt32 := do
  let inp ← IO.getStdin
  let out ← IO.getStdout
  loop ({} : C07.St) C07.step inp out {}
  return 0
