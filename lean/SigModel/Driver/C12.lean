import SigModel.Driver.Loop
import SigModel.Spec.ShapesFederation

/-! Driver for C12: parses the op lines of harness/signaling/zz_verif_c12_*.go
(the decoded shape of every hostile document travels with the op), runs the
model of the federation client and renders its effects in the harness's
canonical form; judges the implementation's observation with the spec. -/
namespace SigModel.Driver.C12
open SigModel.Proto SigModel.ShapesFederation

abbrev P (α : Type) := List String → Option (α × List String)

/-- Bytes to a string the way Go's `utf8.DecodeRune` walks them: every byte that does not start a
well-formed sequence becomes U+FFFD (easyjson keeps invalid bytes in decoded strings and writes
them as `\ufffd`; strings that differ only in their invalid bytes are therefore conflated here). -/
partial def lossyUTF8 : List UInt8 → List Char
  | [] => []
  | b :: r =>
    let n := b.toNat
    let cont (x : UInt8) : Bool := 0x80 ≤ x.toNat && x.toNat ≤ 0xBF
    if n < 0x80 then Char.ofNat n :: lossyUTF8 r
    else
      match r with
      | b1 :: r1 =>
        if 0xC2 ≤ n && n ≤ 0xDF && cont b1 then
          Char.ofNat ((n - 0xC0) * 64 + (b1.toNat - 0x80)) :: lossyUTF8 r1
        else
          match r1 with
          | b2 :: r2 =>
            let lo3 := if n = 0xE0 then 0xA0 else 0x80
            let hi3 := if n = 0xED then 0x9F else 0xBF
            if 0xE0 ≤ n && n ≤ 0xEF && lo3 ≤ b1.toNat && b1.toNat ≤ hi3 && cont b2 then
              Char.ofNat ((n - 0xE0) * 4096 + (b1.toNat - 0x80) * 64 + (b2.toNat - 0x80)) :: lossyUTF8 r2
            else
              match r2 with
              | b3 :: r3 =>
                let lo4 := if n = 0xF0 then 0x90 else 0x80
                let hi4 := if n = 0xF4 then 0x8F else 0xBF
                if 0xF0 ≤ n && n ≤ 0xF4 && lo4 ≤ b1.toNat && b1.toNat ≤ hi4 && cont b2 && cont b3 then
                  Char.ofNat ((n - 0xF0) * 262144 + (b1.toNat - 0x80) * 4096 + (b2.toNat - 0x80) * 64 + (b3.toNat - 0x80))
                    :: lossyUTF8 r3
                else Char.ofNat 0xFFFD :: lossyUTF8 r
              | [] => Char.ofNat 0xFFFD :: lossyUTF8 r
          | [] => Char.ofNat 0xFFFD :: lossyUTF8 r
      | [] => [Char.ofNat 0xFFFD]

def pStr : P String
  | t :: r =>
    match dec t with
    | some s => some (s, r)
    | none => (decBytes t).map fun bs => (String.ofList (lossyUTF8 bs), r)
  | [] => none

def pBool : P Bool
  | "1" :: r => some (true, r)
  | "0" :: r => some (false, r)
  | _ => none

def pNat : P Nat
  | t :: r => (toNat? t).map (·, r)
  | [] => none

def pOptStr : P (Option String)
  | "-" :: r => some (none, r)
  | "+" :: r => (pStr r).map fun (s, r) => (some s, r)
  | _ => none

def pMany {α : Type} (p : P α) : Nat → P (List α)
  | 0, r => some ([], r)
  | n + 1, r => do
    let (x, r) ← p r
    let (xs, r) ← pMany p n r
    some (x :: xs, r)

def pList {α : Type} (p : P α) : P (List α) := fun r => do
  let (n, r) ← pNat r
  pMany p n r

def pEntry : P MapEntry
  | "e" :: r => do
    let (u, r) ← pOptStr r
    let (l, r) ← pOptStr r
    some ({ sidU := u, sidL := l }, r)
  | _ => none

def pRoomEv : P (Option RoomEv)
  | "-" :: r => some (none, r)
  | "U" :: r => do
    let (roomId, r) ← pStr r
    let (users, r) ← pList pEntry r
    let (changed, r) ← pList pEntry r
    some (some { roomId, users, changed }, r)
  | _ => none

def pJoin : P (Option Entry)
  | "-" :: r => some (none, r)
  | "J" :: r => (pStr r).map fun (s, r) => (some { sessionId := s }, r)
  | _ => none

def pParty : P (Option Party)
  | "-" :: r => some (none, r)
  | "P" :: r => do
    let (t, r) ← pStr r
    let (s, r) ← pStr r
    some (some { type := t, sessionId := s }, r)
  | _ => none

def pTok : P String
  | t :: r => some (t, r)
  | [] => none

def pBody : P (Option Body)
  | "-" :: r => some (none, r)
  | "B" :: r => do
    let (sender, r) ← pParty r
    let (recipient, r) ← pParty r
    let (dataEmpty, r) ← pBool r
    let (aoOk, r) ← pBool r
    let (aoType, r) ← pStr r
    let (aoFrom, r) ← pStr r
    let (aoTo, r) ← pStr r
    let (nick, r) ← pBool r
    let (fmOk, r) ← pBool r
    let (fmPeer, r) ← pOptStr r
    let (origA, r) ← pTok r
    let (origB, r) ← pTok r
    some (some { sender, recipient, dataEmpty, aoOk, aoType, aoFrom, aoTo, nick, fmOk, fmPeer, origA, origB }, r)
  | _ => none

def pEvent : P (Option Event)
  | "-" :: r => some (none, r)
  | "V" :: r => do
    let (target, r) ← pStr r
    let (type, r) ← pStr r
    let (join, r) ← pList pJoin r
    let (leave, r) ← pList pStr r
    let (changeHasNil, r) ← pBool r
    let (switchTo, r) ← pBool r
    let (resumed, r) ← pBool r
    let (invite, r) ← pRoomEv r
    let (disinvite, r) ← pRoomEv r
    let (update, r) ← pRoomEv r
    let (flags, r) ← (match r with
      | "-" :: r => some (none, r)
      | "F" :: r => do
        let (a, r) ← pStr r
        let (b, r) ← pStr r
        some (some ({ roomId := a, sessionId := b } : FlagsEv), r)
      | _ => none)
    let (message, r) ← (match r with
      | "-" :: r => some (none, r)
      | "G" :: r => (pStr r).map fun (a, r) => (some ({ roomId := a } : MsgEv), r)
      | _ => none)
    some (some { target, type, join, leave, changeHasNil, switchTo, resumed, invite, disinvite, update, flags, message }, r)
  | _ => none

def pErr : P (Option Err)
  | "-" :: r => some (none, r)
  | "E" :: r => do
    let (code, r) ← pStr r
    let (detailsEmpty, r) ← pBool r
    let (detOk, r) ← pBool r
    let (detRoom, r) ← pOptStr r
    let (origDroom, r) ← pTok r
    some (some { code, detailsEmpty, detOk, detRoom, origDroom }, r)
  | _ => none

def pDec : P Dec
  | "X" :: r => some (.undecodable, r)
  | "M" :: r => do
    let (id, r) ← pStr r
    let (type, r) ← pStr r
    let (error, r) ← pErr r
    let (welcome, r) ← (match r with
      | "-" :: r => some (none, r)
      | "W" :: r => (pList pStr r).map fun (fs, r) => (some ({ features := fs } : Welcome), r)
      | _ => none)
    let (hello, r) ← (match r with
      | "-" :: r => some (none, r)
      | "H" :: r => do
        let (a, r) ← pStr r
        let (b, r) ← pStr r
        some (some ({ sessionId := a, resumeId := b } : Hello), r)
      | _ => none)
    let (bye, r) ← pBool r
    let (room, r) ← (match r with
      | "-" :: r => some (none, r)
      | "R" :: r => (pStr r).map fun (a, r) => (some ({ roomId := a } : RoomM), r)
      | _ => none)
    let (message, r) ← pBody r
    let (control, r) ← pBody r
    let (event, r) ← pEvent r
    let (transient, r) ← pBool r
    let (internal, r) ← pBool r
    let (dialout, r) ← pBool r
    some (.msg { id, type, error, welcome, hello, bye, room, message, control, event, transient, internal, dialout }, r)
  | _ => none

def optOf (key : String) (toks : List String) : Option String :=
  (toks.find? (fun t => hasPrefix (key ++ "=") t)).map (dropS (key.length + 1))

def parseOp : List String → Option Op
  | "start" :: r => some (.start (optOf "rid" r == some "1") (optOf "hide" r == some "1") (optOf "feat" r != some "0"))
  | "peer" :: _ :: r => (pDec r).map fun (d, _) => .peer d false
  | "peerwf" :: _ :: r => (pDec r).map fun (d, _) => .peer d true
  | ["bin", _] => some .bin
  | ["big", n] => (toNat? n).map .big
  | ["drop", "hold"] => some .hold
  | ["drop", _] => some .drop
  | ["up"] => some .up
  | ["local", "leave"] => some .localLeave
  | ["local", "msg"] => some .localMsg
  | ["probe"] => some .probe
  | ["expire"] => some .expire
  | _ => none

def joinBar (xs : List String) : String := if xs.isEmpty then "-" else joinWith "|" xs

/-- The canonical observation line for the effects of one step. -/
def render (op : Op) (st : Fed) (c : Ctx) : String :=
  match c.fault with
  | some (.crash site) => "crash:" ++ site
  | some (.deadlock l) => "deadlock:" ++ l
  | some (.spin site) => "spin:" ++ site
  | none =>
    match op with
    | .probe => "alive"
    | .expire => "expired"
    | _ =>
      let needsConn := match op with
        | .peer _ _ => true
        | .bin => true
        | .big _ => true
        | .drop => true
        | .hold => true
        | _ => false
      if needsConn && !st.connOpen then "no-conn"
      else
        let blind := match op with
          | .peer _ wf => wf
          | .drop => true
          | .hold => true
          | _ => false
        let pre := match op with
          | .start .. => ["connected"]
          | .peer _ true => ["wfault"]
          | .drop => ["dropped"]
          | .hold => ["dropped"]
          | _ => []
        let ls := c.effs.filterMap fun e =>
          match e with
          | .toLocal _ m => some m
          | .sessionClosed => some "closed"
          | _ => none
        let ps := c.effs.filterMap fun e =>
          match e with
          | .toPeer m => some m
          | .connClosed => if blind then none else some "closed"
          | .reconnected => some "reconnect"
          | _ => none
        -- a local message that found no connection is seen in the client's queue
        let queued := match op with
          | .localMsg => if c.st.pending.length > st.pending.length then ["queued"] else []
          | _ => []
        "L:" ++ joinBar ls ++ " P:" ++ joinBar (pre ++ ps ++ queued) ++ " B:0"

structure St where
  fed : Fed := {}

def step (st : St) (op impl : List String) : St × String × String :=
  let kind := op.headD ""
  let v := judge kind impl
  match parseOp op with
  | none => (st, "bad-op", v)
  | some o =>
    let started := match o with
      | .start .. => true
      | _ => st.fed.started
    let restart := match o with
      | .start .. => st.fed.started
      | _ => false
    let gone := st.fed.sessionClosed && (match o with
      | .probe => false
      | _ => true)
    if !started || restart then (st, "bad-op", v)
    else if gone then (st, "session-gone", v)
    else
      let c := SigModel.ShapesFederation.step generatedFacts st.fed o
      ({ fed := c.st }, render o st.fed c, v)

end SigModel.Driver.C12
