import SigModel.Driver.Loop
import SigModel.Spec.Perm

/-! Driver for C08: the model of `Model/Perm.lean` with the configuration read from
the source, run at the granularity of the harness (every operation to quiescence:
a permission update is `SetPermissions` followed by its revocation goroutine), and
the judge of `Spec/Perm.lean` on the implementation's output.

Output of an operation (both sides): `outcome ; messages ; media-server log ; open objects`,
the last three sorted. -/
namespace SigModel.Driver.C08
open SigModel.Proto SigModel.Perm

def nSessions : Nat := 4
def internals : List Nat := [3]

structure St where
  model : SigModel.Perm.St := SigModel.Perm.St.init nSessions internals
  judge : Spec.Judge := {}

/-! ### parsing -/

def permOfChar (cfg : Cfg) : Char → Option String
  | 'm' => some cfg.permMedia | 'a' => some cfg.permAudio | 'v' => some cfg.permVideo | 's' => some cfg.permScreen
  | 'c' => some cfg.permControl | 't' => some cfg.permTransient | 'h' => some "hide-displaynames" | 'x' => some "bogus"
  | _ => none

def parsePermSet (cfg : Cfg) (tok : String) : Option (List String) :=
  if tok == "-" then some [] else tok.toList.mapM (permOfChar cfg)

/-- `=`: the join reply carries no permissions. -/
def parseJoinPerms (cfg : Cfg) (tok : String) : Option (Option (List String)) :=
  if tok == "=" then some none else (parsePermSet cfg tok).map some

def parseMLines (tok : String) : Option (List MLine) :=
  if tok == "-" then some [] else tok.toList.mapM fun
    | 'a' => some MLine.audio | 'v' => some MLine.video | 'o' => some MLine.other | _ => none

def parseKind (tok : String) : Option Kind :=
  if tok == "answer" then some .answer else if tok == "candidate" then some .candidate
  else if tok == "endOfCandidates" then some .endOfCandidates else if tok == "selectStream" then some .selectStream
  else if tok == "foo" then some .other else none

def sessTok (tok : String) : Option Nat := do
  let n ← toNat? tok
  if n < nSessions then some n else none

/-- a recipient: a session or `9` (an id no session has) -/
def rcptTok (tok : String) : Option Nat := do
  let n ← toNat? tok
  if n < nSessions || n == 9 then some n else none

def roomTok (tok : String) : Option Nat := do
  let n ← toNat? tok
  if n == 1 || n == 2 || n == 9 then some n else none

def flagTok (tok : String) : Option Bool :=
  if tok == "0" || tok == "6" then some false else if tok == "1" || tok == "7" then some true else none

def parseRcpt (tok : String) : Option Rcpt :=
  if tok == "room" then some .room else if tok == "call" then some .call
  else if hasPrefix "s" tok then (rcptTok (dropS 1 tok)).map .session else none

def badCodes : List (String × String) :=
  [("roomtype", "invalid_format"), ("nosdp", "no_sdp"), ("sdptype", "invalid_sdp"), ("sdpparse", "invalid_sdp")]

/-- `roomOf s`: the room `.` stands for (the session's current room, 9 if none). -/
def parseOp (cfg : Cfg) (roomOf : Nat → Nat) : List String → Option HOp
  | ["join", s, r, p] => do
    let r ← roomTok r
    if r == 9 then none else some (.join (← sessTok s) r (← parseJoinPerms cfg p))
  | ["leave", s] => do some (.leave (← sessTok s))
  | ["perms", s, p] => do some (.perms (← sessTok s) (← parsePermSet cfg p))
  | ["permsd", s, p] => do some (.permsDirect (← sessTok s) (← parsePermSet cfg p))
  | ["permsbad", s, k] => do if k == "notlist" || k == "notstring" then some (.permsBad (← sessTok s)) else none
  | ["incall", s, r, f] => do
    let s ← sessTok s
    let r ← if r == "." then some (roomOf s) else roomTok r
    some (.incall s r (← flagTok f))
  | ["incallall", r, f] => do some (.incallAll (← roomTok r) (← flagTok f))
  | ["close", s] => do some (.close (← sessTok s))
  | ["any", b] => if b == "1" then some (.any true) else if b == "0" then some (.any false) else none
  | ["offer", s, t, m] => do some (.offer (← sessTok s) (← dec t) (← parseMLines m))
  | ["mcu", s, r, k, t] => do some (.msg (← sessTok s) (← rcptTok r) (← parseKind k) (← dec t))
  | ["request", s, p, t] => do some (.request (← sessTok s) (← rcptTok p) (← dec t))
  | ["sendoffer", s, r, t] => do some (.sendoffer (← sessTok s) (← rcptTok r) (← dec t))
  | ["badmsg", s, k] => do some (.badmsg (← sessTok s) (← badCodes.lookup k))
  | ["control", s, rc] => do some (.control (← sessTok s) (← parseRcpt rc))
  | ["tset", s, k, v] => do some (.transient (← sessTok s) (.set (← dec k) (← dec v)))
  | ["tremove", s, k] => do some (.transient (← sessTok s) (.remove (← dec k)))
  | ["tother", s] => do some (.transient (← sessTok s) .other)
  | ["state"] => some .state
  | ["storm", s, p, seed, n] => do
    let n ← toNat? n
    let _ ← toNat? seed
    if 1 ≤ n && n ≤ 200 then some (.storm (← sessTok s) (← parsePermSet cfg p)) else none
  | _ => none

/-! ### running an operation to quiescence -/

/-- the revocation goroutines of session `i` that are still to run -/
def drainSess (cfg : Cfg) (i : Nat) : Nat → SigModel.Perm.St × List Ev → SigModel.Perm.St × List Ev
  | 0, r => r
  | k + 1, (st, ev) =>
    if (st.sess i).sweeps = 0 then (st, ev)
    else
      let r := step cfg st (.sweep i)
      drainSess cfg i k (r.1, ev ++ r.2)

def drain (cfg : Cfg) (r : SigModel.Perm.St × List Ev) : SigModel.Perm.St × List Ev :=
  (List.range nSessions).foldl (fun r i => drainSess cfg i (r.1.sess i).sweeps r) r

def act (cfg : Cfg) (st : SigModel.Perm.St) (a : Act) : SigModel.Perm.St × List Ev := drain cfg (step cfg st a)

def clientOp (cfg : Cfg) (st : SigModel.Perm.St) (s : Nat) (a : Act) : SigModel.Perm.St × String × List Ev :=
  if !(st.sess s).live then (st, "closed", [])
  else
    let r := act cfg st a
    (r.1, "ok", r.2)

def hexec (cfg : Cfg) (st : SigModel.Perm.St) : HOp → SigModel.Perm.St × String × List Ev
  | .join s r perms =>
    let x := st.sess s
    if !x.live then (st, "closed", [])
    else if x.room == some r then (st, "already", [.reply s "already_joined"])
    else
      let res := act cfg st (.join s r (if x.internal then none else perms))
      (res.1, "ok", res.2)
  | .leave s =>
    let x := st.sess s
    if !x.live then (st, "closed", [])
    else if x.room.isNone then (st, "noroom", [])
    else
      let res := act cfg st (.leave s)
      (res.1, "ok", res.2)
  | .perms s p =>
    let x := st.sess s
    if x.live && x.room.isSome then
      let res := act cfg st (.setPerms s p)
      (res.1, "200", res.2)
    else (st, "200", [])
  | .permsDirect s p =>
    let res := act cfg st (.setPerms s p)
    (res.1, "ok", res.2)
  | .permsBad _ => (st, "200", [])
  | .incall s r f =>
    let res := act cfg st (.incall s r f)
    (res.1, "200", res.2)
  | .incallAll r f =>
    let res := act cfg st (.incallAll r f)
    (res.1, "200", res.2)
  | .close s =>
    if !(st.sess s).live then (st, "closed", [])
    else
      let res := act cfg st (.close s)
      (res.1, "ok", res.2)
  | .any b => ((step cfg st (.setAllowAny b)).1, "ok", [])
  | .offer s t ml => clientOp cfg st s (.offer s t ml)
  | .msg s r k t => clientOp cfg st s (.msg s r k t)
  | .request s p t => clientOp cfg st s (.request s p t)
  | .sendoffer s r t => clientOp cfg st s (.sendoffer s r t)
  | .badmsg s code => if !(st.sess s).live then (st, "closed", []) else (st, "ok", [.reply s code])
  | .control s rc => clientOp cfg st s (.control s rc)
  | .transient s a => clientOp cfg st s (.transient s a)
  | .state => (st, "ok", [])
  -- not predictable (real concurrency): the model side only says `storm`; such a line ends its case
  | .storm s _ => if !(st.sess s).live then (st, "closed", []) else (st, "storm", [])

/-! ### rendering -/

def mediaTok (m : Media) : String :=
  let s := (if m.audio then "a" else "") ++ (if m.video then "v" else "") ++ (if m.screen then "s" else "")
  if s == "" then "n" else s

def insertSorted (x : String) : List String → List String
  | [] => [x]
  | y :: ys => if x ≤ y then x :: y :: ys else y :: insertSorted x ys

def sortStrings (xs : List String) : List String := xs.foldr insertSorted []

def replyTok (what : String) : String :=
  if what == "answer" || hasPrefix "offer<" what then what else "err." ++ what

def msgToks (evs : List Ev) : List String :=
  evs.filterMap fun
    | .reply s w => some s!"{s}:{replyTok w}"
    | .deliver to w frm => some s!"{to}:{w}<{frm}"
    | .tev to w _ => some s!"{to}:{w}"
    | _ => none

def logToks (evs : List Ev) : List String :=
  evs.filterMap fun
    | .pubNew s t m => some s!"new:{s}/p/{enc t}/{mediaTok m}"
    | .pubSet s t m => some s!"set:{s}/p/{enc t}/{mediaTok m}"
    | .pubMsg s t k => some s!"msg:{s}/p/{enc t}<{k.name}"
    | .pubClose s t => some s!"close:{s}/p/{enc t}"
    | .subNew s src t => some s!"new:{s}/s/{src}/{enc t}"
    | .subMsg s src t k => some s!"msg:{s}/s/{src}/{enc t}<{k.name}"
    | .subClose s src t => some s!"close:{s}/s/{src}/{enc t}"
    | _ => none

def openToks (st : SigModel.Perm.St) : List String :=
  (List.range st.n).flatMap fun i =>
    let x := st.sess i
    x.pubs.map (fun p => s!"{i}/p/{enc p.stream}/{mediaTok p.media}") ++ x.subs.map (fun b => s!"{i}/s/{b.src}/{enc b.stream}")

def sect (xs : List String) : String := if xs.isEmpty then "-" else joinToks (sortStrings xs)

def render (st : SigModel.Perm.St) (outcome : String) (evs : List Ev) : String :=
  outcome ++ " ; " ++ sect (msgToks evs) ++ " ; " ++ sect (logToks evs) ++ " ; " ++ sect (openToks st)

def roomOfModel (st : SigModel.Perm.St) (s : Nat) : Nat := ((st.sess s).room).getD 9
def roomOfJudge (j : Spec.Judge) (s : Nat) : Nat := ((j.get s).room).getD 9

/-- empty sections are written `-` -/
def undash (impl : List String) : List String := impl.filter (· != "-")

def step (st : St) (op impl : List String) : St × String × String :=
  match parseOp codeCfg (roomOfModel st.model) op with
  | none => (st, "bad-op", "na")
  | some o =>
    let (m', outcome, evs) := hexec codeCfg st.model o
    let out := if outcome == "storm" then "storm" else render m' outcome evs
    let (j', v) :=
      if impl.isEmpty then (st.judge, "na")
      else match parseOp codeCfg (roomOfJudge st.judge) op with
        | some jo => st.judge.observe jo (undash impl)
        | none => (st.judge, "na")
    ({ model := m', judge := j' }, out, v)

end SigModel.Driver.C08
