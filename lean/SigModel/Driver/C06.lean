import SigModel.Driver.HubCommon

/-! Driver for C06: the shared hub model (`Model/Hub.lean`) with this property's judge. -/
namespace SigModel.Driver.C06
open SigModel.Proto SigModel.Hub SigModel.Driver.HubCommon

abbrev St := HubCommon.St

def step (st : St) (op impl : List String) : St × String × String :=
  stepWith (judgeC06) st op impl

end SigModel.Driver.C06
