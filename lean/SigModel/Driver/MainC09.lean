import SigModel.Driver.C09

open SigModel.Driver

def main (_args : List String) : IO UInt32 := do
  let inp ← IO.getStdin
  let out ← IO.getStdout
  loop ({} : C09.St) C09.step inp out {}
  return 0
