import SigModel.Driver.C05

open SigModel.Driver

def main (_args : List String) : IO UInt32 := do
  let inp ← IO.getStdin
  let out ← IO.getStdout
  loop ({} : C05.St) C05.step inp out {}
  return 0
