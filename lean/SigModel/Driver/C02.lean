import SigModel.Driver.Loop
import SigModel.Spec.Checksum

/-!
Driver for C02.  Ops (tokens; byte strings as `x<hex>`, backends as `<id>:x<secret>`):

* `cfg <compat | -> <b1,b2,… | ->`                                   backend table of the case
* `sign <label> <id> <x random> <x body>`                             `CalculateBackendChecksum` under `id`'s secret → `sum x<hex>`; defines reference `label`
* `req <label|-> <hdr> <x random> <x checksum> <x body> <bodyok> <ct> <len|-> <room> [u=…]`
      one POST /api/v1/room/<room>; hdr = `-` | `?` | `b:<id>` → `<status> t<0|1> <events>`
* `fn <x checksum> <x random> <x body> <x secret>`                    `ValidateBackendChecksumValue` → `0|1`
* `out <kind> <id|->`                                                 one `PerformJSONRequest`; the implementation line carries what the fake
      backend received: `out <x random> <x body> <x checksum>` | `none`
-/
namespace SigModel.Driver.C02
open SigModel SigModel.Proto SigModel.Checksum

def mac : Hmac.Mac := Hmac.hmacSha256

structure St where
  cfg : Cfg := ⟨none, []⟩
  judge : Judge := {}

def xhex (b : Bytes) : String := "x" ++ Bytes.toHexString b

def parseX (tok : String) : Option Bytes :=
  if hasPrefix "x" tok then Bytes.ofHexString (dropS 1 tok) else none

def parseBackend (tok : String) : Option Backend :=
  match tok.splitOn ":" with
  | [id, sec] => (parseX sec).map fun s => ⟨id, s⟩
  | _ => none

def parseBackends (tok : String) : Option (List Backend) :=
  if tok == "-" then some [] else (tok.splitOn ",").mapM parseBackend

def St.backend (st : St) (id : String) : Option Backend :=
  match st.cfg.compat with
  | some c => if c.id == id then some c else st.cfg.backends.find? (·.id == id)
  | none => st.cfg.backends.find? (·.id == id)

def parseHdr (st : St) (tok : String) : Option Hdr :=
  if tok == "-" then some .absent
  else if tok == "?" then some .unknown
  else if hasPrefix "b:" tok then (st.backend (dropS 2 tok)).map .known
  else none

/-- The smallest id among the backends that share the secret of `b` (the order in which
`GetBackends()` lists backends with equal secrets is that of a Go map). -/
def St.canonId (st : St) (b : Backend) : String :=
  let same := (st.cfg.backends.filter (·.secret == b.secret)).map (·.id)
  same.foldl (fun a x => if x < a then x else a) b.id

def showResp (st : St) (searched : Bool) (r : Resp) : String :=
  let evs := if r.events.isEmpty then "-" else
    ",".intercalate (r.events.map fun e =>
      let id := if searched then
          match st.cfg.backends.find? (·.id == e.backend) with
          | some b => st.canonId b
          | none => e.backend
        else e.backend
      "br:" ++ e.room ++ "@" ++ id)
  s!"{r.status} t{if r.throttled then 1 else 0} {evs}"

def parseEvents (tok : String) : List Event :=
  if tok == "-" then [] else
  (tok.splitOn ",").filterMap fun e =>
    match (dropS 3 e).splitOn "@" with
    | [room, b] => some ⟨room, b⟩
    | _ => none

def parseImplResp : List String → Option Resp
  | [status, t, evs] => (toNat? status).map fun s => { status := s, throttled := t == "t1", events := parseEvents evs }
  | _ => none

def step (st : St) (op impl : List String) : St × String × String :=
  let op := op.filter (fun t => !(hasPrefix "#" t || hasPrefix "u=" t || hasPrefix "wr=" t || hasPrefix "wc=" t || hasPrefix "ct=" t))
  match op with
  | ["cfg", c, bs] =>
    match (if c == "-" then some none else (parseBackend c).map some), parseBackends bs with
    | some c, some bs => ({ st with cfg := ⟨c, bs⟩ }, "-", "na")
    | _, _ => (st, "bad-op", "na")
  | ["sign", label, id, rnd, body] =>
    match st.backend id, parseX rnd, parseX body with
    | some b, some rnd, some body =>
      let sum := checksumOf mac rnd body b.secret
      let j := match impl with
        | ["sum", s] =>
          match parseX s with
          | some s => { st.judge with refs := ⟨label, rnd, body, s, b.secret⟩ :: st.judge.refs }
          | none => st.judge
        | _ => st.judge
      ({ st with judge := j }, "sum " ++ xhex sum, "na")
    | _, _, _ => (st, "bad-op", "na")
  | ["fn", sum, rnd, body, secret] =>
    match parseX sum, parseX rnd, parseX body, parseX secret with
    | some sum, some rnd, some body, some secret =>
      let m := validate mac sum rnd body secret
      let spec := stmtChecksum mac secret rnd body == sum
      let v := match impl with
        | [i] => if (i == "1") == spec then "ok" else "violated:function-level-validation-differs-from-statement"
        | _ => "na"
      (st, if m then "1" else "0", v)
    | _, _, _, _ => (st, "bad-op", "na")
  | ["req", label, hdr, rnd, sum, body, bodyok, ct, len, room] =>
    match parseHdr st hdr, parseX rnd, parseX sum, parseX body with
    | some hdr, some rnd, some sum, some body =>
      let clen := if len == "-" then none else toNat? len
      let r : Req := ⟨hdr, rnd, sum, body⟩
      let h : Http := ⟨room, clen, ct == "1", r, bodyok == "1"⟩
      let resp := handle mac st.cfg h
      let searched := hdr == .absent && st.cfg.compat.isNone
      let wellFormed := ct == "1" && (match clen with | some n => n ≤ Generated.Checksum.maxBodySize | none => false)
      let v := match parseImplResp impl with
        | some i =>
          let ref := st.judge.refs.find? (·.label == label)
          if label != "-" && ref.isNone then "na"
          else Judge.observeReq mac st.cfg ref wellFormed r i
        | none => "na"
      (st, showResp st searched resp, v)
    | _, _, _, _ => (st, "bad-op", "na")
  | ["out", _kind, id] =>
    let target := if id == "-" then none else st.backend id
    match impl with
    | ["out", rnd, body, sum] =>
      match parseX rnd, parseX body, parseX sum with
      | some rnd, some body, some sum =>
        -- the model cannot know the random: it recomputes the checksum for the random and body that were sent
        let m := match target with
          | some b => "out " ++ xhex rnd ++ " " ++ xhex body ++ " " ++ xhex (checksumOf mac rnd body b.secret)
          | none => "none"
        let (j, v) := st.judge.observeOut mac target rnd body sum
        ({ st with judge := j }, m, v)
      | _, _, _ => (st, "bad-impl", "na")
    | ["none"] => (st, if target.isNone then "none" else "out", if target.isNone then "ok" else "violated:no-request-sent")
    | _ => (st, if target.isNone then "none" else "out", "na")
  | _ => (st, "bad-op", "na")

end SigModel.Driver.C02
