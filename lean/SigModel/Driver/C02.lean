import SigModel.Driver.Loop
import SigModel.Spec.Checksum

/-!
Driver for C02.  Ops (tokens; byte strings as `x<hex>`, backends as `<id>:x<secret>`):

* `cfg <compat | -> <b1,b2,… | -> u=<enc "mode;id=url;…">`            backend table of the case; in mode `backends` the urls
      are the configured ones (stored `'/'`-terminated as `getConfiguredHosts` does), in mode `etcd` the urls of the
      etcd values (stored as given), keys = backend ids
      The backend tokens carry the **own** secret of the section (`b1:x` = no `secret` option) and `cs=x<hex>` the common
      `[backend] secret` of the file: the model derives the secrets in force with `startSecrets`/`reloadSecrets`, the
      judge with `specSecrets`.
* `reload <-> <b1,b2,… | -> [cs=…] u=<enc "mode;id=url;…">`          the same server loads another configuration: mode `backends`
      `Reload(file)`, mode `etcd` the key deletions/updates that lead there.  From here on the judge goes by this file.
* `sign <label> <id> <x random> <x body>`                             `CalculateBackendChecksum` under `id`'s secret → `sum x<hex>`; defines reference `label`
* `req <label|-> <hdr> <x random> <x checksum> <x body> <bodyok> <ct> <len|-> <room> [u=…]`
      one POST /api/v1/room/<room>; hdr = `-` | `?` | `b:<id>` → `<status> t<0|1> <events>`.  `u=` is the literal value of
      the backend header.  In mode `backends`, for a value that is a plain URL, the model resolves it itself (`hdrOf`) and the
      judge takes the claim from the spec (`owners`); `hdr` must then be the spec's claim (else `bad-op:claim-token`).  In the
      compat modes and for other values `hdr` is an input.  The implementation line may end in `lookup=<hdr>`: what
      `GetBackend` answered when that differs from `hdr` (never printed by the model).
* `fn <x checksum> <x random> <x body> <x secret>`                    `ValidateBackendChecksumValue` → `0|1`
* `out <kind> <id|-> [u=<enc url>]`                                   one `PerformJSONRequest` (to `url` if given — then `id` must be the
      backend the url belongs to by the spec —, else to the url of `id`); the implementation line carries what the fake
      backend received, one group per request that carried a checksum, in the order of arrival:
      `out {<enc url> <P|G> <x random> <x body> <x checksum>}` | `none`.  `rd=<enc "code location;code location…">`: the
      fake backends answer the requests of this op with these redirects in turn (then 200).
-/
namespace SigModel.Driver.C02
open SigModel SigModel.Proto SigModel.Checksum

def mac : Hmac.Mac := Hmac.hmacSha256

structure St where
  mode : String := ""             -- "" = no configuration yet
  cfg : Cfg := ⟨none, []⟩         -- the model's table (secrets as the code derives them)
  entries : List Entry := []      -- mode `backends`: the backends with their stored urls, in configuration order
  secrets : SecretState := {}
  specCfg : Cfg := ⟨none, []⟩     -- the configuration in force as the statement reads the file loaded last
  specEntries : List Entry := []
  judge : Judge := {}

/-- The decoded `<p>…` token of an op (`p` = `u=`, `rd=`). -/
def kvTok (p : String) (op : List String) : Option String :=
  (op.find? (hasPrefix p)).bind fun t => dec (dropS p.length t)

/-- The decoded `u=` token of an op. -/
def uTok (op : List String) : Option String := kvTok "u=" op

def St.byUrl (st : St) : Bool := st.mode == "backends" || st.mode == "etcd"

/-- Entries ordered by backend id (insertion sort, stable). -/
def insertById (e : Entry) : List Entry → List Entry
  | [] => [e]
  | x :: xs => if e.backend.id < x.backend.id then e :: x :: xs else x :: insertById e xs

/-- `mode;id=url;id=url…` of the cfg op.  Mode `backends`: the urls of the configuration file, stored as
`getConfiguredHosts` shapes them, in configuration order.  Mode `etcd`: the urls of the etcd values, stored as
`EtcdKeyUpdated` / `CheckValid` leave them, in key order (keys = backend ids). -/
def parseEntries (bs : List Backend) (u : String) : List Entry :=
  match u.splitOn ";" with
  | mode :: rest =>
    if mode != "backends" && mode != "etcd" then [] else
    let es : List Entry := rest.filterMap fun kv =>
      match kv.splitOn "=" with
      | id :: r@(_ :: _) => (bs.find? (·.id == id)).map fun b =>
          let url := ("=".intercalate r).toList
          ⟨b, if mode == "etcd" then etcdUrl url else configUrl url⟩
      | _ => none
    if mode == "etcd" then es.foldr insertById [] else es
  | [] => []

def plainChar (c : Char) : Bool := c.isAlphanum || c == '.' || c == '_' || c == '/' || c == '-'

/-- The URL shape `Model.lookup` covers: `http(s)://` followed by letters, digits, `. _ - /`, no dot segments. -/
def plainUrl (u : List Char) : Bool :=
  let rest := if "http://".toList.isPrefixOf u then some (u.drop 7)
    else if "https://".toList.isPrefixOf u then some (u.drop 8) else none
  match rest with
  | some r => r.all plainChar && !(splitSlash r).any (fun s => s == ['.'] || s == ['.', '.'])
  | none => false

def claimTok (absent : Bool) (cl : List Backend) : String :=
  if absent then "-" else match cl with
  | [] => "?"
  | b :: _ => "b:" ++ b.id

def xhex (b : Bytes) : String := "x" ++ Bytes.toHexString b

def parseX (tok : String) : Option Bytes :=
  if hasPrefix "x" tok then Bytes.ofHexString (dropS 1 tok) else none

def parseBackend (tok : String) : Option Backend :=
  match tok.splitOn ":" with
  | [id, sec] => (parseX sec).map fun s => ⟨id, s⟩
  | _ => none

def parseBackends (tok : String) : Option (List Backend) :=
  if tok == "-" then some [] else (tok.splitOn ",").mapM parseBackend

def cfgBackend (cfg : Cfg) (id : String) : Option Backend :=
  match cfg.compat with
  | some c => if c.id == id then some c else cfg.backends.find? (·.id == id)
  | none => cfg.backends.find? (·.id == id)

/-- A backend of the configuration in force (the statement's reading). -/
def St.backend (st : St) (id : String) : Option Backend := cfgBackend st.specCfg id

def parseHdr (cfg : Cfg) (tok : String) : Option Hdr :=
  if tok == "-" then some .absent
  else if tok == "?" then some .unknown
  else if hasPrefix "b:" tok then (cfgBackend cfg (dropS 2 tok)).map .known
  else none

/-- `cfg` / `reload`: the tables of model and judge after loading a file. -/
def load (st : St) (isReload : Bool) (c bs : String) (u : String) (cs : Bytes) : Option St :=
  let mode := (u.splitOn ";").headD ""
  match (if c == "-" then some none else (parseBackend c).map some), parseBackends bs with
  | some compat, some raw =>
    if isReload && !(st.mode == mode && (mode == "backends" || mode == "etcd") && compat.isNone) then none
    else if mode == "" then none
    else if mode == "backends" then
      let file : SecretFile := ⟨cs, raw⟩
      let sec := if isReload then reloadSecrets st.secrets file else startSecrets file
      let spec := specSecrets file
      some { st with mode := mode, secrets := sec, cfg := ⟨compat, sec.backends⟩, entries := parseEntries sec.backends u,
                     specCfg := ⟨compat, spec⟩, specEntries := parseEntries spec u }
    else
      some { st with mode := mode, secrets := {}, cfg := ⟨compat, raw⟩, entries := parseEntries raw u,
                     specCfg := ⟨compat, raw⟩, specEntries := parseEntries raw u }
  | _, _ => none

def parseHops (s : String) : List Hop :=
  (s.splitOn ";").filterMap fun h =>
    match h.splitOn " " with
    | [code, loc] => (toNat? code).map fun c => ⟨c, loc.toList⟩
    | _ => none

/-- The groups `<enc url> <P|G> <x random> <x body> <x checksum>` of an implementation line. -/
def parseRecvs : List String → Option (List Recv)
  | [] => some []
  | url :: m :: rnd :: body :: sum :: rest =>
    match dec url, parseX rnd, parseX body, parseX sum, parseRecvs rest with
    | some url, some rnd, some body, some sum, some rs => some (⟨url.toList, m == "P", rnd, body, sum⟩ :: rs)
    | _, _, _, _, _ => none
  | _ => none

/-- The smallest id among the backends that share the secret of `b` (the order in which
`GetBackends()` lists backends with equal secrets is that of a Go map). -/
def St.canonId (st : St) (b : Backend) : String :=
  let same := (st.cfg.backends.filter (·.secret == b.secret)).map (·.id)
  same.foldl (fun a x => if x < a then x else a) b.id

def showResp (st : St) (searched : Bool) (r : Resp) : String :=
  let evs := if r.events.isEmpty then "-" else
    ",".intercalate (r.events.map fun e =>
      let id := if searched then
          match st.cfg.backends.find? (·.id == e.backend) with
          | some b => st.canonId b
          | none => e.backend
        else e.backend
      "br:" ++ e.room ++ "@" ++ id)
  s!"{r.status} t{if r.throttled then 1 else 0} {evs}"

def parseEvents (tok : String) : List Event :=
  if tok == "-" then [] else
  (tok.splitOn ",").filterMap fun e =>
    match (dropS 3 e).splitOn "@" with
    | [room, b] => some ⟨room, b⟩
    | _ => none

def parseImplResp : List String → Option Resp
  | [status, t, evs] => (toNat? status).map fun s => { status := s, throttled := t == "t1", events := parseEvents evs }
  | [status, t, evs, lk] =>
    if hasPrefix "lookup=" lk then
      (toNat? status).map fun s => { status := s, throttled := t == "t1", events := parseEvents evs }
    else none
  | _ => none

def step (st : St) (op impl : List String) : St × String × String :=
  let u := uTok op
  let rd := kvTok "rd=" op
  let cs : Bytes := ((op.find? (hasPrefix "cs=")).bind fun t => parseX (dropS 3 t)).getD []
  let op := op.filter (fun t => !(hasPrefix "#" t || hasPrefix "u=" t || hasPrefix "wr=" t || hasPrefix "wc=" t || hasPrefix "ct=" t ||
    hasPrefix "cs=" t || hasPrefix "rd=" t))
  -- before the first configuration there is no server: only `cfg` and the function-level `fn` mean anything
  if st.mode == "" && !(op.head? == some "cfg" || op.head? == some "fn") then (st, "bad-op", "na") else
  match op with
  | ["cfg", c, bs] =>
    match load st false c bs (u.getD "") cs with
    | some st' => (st', "-", "na")
    | none => (st, "bad-op", "na")
  | ["reload", c, bs] =>
    match load st true c bs (u.getD "") cs with
    | some st' => (st', "-", "na")
    | none => (st, "bad-op", "na")
  | ["sign", label, id, rnd, body] =>
    match st.backend id, parseX rnd, parseX body with
    | some b, some rnd, some body =>
      let sum := checksumOf mac rnd body b.secret
      let j := match impl with
        | ["sum", s] =>
          match parseX s with
          | some s => { st.judge with refs := ⟨label, rnd, body, s, b.secret⟩ :: st.judge.refs }
          | none => st.judge
        | _ => st.judge
      ({ st with judge := j }, "sum " ++ xhex sum, "na")
    | _, _, _ => (st, "bad-op", "na")
  | ["fn", sum, rnd, body, secret] =>
    match parseX sum, parseX rnd, parseX body, parseX secret with
    | some sum, some rnd, some body, some secret =>
      let m := validate mac sum rnd body secret
      let spec := stmtChecksum mac secret rnd body == sum
      let v := match impl with
        | [i] => if (i == "1") == spec then "ok" else "violated:function-level-validation-differs-from-statement"
        | _ => "na"
      (st, if m then "1" else "0", v)
    | _, _, _, _ => (st, "bad-op", "na")
  | ["req", label, hdrTok, rnd, sum, body, bodyok, ct, len, room] =>
    -- the header value as a URL (model: `hdrOf`, spec: `owners`) or as an input (the token)
    let byUrl := match u with
      | some v => if st.byUrl && (v.isEmpty || plainUrl v.toList) then some v.toList else none
      | none => none
    let hdrCl : Option (Hdr × List Backend × Bool) := match byUrl with
      | some v =>
        let cl := claimedUrl st.specCfg st.specEntries v
        some (hdrOf st.entries v, cl, claimTok v.isEmpty cl == hdrTok)
      | none => (parseHdr st.specCfg hdrTok).map fun h =>
        -- the model's table may lack a backend the configuration in force has
        ((parseHdr st.cfg hdrTok).getD .unknown, claimed st.specCfg h, true)
    match hdrCl, parseX rnd, parseX sum, parseX body with
    | some (_, cl, false), _, _, _ => (st, "bad-op:claim-token:" ++ claimTok false cl, "na")
    | some (hdr, cl, true), some rnd, some sum, some body =>
      let clen := if len == "-" then none else toNat? len
      let r : Req := ⟨hdr, rnd, sum, body⟩
      let h : Http := ⟨room, clen, ct == "1", r, bodyok == "1"⟩
      let resp := handle mac st.cfg h
      let searched := hdrTok == "-" && st.cfg.compat.isNone
      let wellFormed := ct == "1" && (match clen with | some n => n ≤ Generated.Checksum.maxBodySize | none => false)
      let v := match parseImplResp impl with
        | some i =>
          let ref := st.judge.refs.find? (·.label == label)
          if label != "-" && ref.isNone then "na"
          else Judge.observeReqOf mac cl ref wellFormed r i
        | none => "na"
      (st, showResp st searched resp, v)
    | _, _, _, _ => (st, "bad-op", "na")
  | ["out", _kind, id] =>
    -- model: the backend the lookup finds for the target url; spec: the backend the url belongs to
    let byId := if id == "-" then none else st.backend id
    let byIdM := if id == "-" then none else cfgBackend st.cfg id
    let url := (u.getD "").toList
    let byUrl := match u with
      | some v => if st.byUrl && plainUrl v.toList then some v.toList else none
      | none => none
    let (targetM, target, tokOk) : Option Backend × Option Backend × Bool := match byUrl with
      | some v =>
        let o : Option Backend := (owners st.specEntries v).head?
        (lookup st.entries v, o, (o.map (·.id)).getD "-" == id)
      | none => (byIdM, byId, true)
    if !tokOk then (st, "bad-op:claim-token:" ++ (target.map (·.id)).getD "-", "na") else
    let sent := deliveries targetM url (parseHops (rd.getD ""))
    let recvs : Option (List Recv) := match impl with
      | ["none"] => some []
      | "out" :: groups => if groups.isEmpty then none else parseRecvs groups
      | _ => none
    match recvs with
    | some rs =>
      -- the model cannot know the random: it recomputes the checksum for the random and body that were sent first
      let m := match rs, targetM with
        | r0 :: _, some b =>
          let sum := xhex (checksumOf mac r0.random r0.body b.secret)
          "out" ++ String.join (sent.map fun d =>
            " " ++ enc (String.ofList d.url) ++ (if d.post then " P " else " G ") ++ xhex r0.random ++ " " ++
              xhex (if d.body then r0.body else []) ++ " " ++ sum)
        | _, _ => if sent.isEmpty then "none" else "out"
      let (j, v) := st.judge.observeDeliveries mac st.specEntries st.byUrl target rs
      ({ st with judge := j }, m, v)
    | none => (st, if sent.isEmpty then "none" else "out", "na")
  | _ => (st, "bad-op", "na")

end SigModel.Driver.C02
