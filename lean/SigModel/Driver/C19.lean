import SigModel.Driver.HubCommon

/-! Driver for C19: the shared hub model (`Model/Hub.lean`) with this property's judge. -/
namespace SigModel.Driver.C19
open SigModel.Proto SigModel.Hub SigModel.Driver.HubCommon

abbrev St := HubCommon.St

def step (st : St) (op impl : List String) : St × String × String :=
  stepWith (fun st pre op impl => match judgeC19Life st pre impl with
   | e :: _ => "violated:" ++ e
   | [] => match judgeC19 st pre op impl with
    | "na" => (match op with
      | .message .. => judgeC05 pre op impl
      | _ => verdictOf ((judgeTables impl).filter (fun e => hasPrefix "residue:vt" e || hasPrefix "residue:ch" e)))
    | v => v) st op impl

end SigModel.Driver.C19
