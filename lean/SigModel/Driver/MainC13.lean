import SigModel.Driver.C13

open SigModel.Driver

def main (_args : List String) : IO UInt32 := do
  let inp ← IO.getStdin
  let out ← IO.getStdout
  loop ({} : C13.St) C13.step inp out {}
  return 0
