import SigModel.Driver.C17

open SigModel.Driver

def main (_args : List String) : IO UInt32 := do
  let inp ← IO.getStdin
  let out ← IO.getStdout
  loop ({} : C17.St) C17.step inp out {}
  return 0
