import SigModel.Driver.C06

open SigModel.Driver

def main (_args : List String) : IO UInt32 := do
  let inp ← IO.getStdin
  let out ← IO.getStdout
  loop ({} : C06.St) C06.step inp out {}
  return 0
