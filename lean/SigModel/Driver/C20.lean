import SigModel.Driver.Loop
import SigModel.Model.Bus
import SigModel.Spec.Bus

/-!
Driver for C20.

Deterministic schedules (`mode loop` = real loopback client, every op followed by a full drain;
`mode own` = harness-owned client, `disp` dispatches one queued message): the model is run with an eager
scheduler (every enabled internal action is taken, in a fixed order, until none is enabled or the only
enabled one is a callback of a held listener) and its deliveries are printed per op.
The implementation's deliveries are accumulated into a history which `admitsSafe` judges after every op
and `admits` at `end`.

Concurrent runs (`conc …`): the implementation line carries the whole recorded history; only judged.
-/
namespace SigModel.Driver.C20
open SigModel.Proto SigModel.Bus

structure St where
  model : State := State.init
  own : Bool := false
  /-- listeners whose next callback will block at entry (armed), and (listener, subscriber) pairs blocked -/
  held : List Nat := []
  blocked : List (Nat × Nat) := []
  rereg : List (Nat × Nat) := []
  reported : Nat := 0
  hist : Hist := {}
  hclk : Nat := 0
  /-- subject of the n-th publication of this case -/
  pubSubj : List Nat := []
  bad : Bool := false

/-- one internal action of the eager scheduler for subscriber `k` -/
def subAct (d : St) (k : Nat) : Option St :=
  let st := d.model
  let b := st.sub k
  match take st k with
  | some st' => some { d with model := st' }
  | none =>
  match snap st k with
  | some st' => some { d with model := st' }
  | none =>
  match b.pending with
  | some l =>
    if d.blocked.contains (l, k) then none
    else if d.held.contains l then some { d with held := d.held.erase l, blocked := (l, k) :: d.blocked }
    else
    match call st k with
    | some st' =>
      if d.rereg.contains (l, b.subj) then
        -- the callback unregisters and registers its own listener again
        some { d with model := register (unregister st' l b.subj) l b.subj,
                      rereg := d.rereg.erase (l, b.subj) }
      else some { d with model := st' }
    | none => none
  | none =>
  match b.tovisit with
  | l :: _ =>
    match pick st k l with
    | some st' => some { d with model := st' }
    | none => none
  | [] =>
  match finish st k with
  | some st' => some { d with model := st' }
  | none =>
  match Bus.exit st k with
  | some st' => some { d with model := st' }
  | none => none

def firstSub (d : St) : List Nat → Option St
  | [] => none
  | k :: ks => match subAct d k with
    | some d' => some d'
    | none => firstSub d ks

def internal (d : St) : Option St :=
  let viaClient : Option St :=
    if d.own then none else
    match send d.model with
    | some st' => some { d with model := st' }
    | none => match dispatch d.model with
      | some st' => some { d with model := st' }
      | none => none
  match viaClient with
  | some d' => some d'
  | none => firstSub d (List.range d.model.nsubs)

def settle : Nat → St → St
  | 0, d => d
  | n+1, d => match internal d with
    | some d' => settle n d'
    | none => d

def sendAll : Nat → State → State
  | 0, st => st
  | n+1, st => match send st with
    | some st' => sendAll n st'
    | none => st

/-- own mode: dispatch one message to all channels -/
def dispOne (d : St) : St :=
  match dispatch d.model with
  | some st' => { d with model := sendAll (st'.nsubs + 1) st' }
  | none => d

def drainOwn : Nat → St → St
  | 0, d => d
  | n+1, d =>
    if d.model.disp < d.model.log.length then drainOwn n (settle 100000 (dispOne d)) else d

/-- insertion into a list of (listener, deliveries) groups kept sorted by listener -/
def addDelivery (l : Nat) (x : String) : List (Nat × List String) → List (Nat × List String)
  | [] => [(l, [x])]
  | (l', xs) :: rest =>
    if l = l' then (l', xs ++ [x]) :: rest
    else if l < l' then (l, [x]) :: (l', xs) :: rest
    else (l', xs) :: addDelivery l x rest

def showDeliveries (st : State) (rs : List RecvEv) : String :=
  let groups := rs.foldl (fun acc r =>
    addDelivery r.l (toString r.i ++ "/" ++ toString ((st.subjOf r.i).getD 0)) acc) []
  joinToks (groups.map fun (l, xs) => toString l ++ ":" ++ ",".intercalate xs)

def report (d : St) : St × String :=
  let new := d.model.recvs.drop d.reported
  let out := if new.isEmpty then "ok" else "ok " ++ showDeliveries d.model new
  ({ d with reported := d.model.recvs.length }, out)

/-! ### parsing the implementation's deliveries -/

def parseDel (l : Nat) (tok : String) : Option (Nat × Nat × Nat) :=
  match tok.splitOn "/" with
  | [i, s] => do some (l, ← toNat? i, ← toNat? s)
  | _ => none

def parseGroup (tok : String) : Option (List (Nat × Nat × Nat)) :=
  match tok.splitOn ":" with
  | [l, xs] => do
    let l ← toNat? l
    (xs.splitOn ",").mapM (parseDel l)
  | _ => none

def parseImplDeliveries : List String → Option (List (Nat × Nat × Nat))
  | "ok" :: groups => do
    let gs ← groups.filter (fun g => g ≠ "complete" && g ≠ "partial") |>.mapM parseGroup
    some gs.flatten
  | _ => none

/-- append the implementation's deliveries of this op to the judged history -/
def observe (d : St) (impl : List String) : St :=
  match parseImplDeliveries impl with
  | none => { d with bad := d.bad || !impl.isEmpty }
  | some ds =>
    let (h, c) := ds.foldl (fun (hc : Hist × Nat) (x : Nat × Nat × Nat) =>
      ({ hc.1 with recvs := hc.1.recvs ++ [{ l := x.1, idx := x.2.1, s := x.2.2, t := hc.2 }] }, hc.2 + 1))
      (d.hist, d.hclk)
    { d with hist := h, hclk := c }

def verdictSafe (d : St) : String :=
  if d.bad then "violated:unparsable-observation" else judge d.hist false

/-! ### recorded concurrent history -/

structure Open where
  c : Nat
  kind : String
  l : Nat
  s : Nat
  ts : Nat

def parseEv (ev : String) : List String := ev.splitOn ","

def histOfEvents (evs : List String) : Option Hist := do
  let mut h : Hist := {}
  let mut opn : List Open := []
  let mut t := 0
  for ev in evs do
    match parseEv ev with
    | ["rs", c, l, s] => opn := { c := ← toNat? c, kind := "r", l := ← toNat? l, s := ← toNat? s, ts := t } :: opn
    | ["us", c, l, s] => opn := { c := ← toNat? c, kind := "u", l := ← toNat? l, s := ← toNat? s, ts := t } :: opn
    | ["ps", c, s] => opn := { c := ← toNat? c, kind := "p", l := 0, s := ← toNat? s, ts := t } :: opn
    | ["re", c] =>
      let c ← toNat? c
      let o ← opn.find? (fun o => o.c == c && o.kind == "r")
      h := { h with regs := { l := o.l, s := o.s, ts := o.ts, te := t } :: h.regs }
      opn := opn.filter (fun o => o.c != c)
    | ["ue", c] =>
      let c ← toNat? c
      let o ← opn.find? (fun o => o.c == c && o.kind == "u")
      h := { h with unregs := { l := o.l, s := o.s, ts := o.ts, te := t } :: h.unregs }
      opn := opn.filter (fun o => o.c != c)
    | ["pe", c, idx] =>
      let c ← toNat? c
      let o ← opn.find? (fun o => o.c == c && o.kind == "p")
      h := { h with pubs := { s := o.s, idx := ← toNat? idx, ts := o.ts, te := t } :: h.pubs }
      opn := opn.filter (fun o => o.c != c)
    | ["rv", l, idx, s] =>
      h := { h with recvs := { l := ← toNat? l, idx := ← toNat? idx, s := ← toNat? s, t := t } :: h.recvs }
    | _ => none
    t := t + 1
  -- every call has returned when the recording ends
  -- (the records were consed: restore recording order)
  if opn.isEmpty then some { regs := h.regs.reverse, unregs := h.unregs.reverse, pubs := h.pubs.reverse, recvs := h.recvs.reverse }
  else none

def histSummary (h : Hist) : String :=
  s!"hist regs={h.regs.length} unregs={h.unregs.length} pubs={h.pubs.length} recvs={h.recvs.length}"

/-! ### one op -/

def tick (d : St) : St × Nat := ({ d with hclk := d.hclk + 1 }, d.hclk)

def finishOp (d : St) (impl : List String) : St × String × String :=
  let d := settle 100000 d
  let (d, out) := report d
  let d := observe d impl
  let (d, _) := tick d
  (d, out, verdictSafe d)

def step (d : St) (op impl : List String) : St × String × String :=
  match op with
  | ["mode", m] => ({ d with own := m == "own" }, "ok", "na")
  | "reg" :: l :: s :: _ =>
    match toNat? l, toNat? s with
    | some l, some s =>
      let (d, ts) := tick d
      let d := { d with model := register d.model l s }
      let (d, out, _) := finishOp d impl
      let d := { d with hist := { d.hist with regs := d.hist.regs ++ [{ l := l, s := s, ts := ts, te := d.hclk - 1 }] } }
      (d, out, verdictSafe d)
    | _, _ => (d, "bad-op", "na")
  | "unreg" :: l :: s :: _ =>
    match toNat? l, toNat? s with
    | some l, some s =>
      let (d, ts) := tick d
      let d := { d with model := unregister d.model l s }
      let (d, out, _) := finishOp d impl
      let d := { d with hist := { d.hist with unregs := d.hist.unregs ++ [{ l := l, s := s, ts := ts, te := d.hclk - 1 }] } }
      (d, out, verdictSafe d)
    | _, _ => (d, "bad-op", "na")
  | "pub" :: s :: _ =>
    match toNat? s with
    | some s =>
      let (d, ts) := tick d
      let idx := d.model.log.length
      let d := { d with model := publish d.model s }
      -- the call has returned before any delivery is looked at
      let (d, te) := tick d
      let d := { d with hist := { d.hist with pubs := d.hist.pubs ++ [{ s := s, idx := idx, ts := ts, te := te }] } }
      finishOp d impl
    | none => (d, "bad-op", "na")
  | ["disp"] => finishOp (if d.own then dispOne d else d) impl
  | ["drain"] => finishOp (if d.own then drainOwn 100000 (settle 100000 d) else d) impl
  | ["hold", l] =>
    match toNat? l with
    | some l => finishOp { d with held := l :: d.held } impl
    | none => (d, "bad-op", "na")
  | ["release", l] =>
    match toNat? l with
    | some l => finishOp { d with held := d.held.filter (· ≠ l), blocked := d.blocked.filter (·.1 ≠ l) } impl
    | none => (d, "bad-op", "na")
  | "rereg" :: l :: s :: _ =>
    match toNat? l, toNat? s with
    | some l, some s => finishOp { d with rereg := (l, s) :: d.rereg } impl
    | _, _ => (d, "bad-op", "na")
  | ["end"] =>
    let d := settle 100000 d
    let (d, out) := report d
    let d := observe d impl
    let quiet := d.model.disp == d.model.log.length && d.model.sending.isEmpty &&
      (List.range d.model.nsubs).all fun k =>
        let b := d.model.sub k
        !b.attached || (b.chan.isEmpty && b.cur.isNone)
    let complete := quiet && !d.model.dropped && d.blocked.isEmpty
    let out := (if out == "ok" then "ok" else out) ++ (if complete then " complete" else " partial")
    -- the implementation's own claim decides which clauses are judged
    let implComplete := impl.contains "complete"
    (d, out, if d.bad then "violated:unparsable-observation" else judge d.hist implComplete)
  | "conc" :: _ =>
    match impl with
    | ["H", c, evs] =>
      match histOfEvents (evs.splitOn ";") with
      | some h => (d, "conc", judge h (c == "1"))
      | none => (d, "conc", "violated:unparsable-history")
    | _ => (d, "conc", "na")
  | _ => (d, "bad-op", "na")

end SigModel.Driver.C20
