import SigModel.Driver.Loop
import SigModel.Spec.Proxy

/-!
Driver for C18 (media proxy).  Op lines (see `harness/proxy/zz_verif_c18_proxy_test.go`):

```
cfg <iss=key,…|->                                   -- token key table; first line of a case
connect <c> | close <c> | sleep <ms> | expire | mcudown | mcuclose <n> | release <c> <outcome>
hello <c> tok <form> <alg> <signer> <mut> <iss> <iat> <nbf> <exp> <ver>
hello <c> resume <kind> <n> <withtok>
invalid <c> <kind>
cmd <c> createpub|createsub <stream> <outcome>
cmd <c> delpub|delsub <n>
cmd <c> pubremote|unpubremote|getstreams <n> <outcome>
cmd <c> unknown
payload <c> <n> <fwd|eoc|unsupported> <variant> <outcome>
bye <c> | other <c> <type>
```

Observation / prediction line:
`out=<c:msg,…> S=<sid@c~ms[pubs/subs],…> C=<id(p|s)@creator,…> M=<id@creator,…> K=<c,…>`.
-/
namespace SigModel.Driver.C18
open SigModel.Proto SigModel.Proxy

def nsPerMs : Int := 1000000
def nsPerS : Int := 1000000000

/-! ### printing -/

def insertNat (x : Nat) : List Nat → List Nat
  | [] => [x]
  | y :: ys => if x ≤ y then x :: y :: ys else y :: insertNat x ys

def sortNat (xs : List Nat) : List Nat := xs.foldr insertNat []

def dedup (xs : List Nat) : List Nat := xs.foldr (fun x acc => if acc.contains x then acc else x :: acc) []

def commaJoin (xs : List String) : String := if xs.isEmpty then "-" else ",".intercalate xs

def showSMsg : SMsg → String
  | .hello sid => s!"hello/{sid}"
  | .err code => s!"err/{code}"
  | .bye r => s!"bye/{r}"
  | .ev t => s!"ev/{t}"
  | .evObj t id => s!"evo/{t}/{id}"
  | .created id => s!"created/{id}"
  | .deleted id => s!"deleted/{id}"
  | .cmdOk id => s!"cmdok/{id}"
  | .payload id => s!"payload/{id}"

/-- Messages grouped by connection (ascending), emission order kept per connection. -/
def showOuts (o : Outs) : String :=
  let cs := sortNat (dedup (o.map (·.1)))
  commaJoin (cs.flatMap fun c => (outsTo o c).map fun m => s!"{c}:{showSMsg m}")

def semi (xs : List Nat) : String := ";".intercalate (xs.map toString)

def showSess (s : Sess) : String :=
  let cl := match s.client with | some c => toString c | none => "-"
  s!"{s.sid}@{cl}~{s.lastUsed / nsPerMs}[{semi (sortNat s.pubs)}/{semi (sortNat s.subs)}]"

def showState (st : State) : String :=
  let ss := (sortNat (st.sessions.map (·.sid))).filterMap (fun sid => (findSess st sid).map showSess)
  let cl := (sortNat (st.clients.map (·.id))).filterMap (fun id =>
    (findObj st.clients id).map fun o => s!"{o.id}{if o.isPub then "p" else "s"}@{o.owner}")
  let mc := (sortNat (st.mcuOpen.map (·.id))).filterMap (fun id =>
    (findObj st.mcuOpen id).map fun o => s!"{o.id}@{o.owner}")
  let ks := (sortNat ((st.conns.filter (·.isOpen)).map (·.id))).map toString
  s!"S={commaJoin ss} C={commaJoin cl} M={commaJoin mc} K={commaJoin ks}"

/-! ### parsing ops -/

def parseOutcome : String → Option Outcome
  | "ok" => some .ok
  | "fail" => some .fail
  | "timeout" => some .timeout
  | "late" => some .late
  | _ => none

def parseClaim (now : Int) (tok : String) : Option (Option Int) :=
  if tok == "-" then some none
  else (toInt? tok).map fun off => some ((now / nsPerS + off) * nsPerS)

def parseCfg (tok : String) : Cfg :=
  if tok == "-" then {} else
  { keys := (tok.splitOn ",").filterMap fun p =>
      match p.splitOn "=" with
      | [a, b] => (dec a).map fun i => (i, b)
      | _ => none }

def parseTok (now : Int) : List String → Option Tok
  | [form, alg, _signer, _mut, iss, iat, nbf, exp, ver] => do
    let alg ← dec alg
    let iss ← dec iss
    let iat ← parseClaim now iat
    let nbf ← parseClaim now nbf
    let exp ← parseClaim now exp
    some { wellformed := form == "jwt", alg := alg, issuer := iss,
           verifies := if ver == "-" then [] else ver.splitOn ",",
           iat := iat, nbf := nbf, exp := exp }
  | _ => none

def parseOp (now : Int) : List String → Option Op
  | ["connect", c] => do some (.connect (← toNat? c))
  | ["close", c] => do some (.close (← toNat? c))
  | ["sleep", ms] => do some (.sleep ((← toNat? ms) * 1000000))
  | ["expire"] => some .expire
  | ["mcudown"] => some .mcuDown
  | ["mcuclose", n] => do some (.mcuClose (← toNat? n))
  | ["release", c, o] => do some (.release (← toNat? c) (← parseOutcome o))
  | "hello" :: c :: "tok" :: rest => do
    some (.msg (← toNat? c) (.hello (.token (← parseTok now rest))))
  | ["hello", c, "resume", kind, n, _withtok] => do
    let n ← toNat? n
    some (.msg (← toNat? c) (.hello (.resume (if kind == "exact" then some n else none))))
  | ["invalid", c, _kind] => do some (.msg (← toNat? c) .invalid)
  | ["cmd", c, "createpub", _stream, o] => do some (.msg (← toNat? c) (.createPub (← parseOutcome o)))
  | ["cmd", c, "createsub", _stream, o] => do some (.msg (← toNat? c) (.createSub (← parseOutcome o)))
  | ["cmd", c, "delpub", n] => do some (.msg (← toNat? c) (.deletePub (← toNat? n)))
  | ["cmd", c, "delsub", n] => do some (.msg (← toNat? c) (.deleteSub (← toNat? n)))
  | ["cmd", c, "pubremote", n, o] => do some (.msg (← toNat? c) (.pubCmd (← toNat? n) (← parseOutcome o)))
  | ["cmd", c, "unpubremote", n, o] => do some (.msg (← toNat? c) (.pubCmd (← toNat? n) (← parseOutcome o)))
  | ["cmd", c, "getstreams", n, o] => do some (.msg (← toNat? c) (.pubCmd (← toNat? n) (← parseOutcome o)))
  | ["cmd", c, "unknown"] => do some (.msg (← toNat? c) .unknownCmd)
  | ["payload", c, n, kind, _variant, o] => do
    let k ← match kind with
      | "fwd" => some PayloadKind.fwd
      | "eoc" => some .eoc
      | "unsupported" => some .unsupported
      | _ => none
    some (.msg (← toNat? c) (.payload (← toNat? n) k (← parseOutcome o)))
  | ["bye", c] => do some (.msg (← toNat? c) .bye)
  | ["other", c, _ty] => do some (.msg (← toNat? c) .other)
  | _ => none

/-! ### parsing observations -/

def parseSMsg (s : String) : Option SMsg :=
  match s.splitOn "/" with
  | ["hello", sid] => (toNat? sid).map .hello
  | ["err", code] => some (.err code)
  | ["bye", r] => some (.bye r)
  | ["ev", t] => some (.ev t)
  | ["evo", t, id] => (toNat? id).map (.evObj t)
  | ["created", id] => (toNat? id).map .created
  | ["deleted", id] => (toNat? id).map .deleted
  | ["cmdok", id] => (toNat? id).map .cmdOk
  | ["payload", id] => (toNat? id).map .payload
  | _ => none

def listOf (s : String) (sep : String) : List String :=
  if s == "-" || s == "" then [] else s.splitOn sep

def parseOuts (s : String) : Option Outs :=
  (listOf s ",").mapM fun item =>
    match item.splitOn ":" with
    | [c, m] => do some ((← toNat? c), (← parseSMsg m))
    | _ => none

def parseNats (s : String) (sep : String) : Option (List Nat) := (listOf s sep).mapM toNat?

def parseSessObs (s : String) : Option SessObs :=
  -- sid@client~ms[pubs/subs]
  match s.splitOn "[" with
  | [hd, tl] =>
    match hd.splitOn "@", (takeS (tl.length - 1) tl).splitOn "/" with
    | [sid, rest], [ps, ss] =>
      match rest.splitOn "~" with
      | [cl, ms] => do
        let sid ← toNat? sid
        let cl ← if cl == "-" then some none else (toNat? cl).map some
        let ms ← toInt? ms
        some { sid := sid, client := cl, lastUsed := ms * nsPerMs, pubs := ← parseNats ps ";", subs := ← parseNats ss ";" }
      | _ => none
    | _, _ => none
  | _ => none

def parseClientObs (s : String) : Option (Nat × Bool × Nat) :=
  -- <id>(p|s)@<owner>
  match s.splitOn "@" with
  | [hd, ow] =>
    match hd.toList.reverse with
    | 'p' :: r => do some ((← toNat? (String.ofList r.reverse)), true, (← toNat? ow))
    | 's' :: r => do some ((← toNat? (String.ofList r.reverse)), false, (← toNat? ow))
    | _ => none
  | _ => none

def parseMcuObs (s : String) : Option (Nat × Nat) :=
  match s.splitOn "@" with
  | [id, ow] => do some ((← toNat? id), (← toNat? ow))
  | _ => none

def field (pre : String) (toks : List String) : Option String :=
  (toks.find? (hasPrefix pre)).map (dropS pre.length)

def parseObs (toks : List String) : Option Obs := do
  let o ← parseOuts (← field "out=" toks)
  let ss ← (listOf (← field "S=" toks) ",").mapM parseSessObs
  let cl ← (listOf (← field "C=" toks) ",").mapM parseClientObs
  let mc ← (listOf (← field "M=" toks) ",").mapM parseMcuObs
  let ks ← parseNats (← field "K=" toks) ","
  some { outs := o, sess := ss, clients := cl, mcu := mc, conns := ks }

/-! ### step -/

structure St where
  cfg : Cfg := {}
  model : State := {}
  judge : Judge := {}

def step (st : St) (op impl : List String) : St × String × String :=
  match op with
  | ["cfg", pairs] => ({ st with cfg := parseCfg pairs }, "ok", "na")
  | _ =>
  match parseOp st.model.now op with
  | none => (st, "bad-op", "na")
  | some o =>
    let (m', outs) := SigModel.Proxy.step st.cfg st.model o
    let line := s!"out={showOuts outs} {showState m'}"
    let (j', v) := match parseObs impl with
      | some obs => st.judge.observe st.cfg o obs
      | none => (st.judge, "na")
    ({ st with model := m', judge := j' }, line, v)

end SigModel.Driver.C18
