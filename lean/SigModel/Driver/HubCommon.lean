/-
Shared driver code of the hub properties (C03–C07, C19): op parsing, canonical
message tokens, table digest, and the judges that evaluate each property's spec
predicate on the implementation's observed output.

Op lines (tokens; strings percent-encoded, "-" = empty list / absent):
  connect c | hello c b (c|i) user dialout incallfeat | resume c (sN|bad|pub) | disconnect c | bye c | hk level
  join sN room rsid reply        reply = ok[:p=perm+perm][:u=user] | err:code | fail ;  room "%" = leave
  msg sN (m|c) (s|u|r|c) target data
  vadd sN room vkey user (incall|-) ok | vrm sN room vkey | iincall sN n
  api b room invite users allusers | disinvite users rsids allusers | delete | message data | incallall n
              | incall changed users (rs:n,...) | participants changed users (rs[:p=perm+perm],... / rs,...) | switchto room rsids
  limit b n
Output of both sides: sorted delivery tokens `c<conn>=<msg>` followed by `T=<digest>`.
-/
import SigModel.Driver.Loop
import SigModel.Spec.Hub

namespace SigModel.Driver.HubCommon
open SigModel.Proto SigModel.Hub

/-! ### small helpers -/

def splitOnChar (s : String) (c : Char) : List String := s.splitOn (String.singleton c)

def parseList (tok : String) : List String :=
  if tok == "-" then [] else splitOnChar tok ','

def parseSid (tok : String) : Option Nat :=
  if hasPrefix "s" tok then (dropS 1 tok).toNat? else none

def decD (tok : String) : String := (dec tok).getD ""

def sortStrings (l : List String) : List String := (l.toArray.qsort (· < ·)).toList

def sortNats (l : List Nat) : List Nat := (l.toArray.qsort (· < ·)).toList

def joinWith (sep : String) (l : List String) : String := sep.intercalate l

/-! ### messages -/

def showRType : RType → String
  | .session => "s" | .user => "u" | .room => "r" | .call => "c"

def showMsg : Msg → String
  | .hello s u => s!"hello(s{s},{enc u})"
  | .error c => s!"error({enc c})"
  | .bye r => s!"bye({enc r})"
  | .room r => s!"room({enc r})"
  | .join ss => "join[" ++ joinWith "," ((sortNats ss).map (s!"s{·}")) ++ "]"
  | .leave ss => "leave[" ++ joinWith "," ((sortNats ss).map (s!"s{·}")) ++ "]"
  | .message ctl sender v data =>
    let k := if ctl then "c" else "m"
    let vr := match v with | some x => enc x | none => "-"
    s!"msg({k},{showRType sender.rtype},s{sender.sid},{enc sender.user},{vr},{enc data})"
  | .roomlist kind r => s!"roomlist({enc kind},{enc r})"
  | .roomMsg d => s!"roommsg({enc d})"
  | .partAll n => s!"partall({n})"
  | .partUsers us =>
    "part[" ++ joinWith "," (sortStrings (us.map fun u => s!"s{u.sid}:{u.inCall}:{u.tag}")) ++ "]"
  | .switchto r => s!"switchto({enc r})"
  | .roomDeleted => "roomdeleted"
  | .hangup v => s!"hangup({enc v})"

def showOuts (outs : List Out) : List String :=
  sortStrings (outs.map fun o => s!"c{o.conn}={showMsg o.msg}")

/-! ### ops -/

def parseReply (tok : String) : Option JoinReply :=
  if tok == "fail" then some .fail
  else if hasPrefix "err:" tok then some (.err (decD (dropS 4 tok)))
  else if hasPrefix "ok" tok then
    let parts := (splitOnChar tok ':').drop 1
    let perms := parts.findSome? fun p =>
      if hasPrefix "p=" p then
        let body := dropS 2 p
        some (if body == "" then [] else (splitOnChar body '+').map decD)
      else none
    let su := (parts.findSome? fun p => if hasPrefix "u=" p then some (decD (dropS 2 p)) else none).getD ""
    some (.ok perms su)
  else none

def parsePairs (tok : String) : List (String × Nat) :=
  (parseList tok).filterMap fun e =>
    match splitOnChar e ':' with
    | [rs, n] => n.toNat?.map fun k => (decD rs, k)
    | _ => none

def parseChangedPerms (tok : String) : List (String × Option (List String)) :=
  (parseList tok).map fun e =>
    match splitOnChar e ':' with
    | [rs] => (decD rs, none)
    | rs :: p :: _ =>
      if hasPrefix "p=" p then
        let body := dropS 2 p
        (decD rs, some (if body == "" then [] else (splitOnChar body '+').map decD))
      else (decD rs, none)
    | [] => ("", none)

def parseApi : List String → Option Api
  | ["invite", us, all] => some (.invite ((parseList us).map decD) ((parseList all).map decD))
  | ["disinvite", us, rss, all] =>
    some (.disinvite ((parseList us).map decD) ((parseList rss).map decD) ((parseList all).map decD))
  | ["delete"] => some .delete
  | ["message", d] => some (.message (decD d))
  | ["incallall", n] => n.toNat?.map .incallAll
  | ["incall", ch, us] => some (.incall (parsePairs ch) (parsePairs us))
  | ["participants", ch, us] => some (.participants (parseChangedPerms ch) ((parseList us).map decD))
  | ["switchto", r, rss] => some (.switchto (decD r) ((parseList rss).map decD))
  | _ => none

def parseOp : List String → Option Op
  | ["connect", c] => c.toNat?.map .connect
  | ["hello", c, b, k, u, d, i] => do
    let c ← c.toNat?; let b ← b.toNat?
    let kind ← (if k == "c" then some Kind.client else if k == "i" then some Kind.internal else none)
    some (.hello c b kind (decD u) (d == "1") (i == "1"))
  | ["resume", c, t] => do
    let c ← c.toNat?
    some (.resume c (parseSid t))
  | ["disconnect", c] => c.toNat?.map .disconnect
  | ["bye", c] => c.toNat?.map .bye
  | ["hk", l] => l.toNat?.map .housekeeping
  | ["join", s, r, rs, rep] => do
    let s ← parseSid s; let rep ← parseReply rep
    some (.join s (decD r) (decD rs) rep)
  | ["msg", s, k, rt, tgt, d] => do
    let s ← parseSid s
    let rc ← (match rt with
      | "s" => some (Rcpt.session (parseSid tgt))
      | "u" => some (Rcpt.user (decD tgt))
      | "r" => some Rcpt.room
      | "c" => some Rcpt.call
      | _ => none)
    some (.message s (k == "c") rc (decD d))
  | ["vadd", s, r, vk, u, ic, ok] => do
    let s ← parseSid s
    some (.addVirtual s (decD r) (decD vk) (decD u) (if ic == "-" then none else ic.toNat?) (ok == "1"))
  | ["vrm", s, r, vk] => do
    let s ← parseSid s
    some (.removeVirtual s (decD r) (decD vk))
  | ["iincall", s, n] => do
    let s ← parseSid s; let n ← n.toNat?
    some (.internalInCall s n)
  | "api" :: b :: r :: rest => do
    let b ← b.toNat?; let req ← parseApi rest
    some (.api b (decD r) req)
  | ["limit", b, n] => do
    let b ← b.toNat?; let n ← n.toNat?
    some (.setLimit b n)
  | _ => none

/-! ### key universes seen so far (to enumerate function-valued tables) -/

structure Seen where
  backends : List Nat := []
  rooms : List String := []
  users : List String := []
  rsids : List String := []
  vkeys : List String := []
  conns : List Nat := []
  deriving Inhabited

def addU {α} [BEq α] (l : List α) (x : α) : List α := if l.contains x then l else l ++ [x]
def addUs {α} [BEq α] (l : List α) (xs : List α) : List α := xs.foldl addU l

def Seen.observe (sn : Seen) (h : Hub) : Op → Seen
  | .connect c => { sn with conns := addU sn.conns c }
  | .hello c b _ u _ _ => { sn with conns := addU sn.conns c, backends := addU sn.backends b, users := addU sn.users u }
  | .resume c _ => { sn with conns := addU sn.conns c }
  | .join s r rs (.ok _ su) => { sn with rooms := addU sn.rooms r, rsids := addUs sn.rsids [rs, "pub:" ++ toString s], users := addU sn.users su }
  | .join s r rs _ => { sn with rooms := addU sn.rooms r, rsids := addUs sn.rsids [rs, "pub:" ++ toString s] }
  | .message _ _ (.user u) _ => { sn with users := addU sn.users u }
  | .addVirtual _ r vk _ _ _ => { sn with rooms := addU sn.rooms r, vkeys := addU sn.vkeys vk,
                                          rsids := addU sn.rsids ("pub:" ++ toString h.nextSid) }
  | .removeVirtual _ r vk => { sn with rooms := addU sn.rooms r, vkeys := addU sn.vkeys vk }
  | .api b r req =>
    let sn := { sn with backends := addU sn.backends b, rooms := addU sn.rooms r }
    match req with
    | .invite us all => { sn with users := addUs sn.users (us ++ all) }
    | .disinvite us rss all => { sn with users := addUs sn.users (us ++ all), rsids := addUs sn.rsids rss }
    | .incall ch us => { sn with rsids := addUs sn.rsids ((ch ++ us).map (·.1)) }
    | .participants ch us => { sn with rsids := addUs sn.rsids (ch.map (·.1) ++ us) }
    | .switchto r2 rss => { sn with rooms := addU sn.rooms r2, rsids := addUs sn.rsids rss }
    | _ => sn
  | .setLimit b _ => { sn with backends := addU sn.backends b }
  | _ => sn

/-! ### table digest (same grammar as the harness's `vHubDigest`) -/

def showKind : Kind → String
  | .client => "c" | .internal => "i" | .virtual => "v"

def digestTokens (h : Hub) (sn : Seen) : List String :=
  let ss := liveSids h
  let sessToks := ss.filterMap fun s => (h.sess s).map fun x =>
    let conn := match x.conn with | some c => s!"c{c}" | none => "-"
    let perms := match x.perms with
      | none => "-"
      | some ps => "[" ++ joinWith "+" (sortStrings (ps.map enc)) ++ "]"
    let room := match x.room with | some r => enc r | none => "-"
    s!"se:s{s}:b{x.backend}:{showKind x.kind}:{enc x.user}:{room}:{enc x.roomSess}:{conn}:{x.pending.length}:{perms}:{if x.kind = .client then 0 else x.inCall}"
  let childToks := ss.flatMap fun s => match h.sess s with
    | some x => x.children.map fun v => s!"ch:s{s}:s{v}"
    | none => []
  let roomToks := sn.backends.flatMap fun b => sn.rooms.flatMap fun r =>
    match h.rooms b r with
    | none => []
    | some rm => [s!"ro:b{b}:{enc r}"] ++ rm.members.map (fun s => s!"rm:b{b}:{enc r}:s{s}")
        ++ rm.inCall.map (fun s => s!"ic:b{b}:{enc r}:s{s}")
  let rlToks := sn.backends.flatMap fun b => sn.rooms.flatMap fun r => (h.roomL b r).map fun s => s!"rl:b{b}:{enc r}:s{s}"
  let ulToks := sn.backends.flatMap fun b => sn.users.flatMap fun u => (h.userL b u).map fun s => s!"ul:b{b}:{enc u}:s{s}"
  let slToks := (sids h).filterMap fun s => if h.sessL s then some s!"sl:s{s}" else none
  let rsToks := sn.rsids.filterMap fun rs => (h.rs2sid rs).map fun s => s!"rs:{enc rs}:s{s}"
  let srToks := (sids h).filterMap fun s => (h.sid2rs s).map fun rs => s!"sr:s{s}:{enc rs}"
  let vtToks := (sids h).flatMap fun p => sn.vkeys.filterMap fun k => (h.vtable p k).map fun v => s!"vt:s{p}:{enc k}:s{v}"
  let exToks := h.expired.map (s!"ex:s{·}")
  let anToks := h.anon.map (s!"an:s{·}")
  let doToks := h.dialout.map (s!"do:s{·}")
  let ctToks := sn.backends.flatMap fun b => (h.count b).map fun s => s!"ct:b{b}:s{s}"
  let csToks := sn.conns.filterMap fun c => (h.connSess c).map fun s => s!"cs:c{c}:s{s}"
  let coToks := sn.conns.filterMap fun c => if h.connOpen c then some s!"co:c{c}" else none
  let ehToks := h.expectHello.map (s!"eh:c{·}")
  sortStrings (sessToks ++ childToks ++ roomToks ++ rlToks ++ ulToks ++ slToks ++ rsToks ++ srToks ++ vtToks
    ++ exToks ++ anToks ++ doToks ++ ctToks ++ csToks ++ coToks ++ ehToks).eraseDups

def showState (h : Hub) (sn : Seen) : String := "T=" ++ joinWith ";" (digestTokens h sn)

/-! ### parsing the implementation's output -/

structure ImplOut where
  deliveries : List (Nat × String) := []     -- (conn, message token)
  digest : List (List String) := []          -- digest tokens split at ':'
  hasDigest : Bool := false
  told : List String := []                   -- "remove" requests the fake backend received ("B=told(room,sN)")
  fed : List String := []                    -- sessions on Hub.federatedSessions ("sN")
  deriving Inhabited

def parseImpl (toks : List String) : ImplOut :=
  toks.foldl (fun o t =>
    if hasPrefix "T=" t then
      let body := dropS 2 t
      { o with hasDigest := true,
               digest := if body == "" then [] else (splitOnChar body ';').map (fun e => splitOnChar e ':') }
    else if hasPrefix "B=" t then { o with told := o.told ++ [t] }
    else if hasPrefix "F=" t then { o with fed := o.fed ++ [dropS 2 t] }
    else if hasPrefix "c" t then
      match splitOnChar t '=' with
      | c :: rest =>
        match (dropS 1 c).toNat? with
        | some n => { o with deliveries := o.deliveries ++ [(n, joinWith "=" rest)] }
        | none => o
      | [] => o
    else o) {}

/-! ### judges -/

/-- Backend on whose behalf an op acts: the spec's `originOf` (the one `C03_isolation` is stated with). -/
def originBackend (h : Hub) (op : Op) : Option Nat := originOf h op

/-- Backend of the session that owns a connection (before or after the step). -/
def connBackend (pre post : Hub) (c : Nat) : Option Nat :=
  match ((pre.connSess c).bind pre.sess).map (·.backend) with
  | some b => some b
  | none => ((post.connSess c).bind post.sess).map (·.backend)

/-- C03: nothing caused by backend `b` is written to a connection of a session of another backend. -/
def judgeC03 (pre post : Hub) (op : Op) (impl : ImplOut) : String :=
  match originBackend pre op with
  | none => "na"
  | some b =>
    let bad := impl.deliveries.filter fun (c, _) =>
      match connBackend pre post c with
      | some b' => b' ≠ b
      | none => false
    match bad with
    | [] => "ok"
    | (c, m) :: _ => s!"violated:cross-backend-delivery:c{c}:{m}"

/-- Digest entries that belong to a backend other than `b` (sessions, rooms, members, call, listeners, counts). -/
def foreignEntries (d : List (List String)) (b : Nat) : List String :=
  sortStrings <| d.filterMap fun t =>
    let bk := match t.head? with
      | some "se" => t[2]?
      | some k => if ["ro", "rm", "ic", "rl", "ul", "ct"].contains k then t[1]? else none
      | none => none
    match bk with
    | some x => if x ≠ s!"b{b}" then some (joinWith ":" t) else none
    | none => none

/-- C03, state side: nothing done on behalf of backend `b` changes what the server holds for any other
backend (sessions with their room, permissions and queue, rooms and their members, listeners, counts).
`st.lastDigest` is the implementation's state before the step. -/
def judgeC03State (lastDigest : List (List String)) (pre : Hub) (op : Op) (impl : ImplOut) : String :=
  match originBackend pre op with
  | none => "na"
  | some b =>
    if lastDigest == [] || !impl.hasDigest then "na" else
    let before := foreignEntries lastDigest b
    let after := foreignEntries impl.digest b
    if before == after then "ok"
    else
      let changed := (after.filter (!before.contains ·)) ++ (before.filter (!after.contains ·))
      s!"violated:cross-backend-state-change:b{b}:{joinWith "," (changed.take 3)}"

/-- C05: a (control) message reaches exactly the addressed sessions, once, with the true sender. -/
def judgeC05 (pre : Hub) (op : Op) (impl : ImplOut) : String :=
  match op with
  | .message s ctl rc data =>
    if !connected pre s then "na" else
    match pre.sess s with
    | none => "na"
    | some x =>
      if x.kind = .virtual then "na" else
      let allowed := !ctl || mayControl x
      let tos := if allowed then addressed pre s rc else []
      let sender : Sender := { rtype := rc.rtype, sid := s, user := userOf pre s x }
      -- expected deliveries: one per addressed session that has a connection (virtual → parent's connection)
      let expected := tos.filterMap fun t =>
        match pre.sess t with
        | none => none
        | some y =>
          let (owner, vr) := if y.kind = .virtual then (y.parent, some y.vkey) else (t, none)
          match (pre.sess owner).bind (·.conn) with
          | some c => some s!"c{c}={showMsg (.message ctl sender vr data)}"
          | none => none
      -- anything but an error reply to the sender's own connection counts as a delivery
      let got := (impl.deliveries.filter fun (c, m) => !(x.conn == some c && hasPrefix "error(" m)).map fun (c, m) => s!"c{c}={m}"
      if sortStrings expected == sortStrings got then "ok"
      else s!"violated:misrouted:expected=[{joinWith "," (sortStrings expected)}]:got=[{joinWith "," (sortStrings got)}]"
  | _ => "na"

def digestFind (d : List (List String)) (kind : String) : List (List String) :=
  d.filter fun t => t.head? == some kind

/-- C04 (server side) + C07 (residue) evaluated on the implementation's own tables. -/
def judgeTables (impl : ImplOut) : List String :=
  if !impl.hasDigest then [] else
  let d := impl.digest
  let ses := digestFind d "se"
  let live := ses.filterMap (·[1]?)
  let sessRoom := ses.filterMap fun t => match t with
    | _ :: s :: b :: _ :: _ :: r :: _ => if r == "-" then none else some (s, b, r)
    | _ => none
  let members := (digestFind d "rm").filterMap fun t => match t with
    | [_, b, r, s] => some (s, b, r)
    | _ => none
  let rooms := (digestFind d "ro").filterMap fun t => match t with
    | [_, b, r] => some (b, r)
    | _ => none
  let e1 := sessRoom.filterMap fun x => if members.contains x then none else some s!"session-room-without-membership:{x.1}"
  let e2 := members.filterMap fun x => if sessRoom.contains x then none else some s!"member-without-session-room:{x.1}"
  let e3 := rooms.filterMap fun (b, r) => if members.any (fun (_, b', r') => b' == b && r' == r) then none else some s!"empty-room:{b}:{r}"
  let e4 := members.filterMap fun (s, b, r) => if rooms.contains (b, r) then none else some s!"member-of-unlisted-room:{s}"
  let multi := members.filterMap fun (s, b, r) =>
    if members.any (fun (s', b', r') => s' == s && (b' != b || r' != r)) then some s!"two-rooms:{s}" else none
  -- residue: every session id mentioned anywhere is a live session
  let refs : List (String × String) := d.flatMap fun t => match t with
    | ["rm", _, _, s] => [("rm", s)]
    | ["ic", _, _, s] => [("ic", s)]
    | ["rl", _, _, s] => [("rl", s)]
    | ["ul", _, _, s] => [("ul", s)]
    | ["sl", s] => [("sl", s)]
    | ["rs", _, s] => [("rs", s)]
    | ["sr", s, _] => [("sr", s)]
    | ["vt", p, _, v] => [("vt", p), ("vt", v)]
    | ["ex", s] => [("ex", s)]
    | ["an", s] => [("an", s)]
    | ["do", s] => [("do", s)]
    | ["ct", _, s] => [("ct", s)]
    | ["cs", _, s] => [("cs", s)]
    | ["ch", p, v] => [("ch", p), ("ch", v)]
    | _ => []
  let e5 := refs.filterMap fun (k, s) => if live.contains s then none else some s!"residue:{k}:{s}"
  -- room listeners are members
  let e6 := (digestFind d "rl").filterMap fun t => match t with
    | [_, b, r, s] => if members.contains (s, b, r) then none else some s!"listener-not-member:{s}"
    | _ => none
  e1 ++ e2 ++ e3 ++ e4 ++ multi ++ e5 ++ e6

def verdictOf (errs : List String) : String :=
  match errs with
  | [] => "ok"
  | e :: _ => "violated:" ++ e

/-! ### shared driver state and step -/

structure St where
  hub : Hub := {}
  seen : Seen := {}
  limits : List (Nat × Nat) := []
  views : List (Nat × List String) := []     -- C04 observer: conn ↦ replayed member set (from impl deliveries)
  lastDigest : List (List String) := []      -- implementation's tables after the previous step
  deriving Inhabited

/-- Replay join/leave/room messages of the implementation into the per-connection views. -/
def updViews (views : List (Nat × List String)) (dels : List (Nat × String)) : List (Nat × List String) :=
  -- within one step the order on one connection is not recorded (multiset), so: room resets first, joins, then leaves
  let conns := (dels.map (·.1)).eraseDups
  conns.foldl (fun views c =>
    let ms := (dels.filter (·.1 == c)).map (·.2)
    let hasRoom := ms.any (fun m => hasPrefix "room(" m)
    -- a hello starts or resumes a session on this connection: what it saw before is unknown
    if ms.any (fun m => hasPrefix "hello(" m) && !hasRoom then views.filter (·.1 != c) else
    match (if hasRoom then some [] else (views.find? (·.1 == c)).map (·.2)) with
    | none => views               -- not tracked (resumed connection): stays untracked until the next room join
    | some cur =>
      let ids (m : String) (pfx : String) : List String :=
        if hasPrefix pfx m then
          let body := takeS (m.length - pfx.length - 1) (dropS pfx.length m)
          if body == "" then [] else splitOnChar body ','
        else []
      let cur := ms.foldl (fun cur m => addUs cur (ids m "join[")) cur
      let cur := ms.foldl (fun cur m => cur.filter (fun s => !(ids m "leave[").contains s)) cur
      (views.filter (·.1 != c)) ++ [(c, cur)]) views

/-- C04 (observer side): every connected member without queued messages that replays the
join/leave events written to its connection holds exactly the room's member set. -/
def judgeViews (views : List (Nat × List String)) (impl : ImplOut) : List String :=
  if !impl.hasDigest then [] else
  let d := impl.digest
  let members := (digestFind d "rm").filterMap fun t => match t with
    | [_, b, r, s] => some (s, b, r)
    | _ => none
  (digestFind d "se").flatMap fun t => match t with
    | [_, s, b, k, _, r, _, conn, pend, _, _] =>
      if r == "-" || conn == "-" || pend != "0" || k == "v" then [] else
      match (dropS 1 conn).toNat? with
      | none => []
      | some c =>
        match views.find? (·.1 == c) with
        | none => []            -- connection resumed: view not tracked across connections
        | some (_, view) =>
          let ms := members.filterMap fun (s', b', r') => if b' == b && r' == r then some s' else none
          if sortStrings view == sortStrings ms then [] else
            [s!"observer-view-differs:{s}:view=[{joinWith "," (sortStrings view)}]:members=[{joinWith "," (sortStrings ms)}]"]
    | _ => []

/-- Split a token list at every `sep` token. -/
def splitToks (sep : String) (toks : List String) : List (List String) :=
  let (cur, acc) := toks.foldl (fun (cur, acc) t => if t == sep then ([], acc ++ [cur]) else (cur ++ [t], acc)) ([], [])
  (acc ++ [cur]).filter (· ≠ [])

/-- All orders of a (short) list. -/
def perms {α : Type} : List α → List (List α)
  | [] => [[]]
  | x :: xs => (perms xs).flatMap fun p => (List.range (p.length + 1)).map fun i => p.take i ++ [x] ++ p.drop i

/-- `par a ;; b ;; …`: the sub-ops were issued concurrently.  The implementation reports only its tables at
rest; the model takes the sub-ops in every order and answers with the tables of the first order that
agrees with the implementation (of the order as written when none does: the line then differs). -/
def stepSeqs (judge : St → Hub → Op → ImplOut → String) (st : St) (cands : List (List Op)) (implToks : List String) :
    St × String × String :=
  let impl := parseImpl implToks
  let implT := (implToks.find? (hasPrefix "T=")).getD ""
  let runs := cands.map fun p =>
    p.foldl (fun (hs : Hub × Seen) op => ((SigModel.Hub.step hs.1 op).1, hs.2.observe hs.1 op)) (st.hub, st.seen)
  let pick := match runs.find? (fun hs => showState hs.1 hs.2 == implT) with
    | some hs => hs
    | none => runs.headD (st.hub, st.seen)
  -- the deliveries of a concurrent step are not recorded: the observers' views (C04) start afresh
  let st' : St := { st with hub := pick.1, seen := pick.2, views := [] }
  -- the backend is told about the virtual sessions that went away in the step, whatever the order
  let told := sortStrings ((goneVirtual st.hub pick.1).map fun (r, v) => s!"B=told({enc r},s{v})")
  let v := if implToks.isEmpty then "na" else judge st' st.hub (.housekeeping 0) impl
  ({ st' with lastDigest := if impl.hasDigest then impl.digest else st.lastDigest },
   joinToks (told ++ [showState pick.1 pick.2]), v)

def stepPar (judge : St → Hub → Op → ImplOut → String) (st : St) (subs : List (List String)) (implToks : List String) :
    St × String × String :=
  match subs.mapM parseOp with
  | none => (st, "bad-op", "na")
  | some ops =>
    let impl := parseImpl implToks
    -- registrations are tried in the order of the session ids the implementation handed out (rejected
    -- ones last); short lists are tried in every order as well
    let rank (op : Op) : Nat := match op with
      | .hello c _ _ _ _ _ =>
        (match (digestFind impl.digest "cs").find? (fun t => t[1]? == some s!"c{c}") with
         | some t => (match t[2]? with | some sm => ((dropS 1 sm).toNat?).getD 1000000 | none => 1000000)
         | none => 1000000)
      | _ => 1000000
    let sorted := (ops.toArray.qsort (fun a b => rank a < rank b)).toList
    stepSeqs judge st ([sorted] ++ (if ops.length ≤ 3 then (perms ops).reverse else [ops])) implToks

/-- `joinrace` / `vaddrace`: a request of session `s` waits for the backend while the session is taken over by
connection `c2` and says bye there; then the backend answers.  At rest the tables are those of "take-over, bye"
(the request never completed or was undone) — or, when the take-over was not possible (connection not open or in
use, session gone), those of the request followed by the failed take-over. -/
def stepRace (judge : St → Hub → Op → ImplOut → String) (st : St) (req : List String) (s c2 : String) (implToks : List String) :
    St × String × String :=
  match [req, ["resume", c2, s], ["bye", c2]].mapM parseOp with
  | some [r, res, bye] => stepSeqs judge st [[res, bye], [r, res, bye]] implToks
  | _ => (st, "bad-op", "na")

/-- One line: run the model, print its prediction, judge the implementation's output with `judge`. -/
def stepWith (judge : St → Hub → Op → ImplOut → String) (st : St) (opToks implToks : List String) :
    St × String × String :=
  if opToks.head? == some "par" then stepPar judge st (splitToks ";;" (opToks.drop 1)) implToks else
  if opToks.head? == some "joinrace" then
    -- joinrace sN room rsid c2: a join whose backend reply is held while the session is taken over by c2 and
    -- says bye there.  Whatever the interleaving, the session has ended: at rest the tables are those of
    -- "take-over, bye" (the join either never completed or was undone).
    match opToks with
    | [_, s, room, rs, c2] => stepRace judge st ["join", s, room, rs, "ok"] s c2 implToks
    | _ => (st, "bad-op", "na")
  else
  if opToks.head? == some "vaddrace" then
    -- vaddrace sN room key user c2: the same for an internal session whose request to add a virtual session is
    -- waiting for the backend: the virtual session must not come into being after its internal client ended
    match opToks with
    | [_, s, room, key, user, c2] => stepRace judge st ["vadd", s, room, key, user, "-", "1"] s c2 implToks
    | _ => (st, "bad-op", "na")
  else
  if opToks.head? == some "fed" then
    -- the list of federated sessions is not part of the model: nothing changes, the judge looks at the list
    let impl := parseImpl implToks
    let v := if implToks.isEmpty then "na" else judge st st.hub (.housekeeping 0) impl
    ({ st with lastDigest := if impl.hasDigest then impl.digest else st.lastDigest }, showState st.hub st.seen, v)
  else
  match parseOp opToks with
  | none => (st, "bad-op", "na")
  | some op =>
    let seen := st.seen.observe st.hub op
    let (h', outs) := SigModel.Hub.step st.hub op
    let told := sortStrings ((goneVirtual st.hub h').map fun (r, v) => s!"B=told({enc r},s{v})")
    let modelLine := joinToks (told ++ showOuts outs ++ [showState h' seen])
    let impl := parseImpl implToks
    let views := if implToks.isEmpty then st.views else
      -- connections that were closed lose their view; resumed sessions start a new one
      updViews st.views impl.deliveries
    let limits := match op with
      | .setLimit b n => (st.limits.filter (·.1 != b)) ++ [(b, n)]
      | _ => st.limits
    let st' : St := { st with hub := h', seen := seen, views := views, limits := limits }
    -- the judge sees the previous implementation digest in `lastDigest`
    let v := if implToks.isEmpty then "na" else judge st' st.hub op impl
    ({ st' with lastDigest := if impl.hasDigest then impl.digest else st.lastDigest }, modelLine, v)

/-- C07: the list of federated sessions holds live sessions only. -/
def judgeFederated (impl : ImplOut) : List String :=
  if !impl.hasDigest then [] else
  impl.fed.filterMap fun s =>
    if (digestFind impl.digest "se").any (fun t => t[1]? == some s) then none else some s!"residue:federated:{s}"

/-- C07: per-backend count of registered sessions never exceeds the configured limit. -/
def judgeLimits (limits : List (Nat × Nat)) (impl : ImplOut) : List String :=
  limits.filterMap fun (b, n) =>
    let cnt := ((digestFind impl.digest "ct").filter fun t => t[1]? == some s!"b{b}").length
    if n ≠ 0 && cnt > n then some s!"limit-exceeded:b{b}:{cnt}>{n}" else none

/-- Session-table line of `s` in a digest. -/
def digestSess (d : List (List String)) (s : Nat) : Option (List String) :=
  (digestFind d "se").find? fun t => t[1]? == some s!"s{s}"

/-- C06: resume semantics on the implementation's output. -/
def judgeC06 (st : St) (pre : Hub) (op : Op) (impl : ImplOut) : String :=
  match op with
  | .resume c os =>
    if !pre.connOpen c || (pre.connSess c).isSome then "na" else
    let got := (impl.deliveries.filter (·.1 == c)).map (·.2)
    let target := match os with
      | some s => (match pre.sess s with | some x => if x.kind = Kind.virtual then none else some (s, x) | none => none)
      | none => none
    match target with
    | none =>
      -- public id, mutated id, or a session that said bye / expired: refused, and it is in no room
      if got != ["error(no_such_session)"] then s!"violated:resume-not-refused:{joinWith "," got}" else
      (match os with
       | some s =>
         -- (a live virtual session is refused too — it cannot be resumed — but has not ended)
         if (pre.sess s).isNone && (digestFind impl.digest "rm").any (fun t => t[3]? == some s!"s{s}")
         then s!"violated:ended-session-still-in-room:s{s}" else "ok"
       | none => "ok")
    | some (s, x) =>
      if !(got.any (fun m => hasPrefix s!"hello(s{s}," m)) then s!"violated:resume-refused-or-other-session:{joinWith "," got}" else
      -- same room as before the resume
      let roomBefore := (digestSess st.lastDigest s).bind (·[5]?)
      let roomAfter := (digestSess impl.digest s).bind (·[5]?)
      if st.lastDigest != [] && roomBefore != roomAfter then s!"violated:room-changed-on-resume:s{s}" else
      -- without loss: every client message and room message queued for the session while it was away (the model's
      -- queue, chat-refresh notices merged into one) is written to the resuming connection
      let owed := (x.pending.map showMsg).filter (fun m => hasPrefix "msg(" m || hasPrefix "roommsg(" m)
      let lost := owed.find? (fun m => !got.contains m)
      if lost.isSome then s!"violated:message-lost-during-interruption:s{s}:{lost.getD ""}" else
      -- takeover: a previous connection is told so
      (match x.conn with
       | some p => if impl.deliveries.contains (p, "bye(session_resumed)") then "ok" else s!"violated:no-takeover-bye:c{p}"
       | none => "ok")
  | _ => "na"

/-- C19: a virtual session lives only as long as the statement says, and the backend is told when it
goes: (a) every virtual session that was in a room and is gone after the step was reported to the
backend; (b) none that is gone is still in the implementation's session table. `st.hub` is the state
after the step. -/
def judgeC19Life (st : St) (pre : Hub) (impl : ImplOut) : List String :=
  (goneVirtual pre st.hub).flatMap fun (r, v) =>
    (if impl.told.contains s!"B=told({enc r},s{v})" then [] else [s!"backend-not-told:{enc r}:s{v}"]) ++
    (if impl.hasDigest && (digestFind impl.digest "se").any (fun t => t[1]? == some s!"s{v}")
      then [s!"virtual-session-outlives-removal:s{v}"] else [])

/-- C19: add/remove requests of non-internal sessions have no effect at all. -/
def judgeC19 (st : St) (pre : Hub) (op : Op) (impl : ImplOut) : String :=
  let nonInternal (s : Nat) : Bool := match pre.sess s with
    | some x => x.kind ≠ .internal && x.conn.isSome
    | none => false
  match op with
  | .addVirtual s _ _ _ _ _ | .removeVirtual s _ _ | .internalInCall s _ =>
    if nonInternal s then
      if impl.deliveries != [] then "violated:ordinary-client-internal-request-had-output"
      else if impl.hasDigest && st.lastDigest != [] && impl.digest != st.lastDigest then "violated:ordinary-client-internal-request-changed-state"
      else "ok"
    else "na"
  | _ => "na"

end SigModel.Driver.HubCommon
