/-
Generic driver loop: one line in (`op … | impl …`), one line out
(`<model output>\t<verdict>`).  `reset` starts a new case.
Verdicts: `ok`, `na` (spec not applicable to this op), `violated:<why>`.
-/
import SigModel.Basic.Proto

namespace SigModel.Driver
open SigModel.Proto

partial def loop {σ : Type} (init : σ)
    (step : σ → List String → List String → σ × String × String)
    (inp out : IO.FS.Stream) (st : σ) : IO Unit := do
  let line ← inp.getLine
  if line.isEmpty then
    out.flush
    return ()
  let line := stripEOL line
  let (op, impl) := splitLine line
  match op with
  | ["reset"] =>
    out.putStrLn "reset\tok"
    loop init step inp out init
  | [] =>
    out.putStrLn "-\tok"
    loop init step inp out st
  | _ =>
    let (st', m, v) := step st op impl
    out.putStrLn (m ++ "\t" ++ v)
    loop init step inp out st'

end SigModel.Driver
