import SigModel.Driver.Loop
import SigModel.Spec.ShapesClient

/-! Driver for C10: ops `world mcu=0|1|2` (1 = the repository's TestMCU, 2 = the real Janus client on a stand-in gateway), `state <name>`, `msg <doc> <pad> <k=v shape tokens…>`. -/
namespace SigModel.Driver.C10
open SigModel.Proto SigModel.ShapesClient

abbrev KV := List (String × String)

def parseKV (toks : List String) : KV :=
  toks.filterMap fun t =>
    let cs := t.toList
    let k := cs.takeWhile (· ≠ '=')
    let v := (cs.dropWhile (· ≠ '=')).drop 1
    if k.length = cs.length then none
    else some (String.ofList k, (dec (String.ofList v)).getD "�")

def get (kv : KV) (k : String) : String := (kv.lookup k).getD ""
def has (kv : KV) (k : String) : Bool := (kv.lookup k).isSome
def flag (kv : KV) (k : String) : Bool := get kv k == "1"
def natOf (kv : KV) (k : String) : Nat := (get kv k).toNat?.getD 0

def urlClass (s : String) : UrlClass :=
  if s == "e" then .empty else if s == "bad" then .bad else if s == "known" then .known else .unknown

def url3 (s : String) : Url3 := if s == "e" then .empty else if s == "bad" then .bad else .ok

def roomClass (kv : KV) (k : String) : RoomClass :=
  let s := get kv k
  if s == "e" then .empty else if s == "by" then .by else if s == "deny" then .deny
  else .other (if hasPrefix "o:" s then dropS 2 s else s)

def sidClass (s : String) : SidClass :=
  if s == "e" then .empty else if s == "self" then .self else if s == "by" then .by else if s == "virt" then .virt else .other

def uidClass (s : String) : UidClass :=
  if s == "e" then .empty else if s == "self" then .self else if s == "by" then .by else .other

def parseMsgPart (kv : KV) (p : String) : MessageMsg :=
  { recipient := { rtype := get kv (p ++ ".rtype"), sid := sidClass (get kv (p ++ ".rsid")), uid := uidClass (get kv (p ++ ".ruid")) },
    dataNonEmpty := flag kv (p ++ ".data"), dataValid := get kv (p ++ ".dvalid") != "0",
    data := { jsonOk := get kv (p ++ ".dj") == "ok", dtype := get kv (p ++ ".dtype"),
              roomType := (let r := get kv (p ++ ".drt"); if r == "valid" then .valid else if r == "invalid" then .invalid else .empty),
              sdp := (let r := get kv (p ++ ".dsdp"); if r == "nostr" then .nostr else if r == "bad" then .bad else if r == "ok" then .ok else .none) },
    sdata := { jsonOk := get kv (p ++ ".sdj") == "ok", dtype := get kv (p ++ ".sdtype"),
               chat := (match kv.lookup (p ++ ".sdchat") with | some v => some (v == "1") | none => none) } }

def parseCommon (kv : KV) (p : String) : Common := { sid := get kv (p ++ ".sid"), room := roomClass kv (p ++ ".room") }

def parseMessage (kv : KV) : ClientMessage :=
  let idc := get kv "id"
  { id := if idc == "p" then .pending else if idc == "o" then .other else .empty,
    mtype := get kv "type",
    typeUtf8 := get kv "type.utf8" != "0",
    hello := if flag kv "hello" then some
      { version := get kv "h.ver", resume := if get kv "h.resume" == "e" then .empty else .other,
        featDialout := (get kv "h.feat").toList.contains 'd', featInCall := (get kv "h.feat").toList.contains 'i',
        auth := if flag kv "h.auth" then some
          { atype := get kv "h.atype", paramsNonEmpty := flag kv "h.params", url := urlClass (get kv "h.url"),
            v2TokenOk := flag kv "h.v2", v1Accept := flag kv "h.v1",
            v1User := (let u := get kv "h.v1user"; if u == "e" then .anon else if u == "r" then .restricted else .named),
            ipOk := flag kv "h.ip", iBackend := urlClass (get kv "h.ibackend"), iRandLen := natOf kv "h.irnd", iTokenOk := flag kv "h.itok" }
          else none }
      else none,
    bye := if flag kv "bye" then some () else none,
    room := if flag kv "room" then some
      { roomId := roomClass kv "r.id", sidEmpty := get kv "r.sid" == "e",
        federation := if flag kv "r.fed" then some { sig := url3 (get kv "r.fsig"), url := url3 (get kv "r.furl"), tokenNonEmpty := flag kv "r.ftok" } else none }
      else none,
    message := if flag kv "message" then some (parseMsgPart kv "m") else none,
    control := if flag kv "control" then some (parseMsgPart kv "c") else none,
    internal := if flag kv "internal" then some
      { itype := get kv "i.type",
        add := if flag kv "i.add" then some { c := parseCommon kv "i.add", opts := flag kv "i.add.opts", userValid := get kv "i.add.uvalid" != "0" } else none,
        upd := if flag kv "i.upd" then some { c := parseCommon kv "i.upd", flags := (get kv "i.upd.flags").toNat?, incall := (get kv "i.upd.incall").toInt? } else none,
        rem := if flag kv "i.rem" then some (parseCommon kv "i.rem") else none,
        incall := if flag kv "i.incall" then some ((get kv "i.incall.v").toInt?.getD 0) else none,
        dialout := if flag kv "i.dialout" then some
          { dtype := get kv "i.d.type", room := roomClass kv "i.d.room", error := if flag kv "i.d.error" then some () else none,
            status := if flag kv "i.d.status" then some (get kv "i.d.st") else none } else none }
      else none,
    transient := if flag kv "transient" then some
      { ttype := get kv "t.type", key := get kv "t.key", value := kv.lookup "t.value", valueValid := get kv "t.vvalid" != "0" } else none }

def parseFrame (kv : KV) : Frame :=
  { size := natOf kv "size", binary := get kv "frame" == "bin",
    dec := if get kv "dec" == "ok" then .ok (parseMessage kv) else .err }

/-! ### rendering -/

def insertSorted (x : String) : List String → List String
  | [] => [x]
  | y :: r => if x = y then y :: r else if x < y then x :: y :: r else y :: insertSorted x r

def canon (l : List String) : List String := l.foldr insertSorted []

def joinKinds (l : List String) : String :=
  match canon l with
  | [] => "-"
  | c => "+".intercalate c

def splitKinds (s : String) : List String := if s == "-" then [] else s.splitOn "+"

/-- `pat` matches `k`: equal, or `pat` ends in `*` and is a prefix. -/
def kindMatches (pat k : String) : Bool :=
  pat == k || (pat.toList.getLast? == some '*' && (pat.toList.dropLast).isPrefixOf k.toList)

def sub (a b : List String) : Bool := a.all (fun k => b.any (fun p => kindMatches p k))

/-- The model allows a set of outputs (`must ⊆ seen ⊆ must ∪ may`); print what was
seen if it is allowed, else the model's `must` set (so that the diff shows). -/
def renderSide (must may : List String) (seen : Option (List String)) : String :=
  match seen with
  | some l => if sub must l && sub l (must ++ may) then joinKinds l else joinKinds must ++ (if may.isEmpty then "" else "(+" ++ joinKinds may ++ ")")
  | none => joinKinds must ++ (if may.isEmpty then "" else "(+" ++ joinKinds may ++ ")")

def parseSeen (impl : List String) : Option Seen :=
  let kv := impl.filterMap fun t =>
    let cs := t.toList
    let k := cs.takeWhile (· ≠ '=')
    if k.length = cs.length then none else some (String.ofList k, String.ofList ((cs.dropWhile (· ≠ '=')).drop 1))
  match kv.lookup "s", kv.lookup "b", kv.lookup "st" with
  | some s, some b, some st => some { s := splitKinds s, b := splitKinds b, st := st, http := kv.lookup "http" }
  | _, _, _ => none

def render (o : Obs) (seen : Option Seen) : String :=
  let stS := match o.st, seen with
    | .same, _ => "same"
    | .chg, _ => "chg"
    | .any, some z => if z.st == "same" || z.st == "chg" then z.st else "same|chg"
    | .any, none => "same|chg"
  "s=" ++ renderSide o.sMust o.sMay (seen.map (·.s)) ++ " b=" ++ renderSide o.bMust o.bMay (seen.map (·.b)) ++ " st=" ++ stS ++
    (match o.http with | some h => " http=" ++ h | none => "")

/-! ### states the harness can put the sender in -/

/-- `noroom`: the world's bystander is in no room, `vroom` is a room like any other. -/
def sessOf (name : String) (noroom : Bool := false) : Option Conn :=
  let base : Sess := { internal := false, dialoutFeat := false, restrictedUser := false, restricted := false, anon := false, room := .none, fed := false }
  let vroom : RoomRef := if noroom then .other "vroom" else .by
  if name == "nosession" || name == "remote" then some .nosession
  else if name == "session" then some (.session base)
  else if name == "room" then some (.session { base with room := vroom })
  else if name == "roomr" then some (.session { base with room := vroom, restrictedUser := true, restricted := true })
  else if name == "internal" then some (.session { base with internal := true })
  else if name == "internalroom" then some (.session { base with internal := true, room := vroom })
  else if name == "dialout" then some (.session { base with internal := true, dialoutFeat := true })
  else if name == "federated" then some (.session { base with fed := true })
  else none

structure St where
  model : ShapesClient.St := ShapesClient.St.init
  noroom : Bool := false

def worldOf (mcu flags : String) : St :=
  let fl := (if hasPrefix "by=" flags then dropS 3 flags else "").toList
  { model := { ShapesClient.St.init with
      world := { mcu := mcu == "mcu=1" || mcu == "mcu=2", transient := [], virt := [],
                 rcpt := { hideNames := fl.contains 'h', inCall := fl.contains 'c' } } },
    noroom := fl.contains 'n' }

def step (st : St) (op impl : List String) : St × String × String :=
  match op with
  | ["world", mcu] => (worldOf mcu "", "ok", "ok")
  -- `by=<flags>`: the bystander as a recipient (n = in no room, h = has hide-displaynames, c = in the call)
  | ["world", mcu, flags] => (worldOf mcu flags, "ok", "ok")
  | ["state", name] =>
    match sessOf name st.noroom with
    | some c => ({ st with model := { st.model with conn := c, dialoutState := name == "dialout", remote := name == "remote",
                                                     world := { st.model.world with virt := [] } } }, "ok", "ok")
    | none => (st, "bad-op", "na")
  -- the bystander's connection goes away (its session waits to be resumed; what is sent to it is queued) ...
  | ["by", "drop"] =>
    ({ st with model := { st.model with world := { st.model.world with rcpt := { st.model.world.rcpt with detached := true } } } }, "ok", "ok")
  -- ... and comes back: the queue is flushed, everything that was queued has to arrive
  | ["by", "resume"] =>
    ({ st with model := { st.model with world := { st.model.world with rcpt := { st.model.world.rcpt with detached := false, pendingChat := false } } } },
      "ok", match impl with
        | ["ok"] => "ok"
        | [r] => if hasPrefix "lost" r then "violated:queued-message-not-delivered-on-resume" else "na"
        | _ => "na")
  | ["race", _n] =>
    -- concurrent leave / transient update of two further clients: everybody is still served
    (st, "ok", match impl with
      | ["ok"] => "ok"
      | ["stuck"] => "violated:server-stuck-after-concurrent-leave-and-transient-update"
      | _ => "na")
  | "msg" :: _doc :: _pad :: toks =>
    let kv := parseKV toks
    if get kv "dec" == "panic" then (st, "decoder-panic", "violated:decoder-panic") else
    let f := parseFrame kv
    if st.model.conn = .dead then (st, "dead", "na") else
    let seen := parseSeen impl
    match processFrame Facts.current st.model f with
    | .crash site => (st, "crash:" ++ enc site, "na")
    | .ok o next =>
      let v := match seen with
        | some z => judge Facts.current st.model f z
        | none => "na"
      ({ st with model := next }, render o seen, v)
  | _ => (st, "bad-op", "na")

end SigModel.Driver.C10
