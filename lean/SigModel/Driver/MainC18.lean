import SigModel.Driver.C18

open SigModel.Driver

def main (_args : List String) : IO UInt32 := do
  let inp ← IO.getStdin
  let out ← IO.getStdout
  loop ({} : C18.St) C18.step inp out {}
  return 0
