import SigModel.Driver.C10

open SigModel.Driver

def main (_args : List String) : IO UInt32 := do
  let inp ← IO.getStdin
  let out ← IO.getStdout
  loop ({} : C10.St) C10.step inp out {}
  return 0
