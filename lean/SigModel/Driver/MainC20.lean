import SigModel.Driver.C20

open SigModel.Driver

def main (_args : List String) : IO UInt32 := do
  let inp ← IO.getStdin
  let out ← IO.getStdout
  loop ({} : C20.St) C20.step inp out {}
  return 0
