import SigModel.Driver.C19

open SigModel.Driver

def main (_args : List String) : IO UInt32 := do
  let inp ← IO.getStdin
  let out ← IO.getStdout
  loop ({} : C19.St) C19.step inp out {}
  return 0
