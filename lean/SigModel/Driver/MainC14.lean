import SigModel.Driver.C14

open SigModel.Driver

def main (_args : List String) : IO UInt32 := do
  let inp ← IO.getStdin
  let out ← IO.getStdout
  loop ({} : C14.St) C14.step inp out {}
  return 0
