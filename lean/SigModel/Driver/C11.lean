import SigModel.Driver.Loop
import SigModel.Spec.ShapesBackend

/-!
Driver for C11.

Ops (one case = one fresh server):
  `setup <n> <room> <dial>`     n = 0: no clients; n = 1: client c1 (user u1) joined to `room` with
                                Nextcloud session id rs1, client c2 (user u2) connected without room.
                                dial ∈ none|accept|error|ringing|badtype|silent: the internal dial-out client.
  world ops (output `ok`, or `skip` when the precondition does not hold; never judged):
  `conn <k> <user>`             client ck (k = 1..4) connects as `user`
  `join <k> <room> <rsid>`      ck joins `room` with Nextcloud session id `rsid` (leaving the room it is in)
  `leave <k>` / `bye <k>`       ck leaves its room / ends its session
  `iconn` / `ijoin <room> <rsid>`  an internal client (no dial-out feature) connects / joins a room
  `virt <n> <room> <flags>` / `vrem <n>`  the internal client adds / removes virtual session vn
  `req <room> <body>`           signed POST of the (percent-encoded) bytes to /api/v1/room/<room>;
                                the bytes are a JSON document, decoded here the way the generated
                                easyjson decoder of BackendServerRoomRequest decodes it; `@ck@`, `@ci@`,
                                `@vn@` in it stand for the public session ids
  `raw <room> <bytes>`          the same with bytes that are no JSON document at all

Implementation / model output of a request: `<status|neterr> <live|dead:…|hung@…> <events> <digest>`;
digest = `<room>=<properties>=<sessions in the call>;…` over the existing rooms.
-/
namespace SigModel.Driver.C11
open SigModel.Proto SigModel.ShapesBackend

/-! ### a small JSON reader (documents produced by the harness printer) -/

inductive J where
  | null
  | bool (b : Bool)
  | num (lit : String)
  | str (s : String)
  | arr (xs : List J)
  | obj (kvs : List (String × J × String))     -- key, value, raw text of the value
  deriving Inhabited

def isWs (c : Char) : Bool := c == ' ' || c == '\n' || c == '\t' || c == '\r'

/-- The document as an array of characters; every parser takes and returns an index into it
(positions make the raw text of a member a slice, linear in its own size). -/
abbrev Src := Array Char

def Src.at (a : Src) (i : Nat) : Char := a.getD i (Char.ofNat 0)

partial def skipWs (a : Src) (i : Nat) : Nat :=
  if i < a.size && isWs (a.at i) then skipWs a (i + 1) else i

def hex4 (a : Src) (i : Nat) : Option Nat :=
  if i + 4 ≤ a.size then
    match hexVal (a.at i), hexVal (a.at (i + 1)), hexVal (a.at (i + 2)), hexVal (a.at (i + 3)) with
    | some w, some x, some y, some z => some (((w * 16 + x) * 16 + y) * 16 + z)
    | _, _, _, _ => none
  else none

/-- After the opening quote; returns the string and the index after the closing quote. -/
partial def parseStr (a : Src) (i : Nat) (acc : List Char) : Option (String × Nat) :=
  if i ≥ a.size then none else
  let c := a.at i
  if c == '"' then some (String.ofList acc.reverse, i + 1)
  else if c == '\\' then
    if i + 1 ≥ a.size then none else
    let e := a.at (i + 1)
    if e == '"' then parseStr a (i + 2) ('"' :: acc)
    else if e == '\\' then parseStr a (i + 2) ('\\' :: acc)
    else if e == '/' then parseStr a (i + 2) ('/' :: acc)
    else if e == 'b' then parseStr a (i + 2) (Char.ofNat 8 :: acc)
    else if e == 'f' then parseStr a (i + 2) (Char.ofNat 12 :: acc)
    else if e == 'n' then parseStr a (i + 2) ('\n' :: acc)
    else if e == 'r' then parseStr a (i + 2) ('\r' :: acc)
    else if e == 't' then parseStr a (i + 2) ('\t' :: acc)
    else if e == 'u' then
      match hex4 a (i + 2) with
      | none => none
      | some n =>
        if 0xD800 ≤ n ∧ n < 0xDC00 then
          if a.at (i + 6) == '\\' && a.at (i + 7) == 'u' then
            match hex4 a (i + 8) with
            | some m =>
              if 0xDC00 ≤ m ∧ m < 0xE000 then
                parseStr a (i + 12) (Char.ofNat (0x10000 + (n - 0xD800) * 1024 + (m - 0xDC00)) :: acc)
              else none
            | none => none
          else none
        else parseStr a (i + 6) (Char.ofNat n :: acc)
    else none
  else if c.toNat < 0x20 then none
  else parseStr a (i + 1) (c :: acc)

def isNumChar (c : Char) : Bool :=
  ('0' ≤ c && c ≤ '9') || c == '-' || c == '+' || c == '.' || c == 'e' || c == 'E'

partial def numEnd (a : Src) (i : Nat) : Nat :=
  if i < a.size && isNumChar (a.at i) then numEnd a (i + 1) else i

def slice (a : Src) (i j : Nat) : String := String.ofList (a.extract i j).toList

def litAt (a : Src) (i : Nat) (lit : String) : Bool :=
  let cs := lit.toList
  i + cs.length ≤ a.size && (List.range cs.length).all (fun k => a.at (i + k) == cs.getD k ' ')

mutual
partial def parseVal (a : Src) (i0 : Nat) : Option (J × Nat) :=
  let i := skipWs a i0
  if i ≥ a.size then none else
  let c := a.at i
  if litAt a i "null" then some (.null, i + 4)
  else if litAt a i "true" then some (.bool true, i + 4)
  else if litAt a i "false" then some (.bool false, i + 5)
  else if c == '"' then (parseStr a (i + 1) []).map (fun (s, j) => (.str s, j))
  else if c == '[' then
    let j := skipWs a (i + 1)
    if a.at j == ']' && j < a.size then some (.arr [], j + 1) else parseElems a j []
  else if c == '{' then
    let j := skipWs a (i + 1)
    if a.at j == '}' && j < a.size then some (.obj [], j + 1) else parseMembers a j []
  else if c == '-' || ('0' ≤ c && c ≤ '9') then
    let j := numEnd a i
    some (.num (slice a i j), j)
  else none

partial def parseElems (a : Src) (i : Nat) (acc : List J) : Option (J × Nat) :=
  match parseVal a i with
  | none => none
  | some (v, j) =>
    let k := skipWs a j
    if k ≥ a.size then none
    else if a.at k == ',' then parseElems a (k + 1) (v :: acc)
    else if a.at k == ']' then some (.arr (v :: acc).reverse, k + 1)
    else none

partial def parseMembers (a : Src) (i : Nat) (acc : List (String × J × String)) : Option (J × Nat) :=
  let i := skipWs a i
  if i ≥ a.size || a.at i != '"' then none else
  match parseStr a (i + 1) [] with
  | none => none
  | some (k, j) =>
    let j := skipWs a j
    if j ≥ a.size || a.at j != ':' then none else
    let v0 := skipWs a (j + 1)
    match parseVal a v0 with
    | none => none
    | some (v, v1) =>
      let raw := slice a v0 v1
      let n := skipWs a v1
      if n ≥ a.size then none
      else if a.at n == ',' then parseMembers a (n + 1) ((k, v, raw) :: acc)
      else if a.at n == '}' then some (.obj ((k, v, raw) :: acc).reverse, n + 1)
      else none
end

def parseJson (s : String) : Option J :=
  let a : Src := s.toList.toArray
  match parseVal a 0 with
  | some (v, j) => if skipWs a j ≥ a.size then some v else none
  | none => none

/-! ### BackendServerRoomRequest as the easyjson decoder builds it

Rules of the generated code: a member whose value is `null` is skipped (the field keeps its value);
unknown members are skipped; a member of the wrong JSON type is an error; a repeated sub-object
member merges into the existing sub-object, a repeated list/map member replaces it. -/

/-- `-?(0|[1-9][0-9]*)`: what `strconv.ParseInt` (jlexer.Int64, json.Unmarshal into int) accepts. -/
def intLit? (lit : String) : Option Int :=
  let cs := lit.toList
  let ds := if cs.head? = some '-' then cs.drop 1 else cs
  if ds.isEmpty || !ds.all (fun c => '0' ≤ c && c ≤ '9') then none
  else if ds.length > 1 && ds.head? = some '0' then none
  else match lit.toInt? with
    | some n => if -9223372036854775808 ≤ n ∧ n ≤ 9223372036854775807 then some n else none   -- int64
    | none => none

/-- float64 → `int(value)` for plain decimal literals (integer part). -/
def truncLit (lit : String) : Int :=
  let cs := lit.toList.takeWhile (fun c => c != '.' && c != 'e' && c != 'E')
  (String.ofList cs).toInt?.getD 0

def strList? : J → Option (List String)
  | .arr xs => xs.mapM (fun x => match x with | .str s => some s | _ => none)
  | _ => none

def toVal : J → Val
  | .null => .null
  | .bool b => .bool b
  | .num lit => .num (truncLit lit)
  | .str s => .str s
  | .arr xs => .list (xs.map (fun x => match x with | .str s => some s | _ => none))
  | .obj _ => .other

/-- `[]map[string]interface{}`: elements are `null` or objects. -/
def entries? : J → Option (List Entry)
  | .arr xs => xs.mapM (fun x => match x with
    | .null => some ([] : Entry)
    | .obj kvs => some (kvs.foldl (fun (e : Entry) (k, v, _) => Entry.set e k (toVal v)) [])
    | _ => none)
  | _ => none

abbrev Members := List (String × J × String)

/-- Fold over the non-null members of an object. -/
def foldMembers {α : Type} (kvs : Members) (init : α) (f : α → String → J → String → Option α) : Option α :=
  kvs.foldlM (fun a (k, v, raw) => match v with
    | .null => some a
    | _ => f a k v raw) init

def str? : J → Option String
  | .str s => some s
  | _ => none

def decInvite (cur : Invite) (kvs : Members) : Option Invite :=
  foldMembers kvs cur fun a k v raw =>
    if k = "userids" then (strList? v).map (fun l => { a with userIds := l })
    else if k = "alluserids" then (strList? v).map (fun l => { a with allUserIds := l })
    else if k = "properties" then some { a with properties := raw }
    else some a

def decDisinvite (cur : Disinvite) (kvs : Members) : Option Disinvite :=
  foldMembers kvs cur fun a k v raw =>
    if k = "userids" then (strList? v).map (fun l => { a with userIds := l })
    else if k = "sessionids" then (strList? v).map (fun l => { a with sessionIds := l })
    else if k = "alluserids" then (strList? v).map (fun l => { a with allUserIds := l })
    else if k = "properties" then some { a with properties := raw }
    else some a

def decUpdate (cur : Update) (kvs : Members) : Option Update :=
  foldMembers kvs cur fun a k v raw =>
    if k = "userids" then (strList? v).map (fun l => { a with userIds := l })
    else if k = "properties" then some { a with properties := raw }
    else some a

def decDelete (cur : Delete) (kvs : Members) : Option Delete :=
  foldMembers kvs cur fun a k v _ =>
    if k = "userids" then (strList? v).map (fun l => { a with userIds := l })
    else some a

def rawInCall : J → RawInCall
  | .num lit => match intLit? lit with
    | some n => .int n
    | none => .other
  | .bool b => .bool b
  | _ => .other

def decInCall (cur : InCall) (kvs : Members) : Option InCall :=
  foldMembers kvs cur fun a k v _ =>
    if k = "incall" then some { a with inCall := rawInCall v }
    else if k = "all" then (match v with | .bool b => some { a with all := b } | _ => none)
    else if k = "changed" then (entries? v).map (fun l => { a with changed := l })
    else if k = "users" then (entries? v).map (fun l => { a with users := l })
    else some a

def decParticipants (cur : Participants) (kvs : Members) : Option Participants :=
  foldMembers kvs cur fun a k v _ =>
    if k = "changed" then (entries? v).map (fun l => { a with changed := l })
    else if k = "users" then (entries? v).map (fun l => { a with users := l })
    else some a

def decMessage (cur : Message) (kvs : Members) : Option Message :=
  foldMembers kvs cur fun a k _ raw =>
    if k = "data" then some { a with data := raw } else some a

/-- encoding/json on the raw `sessions`: `[]string` takes strings and nulls (""), a map any object. -/
def rawSessions (v : J) : RawSessions :=
  match v with
  | .arr xs =>
    { present := true, bracket := true,
      asList := xs.mapM (fun x => match x with | .str s => some s | .null => some "" | _ => none),
      asMap := none }
  | .obj kvs =>
    { present := true, bracket := false, asList := none,
      asMap := some (kvs.foldl (fun acc (k, _, _) => if acc.contains k then acc else acc ++ [k]) []) }
  | _ => { present := true, bracket := false, asList := none, asMap := none }

def decSwitchTo (cur : SwitchTo) (kvs : Members) : Option SwitchTo :=
  foldMembers kvs cur fun a k v _ =>
    if k = "roomid" then (str? v).map (fun s => { a with roomId := s })
    else if k = "sessions" then some { a with sessions := rawSessions v }
    else if k = "sessionslist" then (strList? v).map (fun l => { a with sessionsList := l })
    else if k = "sessionsmap" then
      (match v with
       | .obj ms => some { a with sessionsMap := ms.foldl (fun acc (k, _, _) => if acc.contains k then acc else acc ++ [k]) [] }
       | _ => none)
    else some a

def decDialout (cur : Dialout) (kvs : Members) : Option Dialout :=
  foldMembers kvs cur fun a k v _ =>
    if k = "number" then (str? v).map (fun s => { a with number := s }) else some a

def decTransient (cur : Transient) (kvs : Members) : Option Transient :=
  foldMembers kvs cur fun a k v _ =>
    if k = "action" then (str? v).map (fun s => { a with action := s })
    else if k = "key" then (str? v).map (fun s => { a with key := s })
    else if k = "ttl" then (match v with | .num lit => (intLit? lit).map (fun _ => a) | _ => none)
    else some a

/-- A sub-object member: must be an object; decoded into the existing sub-object or a new one. -/
def sub {β : Type} (v : J) (cur : Option β) (new : β) (dec : β → Members → Option β) : Option (Option β) :=
  match v with
  | .obj kvs => (dec (cur.getD new) kvs).map some
  | _ => none

def decRequest : J → Option Request
  | .null => some {}
  | .obj kvs =>
    foldMembers kvs ({} : Request) fun r k v _ =>
      if k = "type" then (str? v).map (fun s => { r with type := s })
      else if k = "invite" then (sub v r.invite {} decInvite).map (fun x => { r with invite := x })
      else if k = "disinvite" then (sub v r.disinvite {} decDisinvite).map (fun x => { r with disinvite := x })
      else if k = "update" then (sub v r.update {} decUpdate).map (fun x => { r with update := x })
      else if k = "delete" then (sub v r.delete {} decDelete).map (fun x => { r with delete := x })
      else if k = "incall" then (sub v r.inCall {} decInCall).map (fun x => { r with inCall := x })
      else if k = "participants" then (sub v r.participants {} decParticipants).map (fun x => { r with participants := x })
      else if k = "message" then (sub v r.message {} decMessage).map (fun x => { r with message := x })
      else if k = "switchto" then (sub v r.switchTo {} decSwitchTo).map (fun x => { r with switchTo := x })
      else if k = "dialout" then (sub v r.dialout {} decDialout).map (fun x => { r with dialout := x })
      else if k = "transient" then (sub v r.transient {} decTransient).map (fun x => { r with transient := x })
      else if k = "received" then (match v with | .num lit => (intLit? lit).map (fun _ => r) | _ => none)
      else some r
  | _ => none

/-! ### ops, outputs -/

def c1 : String := "@c1@"
def c2 : String := "@c2@"
def initialProps : String := "{\"initial\":true}"

def parseDial : String → Option DialoutEnv
  | "none" => some .noClient
  | "accept" => some .accepted
  | "error" => some .errorReply
  | "ringing" => some .otherStatus
  | "badtype" => some .otherType
  | "silent" => some .timeout
  | _ => none

/-- `conn k user` -/
def addClient (w : World) (pub user : String) (kind : Kind) : Option World :=
  if w.sessions.any (·.pub = pub) then none
  else some { w with sessions := w.sessions ++ [{ pub := pub, user := user, kind := kind }] }

def rsidInUse (w : World) (rs : String) : Bool :=
  w.sessions.any (fun s => s.kind != .virtual && s.room.isSome && s.rsid = rs)

/-- The session leaves its room (`LeaveRoom`): out of the call, room-session entry dropped; the room
goes when it was the last member. -/
def leaveRoom (w : World) (pub : String) : World :=
  ({ w with sessions := w.sessions.map (fun s =>
      if s.pub = pub then { s with room := none, rsid := "", inCall := false } else s) } : World).gc

/-- `join k room rsid` / `ijoin room rsid` (Hub.processRoom + processJoinRoom): the session leaves
the room it is in; a room that does not exist yet is created with the properties the backend sent
(nothing for an internal client, which joins without asking the backend). -/
def joinRoom (w : World) (pub room rs : String) : Option World :=
  match w.sessions.find? (fun s => s.pub = pub && s.kind != .virtual) with
  | none => none
  | some s =>
    if room = "" || rs = "" || rsidInUse w rs || s.room = some room then none else
    let w1 := leaveRoom w pub
    let fresh := !w1.roomExists room
    let w2 : World := { w1 with sessions := w1.sessions.map (fun x =>
      if x.pub = pub then { x with room := some room, rsid := rs } else x) }
    some (if fresh then w2.setProps room (if s.kind = .internal then "" else initialProps) else w2)

def removeSession (w : World) (pub : String) : World :=
  ({ w with sessions := w.sessions.filter (·.pub != pub) } : World).gc

def clientPub (k : Nat) : Option String :=
  if 1 ≤ k ∧ k ≤ 4 then some s!"@c{k}@" else none

def ciPub : String := "@ci@"

def mkWorld (n : Nat) (room : String) (d : DialoutEnv) : World :=
  let w0 : World := { dialout := d }
  if n = 0 then w0
  else
    let w1 := (addClient w0 c1 "u1" .client).getD w0
    let w2 := (addClient w1 c2 "u2" .client).getD w1
    (joinRoom w2 c1 room "rs1").getD w2

/-- The scripted changes of the world; `none` = precondition not met ("skip"). -/
def worldOp (w : World) : List String → Option (Option World)
  | ["conn", k, user] =>
    some (match toNat? k, dec user with
      | some k, some user => (clientPub k).bind (fun pub => addClient w pub user .client)
      | _, _ => none)
  | ["join", k, room, rs] =>
    some (match toNat? k, dec room, dec rs with
      | some k, some room, some rs =>
        (clientPub k).bind (fun pub =>
          if w.sessions.any (fun s => s.pub = pub && s.kind = .client) then joinRoom w pub room rs else none)
      | _, _, _ => none)
  | ["leave", k] =>
    some (match toNat? k with
      | some k => (clientPub k).bind (fun pub =>
          if w.sessions.any (fun s => s.pub = pub && s.room.isSome) then some (leaveRoom w pub) else none)
      | none => none)
  | ["bye", k] =>
    some (match toNat? k with
      | some k => (clientPub k).bind (fun pub =>
          if w.sessions.any (·.pub = pub) then some (removeSession w pub) else none)
      | none => none)
  | ["iconn"] => some (addClient w ciPub "" .internal)
  | ["ijoin", room, rs] =>
    some (match dec room, dec rs with
      | some room, some rs => joinRoom w ciPub room rs
      | _, _ => none)
  | ["virt", n, room, flags] =>
    some (match toNat? n, dec room, toNat? flags with
      | some n, some room, some _flags =>     -- (the virtual session's own flag; not the room's call list)
        let pub := s!"@v{n}@"
        if !(w.sessions.any (·.pub = ciPub)) || n < 1 || n > 2 || w.sessions.any (·.pub = pub) ||
            room = "" || !w.roomExists room then none
        else some { w with sessions := w.sessions ++
          [{ pub := pub, user := s!"vuv{n}", kind := .virtual, room := some room, rsid := pub }] }
      | _, _, _ => none)
  | ["vrem", n] =>
    some (match toNat? n with
      | some n =>
        let pub := s!"@v{n}@"
        if w.sessions.any (·.pub = ciPub) && w.sessions.any (·.pub = pub) then some (removeSession w pub) else none
      | none => none)
  | _ => none

def evName : Ev → String
  | .roomlistInvite => "roomlist-invite"
  | .roomlistUpdate => "roomlist-update"
  | .roomlistDisinvite _ => "roomlist-disinvite"
  | .roomProps => "room-props"
  | .roomLeft => "room-left"
  | .roomMessage => "room-message"
  | .switchTo => "room-switchto"
  | .participantsUpdate => "participants-update"
  | .closed => "closed"
  | .roomLeave => "room-leave"
  | .roomDelete => "room-delete"
  | .control => "control"

def stripAt (s : String) : String := String.ofList (s.toList.filter (· != '@'))

def insertSorted (x : String) : List String → List String
  | [] => [x]
  | y :: ys => if x < y then x :: y :: ys else if x = y then y :: ys else y :: insertSorted x ys

def showEvents (es : List Event) : String :=
  let names := es.foldl (fun acc e => insertSorted (stripAt e.to ++ ":" ++ evName e.ev) acc) []
  if names.isEmpty then "-" else ",".intercalate names

def roomIds (w : World) : List String :=
  (w.sessions.filterMap (·.room)).foldl (fun acc r => insertSorted r acc) []

def digest (w : World) : String :=
  let parts := (roomIds w).map fun r =>
    let inc := ((w.members r).filter (·.inCall)).foldl (fun acc s => insertSorted (stripAt s.pub) acc) []
    s!"{enc r}={enc (w.propsOf r)}={if inc.isEmpty then "-" else "+".intercalate inc}"
  if parts.isEmpty then "-" else ";".intercalate parts

def showOut (o : Out) : String :=
  let st := match o.http with
    | .status c => toString c
    | .noReply => "neterr"
  let live := if o.crash then "dead" else "live"
  s!"{st} {live} {showEvents o.events} {digest o.world}"

def parseObserved : List String → Option Observed
  | [st, live, evs, dg] =>
    let status := if st = "neterr" then some none else (toNat? st).map some
    status.map fun s =>
      { status := s, live := live = "live", liveWhy := live,
        events := if evs = "-" then [] else evs.splitOn ",", digest := dg }
  | _ => none

/-- Without a `setup` op (a shrunk case) both sides start from `setup 0 100 none`. -/
structure St where
  world : World := mkWorld 0 "100" .noClient
  judge : Judge := { lastDigest := digest (mkWorld 0 "100" .noClient) }
  ready : Bool := false

def bodyOf (bytes : List UInt8) (decoded : Option Body) : Option Body :=
  if bytes.length > genCfg.maxBodySize then some .tooLarge else decoded

def request (st : St) (kind : String) (room body : String) (impl : List String) : St × String × String :=
  match dec room, decBytes body with
  | some room, some bytes =>
    let decoded : Option Body :=
      if kind = "raw" then some .undecodable
      else match String.fromUTF8? (ByteArray.mk bytes.toArray) with
        | none => none
        | some txt => (parseJson txt).map (fun j => match decRequest j with
          | some r => .ok r
          | none => .undecodable)
    match bodyOf bytes decoded with
    | none => (st, "bad-op", "na")
    | some b =>
      let o := SigModel.ShapesBackend.step genCfg st.world room b
      let (j', v) := match parseObserved impl with
        | some ob => st.judge.observe st.world b ob
        | none => (st.judge, "na")
      ({ world := o.world, judge := j', ready := true }, showOut o, v)
  | _, _ => (st, "bad-op", "na")

def step (st : St) (op impl : List String) : St × String × String :=
  match op with
  | "setup" :: rest =>
    match rest with
    | [n, room, dial] =>
      match toNat? n, dec room, parseDial dial with
      | some n, some room, some d =>
        if st.ready then (st, "bad-op", "na") else
        let w := mkWorld n room d
        ({ world := w, judge := { lastDigest := digest w }, ready := true }, "ok", "ok")
      | _, _, _ => (st, "bad-op", "na")
    | _ => (st, "bad-op", "na")
  | ["req", room, body] => request st "req" room body impl
  | ["raw", room, body] => request st "raw" room body impl
  | _ =>
    match worldOp st.world op with
    | none => (st, "bad-op", "na")
    | some none => ({ st with ready := true }, "skip", "na")
    | some (some w) => ({ world := w, judge := { lastDigest := digest w }, ready := true }, "ok", "na")

end SigModel.Driver.C11
