import SigModel.Driver.Loop
import SigModel.Spec.ShapesBackend

/-!
Driver for C11.

Ops (one case = one fresh server):
  `setup <n> <room> <dial>`     n = 0: no clients; n = 1: client c1 (user u1) joined to `room` with
                                Nextcloud session id rs1, client c2 (user u2) connected without room.
                                dial ∈ none|accept|error|ringing|badtype|silent: the internal dial-out client.
  `req <room> <body>`           signed POST of the (percent-encoded) bytes to /api/v1/room/<room>;
                                the bytes are a JSON document, decoded here the way the generated
                                easyjson decoder of BackendServerRoomRequest decodes it
  `raw <room> <bytes>`          the same with bytes that are no JSON document at all

Implementation / model output of a request: `<status|neterr> <live|dead> <events> <digest>`.
-/
namespace SigModel.Driver.C11
open SigModel.Proto SigModel.ShapesBackend

/-! ### a small JSON reader (documents produced by the harness printer) -/

inductive J where
  | null
  | bool (b : Bool)
  | num (lit : String)
  | str (s : String)
  | arr (xs : List J)
  | obj (kvs : List (String × J × String))     -- key, value, raw text of the value
  deriving Inhabited

def isWs (c : Char) : Bool := c == ' ' || c == '\n' || c == '\t' || c == '\r'

def skipWs : List Char → List Char
  | c :: cs => if isWs c then skipWs cs else c :: cs
  | [] => []

def hex4 : List Char → Option (Nat × List Char)
  | a :: b :: c :: d :: rest =>
    match hexVal a, hexVal b, hexVal c, hexVal d with
    | some w, some x, some y, some z => some (((w * 16 + x) * 16 + y) * 16 + z, rest)
    | _, _, _, _ => none
  | _ => none

partial def parseStr (cs : List Char) (acc : List Char) : Option (String × List Char) :=
  match cs with
  | [] => none
  | '"' :: rest => some (String.ofList acc.reverse, rest)
  | '\\' :: e :: rest =>
    match e with
    | '"' => parseStr rest ('"' :: acc)
    | '\\' => parseStr rest ('\\' :: acc)
    | '/' => parseStr rest ('/' :: acc)
    | 'b' => parseStr rest (Char.ofNat 8 :: acc)
    | 'f' => parseStr rest (Char.ofNat 12 :: acc)
    | 'n' => parseStr rest ('\n' :: acc)
    | 'r' => parseStr rest ('\r' :: acc)
    | 't' => parseStr rest ('\t' :: acc)
    | 'u' =>
      match hex4 rest with
      | some (n, rest') =>
        if 0xD800 ≤ n ∧ n < 0xDC00 then
          match rest' with
          | '\\' :: 'u' :: r2 =>
            match hex4 r2 with
            | some (m, r3) =>
              if 0xDC00 ≤ m ∧ m < 0xE000 then
                parseStr r3 (Char.ofNat (0x10000 + (n - 0xD800) * 1024 + (m - 0xDC00)) :: acc)
              else none
            | none => none
          | _ => none
        else parseStr rest' (Char.ofNat n :: acc)
      | none => none
    | _ => none
  | c :: rest => if c.toNat < 0x20 then none else parseStr rest (c :: acc)

def isNumChar (c : Char) : Bool :=
  ('0' ≤ c && c ≤ '9') || c == '-' || c == '+' || c == '.' || c == 'e' || c == 'E'

def rawOf (before after : List Char) : String :=
  String.ofList (before.take (before.length - after.length))

mutual
partial def parseVal (cs0 : List Char) : Option (J × List Char) :=
  let cs := skipWs cs0
  match cs with
  | 'n' :: 'u' :: 'l' :: 'l' :: rest => some (.null, rest)
  | 't' :: 'r' :: 'u' :: 'e' :: rest => some (.bool true, rest)
  | 'f' :: 'a' :: 'l' :: 's' :: 'e' :: rest => some (.bool false, rest)
  | '"' :: rest => (parseStr rest []).map (fun (s, r) => (.str s, r))
  | '[' :: rest =>
    match skipWs rest with
    | ']' :: r => some (.arr [], r)
    | r => parseElems r []
  | '{' :: rest =>
    match skipWs rest with
    | '}' :: r => some (.obj [], r)
    | r => parseMembers r []
  | c :: _ =>
    if c == '-' || ('0' ≤ c && c ≤ '9') then
      let lit := cs.takeWhile isNumChar
      some (.num (String.ofList lit), cs.drop lit.length)
    else none
  | [] => none

partial def parseElems (cs : List Char) (acc : List J) : Option (J × List Char) :=
  match parseVal cs with
  | none => none
  | some (v, rest) =>
    match skipWs rest with
    | ',' :: r => parseElems r (v :: acc)
    | ']' :: r => some (.arr (v :: acc).reverse, r)
    | _ => none

partial def parseMembers (cs : List Char) (acc : List (String × J × String)) : Option (J × List Char) :=
  match skipWs cs with
  | '"' :: rest =>
    match parseStr rest [] with
    | none => none
    | some (k, r1) =>
      match skipWs r1 with
      | ':' :: r2 =>
        let r2 := skipWs r2
        match parseVal r2 with
        | none => none
        | some (v, r3) =>
          let raw := rawOf r2 r3
          match skipWs r3 with
          | ',' :: r4 => parseMembers r4 ((k, v, raw) :: acc)
          | '}' :: r4 => some (.obj ((k, v, raw) :: acc).reverse, r4)
          | _ => none
      | _ => none
  | _ => none
end

def parseJson (s : String) : Option J :=
  match parseVal s.toList with
  | some (v, rest) => if (skipWs rest).isEmpty then some v else none
  | none => none

/-! ### BackendServerRoomRequest as the easyjson decoder builds it

Rules of the generated code: a member whose value is `null` is skipped (the field keeps its value);
unknown members are skipped; a member of the wrong JSON type is an error; a repeated sub-object
member merges into the existing sub-object, a repeated list/map member replaces it. -/

/-- `-?(0|[1-9][0-9]*)`: what `strconv.ParseInt` (jlexer.Int64, json.Unmarshal into int) accepts. -/
def intLit? (lit : String) : Option Int :=
  let cs := lit.toList
  let ds := if cs.head? = some '-' then cs.drop 1 else cs
  if ds.isEmpty || !ds.all (fun c => '0' ≤ c && c ≤ '9') then none
  else if ds.length > 1 && ds.head? = some '0' then none
  else match lit.toInt? with
    | some n => if -9223372036854775808 ≤ n ∧ n ≤ 9223372036854775807 then some n else none   -- int64
    | none => none

/-- float64 → `int(value)` for plain decimal literals (integer part). -/
def truncLit (lit : String) : Int :=
  let cs := lit.toList.takeWhile (fun c => c != '.' && c != 'e' && c != 'E')
  (String.ofList cs).toInt?.getD 0

def strList? : J → Option (List String)
  | .arr xs => xs.mapM (fun x => match x with | .str s => some s | _ => none)
  | _ => none

def toVal : J → Val
  | .null => .null
  | .bool b => .bool b
  | .num lit => .num (truncLit lit)
  | .str s => .str s
  | .arr xs => .list (xs.map (fun x => match x with | .str s => some s | _ => none))
  | .obj _ => .other

/-- `[]map[string]interface{}`: elements are `null` or objects. -/
def entries? : J → Option (List Entry)
  | .arr xs => xs.mapM (fun x => match x with
    | .null => some ([] : Entry)
    | .obj kvs => some (kvs.foldl (fun (e : Entry) (k, v, _) => Entry.set e k (toVal v)) [])
    | _ => none)
  | _ => none

abbrev Members := List (String × J × String)

/-- Fold over the non-null members of an object. -/
def foldMembers {α : Type} (kvs : Members) (init : α) (f : α → String → J → String → Option α) : Option α :=
  kvs.foldlM (fun a (k, v, raw) => match v with
    | .null => some a
    | _ => f a k v raw) init

def str? : J → Option String
  | .str s => some s
  | _ => none

def decInvite (cur : Invite) (kvs : Members) : Option Invite :=
  foldMembers kvs cur fun a k v raw =>
    if k = "userids" then (strList? v).map (fun l => { a with userIds := l })
    else if k = "alluserids" then (strList? v).map (fun l => { a with allUserIds := l })
    else if k = "properties" then some { a with properties := raw }
    else some a

def decDisinvite (cur : Disinvite) (kvs : Members) : Option Disinvite :=
  foldMembers kvs cur fun a k v raw =>
    if k = "userids" then (strList? v).map (fun l => { a with userIds := l })
    else if k = "sessionids" then (strList? v).map (fun l => { a with sessionIds := l })
    else if k = "alluserids" then (strList? v).map (fun l => { a with allUserIds := l })
    else if k = "properties" then some { a with properties := raw }
    else some a

def decUpdate (cur : Update) (kvs : Members) : Option Update :=
  foldMembers kvs cur fun a k v raw =>
    if k = "userids" then (strList? v).map (fun l => { a with userIds := l })
    else if k = "properties" then some { a with properties := raw }
    else some a

def decDelete (cur : Delete) (kvs : Members) : Option Delete :=
  foldMembers kvs cur fun a k v _ =>
    if k = "userids" then (strList? v).map (fun l => { a with userIds := l })
    else some a

def rawInCall : J → RawInCall
  | .num lit => match intLit? lit with
    | some n => .int n
    | none => .other
  | .bool b => .bool b
  | _ => .other

def decInCall (cur : InCall) (kvs : Members) : Option InCall :=
  foldMembers kvs cur fun a k v _ =>
    if k = "incall" then some { a with inCall := rawInCall v }
    else if k = "all" then (match v with | .bool b => some { a with all := b } | _ => none)
    else if k = "changed" then (entries? v).map (fun l => { a with changed := l })
    else if k = "users" then (entries? v).map (fun l => { a with users := l })
    else some a

def decParticipants (cur : Participants) (kvs : Members) : Option Participants :=
  foldMembers kvs cur fun a k v _ =>
    if k = "changed" then (entries? v).map (fun l => { a with changed := l })
    else if k = "users" then (entries? v).map (fun l => { a with users := l })
    else some a

def decMessage (cur : Message) (kvs : Members) : Option Message :=
  foldMembers kvs cur fun a k _ raw =>
    if k = "data" then some { a with data := raw } else some a

/-- encoding/json on the raw `sessions`: `[]string` takes strings and nulls (""), a map any object. -/
def rawSessions (v : J) : RawSessions :=
  match v with
  | .arr xs =>
    { present := true, bracket := true,
      asList := xs.mapM (fun x => match x with | .str s => some s | .null => some "" | _ => none),
      asMap := none }
  | .obj kvs =>
    { present := true, bracket := false, asList := none,
      asMap := some (kvs.foldl (fun acc (k, _, _) => if acc.contains k then acc else acc ++ [k]) []) }
  | _ => { present := true, bracket := false, asList := none, asMap := none }

def decSwitchTo (cur : SwitchTo) (kvs : Members) : Option SwitchTo :=
  foldMembers kvs cur fun a k v _ =>
    if k = "roomid" then (str? v).map (fun s => { a with roomId := s })
    else if k = "sessions" then some { a with sessions := rawSessions v }
    else if k = "sessionslist" then (strList? v).map (fun l => { a with sessionsList := l })
    else if k = "sessionsmap" then
      (match v with
       | .obj ms => some { a with sessionsMap := ms.foldl (fun acc (k, _, _) => if acc.contains k then acc else acc ++ [k]) [] }
       | _ => none)
    else some a

def decDialout (cur : Dialout) (kvs : Members) : Option Dialout :=
  foldMembers kvs cur fun a k v _ =>
    if k = "number" then (str? v).map (fun s => { a with number := s }) else some a

def decTransient (cur : Transient) (kvs : Members) : Option Transient :=
  foldMembers kvs cur fun a k v _ =>
    if k = "action" then (str? v).map (fun s => { a with action := s })
    else if k = "key" then (str? v).map (fun s => { a with key := s })
    else if k = "ttl" then (match v with | .num lit => (intLit? lit).map (fun _ => a) | _ => none)
    else some a

/-- A sub-object member: must be an object; decoded into the existing sub-object or a new one. -/
def sub {β : Type} (v : J) (cur : Option β) (new : β) (dec : β → Members → Option β) : Option (Option β) :=
  match v with
  | .obj kvs => (dec (cur.getD new) kvs).map some
  | _ => none

def decRequest : J → Option Request
  | .null => some {}
  | .obj kvs =>
    foldMembers kvs ({} : Request) fun r k v _ =>
      if k = "type" then (str? v).map (fun s => { r with type := s })
      else if k = "invite" then (sub v r.invite {} decInvite).map (fun x => { r with invite := x })
      else if k = "disinvite" then (sub v r.disinvite {} decDisinvite).map (fun x => { r with disinvite := x })
      else if k = "update" then (sub v r.update {} decUpdate).map (fun x => { r with update := x })
      else if k = "delete" then (sub v r.delete {} decDelete).map (fun x => { r with delete := x })
      else if k = "incall" then (sub v r.inCall {} decInCall).map (fun x => { r with inCall := x })
      else if k = "participants" then (sub v r.participants {} decParticipants).map (fun x => { r with participants := x })
      else if k = "message" then (sub v r.message {} decMessage).map (fun x => { r with message := x })
      else if k = "switchto" then (sub v r.switchTo {} decSwitchTo).map (fun x => { r with switchTo := x })
      else if k = "dialout" then (sub v r.dialout {} decDialout).map (fun x => { r with dialout := x })
      else if k = "transient" then (sub v r.transient {} decTransient).map (fun x => { r with transient := x })
      else if k = "received" then (match v with | .num lit => (intLit? lit).map (fun _ => r) | _ => none)
      else some r
  | _ => none

/-! ### ops, outputs -/

def c1 : String := "@c1@"
def c2 : String := "@c2@"
def initialProps : String := "{\"initial\":true}"

def parseDial : String → Option DialoutEnv
  | "none" => some .noClient
  | "accept" => some .accepted
  | "error" => some .errorReply
  | "ringing" => some .otherStatus
  | "badtype" => some .otherType
  | "silent" => some .timeout
  | _ => none

def mkWorld (n : Nat) (room : String) (d : DialoutEnv) : World :=
  if n = 0 then { roomId := room, dialout := d }
  else { roomId := room, dialout := d, props := initialProps,
         sessions := [{ pub := c1, user := "u1", rsid := some "rs1" }, { pub := c2, user := "u2" }] }

def evName : Ev → String
  | .roomlistInvite => "roomlist-invite"
  | .roomlistUpdate => "roomlist-update"
  | .roomlistDisinvite _ => "roomlist-disinvite"
  | .roomProps => "room-props"
  | .roomLeft => "room-left"
  | .roomMessage => "room-message"
  | .switchTo => "room-switchto"
  | .participantsUpdate => "participants-update"
  | .closed => "closed"

def stripAt (s : String) : String := String.ofList (s.toList.filter (· != '@'))

def insertSorted (x : String) : List String → List String
  | [] => [x]
  | y :: ys => if x < y then x :: y :: ys else if x = y then y :: ys else y :: insertSorted x ys

def showEvents (es : List Event) : String :=
  let names := es.foldl (fun acc e => insertSorted (stripAt e.to ++ ":" ++ evName e.ev) acc) []
  if names.isEmpty then "-" else ",".intercalate names

def digest (w : World) : String :=
  let r := if w.roomExists then "1" else "0"
  let i := if w.members.any (fun s => s.pub = c1 && s.inCall) then "1" else "0"
  s!"r{r}i{i}p{enc w.props}"

def showOut (o : Out) : String :=
  let st := match o.http with
    | .status c => toString c
    | .noReply => "neterr"
  let live := if o.crash then "dead" else "live"
  s!"{st} {live} {showEvents o.events} {digest o.world}"

def parseObserved : List String → Option Observed
  | [st, live, evs, dg] =>
    let status := if st = "neterr" then some none else (toNat? st).map some
    status.map fun s =>
      { status := s, live := live = "live",
        events := if evs = "-" then [] else evs.splitOn ",", digest := dg }
  | _ => none

structure St where
  world : World := { roomId := "" }
  judge : Judge := {}

def bodyOf (bytes : List UInt8) (decoded : Option Body) : Option Body :=
  if bytes.length > genCfg.maxBodySize then some .tooLarge else decoded

def step (st : St) (op impl : List String) : St × String × String :=
  match op with
  | ["setup", n, room, dial] =>
    match toNat? n, dec room, parseDial dial with
    | some n, some room, some d =>
      let w := mkWorld n room d
      ({ world := w, judge := { lastDigest := digest w } }, "ok", "ok")
    | _, _, _ => (st, "bad-op", "na")
  | [kind, room, body] =>
    if kind != "req" && kind != "raw" then (st, "bad-op", "na") else
    match dec room, decBytes body with
    | some room, some bytes =>
      let decoded : Option Body :=
        if kind = "raw" then some .undecodable
        else match String.fromUTF8? (ByteArray.mk bytes.toArray) with
          | none => none
          | some txt => (parseJson txt).map (fun j => match decRequest j with
            | some r => .ok r
            | none => .undecodable)
      match bodyOf bytes decoded with
      | none => (st, "bad-op", "na")
      | some b =>
        let o := SigModel.ShapesBackend.step genCfg st.world room b
        let (j', v) := match parseObserved impl with
          | some ob => st.judge.observe st.world b ob
          | none => (st.judge, "na")
        ({ world := o.world, judge := j' }, showOut o, v)
    | _, _ => (st, "bad-op", "na")
  | _ => (st, "bad-op", "na")

end SigModel.Driver.C11
