import SigModel.Driver.HubCommon

/-! Driver for C03: the shared hub model (`Model/Hub.lean`) with this property's judge. -/
namespace SigModel.Driver.C03
open SigModel.Proto SigModel.Hub SigModel.Driver.HubCommon

abbrev St := HubCommon.St

def step (st : St) (op impl : List String) : St × String × String :=
  stepWith (fun st pre op impl =>
    match judgeC03 pre (SigModel.Hub.step pre op).1 op impl with
    | "ok" | "na" => (match judgeC03State st.lastDigest pre op impl with
        | "na" => judgeC03 pre (SigModel.Hub.step pre op).1 op impl
        | v => v)
    | v => v) st op impl

end SigModel.Driver.C03
