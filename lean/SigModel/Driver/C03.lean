import SigModel.Driver.HubCommon

/-! Driver for C03: the shared hub model (`Model/Hub.lean`) with this property's judge. -/
namespace SigModel.Driver.C03
open SigModel.Proto SigModel.Hub SigModel.Driver.HubCommon

abbrev St := HubCommon.St

def step (st : St) (op impl : List String) : St × String × String :=
  stepWith (fun _ pre op impl => judgeC03 pre (SigModel.Hub.step pre op).1 op impl) st op impl

end SigModel.Driver.C03
