import SigModel.Driver.Loop
import SigModel.Spec.Mcu

/-! Driver for C09: model of clientsession.go's publisher / subscriber handling
(`Model/Mcu.lean`, configuration read from the source) and the judge of
`Spec/Mcu.lean` on the implementation's answers.

Requests carry a label chosen by the generator; the driver keeps the map from
labels to the model's object ids, the protocol only ever shows labels. -/
namespace SigModel.Driver.C09
open SigModel.Proto SigModel.Mcu

/-- Number of sessions of a harness case. -/
def nSessions : Nat := 3

def parsePerms (tok : String) : Perms :=
  let cs := tok.toList
  { media := cs.contains 'm', audio := cs.contains 'a', video := cs.contains 'v', screen := cs.contains 's' }

def parseOutcome (tok : String) : Option Outcome :=
  if tok = "ok" then some .ok else if tok = "fail" then some .fail
  else if tok = "timeout" then some .timeout else none

/-- A stream type token: only the ones the media server accepts exist in the model. -/
def parseStreamTok (tok : String) : Option Stream :=
  if SigModel.Generated.Mcu.publishableStreams.contains tok then parseStream tok else none

def sessTok (tok : String) : Option Nat := do
  let n ← toNat? tok
  if n < nSessions then some n else none

/-- The sessions of a harness case. -/
def allSessions : List Nat := List.range nSessions

/-- `c` user client, `d` federation client, `i` internal client, `f` internal client with the feature
`internal-incall`; an upper-case letter = a client connection is attached. -/
def parseMeta (tok : String) : Option Meta :=
  let mk (t : CType) (feature conn : Bool) : Option Meta :=
    some { ctype := t, feature := feature, flags := initialFlags t feature, connected := conn }
  if tok = "c" then mk .client false false else if tok = "C" then mk .client false true
  else if tok = "d" then mk .federation false false else if tok = "D" then mk .federation false true
  else if tok = "i" then mk .internal false false else if tok = "I" then mk .internal false true
  else if tok = "f" then mk .internal true false else if tok = "F" then mk .internal true true
  else none

structure St where
  model : State := State.init
  judge : Judge := {}
  /-- label ↦ model object id -/
  labels : List (Nat × Nat) := []
  /-- lines seen so far (`world` is only an op as the first line of a case) -/
  lines : Nat := 0

def St.idOf (st : St) (l : Nat) : Option Nat := (st.labels.find? (fun p => p.1 == l)).map (·.2)
def St.labelOf (st : St) (k : Nat) : Nat :=
  match st.labels.find? (fun p => p.2 == k) with
  | some p => p.1
  | none => 0

/-- Parsed op and its label (0 where there is none). -/
def parseOp (st : St) : List String → Option (Op × Nat)
  | ["join", s, r] => do some (.join (← sessTok s) (← toNat? r), 0)
  | ["leave", s] => do some (.leave (← sessTok s), 0)
  | ["incall", s, b] => do some (.incall (← sessTok s) (b == "1"), 0)
  | ["perms", s, p] => do some (.perms (← sessTok s) (parsePerms p), 0)
  | ["offer", l, s, t, m] => do some (.offer (← sessTok s) (parseStreamTok t) (parseMedia m), ← toNat? l)
  | ["request", l, s, p, t] => do some (.request (← sessTok s) (← sessTok p) (parseStreamTok t), ← toNat? l)
  | ["sendoffer", l, p, s, t] => do some (.sendoffer (← sessTok p) (← sessTok s) (parseStreamTok t), ← toNat? l)
  | ["end", l, o] => do
    let l ← toNat? l
    let o ← parseOutcome o
    -- an unknown label is answered `bad` by the model (no pending call has id 0)
    some (.finish ((st.idOf l).getD 0) o, l)
  | ["close", s] => do some (.close (← sessTok s), 0)
  | ["state"] => some (.state, 0)
  | "world" :: toks => do
    if toks.length != nSessions then none
    some (.world (← toks.mapM parseMeta), 0)
  | ["incallall", r, b] => do some (.incallAll (← toNat? r) (b == "1") allSessions, 0)
  | ["intincall", s, f] => do some (.intIncall (← sessTok s) (← toNat? f), 0)
  | ["delroom", r] => do some (.delRoom (← toNat? r) allSessions, 0)
  | ["disinvite", s, r] => do some (.disinvite (← sessTok s) (← toNat? r), 0)
  | ["kick", s] => do some (.kick (← sessTok s), 0)
  | ["asyncbye", s] => do some (.asyncBye (← sessTok s), 0)
  | ["bye", s] => do some (.bye (← sessTok s), 0)
  | ["drop", s] => do some (.drop (← sessTok s), 0)
  | ["expire"] => some (.expire allSessions, 0)
  | ["virtual", s, r] => do some (.virtual (← sessTok s) (← toNat? r), 0)
  | _ => none

def step1 (st : St) (op impl : List String) : St × String × String :=
  match op with
  | ["stress", seed, g, n] =>
    -- not predictable (real concurrency): the model side only says `stress`, the judge looks at the final state
    match toNat? seed, toNat? g, toNat? n with
    | some _, some g, some n =>
      if 1 ≤ g ∧ g ≤ 64 ∧ 1 ≤ n ∧ n ≤ 1000 then
        (st, "stress", if impl.isEmpty then "na" else stressVerdict impl)
      else (st, "bad-op", "na")
    | _, _, _ => (st, "bad-op", "na")
  | ["janus", t] =>
    if (parseStreamTok t).isSome then
      (st, janusExpected, if impl.isEmpty then "na" else if joinToks impl = janusExpected then "ok" else "violated:janus-close-leaves-objects")
    else (st, "bad-op", "na")
  | ["janustimeout", t] =>
    if (parseStreamTok t).isSome then
      (st, janusTimeoutExpected, if impl.isEmpty then "na" else if joinToks impl = janusTimeoutExpected then "ok"
        else "violated:janus-create-timeout-leaves-objects")
    else (st, "bad-op", "na")
  | _ =>
  match parseOp st op with
  | none => (st, "bad-op", "na")
  | some (o, label) =>
    if (match o with | .world _ => st.lines != 0 | _ => false) then (st, "bad-op", "na") else
    let (m', out) := exec codeCfg st.model o
    -- a request that reached the media server got the id `nextId`
    let labels := if out == s!"pending {st.model.nextId}" then (label, st.model.nextId) :: st.labels else st.labels
    let st1 : St := { st with model := m', labels := labels }
    let out := match o, out.splitOn " " with
      | .state, _ => stateOutput m' st1.labelOf
      | _, ["pending", _] => "pending"
      | _, ["existing", k] => s!"existing {st1.labelOf (k.toNat?.getD 0)}"
      | _, _ => out
    let (j', v) := if impl.isEmpty then (st.judge, "na") else st.judge.observe o label impl
    ({ st1 with judge := j' }, out, v)

def step (st : St) (op impl : List String) : St × String × String :=
  let (st', out, v) := step1 st op impl
  ({ st' with lines := st'.lines + 1 }, out, v)

end SigModel.Driver.C09
