import SigModel.Driver.Loop
import SigModel.Spec.Auth

/-!
Driver for C01.  Op lines are `verb k=v k=v …` (values percent-encoded); the
implementation line is `<reply> ; S=<session table> || <oracle bits>` where the
oracle bits (`dec`, `tokok`, `vf`) are computed by the harness with library
primitives at execution time (signatures are randomised, keys are per run).

  cfg sec=<0|1> aa=<0|1> aa.http=<0|1> aa.limit=<n>
  backend host=<h> id=<id> url=<normalised url|%> http=<0|1> limit=<n> owner=<tenant|*>
  tenant name=<t> key=<rsa|ecdsa|ed25519|none> fed=<0|1>
  start
  connect c=<n> addr=<ip> akey=<r:ip|6:hex>
  disconnect c=<n>
  hello c=<n> ver= rid= auth= params= type= url= u.*= v1= pok= t.*= rnd= b.*=
  msg c=<n> ty=<type> shape=<undecodable|invalid|valid>
  bye c=<n>
  rrace c=<n> rid=priv:<k> end=<bye|expire> o=<n|-> first=<resume|end|free>

Implementation lines of the ops after `start`: `<reply> ; S=<sessions> ; K=<Hub.clients> ; E=<Hub.expectHelloClients>`.
-/
namespace SigModel.Driver.C01
open SigModel.Proto SigModel.Auth

abbrev KV := List (String × String)

def splitKV (tok : String) : String × String :=
  let cs := tok.toList
  (String.ofList (cs.takeWhile (· ≠ '=')), String.ofList ((cs.dropWhile (· ≠ '=')).drop 1))

def kvs (toks : List String) : KV := toks.map splitKV

def get (kv : KV) (k : String) : String := (kv.lookup k).getD ""
def getS (kv : KV) (k : String) : String := ((kv.lookup k).bind dec).getD ""
def getB (kv : KV) (k : String) : Bool := get kv k == "1"
def getN (kv : KV) (k : String) : Nat := (toNat? (get kv k)).getD 0

def nsPerSec : Int := 1000000000

/-- `-` = claim absent, otherwise seconds relative to now -/
def getTime (kv : KV) (k : String) : Option Int :=
  match toInt? (get kv k) with
  | some s => some (s * nsPerSec)
  | none => none

def parseUrl (kv : KV) (p : String) : Url :=
  { raw := getS kv (p ++ "raw"), ok := getB kv (p ++ "ok"), scheme := getS kv (p ++ "scheme"),
    host := getS kv (p ++ "host"), hostname := getS kv (p ++ "hostname"), port := getS kv (p ++ "port"),
    strHost := getS kv (p ++ "s1"), strHostname := getS kv (p ++ "s2"), dotSeg := getB kv (p ++ "dot"),
    srv := getS kv (p ++ "srv") }

def parseKey (s : String) : Option KeyFam :=
  if s == "rsa" then some .rsa else if s == "ecdsa" then some .ecdsa else if s == "ed25519" then some .ed25519 else none

def parseV1 (s : String) : V1Ans :=
  if hasPrefix "auth:" s then .auth ((dec (dropS 5 s)).getD "")
  else if hasPrefix "error:" s then .error ((dec (dropS 6 s)).getD "")
  else if s == "other" then .other
  else .fail

def parseResume (s : String) (decodes : Bool) : Resume :=
  if s == "-" || s == "" then {}
  else
    let exact := if hasPrefix "priv:" s then toNat? (dropS 5 s) else none
    { present := true, exact := exact, decodes := decodes }

def parseHello (kv : KV) (ora : KV) : Hello :=
  let vf := ((get ora "vf").splitOn ",").filterMap dec
  { version := getS kv "ver",
    resume := parseResume (get kv "rid") (getB ora "dec"),
    hasAuth := getB kv "auth", hasParams := getB kv "params", authType := getS kv "type",
    url := parseUrl kv "u.",
    v1ans := parseV1 (get kv "v1"),
    paramsOk := getB kv "pok",
    tok := { empty := getB kv "t.empty", wellFormed := getB kv "t.wf",
             alg := if get kv "t.alg" == "-" then none else some (getS kv "t.alg"),
             sigDecodes := getB kv "t.sigok",
             iat := getTime kv "t.iat", nbf := getTime kv "t.nbf", exp := getTime kv "t.exp",
             sub := getS kv "t.sub",
             verifies := fun n => vf.contains n },
    rnd := getS kv "rnd", tokenOk := getB ora "tokok",
    burl := parseUrl kv "b." }

def parseShape (s : String) : Option Shape :=
  if s == "undecodable" then some .undecodable else if s == "invalid" then some .invalid
  else if s == "valid" then some .valid else none

/-- `r:<enc string>` (unparsable / IPv4 / mapped) or `6:<32 hex digits>` (genuine IPv6), classified by the
generator with `net.ParseIP` (as in the C17 harness) -/
def parseAddr (tok : String) : Throttle.Addr :=
  if hasPrefix "6:" tok then
    match hexToNats (takeS 32 (dropS 2 tok)).toList with
    | some bs => if bs.length = 16 then .v6 bs else .raw tok
    | none => .raw tok
  else .raw ((dec (dropS 2 tok)).getD "")

def parseOp (verb : String) (kv ora : KV) : Option Op :=
  if verb == "connect" then some (.connect (getN kv "c") (parseAddr (get kv "akey")))
  else if verb == "disconnect" then some (.disconnect (getN kv "c"))
  else if verb == "hello" then some (.hello (getN kv "c") (parseHello kv ora))
  else if verb == "msg" then (parseShape (get kv "shape")).map (fun sh => .msg (getN kv "c") (getS kv "ty") sh)
  else if verb == "bye" then some (.bye (getN kv "c"))
  else none

/-! ### printing -/

def showReply : Reply → String
  | .welcome => "welcome"
  | .hello sid b k u => s!"hello {sid} {enc b} {enc k} {enc u}"
  | .error code => s!"error {enc code}"
  | .bye => "bye"
  | .done => "done"
  | .ignored => "none"
  | .closed => "closed"

def showSess (s : Sess) : String :=
  let c := match s.conn with
    | some c => toString c
    | none => "-"
  s!"{s.sid}:{enc s.backend}:{enc s.kind}:{enc s.user}:{c}"

def showSessions (ss : List Sess) : String :=
  "S=" ++ (if ss.isEmpty then "-" else ",".intercalate (ss.map showSess))

def showBackend (b : Backend) : String :=
  s!"{enc b.id}|{enc b.url}|{if b.allowHttp then 1 else 0}|{b.limit}"

def showCfg (cfg : Cfg) : String :=
  let hosts := cfg.hosts.map (fun he => "h:" ++ enc he.1 ++ "=" ++ ";".intercalate (he.2.map showBackend))
  let aa := match cfg.allowAll with
    | some b => showBackend b
    | none => "-"
  joinToks (["cfg", s!"sec={if cfg.secretSet then 1 else 0}", "aa=" ++ aa] ++ hosts)

/-! ### parsing the implementation's observation -/

def parseReply : List String → Option Reply
  | ["welcome"] => some .welcome
  | ["hello", sid, b, k, u] => do
    some (.hello (← toNat? sid) (← dec b) (← dec k) (← dec u))
  | ["error", code] => (dec code).map .error
  | ["bye"] => some .bye
  | ["done"] => some .done
  | ["none"] => some .ignored
  | ["closed"] => some .closed
  | _ => none

def parseSess (s : String) : Option Sess :=
  match s.splitOn ":" with
  | [sid, b, k, u, c] => do
    some { sid := (← toNat? sid), backend := (← dec b), kind := (← dec k), user := (← dec u), conn := toNat? c }
  | _ => none

def parseSessions (tok : String) : Option (List Sess) :=
  if !hasPrefix "S=" tok then none
  else
    let body := dropS 2 tok
    if body == "-" then some [] else (body.splitOn ",").mapM parseSess

/-- `<reply…> ; S=… ; K=… ; E=… || k=v …` -/
def splitImpl (impl : List String) : List String × List String × KV :=
  let obs := impl.takeWhile (· ≠ "||")
  let ora := (impl.dropWhile (· ≠ "||")).drop 1
  (obs.takeWhile (· ≠ ";"), ((obs.dropWhile (· ≠ ";")).drop 1).filter (· ≠ ";"), kvs ora)

/-- `Hub.clients` as the sequential model has it: the connection of every session that has one -/
def modelClients (h : Hub) : List (Nat × Nat) :=
  (h.sessions.filterMap (fun s => s.conn.map (fun c => (c, s.sid)))).mergeSort (fun a b => a.1 ≤ b.1)

/-- `Hub.expectHelloClients` as the sequential model has it: the open connections without session -/
def modelExpect (h : Hub) (skip : Option Nat) : List Nat :=
  ((h.conns.map (·.1)).filter (fun c => (h.sessionOf c).isNone && skip ≠ some c)).mergeSort (fun a b => a ≤ b)

def showClients (ks : List (Nat × Nat)) : String :=
  "K=" ++ (if ks.isEmpty then "-" else ",".intercalate (ks.map (fun k => s!"{k.1}:{k.2}")))

def showExpect (es : List Nat) : String :=
  "E=" ++ (if es.isEmpty then "-" else ",".intercalate (es.map toString))

def showTables (h : Hub) (skip : Option Nat) : String :=
  showSessions h.sessions ++ " ; " ++ showClients (modelClients h) ++ " ; " ++ showExpect (modelExpect h skip)

/-- `K=<conn>:<sid>[!],…` -/
def parseClients (tok : String) : Option (List (Nat × Nat × Bool)) :=
  if !hasPrefix "K=" tok then none
  else
    let body := dropS 2 tok
    if body == "-" then some []
    else (body.splitOn ",").mapM (fun e =>
      let bad := e.toList.getLast? == some '!'
      let e' := if bad then String.ofList e.toList.dropLast else e
      match e'.splitOn ":" with
      | [c, sid] => do some ((← toNat? c), (← toNat? sid), bad)
      | _ => none)

/-- the observation at rest: `S=…` and, when present, `K=…` -/
def parseObs (reply : Reply) (toks : List String) : Option Obs :=
  match toks with
  | s :: rest => do
    let ss ← parseSessions s
    let ks ← match rest with
      | k :: _ => parseClients k
      | [] => some []
    some { reply := reply, sessions := ss, clients := ks }
  | [] => none

structure St where
  cfg : Cfg := {}
  env : Env := {}
  started : Bool := false
  hub : Hub := {}
  judge : Judge := {}

def addBackend (hosts : List (String × List Backend)) (host : String) (b : Backend) : List (String × List Backend) :=
  if (hosts.lookup host).isSome then hosts.map (fun he => if he.1 = host then (he.1, he.2 ++ [b]) else he)
  else hosts ++ [(host, [b])]

def now0 : Int := 0

/-- `rrace`: a hello with the resume id of session `k` on connection `c` while that session ends.  The
sequential model has no order for the two; both orders (and the overlap: attached, then ended) leave the same
tables, and the reply to `c` is one of `hello:k`, `error:no_such_session`, nothing — the model's line takes the
implementation's reply if it is one of them. -/
def race (st : St) (kv ora : KV) (replyToks sessToks : List String) : St × String × String :=
  let h := st.hub
  let c := getN kv "c"
  let m := parseHello kv ora
  let o := toNat? (get kv "o")
  let en := get kv "end"
  let target := m.resume.exact.bind (fun sid => h.sessions.find? (fun s => s.sid = sid))
  let okPre := h.isOpen c && (h.sessionOf c).isNone &&
    (match target with
     | some s =>
       if en == "bye" then (match o with | some p => s.conn == some p && p != c && h.isOpen p | none => false)
       else if en == "expire" then s.conn.isNone
       else false
     | none => false)
  if en != "bye" && en != "expire" then (st, "bad-op", "na")
  else
  match target, okPre with
  | some s, true =>
    let blocked := (Throttle.check h.thr now0 (h.tkey c) "HelloResume").2
    -- a bye racing freely (or after) the resume may be lost with the connection the take-over closes: then the
    -- tables at rest are those of the resume alone
    let keep := en == "bye" && get kv "first" != "end"
    let resumedAlive := keep && (match parseObs .ignored sessToks with
      | some obs => obs.sessions.any (fun x => x.sid = s.sid && x.conn == some c)
      | none => false)
    let h' := if resumedAlive then (helloResume now0 h c m).1 else raceRest now0 h c s.sid (if en == "bye" then o else none)
    let allowed := if blocked then ["error:" ++ enc (errCode "TooManyRequests")]
      else if !m.resume.decodes then ["error:" ++ enc (errCode "NoSuchSession")]
      else ["none", s!"hello:{s.sid}", "error:" ++ enc (errCode "NoSuchSession")]
    let got := " ".intercalate replyToks
    let reply := if allowed.contains got then got else allowed.headD "none"
    let out := reply ++ " ; " ++ showTables h' (some c)
    let (j', v) :=
      match parseObs .ignored sessToks with
      | some obs => st.judge.observeRace s.sid (got == s!"hello:{s.sid}") obs (if keep then some c else none)
      | none => (st.judge, "na")
    ({ st with hub := h', judge := j' }, out, v)
  | _, _ =>
    let v := match parseObs .ignored sessToks with
      | some obs => if obs.dangling then "violated:connection-kept-for-a-session-that-is-not-live" else "na"
      | none => "na"
    (st, "skip ; " ++ showTables h none, v)

def step (st : St) (op impl : List String) : St × String × String :=
  match op with
  | [] => (st, "bad-op", "na")
  | verb :: rest =>
    let kv := kvs rest
    if st.started && (verb == "cfg" || verb == "backend" || verb == "tenant") then (st, "bad-op", "na")
    else if verb == "cfg" then
      let aa : Option Backend := if getB kv "aa" then
        some { id := "compat", url := "", allowHttp := getB kv "aa.http", limit := getN kv "aa.limit", owner := "*" } else none
      ({ st with cfg := { st.cfg with secretSet := getB kv "sec", allowAll := aa } }, "ok", "na")
    else if verb == "backend" then
      let b : Backend := { id := getS kv "id", url := getS kv "url", allowHttp := getB kv "http",
                           limit := getN kv "limit", owner := getS kv "owner" }
      ({ st with cfg := { st.cfg with hosts := addBackend st.cfg.hosts (getS kv "host") b } }, "ok", "na")
    else if verb == "tenant" then
      let t : Tenant := { name := getS kv "name", key := parseKey (get kv "key"), fed := getB kv "fed" }
      ({ st with env := { tenants := st.env.tenants ++ [t] } }, "ok", "na")
    else if verb == "start" then
      if st.started then (st, "bad-op", "na") else ({ st with started := true }, showCfg st.cfg, "na")
    else if !st.started then (st, "bad-op", "na")
    else
      let (replyToks, sessToks, ora) := splitImpl impl
      if verb == "rrace" then race st kv ora replyToks sessToks
      else
      match parseOp verb kv ora with
      | none => (st, "bad-op", "na")
      | some o =>
        let (h', r) := Auth.step st.cfg st.env now0 st.hub o
        let out := showReply r ++ " ; " ++ showTables h' none
        let (j', v) :=
          match (parseReply replyToks).bind (fun ir => parseObs ir sessToks) with
          | some obs => st.judge.observe st.cfg st.env now0 o obs
          | none => (st.judge, "na")
        ({ st with hub := h', judge := j' }, out, v)

end SigModel.Driver.C01
