import SigModel.Driver.Loop

/-! Driver for C01 — stub (no model yet). -/
namespace SigModel.Driver.C01

structure St where
  dummy : Unit := ()

def step (st : St) (_op _impl : List String) : St × String × String := (st, "bad-op", "na")

end SigModel.Driver.C01
