import SigModel.Driver.Loop
import SigModel.Spec.SessionId

/-!
Driver for C15.  Ops (tokens; ids percent-encoded, byte strings as `x<hex>`):

* `keys <ks> <x hash key> <x block key | ->`            define a key set
* `oracle <ks> <x value> <x plain | bad>`               decrypt∘deserialise of one value (from stdlib AES / proto, not from the code under test)
* `mint <p|q> <ks> <now> <x data> <x value> <label>`    real `EncodePrivate/EncodePublic` (clock and IV pinned) → `id <tok>` | `err`
* `forge <p|q> <ks> <x data> <id> <label>`              id built by the harness with the keys of `ks` (registers it as minted)
* `dec <p|q> <ks> <id> <label>`                         (label = the mint/forge op the string derives from) `DecodePrivate/DecodePublic` → `ok <x data>` | `err`
* `hdec <p|q> <ks> <id> <label>`                              `Hub.decode{Private,Public}SessionId` → `ok <x data> c<0|1>` | `err c<0|1>`  (c = cache holds the key afterwards)
* `hinv <p|q> <ks> <id>`                                `Hub.invalidateSessionId` → `- c0|c1`
* `hreg <ks> <now> <x data> <x value priv> <x value pub> <label>`  mint both + `setDecodedSessionId` → `ids <tok> <tok>` | `err`
* `hmac <x key> <x msg>`                                 Lean HMAC-SHA256 vs Go's → `x<hex>`
-/
namespace SigModel.Driver.C15
open SigModel SigModel.Proto SigModel.SessionId

structure KeySet where
  hashKey : Bytes
  blockKey : Option Bytes
  deriving Repr

structure St where
  keys : List (String × KeySet) := []
  oracle : List (String × Bytes × Option Bytes) := []
  hubs : List (String × Hub) := []
  judge : Judge := {}
  /-- labels of the mint/forge/hreg ops seen in this case: a decode op names the one its
  string was derived from and is judged only if that op is (still) part of the case, so
  that shrinking a case cannot turn a valid id into an "unminted" one -/
  labels : List String := []

def xhex (b : Bytes) : String := "x" ++ Bytes.toHexString b

def parseX (tok : String) : Option Bytes :=
  if hasPrefix "x" tok then Bytes.ofHexString (dropS 1 tok) else none

def parseKind : String → Option Kind
  | "p" => some .priv
  | "q" => some .pub
  | _ => none

def St.keyset (st : St) (ks : String) : Option KeySet := (st.keys.find? (·.1 == ks)).map (·.2)

def St.hub (st : St) (ks : String) (k : KeySet) : Hub :=
  match st.hubs.find? (·.1 == ks) with
  | some (_, h) => h
  | none => { hashKey := k.hashKey, blockKey := k.blockKey.getD [] }

def St.setHub (st : St) (ks : String) (h : Hub) : St :=
  { st with hubs := (ks, h) :: st.hubs.filter (·.1 != ks) }

/-- decrypt ∘ deserialise, as told by the harness oracle; without a block key the
value *is* the serialised data unless the oracle says it does not deserialise. -/
def St.open_ (st : St) (ks : String) (k : KeySet) (v : Bytes) : Option Bytes :=
  match st.oracle.find? (fun e => e.1 == ks && e.2.1 == v) with
  | some (_, _, r) => r
  | none => if k.blockKey.isSome then some [63] else some v

def mac : Hmac.Mac := Hmac.hmacSha256

def showDec : Option Bytes → String
  | some d => "ok " ++ xhex d
  | none => "err"

def parseImplDec : List String → Option (Option Bytes)
  | "ok" :: d :: _ => (parseX d).map some
  | "err" :: _ => some none
  | _ => none

def cflag (h : Hub) (k : Kind) (id : Bytes) : String :=
  if (h.cache.get (cacheKey k id)).isSome then "c1" else "c0"

def step (st : St) (op impl : List String) : St × String × String :=
  -- trailing `#tag` tokens only label the op for the statistics
  let op := op.filter (fun t => !hasPrefix "#" t)
  match op with
  | ["keys", ks, hk, bk] =>
    match parseX hk, (if bk == "-" then some none else (parseX bk).map some) with
    | some h, some b => ({ st with keys := (ks, ⟨h, b⟩) :: st.keys.filter (·.1 != ks) }, "-", "na")
    | _, _ => (st, "bad-op", "na")
  | ["oracle", ks, v, p] =>
    match parseX v, (if p == "bad" then some none else (parseX p).map some) with
    | some v, some p => ({ st with oracle := (ks, v, p) :: st.oracle }, "-", "na")
    | _, _ => (st, "bad-op", "na")
  | ["hmac", k, m] =>
    match parseX k, parseX m with
    | some k, some m => (st, xhex (Hmac.hmacSha256 k m), "na")
    | _, _ => (st, "bad-op", "na")
  | ["mint", kind, ks, now, data, value, lbl] =>
    match parseKind kind, st.keyset ks, toNat? now, parseX data, parseX value with
    | some k, some key, some now, some data, some value =>
      let m := match encodeId mac key.hashKey (key.blockKey.getD []) k now value with
        | some id => "id " ++ encBytes id
        | none => "err"
      -- the judge records what the implementation minted
      let (j, v) := match impl with
        | ["id", tok] =>
          match decBytes tok with
          | some id => (st.judge.add ⟨key.hashKey, key.blockKey.getD [], k, id, data, true⟩, "ok")
          | none => (st.judge, "na")
        | _ => (st.judge, "na")
      ({ st with judge := j, labels := lbl :: st.labels }, m, v)
    | _, _, _, _, _ => (st, "bad-op", "na")
  | ["forge", kind, ks, data, idtok, lbl] =>
    match parseKind kind, st.keyset ks, parseX data, decBytes idtok with
    | some k, some key, some data, some id =>
      ({ st with judge := st.judge.add ⟨key.hashKey, key.blockKey.getD [], k, id, data, false⟩,
                 labels := lbl :: st.labels }, "-", "na")
    | _, _, _, _ => (st, "bad-op", "na")
  | ["dec", kind, ks, idtok, lbl] =>
    match parseKind kind, st.keyset ks, decBytes idtok with
    | some k, some key, some id =>
      let r := decodeId mac key.hashKey (key.blockKey.getD []) (st.open_ ks key) k 0 id
      let v := match parseImplDec impl with
        | some i => if st.labels.contains lbl then st.judge.observeDecode key.hashKey (key.blockKey.getD []) k id i else "na"
        | none => "na"
      (st, showDec r, v)
    | _, _, _ => (st, "bad-op", "na")
  | ["hdec", kind, ks, idtok, lbl] =>
    match parseKind kind, st.keyset ks, decBytes idtok with
    | some k, some key, some id =>
      let (h, r) := (st.hub ks key).decode mac (st.open_ ks key) k 0 id
      let v := match parseImplDec impl with
        | some i => if st.labels.contains lbl then st.judge.observeDecode key.hashKey (key.blockKey.getD []) k id i else "na"
        | none => "na"
      (st.setHub ks h, showDec r ++ " " ++ cflag h k id, v)
    | _, _, _ => (st, "bad-op", "na")
  | ["hinv", kind, ks, idtok] =>
    match parseKind kind, st.keyset ks, decBytes idtok with
    | some k, some key, some id =>
      let h := (st.hub ks key).invalidate k id
      (st.setHub ks h, "- " ++ cflag h k id, "na")
    | _, _, _ => (st, "bad-op", "na")
  | ["hreg", ks, now, data, vp, vq, lbl] =>
    match st.keyset ks, toNat? now, parseX data, parseX vp, parseX vq with
    | some key, some now, some data, some vp, some vq =>
      let (h, r) := (st.hub ks key).register mac now vp vq data
      let m := match r with
        | some (p, q) => "ids " ++ encBytes p ++ " " ++ encBytes q
        | none => "err"
      let (j, v) := match impl with
        | ["ids", pt, qt] =>
          match decBytes pt, decBytes qt with
          | some p, some q =>
            ((st.judge.add ⟨key.hashKey, key.blockKey.getD [], .priv, p, data, true⟩).add
              ⟨key.hashKey, key.blockKey.getD [], .pub, q, data, true⟩, "ok")
          | _, _ => (st.judge, "na")
        | _ => (st.judge, "na")
      ({ st.setHub ks h with judge := j, labels := lbl :: st.labels }, m, v)
    | _, _, _, _, _ => (st, "bad-op", "na")
  | _ => (st, "bad-op", "na")

end SigModel.Driver.C15
