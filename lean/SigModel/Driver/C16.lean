import SigModel.Driver.Loop
import SigModel.Spec.RealIP

/-!
Driver for C16.  Op lines (tokens percent-encoded as in `Basic/Proto.lean`):

* `new <main|proxy> T <n> <entry>*n A <m> <entry>*m S …`     construct a server with these two configured lists
* `reload <main|proxy> T <n> <entry>*n A <m> <entry>*m S …`  `Reload` of the running server
    entry = `_` (empty after trimming) | `!` (not an address / CIDR) | `h<hex ip>` (no `/`: a single address,
    bytes of `net.ParseIP`) | `<hex ip>/<hex mask>` (with `/`: `IP` and `Mask` of `net.ParseCIDR`)
    output: `cfg <trusted> <allow>` (effective lists, networks joined by `,`, `-` if empty) or, when the
    constructor refuses the lists, `err cfg …` with the lists of the fallback server (nothing configured).
    A network is shown in canonical form `<4|6>:<hex of the 16-byte network address>/<prefix length>` — family,
    masked address and prefix length as `IPNet.Contains` sees them (`networkNumberAndMask`), so 4-byte and
    16-byte forms of the same IPv4 network, or an address stored with host bits, compare equal;
    `?<hex ip>/<hex mask>` for anything that has no such form.  main: from the `IP` / `Mask` bytes of every
    `net.IPNet`; proxy (which cannot see the fields): from `IPNet.String`, re-read with `net.ParseCIDR`
* `ip <srv|nil> <tok> X <n> <tok>*n F <m> <tok>*m R …`          `GetRealUserIP`; output = encoded address text
* `get <main|proxy> <route> <tok> X <n> <tok>*n F <m> <tok>*m R …`  HTTP status of `GET route`
    tok = `<encoded text>;<hex of net.ParseIP(text) | ->`
* `mem <n> <hexip/hexmask>*n <hex ip>`                         `AllowedIps.Allowed`; output `1`/`0`

Everything after `S` / `R` is the raw material for the implementation side only.
-/
namespace SigModel.Driver.C16
open SigModel.Proto SigModel.RealIP

def parseHex (s : String) : Option (List Nat) :=
  if s = "" then some [] else hexToNats s.toList

def splitAtChar (c : Char) (s : String) : Option (String × String) :=
  let cs := s.toList
  let a := cs.takeWhile (· ≠ c)
  if a.length < cs.length then some (String.ofList a, String.ofList (cs.drop (a.length + 1))) else none

def parseCidr (s : String) : Option Cidr := do
  let (a, b) ← splitAtChar '/' s
  some { ip := ← parseHex a, mask := ← parseHex b }

def parseEntry (s : String) : Option Entry :=
  if s = "_" then some .skip else if s = "!" then some .bad
  else if hasPrefix "h" s then (parseHex (dropS 1 s)).map .host
  else (parseCidr s).map .net

def parseTok (s : String) : Option Tok := do
  let (a, b) ← splitAtChar ';' s
  let text ← dec a
  if b = "-" then some { text := text, ip := none }
  else some { text := text, ip := some (← parseHex b) }

/-- `<n> x*n rest` -/
def takeCounted {α : Type} (f : String → Option α) : List String → Option (List α × List String)
  | [] => none
  | n :: rest => do
    let k ← toNat? n
    if rest.length < k then none
    let xs ← (rest.take k).mapM f
    some (xs, rest.drop k)

def parseCfg : List String → Option (List Entry × List Entry)
  | "T" :: rest => do
    let (t, rest) ← takeCounted parseEntry rest
    match rest with
    | "A" :: rest =>
      let (a, rest) ← takeCounted parseEntry rest
      match rest with
      | "S" :: _ => some (t, a)
      | [] => some (t, a)
      | _ => none
    | _ => none
  | _ => none

def parseReq : List String → Option Req
  | p :: "X" :: rest => do
    let peer ← parseTok p
    let (x, rest) ← takeCounted parseTok rest
    match rest with
    | "F" :: rest =>
      let (f, rest) ← takeCounted parseTok rest
      match rest with
      | "R" :: _ => some { peer := peer, xreal := x, hops := f }
      | [] => some { peer := peer, xreal := x, hops := f }
      | _ => none
    | _ => none
  | _ => none

def showCidr (c : Cidr) : String := natsToHex c.ip ++ "/" ++ natsToHex c.mask

def andBytes : List Nat → List Nat → List Nat
  | a :: as, b :: bs => (a &&& b) :: andBytes as bs
  | _, _ => []

/-- Family, masked 16-byte network address and prefix length, as `IPNet.Contains` reads the network. -/
def canonCidr (c : Cidr) : String :=
  let (nn, m) := networkNumberAndMask c
  if (nn.length = 4 ∨ nn.length = 16) ∧ m.length = nn.length ∧ canonicalMask m ∧ bytesOk nn then
    let a := andBytes nn m
    (if nn.length = 4 then "4:" ++ natsToHex (v4InV6Prefix ++ a) else "6:" ++ natsToHex a)
      ++ "/" ++ toString (leadingOnes (bitsOf m))
  else "?" ++ showCidr c

def showList (l : List Cidr) : String :=
  if l.isEmpty then "-" else ",".intercalate (l.map canonCidr)

def showCfg (c : Config) : String := s!"cfg {showList c.trusted} {showList c.allow}"

def parseServer (s : String) : Option Server :=
  if s = "main" then some .main else if s = "proxy" then some .proxy else none

structure St where
  cfg : Config := Config.default
  judge : Judge := {}

def step (st : St) (op impl : List String) : St × String × String :=
  match op with
  | "new" :: srv :: rest =>
    match parseServer srv, parseCfg rest with
    | some _, some (t, a) =>
      match Config.fresh t a with
      | some c => ({ cfg := c, judge := Judge.fresh t a }, showCfg c, "na")
      -- the harness falls back to a server with an empty configuration
      | none => ({ cfg := Config.default, judge := Judge.fresh t a }, "err " ++ showCfg Config.default, "na")
    | _, _ => (st, "bad-op", "na")
  | "reload" :: srv :: rest =>
    match parseServer srv, parseCfg rest with
    | some _, some (t, a) =>
      let c := st.cfg.reload t a
      ({ cfg := c, judge := st.judge.reload t a }, showCfg c, "na")
    | _, _ => (st, "bad-op", "na")
  | "ip" :: mode :: rest =>
    match parseReq rest with
    | none => (st, "bad-op", "na")
    | some r =>
      if !(r.wf && r.ipwf) then (st, "bad-op", "na") else
      let nilT := mode == "nil"
      let t := realIP (if nilT then none else some st.cfg.trusted) r
      let v := match impl with
        | [i] => match dec i with
          | some s => st.judge.ip nilT r s
          | none => "na"
        | _ => "na"
      (st, enc t.text, v)
  | "get" :: srv :: route :: rest =>
    match parseServer srv, dec route, parseReq rest with
    | some s, some rt, some r =>
      if !(r.wf && r.ipwf) then (st, "bad-op", "na") else
      let code := endpointStatus s rt st.cfg r
      let m := if code = 0 then "open" else toString code
      let v := match impl with
        | [i] => match toNat? i with
          | some n => st.judge.get (rt ∈ stmtGated s) r n
          | none => "na"
        | _ => "na"
      (st, m, v)
    | _, _, _ => (st, "bad-op", "na")
  | "mem" :: rest =>
    match takeCounted parseCidr rest with
    | some (nets, [ip]) =>
      match parseHex ip with
      | some b =>
        let m := if allowed nets b then "1" else "0"
        -- the bit-level reading applies to addresses and networks of the two real families
        let v := match impl with
          | [i] =>
            if (b.length = 4 ∨ b.length = 16) ∧ nets.all Cidr.wf then
              (if (i == "1") == specAllowed nets b then "ok" else "violated:cidr-membership-differs-from-prefix-match")
            else "na"
          | _ => "na"
        (st, m, v)
      | none => (st, "bad-op", "na")
    | _ => (st, "bad-op", "na")
  | _ => (st, "bad-op", "na")

end SigModel.Driver.C16
