import SigModel.Driver.Loop
import SigModel.Spec.RealIP

/-!
Driver for C16.  Op lines (tokens percent-encoded as in `Basic/Proto.lean`):

* `new <main|proxy> T <n> <entry>*n A <m> <entry>*m S …`     construct a server with these two configured lists
* `reload <main|proxy> T <n> <entry>*n A <m> <entry>*m S …`  `Reload` of the running server
    entry = `_` (empty after trimming) | `!` (not an address / CIDR) | `<hex ip>/<hex mask>`
    output: `cfg <trusted> <allow>` (effective lists, `hexip/hexmask` joined by `,`, `-` if empty) or, when the
    constructor refuses the lists, `err cfg …` with the lists of the fallback server (nothing configured);
    main: the raw `IP` / `Mask` bytes of every `net.IPNet`; proxy (which cannot see the fields): the
    networks as `IPNet.String` prints them, re-read with `net.ParseCIDR`
* `ip <srv|nil> <tok> X <n> <tok>*n F <m> <tok>*m R …`          `GetRealUserIP`; output = encoded address text
* `get <main|proxy> <route> <tok> X <n> <tok>*n F <m> <tok>*m R …`  HTTP status of `GET route`
    tok = `<encoded text>;<hex of net.ParseIP(text) | ->`
* `mem <n> <hexip/hexmask>*n <hex ip>`                         `AllowedIps.Allowed`; output `1`/`0`

Everything after `S` / `R` is the raw material for the implementation side only.
-/
namespace SigModel.Driver.C16
open SigModel.Proto SigModel.RealIP

def parseHex (s : String) : Option (List Nat) :=
  if s = "" then some [] else hexToNats s.toList

def splitAtChar (c : Char) (s : String) : Option (String × String) :=
  let cs := s.toList
  let a := cs.takeWhile (· ≠ c)
  if a.length < cs.length then some (String.ofList a, String.ofList (cs.drop (a.length + 1))) else none

def parseCidr (s : String) : Option Cidr := do
  let (a, b) ← splitAtChar '/' s
  some { ip := ← parseHex a, mask := ← parseHex b }

def parseEntry (s : String) : Option Entry :=
  if s = "_" then some .skip else if s = "!" then some .bad else (parseCidr s).map .net

def parseTok (s : String) : Option Tok := do
  let (a, b) ← splitAtChar ';' s
  let text ← dec a
  if b = "-" then some { text := text, ip := none }
  else some { text := text, ip := some (← parseHex b) }

/-- `<n> x*n rest` -/
def takeCounted {α : Type} (f : String → Option α) : List String → Option (List α × List String)
  | [] => none
  | n :: rest => do
    let k ← toNat? n
    if rest.length < k then none
    let xs ← (rest.take k).mapM f
    some (xs, rest.drop k)

def parseCfg : List String → Option (List Entry × List Entry)
  | "T" :: rest => do
    let (t, rest) ← takeCounted parseEntry rest
    match rest with
    | "A" :: rest =>
      let (a, rest) ← takeCounted parseEntry rest
      match rest with
      | "S" :: _ => some (t, a)
      | [] => some (t, a)
      | _ => none
    | _ => none
  | _ => none

def parseReq : List String → Option Req
  | p :: "X" :: rest => do
    let peer ← parseTok p
    let (x, rest) ← takeCounted parseTok rest
    match rest with
    | "F" :: rest =>
      let (f, rest) ← takeCounted parseTok rest
      match rest with
      | "R" :: _ => some { peer := peer, xreal := x, hops := f }
      | [] => some { peer := peer, xreal := x, hops := f }
      | _ => none
    | _ => none
  | _ => none

def showCidr (c : Cidr) : String := natsToHex c.ip ++ "/" ++ natsToHex c.mask

/-- What survives `IPNet.String` + `net.ParseCIDR`: network number and mask of the address family. -/
def normCidr (c : Cidr) : Cidr :=
  let (nn, m) := networkNumberAndMask c
  { ip := nn, mask := m }

def showList (s : Server) (l : List Cidr) : String :=
  if l.isEmpty then "-" else
  ",".intercalate (l.map fun c => showCidr (match s with | .main => c | .proxy => normCidr c))

def showCfg (s : Server) (c : Config) : String := s!"cfg {showList s c.trusted} {showList s c.allow}"

def parseList (s : String) : Option (List Cidr) :=
  if s = "-" then some [] else (s.splitOn ",").mapM parseCidr

def parseServer (s : String) : Option Server :=
  if s = "main" then some .main else if s = "proxy" then some .proxy else none

structure St where
  cfg : Config := Config.default
  judge : Judge := {}

/-- The judge learns the configuration from the implementation's own report. -/
def learn (j : Judge) : List String → Judge
  | ["cfg", t, a] =>
    match parseList t, parseList a with
    | some tl, some al => { trusted := tl, allow := al, known := true }
    | _, _ => j
  | "err" :: rest => learn j rest
  | _ => j


def step (st : St) (op impl : List String) : St × String × String :=
  match op with
  | "new" :: srv :: rest =>
    match parseServer srv, parseCfg rest with
    | some s, some (t, a) =>
      match Config.fresh t a with
      | some c => ({ cfg := c, judge := learn st.judge impl }, showCfg s c, "na")
      -- the harness falls back to a server with an empty configuration
      | none => ({ cfg := Config.default, judge := learn {} impl }, "err " ++ showCfg s Config.default, "na")
    | _, _ => (st, "bad-op", "na")
  | "reload" :: srv :: rest =>
    match parseServer srv, parseCfg rest with
    | some s, some (t, a) =>
      let c := st.cfg.reload t a
      ({ cfg := c, judge := learn st.judge impl }, showCfg s c, "na")
    | _, _ => (st, "bad-op", "na")
  | "ip" :: mode :: rest =>
    match parseReq rest with
    | none => (st, "bad-op", "na")
    | some r =>
      if !(r.wf && r.ipwf) then (st, "bad-op", "na") else
      let nilT := mode == "nil"
      let t := realIP (if nilT then none else some st.cfg.trusted) r
      let v := match impl with
        | [i] => match dec i with
          | some s => st.judge.ip nilT r s
          | none => "na"
        | _ => "na"
      (st, enc t.text, v)
  | "get" :: srv :: route :: rest =>
    match parseServer srv, dec route, parseReq rest with
    | some s, some rt, some r =>
      if !(r.wf && r.ipwf) then (st, "bad-op", "na") else
      let code := endpointStatus s rt st.cfg r
      let m := if code = 0 then "open" else toString code
      let v := match impl with
        | [i] => match toNat? i with
          | some n => st.judge.get (rt ∈ stmtGated s) r n
          | none => "na"
        | _ => "na"
      (st, m, v)
    | _, _, _ => (st, "bad-op", "na")
  | "mem" :: rest =>
    match takeCounted parseCidr rest with
    | some (nets, [ip]) =>
      match parseHex ip with
      | some b =>
        let m := if allowed nets b then "1" else "0"
        -- the bit-level reading applies to addresses and networks of the two real families
        let v := match impl with
          | [i] =>
            if (b.length = 4 ∨ b.length = 16) ∧ nets.all Cidr.wf then
              (if (i == "1") == specAllowed nets b then "ok" else "violated:cidr-membership-differs-from-prefix-match")
            else "na"
          | _ => "na"
        (st, m, v)
      | none => (st, "bad-op", "na")
    | _ => (st, "bad-op", "na")
  | _ => (st, "bad-op", "na")

end SigModel.Driver.C16
