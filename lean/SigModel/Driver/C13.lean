import SigModel.Driver.Loop
import SigModel.Spec.Backends
import SigModel.Model.RWLock

/-! Driver for C13: static reload chains, etcd event sequences, lookups. -/
namespace SigModel.Driver.C13
open SigModel.Proto SigModel.Backends

def optInt (tok : String) : Option Int := if tok == "x" then none else toInt? tok

def parseSecs : List String → Option (List Sec)
  | [] => some []
  | "sec" :: id :: url :: pok :: norm :: host :: scheme :: secret :: lim :: st :: sc :: rest => do
    let s : Sec := { id := (← dec id), url := (← dec url), parseOk := pok == "1", norm := (← dec norm),
                     host := (← dec host), scheme := (← dec scheme), secret := (← dec secret),
                     limit := optInt lim, stream := optInt st, screen := optInt sc }
    let more ← parseSecs rest
    some (s :: more)
  | _ => none

def parseCfg : List String → Option RawCfg
  | cs :: ids :: rest =>
    if hasPrefix "cs=" cs && hasPrefix "ids=" ids then do
      let common ← dec (dropS 3 cs)
      let idsv ← dec (dropS 4 ids)
      let secs ← parseSecs rest
      some { common := common, ids := idsv, secs := secs }
    else none
  | _ => none

def parseOp : List String → Option Op
  | ["mode", m] => some (.mode (m == "static"))
  | "load" :: rest => (parseCfg rest).map .load
  | "reload" :: rest => (parseCfg rest).map .reload
  | ["put", key, jok, url, pok, norm, host, scheme, secret, lim, st, sc, _raw] => do
    let key ← dec key
    let url ← dec url
    let norm ← dec norm
    let host ← dec host
    let scheme ← dec scheme
    let secret ← dec secret
    let lim ← toNat? lim
    let st ← toInt? st
    let sc ← toInt? sc
    let valid := jok == "1" && url != "" && secret != "" && pok == "1"
    let info : Info := { url := norm, host := host, scheme := scheme, secret := secret, limit := lim, stream := st, screen := sc }
    some (.put key (if valid then some info else none))
  | ["del", key] => (dec key).map .del
  | ["probe", scheme, host, url, dots, _raw] => do
    some (.probe { scheme := (← dec scheme), host := (← dec host), url := (← dec url), dots := dots == "1" })
  | ["list"] => some .list
  | ["racebegin", _] => some .raceBegin
  | ["raceend"] => some .raceEnd
  | _ => none

def showAns : Option Ans → String
  | none => "-"
  | some a => s!"{enc a.id};{enc a.secret};{a.limit};{a.stream};{a.screen};{enc a.url}"

def parseAns (tok : String) : Option (Option Ans) :=
  if tok == "-" then some none else
  match tok.splitOn ";" with
  | [id, secret, lim, st, sc, url] => do
    some (some { id := (← dec id), secret := (← dec secret), limit := (← toNat? lim), stream := (← toInt? st),
                 screen := (← toInt? sc), url := (← dec url) })
  | _ => none

def parseObs : List String → Obs
  | ["ok"] => .ok
  | ["stuck"] => .stuck
  | ["skipped"] => .skipped
  | [c, f] =>
    if hasPrefix "chain=" c && hasPrefix "fresh=" f then
      match parseAns (dropS 6 c), parseAns (dropS 6 f) with
      | some a, some b => .answers a b
      | _, _ => .lists (dropS 6 c) (dropS 6 f)
    else .other
  | [x] => if hasPrefix "panic:" x then .panicked else if hasPrefix "inconsistent:" x then .inconsistent else .other
  | _ => .other

def insertStr (x : String) : List String → List String
  | [] => [x]
  | y :: ys => if x < y then x :: y :: ys else y :: insertStr x ys

def showList (bs : List Backend) : String :=
  let xs := (bs.map (fun b => enc b.id ++ "@" ++ enc b.url)).foldr insertStr []
  if xs.isEmpty then "-" else ";".intercalate xs

structure St where
  static : Bool := false
  sst : StaticSt := {}                  -- static storage: table + the common secret seen at startup
  file : RawCfg := { common := "", ids := "", secs := [] }   -- the file loaded last (what a fresh start reads)
  etcd : EtcdSt := {}
  judge : Judge := {}

def freshTable (st : St) : Table :=
  if st.static then (startStatic st.file).table else (etcdFresh (sortKV st.etcd.infos)).table

def curTable (st : St) : Table := if st.static then st.sst.table else st.etcd.table

def step (st : St) (op impl : List String) : St × String × String :=
  match parseOp op with
  | none => (st, "bad-op", "na")
  | some o =>
    let (j, v) := if impl.isEmpty then (st.judge, "na") else st.judge.observe o (parseObs impl)
    let st := { st with judge := j }
    match o with
    | .mode _ => (st, "ok", v)
    | .load c => ({ st with static := true, sst := startStatic c, file := c }, "ok", v)
    | .reload c =>
      match reloadStatic? st.sst c with
      | some s => ({ st with static := true, sst := s, file := c }, "ok", v)
      | none => ({ st with static := true, file := c }, "panic:model", v)
    | .put k i => ({ st with static := false, etcd := etcdPut st.etcd k i }, "ok", v)
    | .del k => ({ st with static := false, etcd := etcdDelete st.etcd k }, "ok", v)
    | .probe p =>
      let a := (lookup (curTable st) p).map ansOf
      let b := (lookup (freshTable st) p).map ansOf
      (st, s!"chain={showAns a} fresh={showAns b}", v)
    | .list => (st, s!"chain={showList (allBackends (curTable st))} fresh={showList (allBackends (freshTable st))}", v)
    | .raceBegin => (st, "ok", v)
    | .raceEnd => (st, "ok", v)

end SigModel.Driver.C13
