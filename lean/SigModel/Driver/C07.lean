import SigModel.Driver.HubCommon

/-! Driver for C07: the shared hub model (`Model/Hub.lean`) with this property's judge. -/
namespace SigModel.Driver.C07
open SigModel.Proto SigModel.Hub SigModel.Driver.HubCommon

abbrev St := HubCommon.St

def step (st : St) (op impl : List String) : St × String × String :=
  stepWith (fun st _ _ impl => verdictOf ((judgeTables impl).filter (fun e => hasPrefix "residue" e || hasPrefix "listener" e || hasPrefix "empty-room" e) ++ judgeLimits st.limits impl ++ judgeFederated impl)) st op impl

end SigModel.Driver.C07
