import SigModel.Driver.C12

open SigModel.Driver

def main (_args : List String) : IO UInt32 := do
  let inp ← IO.getStdin
  let out ← IO.getStdout
  loop ({} : C12.St) C12.step inp out {}
  return 0
