/-
The *embedding* of `TransientData` (C14): rooms, sessions, and who is registered as
listener of which room's data — `room.go` (`AddSession`, `RemoveSession`, `Close`),
`clientsession.go` (`doLeaveRoom`), `hub.go` (`processRoom`, `processJoinRoom`,
`processTransientMsg`, `processRoomDeleted`, `removeSession`).

Every `Room` object owns one store (`Model/Transient.lean`, unchanged).  A room
object leaves the hub's table when its last session leaves or when the backend
deletes the room; its store — with its armed TTL timers and whatever listeners are
still registered — lives on, which is why closed room objects stay in the world.
A room id can be taken again by a new object with an empty store.

Where the source registers and unregisters listeners is read from the control-flow
paths the extractor prints (`removeSessionPaths`, `addSessionPaths`,
`roomClosePaths`): `Emb.current`.  The model follows these flags, so it is the model
of the tree as it is; the theorems (`Props/C14.lean`, §5) need them to be `true`.

Every store has its own clock starting at 0 when the room object is created (only
differences matter: `arm` computes `now + ttl`, `advance` adds `dt`), so every store
is a run of `stepC` from `init` and all store-level theorems apply to it verbatim.
-/
import SigModel.Model.Transient

namespace SigModel.Transient
open SigModel.Generated.Transient

/-! ### where listeners are registered and unregistered -/

structure Emb where
  /-- `Room.AddSession` of a session the room did not list registers it (client sessions). -/
  joinRegisters : Bool
  /-- `Room.RemoveSession`, other sessions remain: the leaving session is unregistered. -/
  leaveOthersUnreg : Bool
  /-- `Room.RemoveSession`, it was the last session (the room is closed): unregistered. -/
  leaveLastUnreg : Bool
  /-- `Room.RemoveSession` of a session the room no longer lists (after `Room.Close`): unregistered. -/
  absentUnreg : Bool
  /-- `Room.Close` (the backend deleted the room) unregisters the sessions it drops. -/
  closeUnreg : Bool
  deriving DecidableEq, Repr

/-- A path a `*ClientSession` can take (not one that assumes another kind of session, or panics). -/
def clientPath (p : List String) : Bool :=
  !p.contains "-client" && !p.contains "+virtual" && !p.contains "panic"

/-- Every client path selected by `sel` — and there is one — passes one of the events `ev`. -/
def allPass (ps : List (List String)) (sel : List String → Bool) (ev : List String) : Bool :=
  let c := ps.filter (fun p => clientPath p && sel p)
  !c.isEmpty && c.all (fun p => ev.any (fun e => p.contains e))

/-- What the extractor found in the current working tree. -/
def Emb.current : Emb :=
  { joinRegisters := allPass addSessionPaths (fun p => p.contains "add" && p.contains "+fresh") ["reg"]
    leaveOthersUnreg := allPass removeSessionPaths (fun p => p.contains "del" && p.contains "+others") ["unreg"]
    leaveLastUnreg := allPass removeSessionPaths (fun p => p.contains "del" && p.contains "-others") ["unreg"]
    absentUnreg := allPass removeSessionPaths (fun p => !p.contains "del") ["unreg"]
    closeUnreg := allPass roomClosePaths (fun p => p.contains "clear") ["unreg*"] }

/-- Listener set = member set at every moment. -/
def Emb.sound (e : Emb) : Bool :=
  e.joinRegisters && e.leaveOthersUnreg && e.leaveLastUnreg && (e.closeUnreg || e.absentUnreg)

/-- The tree before the repair of `Room.Close` (finding `C14-room-delete-keeps-listeners`): everything but
the deletion of a room by the backend.  Only used by the witness `C14_room_delete_keeps_listener`. -/
def Emb.asFound : Emb :=
  { joinRegisters := true, leaveOthersUnreg := true, leaveLastUnreg := true, absentUnreg := false, closeUnreg := false }

/-! ### state -/

structure RoomObj where
  /-- identity of the Go object -/
  oid : Nat
  /-- room id -/
  rid : Nat
  /-- still in `Hub.rooms` -/
  live : Bool
  /-- `Room.sessions` (client sessions) -/
  members : List Lid
  /-- `Room.transientData` -/
  td : State
  deriving Repr

structure World where
  objs : List RoomObj := []
  /-- `ClientSession.room` (the object, by identity) -/
  roomOf : Lid → Option Nat := fun _ => none
  closed : List Lid := []
  nextOid : Nat := 0

def World.init : World := {}

/-- The object registered for a room id in `Hub.rooms`. -/
def World.liveRoom (w : World) (rid : Nat) : Option RoomObj :=
  w.objs.find? (fun o => o.live && o.rid == rid)

def World.obj (w : World) (oid : Nat) : Option RoomObj := w.objs.find? (fun o => o.oid == oid)

/-- Apply `f` to the object with identity `oid`; what its store sends. -/
def World.stepObj (w : World) (oid : Nat) (f : RoomObj → RoomObj × Out) : World × Out :=
  ({ w with objs := w.objs.map (fun o => if o.oid = oid then (f o).1 else o) },
   w.objs.flatMap (fun o => if o.oid = oid then (f o).2 else []))

def World.setRoom (w : World) (s : Lid) (r : Option Nat) : World :=
  { w with roomOf := fun s' => if s' = s then r else w.roomOf s' }

/-! ### room.go -/

def unregIf (b : Bool) (td : State) (s : Lid) : State := if b then (removeListener td s).st else td

/-- `Room.RemoveSession` -/
def removeSession (e : Emb) (o : RoomObj) (s : Lid) : RoomObj :=
  if s ∈ o.members then
    let ms := o.members.filter (· ≠ s)
    if ms = [] then
      -- the last one: `r.hub.removeRoom(r)`, `r.doClose()`
      { o with members := [], live := false, td := unregIf e.leaveLastUnreg o.td s }
    else
      { o with members := ms, td := unregIf e.leaveOthersUnreg o.td s }
  else
    -- `if _, found := r.sessions[sid]; !found { return true }`
    { o with td := unregIf e.absentUnreg o.td s }

/-- `Room.AddSession` (of a session the room does not list yet: `processRoom` answers
`already_joined` otherwise). -/
def addSession (c : Cfg) (e : Emb) (o : RoomObj) (s : Lid) : RoomObj × Out :=
  let r := addListener c o.td s
  if e.joinRegisters then ({ o with members := s :: o.members, td := r.st }, r.out)
  else ({ o with members := s :: o.members }, [])

/-- `RemoveListener` for each of the sessions -/
def unregAll (td : State) (ms : List Lid) : State := ms.foldl (fun t s => (removeListener t s).st) td

/-- `Room.Close` followed by the `LeaveRoom` of every session it had (`processRoomDeleted`):
the sessions are dropped from the room at once, each `RemoveSession` then finds nothing. -/
def closeRoom (e : Emb) (o : RoomObj) : RoomObj :=
  { o with live := false, members := [],
           td := if e.closeUnreg || e.absentUnreg then unregAll o.td o.members else o.td }

/-! ### clientsession.go / hub.go -/

/-- `ClientSession.doLeaveRoom`: `SetRoom(nil)`, `room.RemoveSession(s)` -/
def leaveRoom (e : Emb) (w : World) (s : Lid) : World :=
  match w.roomOf s with
  | none => w
  | some i => ((w.stepObj i (fun o => (removeSession e o s, []))).1).setRoom s none

structure WRes where
  w : World
  out : Out := []
  oc : String := "ok"

/-- `h.rooms[internalRoomId]`, `h.createRoom` if there is none: the world and the object's identity. -/
def ensureRoom (w : World) (rid : Nat) : World × Nat :=
  match w.liveRoom rid with
  | some o => (w, o.oid)
  | none =>
    ({ w with objs := w.objs ++ [{ oid := w.nextOid, rid := rid, live := true, members := [], td := init }]
              nextOid := w.nextOid + 1 }, w.nextOid)

/-- `session.SetRoom(r)`, `r.AddSession(session, …)` -/
def enterRoom (c : Cfg) (e : Emb) (w : World) (s : Lid) (oid : Nat) : World × Out :=
  (w.setRoom s (some oid)).stepObj oid (fun o => addSession c e o s)

/-- `room := h.GetRoomForBackend(roomId, …); room != nil && room.HasSession(session)` -/
def alreadyIn (w : World) (s : Lid) (rid : Nat) : Bool :=
  match w.liveRoom rid with
  | some o => decide (s ∈ o.members)
  | none => false

/-- `Hub.processRoom` with a room id + `Hub.processJoinRoom` -/
def join (c : Cfg) (e : Emb) (w : World) (s : Lid) (rid : Nat) : WRes :=
  if s ∈ w.closed then { w := w, oc := "closed" } else
  if alreadyIn w s rid then { w := w, oc := "already" } else
  let r2 := ensureRoom (leaveRoom e w s) rid
  let r3 := enterRoom c e r2.1 s r2.2
  { w := r3.1, out := r3.2 }

/-- `Hub.processRoom` with an empty room id -/
def leave (e : Emb) (w : World) (s : Lid) : WRes :=
  if s ∈ w.closed then { w := w, oc := "closed" } else
  match w.roomOf s with
  | none => { w := w, oc := "noroom" }
  | some _ => { w := leaveRoom e w s }

/-- `ClientSession.Close` → `Hub.removeSession` → `LeaveRoom` -/
def closeSession (e : Emb) (w : World) (s : Lid) : WRes :=
  if s ∈ w.closed then { w := w, oc := "closed" } else
  { w := { leaveRoom e w s with closed := s :: w.closed } }

/-- A store operation on one room object. -/
def World.storeOp (c : Cfg) (w : World) (oid : Nat) (op : Op) : World × Out :=
  w.stepObj oid (fun o => let r := stepC c o.td op; ({ o with td := r.st }, r.out))

/-- `Hub.processTransientMsg` -/
def clientOp (c : Cfg) (w : World) (s : Lid) (op : Op) : WRes :=
  if s ∈ w.closed then { w := w, oc := "closed" } else
  match w.roomOf s with
  | none => { w := w, oc := "err.not_in_room" }
  | some i => let (w', out) := w.storeOp c i op; { w := w', out := out }

/-- A `transient` room request on the bus: reaches the room object the hub knows, if any. -/
def backendOp (c : Cfg) (w : World) (rid : Nat) (op : Op) : WRes :=
  match w.liveRoom rid with
  | none => { w := w }
  | some o => let (w', out) := w.storeOp c o.oid op; { w := w', out := out }

/-- The backend deletes a room: `Hub.processRoomDeleted`. -/
def deleteRoom (e : Emb) (w : World) (rid : Nat) : WRes :=
  match w.liveRoom rid with
  | none => { w := w, oc := "200" }
  | some o =>
    { w := { (w.stepObj o.oid (fun o => (closeRoom e o, []))).1 with
             roomOf := fun s => if s ∈ o.members then none else w.roomOf s }
      oc := "200" }

/-- Time passes by `dt` for every store, also those of room objects the hub has forgotten
(what every store sends, in the order of the objects). -/
def advanceAll (c : Cfg) (w : World) (dt : Nat) : WRes :=
  { w := { w with objs := w.objs.map (fun o => { o with td := (advance c o.td dt).1 }) }
    out := w.objs.flatMap (fun o => (advance c o.td dt).2) }

/-- Time passes in slices. -/
def advanceSliced (c : Cfg) (w : World) : List Nat → WRes
  | [] => { w := w }
  | d :: ds =>
    let a := advanceAll c w d
    let b := advanceSliced c a.w ds
    { w := b.w, out := a.out ++ b.out }

def insertNatU (n : Nat) : List Nat → List Nat
  | [] => [n]
  | m :: r => if n < m then n :: m :: r else if n = m then m :: r else m :: insertNatU n r

/-- How far away (from now) the deadlines are that are reached within `dt`, over all stores, ascending. -/
def dueOffsets (w : World) (dt : Nat) : List Nat :=
  (w.objs.flatMap (fun o =>
    (o.td.timers.filter (fun t => !t.fired && decide (t.due ≤ o.td.now + dt))).map (fun t => t.due - o.td.now))).foldr
    insertNatU []

/-- The passage of `dt` cut at every deadline on the way: the runtime fires the timers of *all* stores in the
order of their deadlines, so what a store sends at an earlier deadline precedes what another sends at a
later one. -/
def slicesOf : List Nat → Nat → Nat → List Nat
  | [], at_, dt => [dt - at_]
  | off :: offs, at_, dt => (off - at_) :: slicesOf offs off dt

/-- `time.Sleep(dt)` + quiescence -/
def advanceWorld (c : Cfg) (w : World) (dt : Nat) : WRes := advanceSliced c w (slicesOf (dueOffsets w dt) 0 dt)

inductive ROp where
  | join (s : Lid) (rid : Nat)
  | leave (s : Lid)
  | close (s : Lid)
  /-- client message `transient`: `set` / `remove` -/
  | set (s : Lid) (k : Key) (v : Option Val) (ttl : Int)
  | rm (s : Lid) (k : Key)
  /-- `transient` room request on the bus -/
  | bset (rid : Nat) (k : Key) (v : Val) (ttl : Int)
  | brm (rid : Nat) (k : Key)
  /-- the backend deletes the room -/
  | del (rid : Nat)
  | adv (dt : Nat)
  | get
  deriving DecidableEq, Repr

def stepW (c : Cfg) (e : Emb) (w : World) : ROp → WRes
  | .join s rid => join c e w s rid
  | .leave s => leave e w s
  | .close s => closeSession e w s
  | .set s k v ttl => clientOp c w s (.set k v ttl)
  | .rm s k => clientOp c w s (.remove k)
  | .bset rid k v ttl => backendOp c w rid (.set k (some v) ttl)
  | .brm rid k => backendOp c w rid (.remove k)
  | .del rid => deleteRoom e w rid
  | .adv dt => advanceWorld c w dt
  | .get => { w := w }

def runW (c : Cfg) (e : Emb) : World → List ROp → World
  | w, [] => w
  | w, op :: ops => runW c e (stepW c e w op).w ops

/-- The model of the current source. -/
def stepR (w : World) (op : ROp) : WRes := stepW Cfg.current Emb.current w op

end SigModel.Transient
