/-
Model of the media proxy (`proxy/proxy_server.go`, `proxy/proxy_session.go`,
`proxy/proxy_tokens_static.go`, `api_proxy.go`) for C18.

The model follows the code as it is, one step per client message / server
event, run to quiescence (the goroutines started by `Close`, `clearPublishers`,
`clearSubscribers` and the delete commands have finished):

* `parseToken`   = `jwt.ParseWithClaims` (allow-list, keyfunc: method type,
                   issuer key; signature; validator with leeway) followed by the
                   proxy's own `iat` rule;
* `processMessage` = decode/`CheckValid` → pre-hello dispatch → hello / resume →
                   `MarkUsed` → command / payload / bye;
* `closeSession` = `deleteSessionLocked` + `ProxySession.Close`
                   (`SetClient(nil)`, bye to the attached connection,
                   `clearPublishers`, `clearSubscribers`);
* `expire`       = `expireSessions`; `mcuDown` = `onMcuDisconnected`;
                   `mcuClose` = the media server closing an object by itself
                   (`PublisherClosed` / `SubscriberClosed` callbacks);
* `sleep`        = time passing: the websocket ping/pong (`pingPeriod`) marks the
                   session of every open connection as used.

Everything that is a constant, a list or a yes/no structural fact of the Go
source comes from `Generated/Proxy.lean`.  Signatures are an oracle: a token
carries the list of key ids under which its signature verifies.
Times are `Int` nanoseconds.
-/
import SigModel.Generated.Proxy

namespace SigModel.Proxy
open SigModel.Generated.Proxy

/-! ## Tokens -/

structure Tok where
  wellformed : Bool := true          -- three segments, base64/JSON decodable, registered `alg`
  alg : String := "RS256"            -- header `alg`
  issuer : String := ""
  verifies : List String := []       -- key ids under which the signature verifies (scheme = header alg)
  iat : Option Int := none
  nbf : Option Int := none
  exp : Option Int := none
deriving DecidableEq, Repr

/-- `tokensStatic`: issuer → key id. -/
structure Cfg where
  keys : List (String × String) := []
deriving DecidableEq, Repr

def lookupKey (cfg : Cfg) (iss : String) : Option String :=
  (cfg.keys.find? (fun p => p.1 == iss)).map (·.2)

inductive TokErr | authFailed | expired | notValidYet
deriving DecidableEq, Repr

/-- Algorithms whose `jwt.SigningMethod` has the Go type named by the keyfunc's
type assertion (library fact of golang-jwt v5: only RS256/384/512 are
`*SigningMethodRSA`; PS* are `*SigningMethodRSAPSS`). -/
def algsOfMethodType (ty : String) : List String :=
  if ty == "SigningMethodRSA" then ["RS256", "RS384", "RS512"]
  else if ty == "SigningMethodRSAPSS" then ["PS256", "PS384", "PS512"]
  else if ty == "SigningMethodECDSA" then ["ES256", "ES384", "ES512"]
  else if ty == "SigningMethodHMAC" then ["HS256", "HS384", "HS512"]
  else if ty == "SigningMethodEd25519" then ["EdDSA"]
  else []

def leeway : Int := if leewayIsTokenLeeway then (tokenLeeway : Int) else 0

/-- `minIssuedAt` offset in `parseToken`. -/
def maxAgeWindow : Int :=
  if minIssuedAtIsAgePlusLeeway then (maxTokenAge : Int) + (tokenLeeway : Int) else 0

/-- `issuedAt.<Cmp>(minIssuedAt)` -/
def iatTooOld (iat minIat : Int) : Bool :=
  if iatTooOldCmp == "Before" then decide (iat < minIat)
  else if iatTooOldCmp == "After" then decide (iat > minIat)
  else false

/-- keyfunc: `s.tokens.Get(claims.Issuer)`, then the parser's `Method.Verify` under that key. -/
def keyOK (cfg : Cfg) (t : Tok) : Bool :=
  keyByIssuer && (match lookupKey cfg t.issuer with
    | some k => t.verifies.contains k
    | none => false)

/-- jwt.Validator (v5.2.2) `verifyExpiresAt`: `now < exp + leeway` when present. -/
def expOK (now : Int) (t : Tok) : Bool :=
  match t.exp with
  | some e => decide (now < e + leeway)
  | none => true

/-- `verifyNotBefore`: `now ≥ nbf - leeway` when present. -/
def nbfOK (now : Int) (t : Tok) : Bool :=
  match t.nbf with
  | some n => !(decide (now < n - leeway))
  | none => true

/-- `verifyIssuedAt` (only with `jwt.WithIssuedAt()`): `now ≥ iat - leeway` when present. -/
def iatNotFuture (now : Int) (t : Tok) : Bool :=
  !withIssuedAt || (match t.iat with
    | some i => !(decide (now < i - leeway))
    | none => true)

/-- The proxy's own rule after the library accepted the token:
`issuedAt == nil || issuedAt.Before(now - (maxTokenAge + tokenLeeway))` ⇒ expired. -/
def iatRecent (now : Int) (t : Tok) : Bool :=
  match t.iat with
  | none => !iatNilRejected
  | some i => !(iatTooOld i (now - maxAgeWindow))

/-- The checks of `parseToken` in the order in which the first failure decides
the error: parser (segments, registered alg) → `jwt.WithValidMethods` → keyfunc
(method type, issuer key) → signature → validator (all three time claims are
evaluated, the proxy maps not-valid-yet / used-before-issued first, then
expired) → the proxy's age rule. -/
def checks (cfg : Cfg) (now : Int) (t : Tok) : List (Bool × TokErr) :=
  [ (t.wellformed, .authFailed),
    (validMethods.contains t.alg, .authFailed),
    ((algsOfMethodType keyfuncMethodType).contains t.alg, .authFailed),
    (keyOK cfg t, .authFailed),
    (nbfOK now t && iatNotFuture now t, .notValidYet),
    (expOK now t, .expired),
    (iatRecent now t, .expired) ]

/-- `(*ProxyServer).parseToken`: `none` = accepted. -/
def parseToken (cfg : Cfg) (now : Int) (t : Tok) : Option TokErr :=
  ((checks cfg now t).find? (fun p => !p.1)).map (·.2)

/-! ## State -/

/-- A publisher or subscriber object of the media server.  `owner` is its
`listener`: the proxy session that created it. -/
structure Obj where
  id : Nat
  isPub : Bool
  owner : Nat
deriving DecidableEq, Repr

structure Sess where
  sid : Nat
  client : Option Nat := none        -- `ProxySession.client` (stays set when that connection closes)
  lastUsed : Int := 0
  pubs : List Nat := []              -- `ProxySession.publishers`
  subs : List Nat := []              -- `ProxySession.subscribers`
deriving DecidableEq, Repr

structure Conn where
  id : Nat
  isOpen : Bool := true
  sess : Option Nat := none          -- `ProxyClient.session`
  connAt : Int := 0                  -- start of the ping ticker
deriving DecidableEq, Repr

/-- A `create-publisher` / `create-subscriber` whose media-server call has not
returned yet.  The handling goroutine of connection `conn` is blocked in it. -/
structure Pend where
  conn : Nat
  sid : Nat
  isPub : Bool
deriving DecidableEq, Repr

structure State where
  now : Int := 0
  nextSid : Nat := 1                 -- `ProxyServer.sid` + 1
  nextObj : Nat := 1
  sessions : List Sess := []         -- `ProxyServer.sessions`
  clients : List Obj := []           -- `ProxyServer.clients` (global id → object)
  mcuOpen : List Obj := []           -- objects open at the media server
  conns : List Conn := []
  pending : List Pend := []          -- media-server calls in flight
deriving DecidableEq, Repr

/-! ## Messages, ops, outputs -/

/-- Answer of the media server (a parameter of the step).  `late`: no answer
yet — it arrives with a later `release` op. -/
inductive Outcome | ok | fail | timeout | late
deriving DecidableEq, Repr

inductive Hello
  | token (t : Tok)
  /-- `resumeid` non-empty; `target` = the session whose public id is string-equal to it, if any. -/
  | resume (target : Option Nat)
deriving DecidableEq, Repr

inductive PayloadKind | fwd | eoc | unsupported
deriving DecidableEq, Repr

/-- A client message after JSON decoding and `CheckValid` classification. -/
inductive Msg
  | invalid                                   -- not JSON, binary frame, or `CheckValid` fails
  | hello (h : Hello)
  | createPub (o : Outcome)
  | createSub (o : Outcome)
  | deletePub (id : Nat)
  | deleteSub (id : Nat)
  | pubCmd (id : Nat) (o : Outcome)           -- publish-remote / unpublish-remote / get-publisher-streams
  | unknownCmd
  | payload (id : Nat) (k : PayloadKind) (o : Outcome)
  | bye
  | other                                     -- valid JSON of a type the dispatcher does not know
deriving DecidableEq, Repr

def Msg.isHello : Msg → Bool
  | .hello _ => true
  | _ => false

def Msg.isInvalid : Msg → Bool
  | .invalid => true
  | _ => false

inductive Op
  | connect (c : Nat)
  | msg (c : Nat) (m : Msg)
  | close (c : Nat)
  | sleep (d : Nat)
  | expire
  | mcuDown
  | mcuClose (id : Nat)
  /-- the media server answers the call that connection `c` is blocked in -/
  | release (c : Nat) (o : Outcome)
deriving DecidableEq, Repr

/-- Server → client messages (canonical). -/
inductive SMsg
  | hello (sid : Nat)
  | err (code : String)
  | bye (reason : String)
  | ev (type : String)
  | evObj (type : String) (id : Nat)
  | created (id : Nat)
  | deleted (id : Nat)
  | cmdOk (id : Nat)
  | payload (id : Nat)
deriving DecidableEq, Repr

def SMsg.isErr : SMsg → Bool
  | .err _ => true
  | _ => false

abbrev Outs := List (Nat × SMsg)

/-! ## Table helpers -/

def findSess (st : State) (sid : Nat) : Option Sess := st.sessions.find? (·.sid == sid)
def findConn (st : State) (c : Nat) : Option Conn := st.conns.find? (·.id == c)
def findObj (objs : List Obj) (id : Nat) : Option Obj := objs.find? (·.id == id)

def updSess (sid : Nat) (f : Sess → Sess) (ss : List Sess) : List Sess :=
  ss.map (fun s => if s.sid == sid then f s else s)

def updConn (c : Nat) (f : Conn → Conn) (cs : List Conn) : List Conn :=
  cs.map (fun x => if x.id == c then f x else x)

def dropIds (ids : List Nat) (objs : List Obj) : List Obj :=
  objs.filter (fun o => !(ids.contains o.id))

def dropId (id : Nat) (objs : List Obj) : List Obj := objs.filter (fun o => !(o.id == id))

def connIsOpen (st : State) (c : Nat) : Bool :=
  match findConn st c with
  | some x => x.isOpen
  | none => false

/-- `client.SendMessage`: delivered only while the connection is open. -/
def sendTo (st : State) (c : Option Nat) (m : SMsg) : Outs :=
  match c with
  | some c => if connIsOpen st c then [(c, m)] else []
  | none => []

/-- `session.sendMessage` (the pending queue is never observable: a session
without client is not in the table any more). -/
def sendSess (st : State) (sid : Nat) (m : SMsg) : Outs :=
  match findSess st sid with
  | some s => sendTo st s.client m
  | none => []

/-- `MarkUsed`. -/
def markUsed (sid : Nat) (t : Int) (st : State) : State :=
  { st with sessions := updSess sid (fun s => { s with lastUsed := t }) st.sessions }

/-- A server-sent `bye` closes the connection after sending (`CloseAfterSend`). -/
def byeTo (st : State) (c : Option Nat) (reason : String) : State × Outs :=
  match c with
  | some c =>
    if connIsOpen st c then
      ({ st with conns := updConn c (fun x => { x with isOpen := false }) st.conns }, [(c, .bye reason)])
    else (st, [])
  | none => (st, [])

def isExpired (st : State) (s : Sess) : Bool :=
  decide (s.lastUsed + (sessionExpirationTime : Int) < st.now)

def closeClearsPubs : Bool :=
  deleteSessionCloses && closeCalls.contains "clearPublishers" && clearPublishersDeletesAndCloses
def closeClearsSubs : Bool :=
  deleteSessionCloses && closeCalls.contains "clearSubscribers" && clearSubscribersDeletesAndCloses
def downClearsPubs : Bool :=
  mcuDisconnectNotifiesAllSessions && notifyDisconnectedCalls.contains "clearPublishers" && clearPublishersDeletesAndCloses
def downClearsSubs : Bool :=
  mcuDisconnectNotifiesAllSessions && notifyDisconnectedCalls.contains "clearSubscribers" && clearSubscribersDeletesAndCloses

/-- `clearPublishers` / `clearSubscribers` of session `sid`: ids leave the global
table, objects are closed, the session's own tables are emptied. -/
def clearSess (sid : Nat) (doPubs doSubs : Bool) (st : State) : State :=
  match findSess st sid with
  | none => st
  | some s =>
    let ids := (if doPubs then s.pubs else []) ++ (if doSubs then s.subs else [])
    { st with
      clients := dropIds ids st.clients
      mcuOpen := dropIds ids st.mcuOpen
      sessions := updSess sid (fun s => { s with pubs := if doPubs then [] else s.pubs,
                                                 subs := if doSubs then [] else s.subs }) st.sessions }

/-- `prev.SetSession(nil)` -/
def detach (c : Option Nat) (st : State) : State :=
  match c with
  | some c => { st with conns := updConn c (fun x => { x with sess := none }) st.conns }
  | none => st

/-- `delete(s.sessions, id)` -/
def dropSession (sid : Nat) (st : State) : State :=
  { st with sessions := st.sessions.filter (fun x => !(x.sid == sid)) }

/-- `deleteSessionLocked` + `ProxySession.Close`: `SetClient(nil)` (the previous
connection loses its session and is told bye), `clearPublishers`, `clearSubscribers`. -/
def closeSession (sid : Nat) (st : State) : State × Outs :=
  match findSess st sid with
  | none => (st, [])
  | some s =>
    let r := byeTo (detach s.client st) s.client (if isExpired st s then "session_expired" else "session_closed")
    (dropSession sid (clearSess sid closeClearsPubs closeClearsSubs r.1), r.2)

def closeAll : List Nat → State → State × Outs
  | [], st => (st, [])
  | sid :: rest, st =>
    let (st1, o1) := closeSession sid st
    let (st2, o2) := closeAll rest st1
    (st2, o1 ++ o2)

def errOut (c : Nat) (code : String) : Outs := [(c, .err code)]

def tokErrCode : TokErr → String
  | .authFailed => "auth_failed"
  | .expired => "token_expired"
  | .notValidYet => "token_not_valid_yet"

def preHelloErrCode : String :=
  if preHelloError == "HelloExpected" then "hello_expected" else preHelloError

/-- hello on a connection without session. -/
def doHello (cfg : Cfg) (st : State) (c : Nat) : Hello → State × Outs
  | .token t =>
    match (if newSessionNeedsToken then parseToken cfg st.now t else none) with
    | some e => (st, errOut c (tokErrCode e))
    | none =>
      let sid := st.nextSid
      let s : Sess := { sid := sid, client := some c, lastUsed := st.now }
      ({ st with nextSid := sid + 1
                 sessions := st.sessions ++ [s]
                 conns := updConn c (fun x => { x with sess := some sid }) st.conns },
       [(c, .hello sid), (c, .ev "update-load")])
  | .resume target =>
    match target.bind (findSess st) with
    | none => (st, errOut c "no_such_session")
    | some s =>
      let st1 := markUsed s.sid st.now st
      -- sendCurrentLoad before SetClient: goes to the previous connection
      let o1 := sendTo st1 s.client (.ev "update-load")
      -- SetClient(client)
      let st2 := { st1 with sessions := updSess s.sid (fun x => { x with client := some c }) st1.sessions }
      let st3 := match s.client with
        | some p => { st2 with conns := updConn p (fun x => { x with sess := none }) st2.conns }
        | none => st2
      let st4 := { st3 with conns := updConn c (fun x => { x with sess := some s.sid }) st3.conns }
      let (st5, o2) := byeTo st4 s.client "session_resumed"
      (st5, o1 ++ o2 ++ sendTo st5 (some c) (.hello s.sid) ++ sendTo st5 (some c) (.ev "update-load"))

def outcomeErr : Outcome → String
  | .timeout => "timeout"
  | _ => "internal_error"

def listed (s : Sess) (isPub : Bool) (id : Nat) : Bool :=
  if isPub then s.pubs.contains id else s.subs.contains id

/-- `StorePublisher` / `StoreSubscriber`. -/
def addOwned (isPub : Bool) (id : Nat) (s : Sess) : Sess :=
  if isPub then { s with pubs := s.pubs ++ [id] } else { s with subs := s.subs ++ [id] }

/-- `DeletePublisher` / `DeleteSubscriber` (the entry is known to be there). -/
def removeOwned (isPub : Bool) (id : Nat) (s : Sess) : Sess :=
  if isPub then { s with pubs := s.pubs.filter (fun y => !(y == id)) }
  else { s with subs := s.subs.filter (fun y => !(y == id)) }

/-- `session.StorePublisher` + `s.StoreClient` (resp. subscriber) for object `id`. -/
def storeObj (st : State) (sid : Nat) (isPub : Bool) : State :=
  let id := st.nextObj
  let o : Obj := { id := id, isPub := isPub, owner := sid }
  { st with nextObj := id + 1
            clients := st.clients ++ [o]
            mcuOpen := st.mcuOpen ++ [o]
            sessions := updSess sid (addOwned isPub id) st.sessions }

def createObj (st : State) (c sid : Nat) (isPub : Bool) : Outcome → State × Outs
  | .ok => (storeObj st sid isPub, [(c, .created st.nextObj)])
  | .late => ({ st with pending := st.pending ++ [{ conn := c, sid := sid, isPub := isPub }] }, [])
  | o => (st, errOut c (outcomeErr o))

/-- `Close` cancels the session context before it clears the tables, the store
functions refuse a cancelled session under the lock that the clear functions
take, and `processCommand` then removes the id again and closes the object. -/
def closeCancelsBeforeClear : Bool :=
  match closeCalls.idxOf? "closeFunc", closeCalls.idxOf? "clearPublishers", closeCalls.idxOf? "clearSubscribers" with
  | some a, some b, some c => decide (a < b) && decide (a < c)
  | _, _, _ => false

def lateStoreGuard (isPub : Bool) : Bool :=
  closeCancelsBeforeClear &&
  (if isPub then storePublisherRefusesClosed && createPublisherUndoesRefused && (storePublisherLock == clearPublishersLock)
   else storeSubscriberRefusesClosed && createSubscriberUndoesRefused && (storeSubscriberLock == clearSubscribersLock))

/-- The media server's answer to a pending creation arrives: the rest of
`create-publisher` / `create-subscriber` runs, for a session that may have
ended in the meantime.  `guard` = the store functions refuse a closed session
and the command handler undoes the creation. -/
def finishLateWith (guard : Bool) (st : State) (p : Pend) : Outcome → State × Outs
  | .ok =>
    match findSess st p.sid with
    | some _ =>
      let st1 := storeObj st p.sid p.isPub
      (st1, sendSess st1 p.sid (.created st.nextObj))
    | none =>
      if guard then
        -- refused by the closed session: removed from the table again and closed
        ({ st with nextObj := st.nextObj + 1 }, [])
      else
        -- (the code before the repair) stored although its session is gone
        let o : Obj := { id := st.nextObj, isPub := p.isPub, owner := p.sid }
        ({ st with nextObj := st.nextObj + 1, clients := st.clients ++ [o], mcuOpen := st.mcuOpen ++ [o] }, [])
  | .late => ({ st with pending := st.pending ++ [p] }, [])
  | o => (st, sendSess st p.sid (.err (outcomeErr o)))

def finishLate (st : State) (p : Pend) (o : Outcome) : State × Outs :=
  finishLateWith (lateStoreGuard p.isPub) st p o

def isBusy (st : State) (c : Nat) : Bool := st.pending.any (·.conn == c)

def doRelease (st : State) (c : Nat) (o : Outcome) : State × Outs :=
  match st.pending.find? (·.conn == c) with
  | none => (st, [])
  | some p => finishLate { st with pending := st.pending.filter (fun q => !(q.conn == c)) } p o

def ownerCheck (isPub : Bool) : Bool :=
  if isPub then deletePublisherOwnerCheck else deleteSubscriberOwnerCheck


/-- `delete-publisher` / `delete-subscriber`. -/
def deleteObj (st : State) (c : Nat) (s : Sess) (isPub : Bool) (id : Nat) : State × Outs :=
  match findObj st.clients id with
  | none => (st, errOut c "unknown_client")
  | some o =>
    if o.isPub != isPub then (st, errOut c "unknown_client")
    else if ownerCheck isPub && !(listed s isPub id) then (st, errOut c "unknown_client")
    else
      ({ st with
         clients := dropId id st.clients
         mcuOpen := dropId id st.mcuOpen
         sessions := updSess s.sid (removeOwned isPub id) st.sessions },
       [(c, .deleted id)])

/-- A message on a connection that has a session (after `MarkUsed`). -/
def doSessionMsg (st : State) (c : Nat) (s : Sess) : Msg → State × Outs
  | .invalid => (st, errOut c "invalid_format")
  | .hello _ => (st, errOut c "bad_request")
  | .other => (st, errOut c "bad_request")
  | .unknownCmd => (st, errOut c "bad_request")
  | .createPub o => createObj st c s.sid true o
  | .createSub o => createObj st c s.sid false o
  | .deletePub id => deleteObj st c s true id
  | .deleteSub id => deleteObj st c s false id
  | .pubCmd id o =>
    match findObj st.clients id with
    | none => (st, errOut c "unknown_client")
    | some ob =>
      if !ob.isPub then (st, errOut c "unknown_client")
      else match o with
        | .ok => (st, [(c, .cmdOk id)])
        | _ => (st, errOut c "internal_error")
  | .payload id k o =>
    match findObj st.clients id with
    | none => (st, errOut c "unknown_client")
    | some _ =>
      match k with
      | .unsupported => (st, errOut c "unsupported_payload")
      | .eoc => (st, [(c, .payload id)])
      | .fwd => match o with
        | .ok => (st, [(c, .payload id)])
        | _ => (st, errOut c "internal_error")
  | .bye => closeSession s.sid st

/-- `processMessage`. -/
def doMsg (cfg : Cfg) (st : State) (c : Nat) (m : Msg) : State × Outs :=
  match findConn st c with
  | none => (st, [])
  | some x =>
    if !x.isOpen then (st, [])
    else if checkValidBeforeDispatch && m.isInvalid then (st, errOut c "invalid_format")
    else
      match x.sess.bind (findSess st) with
      | none =>
        match m with
        | .hello h => if preHelloOnlyType == "hello" then doHello cfg st c h else (st, errOut c preHelloErrCode)
        | _ => (st, errOut c preHelloErrCode)
      | some s =>
        let st1 := markUsed s.sid st.now st
        doSessionMsg st1 c { s with lastUsed := st.now } m

/-- The websocket ping/pong of one open connection while the clock moves from
`st.now` to `t`: the last tick in `(st.now, t]` marks the session as used. -/
def pingConn (t : Int) (st : State) (x : Conn) : State :=
  match x.sess with
  | none => st
  | some sid =>
    if !x.isOpen || (pingPeriod : Int) ≤ 0 then st
    else
      let k := (t - x.connAt) / (pingPeriod : Int)
      let tick := x.connAt + k * (pingPeriod : Int)
      if 1 ≤ k ∧ st.now < tick then markUsed sid tick st else st

def doSleep (d : Nat) (st : State) : State :=
  let t := st.now + (d : Int)
  let st1 := st.conns.foldl (pingConn t) st
  { st1 with now := t }

/-- `onMcuDisconnected`. -/
def mcuDownAll : List Nat → State → State × Outs
  | [], st => (st, [])
  | sid :: rest, st =>
    let o1 := sendSess st sid (.ev "backend-disconnected")
    let st1 := clearSess sid downClearsPubs downClearsSubs st
    let (st2, o2) := mcuDownAll rest st1
    (st2, o1 ++ o2)

/-- The media server closes object `id` itself and calls the listener back
(`PublisherClosed` / `SubscriberClosed`). -/
def doMcuClose (id : Nat) (st : State) : State × Outs :=
  match findObj st.mcuOpen id with
  | none => (st, [])
  | some o =>
    let st1 := { st with mcuOpen := dropId id st.mcuOpen }
    match findSess st1 o.owner with
    | none => (st1, [])
    | some s =>
      if !(listed s o.isPub id) then (st1, [])
      else
        let st2 := { st1 with
          clients := dropId id st1.clients
          sessions := updSess s.sid (removeOwned o.isPub id) st1.sessions }
        (st2, sendTo st2 s.client (.evObj (if o.isPub then "publisher-closed" else "subscriber-closed") id))

/-- Ops of a connection whose handler is blocked in the media server are not
part of the model (its messages would queue up behind the call): no-ops. -/
def step (cfg : Cfg) (st : State) : Op → State × Outs
  | .connect c =>
    if isBusy st c then (st, []) else
    ({ st with conns := st.conns.filter (fun x => !(x.id == c)) ++ [{ id := c, connAt := st.now }] }, [])
  | .msg c m => if isBusy st c then (st, []) else doMsg cfg st c m
  | .close c =>
    if isBusy st c then (st, []) else
    match findConn st c with
    | none => (st, [])
    | some x =>
      if !x.isOpen then (st, [])
      else
        let st1 := { st with conns := updConn c (fun y => { y with isOpen := false }) st.conns }
        -- OnClosed: MarkUsed on the session the connection still points to
        match x.sess with
        | some sid => (markUsed sid st.now st1, [])
        | none => (st1, [])
  | .sleep d => (doSleep d st, [])
  | .expire => closeAll ((st.sessions.filter (isExpired st)).map (·.sid)) st
  | .mcuDown => mcuDownAll (st.sessions.map (·.sid)) st
  | .mcuClose id => doMcuClose id st
  | .release c o => doRelease st c o

def run (cfg : Cfg) (st : State) : List Op → State
  | [] => st
  | op :: ops => run cfg (step cfg st op).1 ops

def sids (st : State) : List Nat := st.sessions.map (·.sid)

end SigModel.Proxy
