/-
Model of the hub's session / room / routing state machine
(/repo/hub.go, clientsession.go, virtualsession.go, room.go, roomsessions_builtin.go,
backend_server.go room API, async_events_nats.go subjects) for C03–C07 and C19.

Synchronous routing layer (DESIGN §3): every delivery caused by an op happens
inside the step, through the same listener sets and receiver-side filters as the
code.  Single hub, no gRPC peers, no MCU, no federation.  External parties
(Nextcloud backend replies) are parameters of the ops.

Identities: sessions are numbered in creation order (`nextSid`), connections,
backends are naturals chosen by the op; rooms, users, room-session ids are strings.
"" as user = anonymous, "" as room-session id = none.
-/
import SigModel.Generated.Hub

namespace SigModel.Hub

inductive Kind | client | internal | virtual
  deriving DecidableEq, Repr, Inhabited

inductive RType | session | user | room | call
  deriving DecidableEq, Repr, Inhabited

structure Sender where
  rtype : RType
  sid : Nat
  user : String
  deriving DecidableEq, Repr, Inhabited

/-- One entry of a participants update as clients see it. tag: 0 plain, 1 internal, 2 virtual. -/
structure PUser where
  sid : Nat
  inCall : Nat
  tag : Nat
  deriving DecidableEq, Repr, Inhabited

/-- Server → client messages in canonical form. -/
inductive Msg
  | hello (sid : Nat) (user : String)
  | error (code : String)
  | bye (reason : String)
  | room (id : String)                      -- "" = not in a room (any more)
  | join (ss : List Nat)
  | leave (ss : List Nat)
  | message (ctl : Bool) (sender : Sender) (vrcpt : Option String) (data : String)
  | roomlist (kind : String) (room : String)  -- invite / disinvite / update
  | roomMsg (data : String)
  | partAll (inCall : Nat)
  | partUsers (users : List PUser)
  | switchto (room : String)
  | roomDeleted
  | hangup (vrcpt : String)                  -- control "hangup" for a disinvited virtual session
  deriving DecidableEq, Repr, Inhabited

/-- What travels on the event bus. -/
inductive AMsg
  | msg (m : Msg)
  | perms (ps : List String)
  deriving Repr, Inhabited

structure Sess where
  backend : Nat
  kind : Kind
  user : String := ""
  dialoutFeat : Bool := false
  inCallFeat : Bool := false            -- internal client announces its in-call state itself
  room : Option String := none
  roomSess : String := ""
  conn : Option Nat := none
  pending : List Msg := []
  perms : Option (List String) := none     -- none = old-style session without permissions
  inCall : Nat := 0                         -- internal / virtual in-call flags
  parent : Nat := 0                         -- virtual sessions: owning internal session
  vkey : String := ""                       -- virtual sessions: the internal client's own id
  children : List Nat := []                 -- ClientSession.virtualSessions
  seenJoin : List Nat := []                 -- ClientSession.seenJoinedEvents
  deriving Repr, Inhabited

structure Room where
  members : List Nat := []                  -- Room.sessions
  inCall : List Nat := []                   -- Room.inCallSessions
  users : List PUser := []                  -- Room.users (last list sent by the backend)
  sessUser : List (Nat × String) := []      -- Room.roomSessionData (user id supplied with the join)
  deriving Repr, Inhabited

structure Hub where
  nextSid : Nat := 1
  sess : Nat → Option Sess := fun _ => none          -- Hub.sessions
  connSess : Nat → Option Nat := fun _ => none       -- Client.session
  connOpen : Nat → Bool := fun _ => false
  expectHello : List Nat := []                       -- Hub.expectHelloClients
  rooms : Nat → String → Option Room := fun _ _ => none   -- Hub.rooms, key backend|room
  roomL : Nat → String → List Nat := fun _ _ => []   -- bus: listeners of the room subject
  userL : Nat → String → List Nat := fun _ _ => []   -- bus: listeners of the user subject
  sessL : Nat → Bool := fun _ => false               -- bus: session subject has its listener
  rs2sid : String → Option Nat := fun _ => none      -- BuiltinRoomSessions.roomSessionToSessionid (global!)
  sid2rs : Nat → Option String := fun _ => none      -- BuiltinRoomSessions.sessionIdToRoomSession
  vtable : Nat → String → Option Nat := fun _ _ => none   -- Hub.virtualSessions, key parent|id
  expired : List Nat := []
  anon : List Nat := []
  dialout : List Nat := []
  count : Nat → List Nat := fun _ => []              -- Backend.sessions
  limit : Nat → Nat := fun _ => 0                    -- configured session limit (0 = unlimited)
  deriving Inhabited

/-- One message written to a connection. `bk` = backend of the session that owns the
connection at that moment (`none`: the connection has no session). -/
structure Out where
  conn : Nat
  msg : Msg
  bk : Option Nat := none
  deriving Repr, Inhabited

/-- Accumulator of one step: state, messages written to connections (in emission
order) and sessions whose connection was sent a closing message (`bye`, matching
`disinvite`): the code closes those asynchronously (`go session.Close()`). -/
structure Acc where
  h : Hub
  outs : List Out := []
  closes : List Nat := []
  deriving Inhabited

def setSess (h : Hub) (s : Nat) (x : Option Sess) : Hub :=
  { h with sess := fun k => if k = s then x else h.sess k }

def modSess (h : Hub) (s : Nat) (f : Sess → Sess) : Hub :=
  match h.sess s with
  | some x => setSess h s (some (f x))
  | none => h

def setRoom (h : Hub) (b : Nat) (r : String) (x : Option Room) : Hub :=
  { h with rooms := fun b' r' => if b' = b ∧ r' = r then x else h.rooms b' r' }

def setRoomL (h : Hub) (b : Nat) (r : String) (l : List Nat) : Hub :=
  { h with roomL := fun b' r' => if b' = b ∧ r' = r then l else h.roomL b' r' }

def setUserL (h : Hub) (b : Nat) (u : String) (l : List Nat) : Hub :=
  { h with userL := fun b' u' => if b' = b ∧ u' = u then l else h.userL b' u' }

/-! ### permissions (session.go / clientsession.go) -/

def hasPerm (x : Sess) (p : String) : Bool :=
  match x.kind with
  | .virtual => true
  | _ =>
    match x.perms with
    | none => !(Generated.Hub.defaultOverridesFalse.contains p)   -- old-style: everything except the overrides
    | some ps => ps.contains p

def mayControl (x : Sess) : Bool := x.kind = .internal || hasPerm x Generated.Hub.permControl

/-! ### room-session map (roomsessions_builtin.go) -/

/-- The room-session id the server falls back to: the session's own public id. -/
def pubRs (s : Nat) : String := "pub:" ++ toString s


def rsDelete (h : Hub) (s : Nat) : Hub :=
  match h.sid2rs s with
  | none => h
  | some rs =>
    { h with
      sid2rs := fun k => if k = s then none else h.sid2rs k
      rs2sid := fun k => if k = rs ∧ h.rs2sid rs = some s then none else h.rs2sid k }

def rsSet (h : Hub) (s : Nat) (rs : String) : Hub :=
  if rs = "" then rsDelete h s else
  if h.sid2rs s = some rs then h else
  let h1 : Hub := match h.sid2rs s with
    | some prev => { h with rs2sid := fun k => if k = prev then none else h.rs2sid k }
    | none => h
  { h1 with
    sid2rs := fun k => if k = s then some rs else h1.sid2rs k
    rs2sid := fun k => if k = rs then some s else h1.rs2sid k }

/-! ### writing to a session (ClientSession.SendMessage) -/

/-- `ServerMessage.CloseAfterSend` as evaluated when the message is written to the connection. -/
def isClosing (x : Sess) : Msg → Bool
  | .bye _ => true
  | .roomlist kind r => kind = "disinvite" && x.room = some r
  | _ => false

/-- `ClientSession.filterMessage`: duplicate-join filter and its reset by leave events. -/
def filterMessage (x : Sess) : Msg → Sess × Option Msg
  | .join ss =>
    let fresh := (ss.filter (fun s => !x.seenJoin.contains s)).eraseDups
    if fresh = [] then (x, none)
    else ({ x with seenJoin := x.seenJoin ++ fresh }, some (.join fresh))
  | .leave ss => ({ x with seenJoin := x.seenJoin.filter (fun s => !ss.contains s) }, some (.leave ss))
  | m => (x, some m)

/-- `ServerMessage.IsChatRefresh`: a *message* (not a control message) whose data is a chat-refresh notice. -/
def isChatRefresh : Msg → Bool
  | .message ctl _ _ data => !ctl && data = "chat-refresh"
  | _ => false

def isPartUpdate : Msg → Bool
  | .partUsers _ => true
  | .partAll _ => true
  | _ => false

/-- Owner of the connection a session writes to: itself, or the internal parent of a virtual session. -/
def target (h : Hub) (s : Nat) : Nat :=
  match h.sess s with
  | some x => if x.kind = .virtual then x.parent else s
  | none => s

/-- `Session.SendMessage`: filter, then write to the attached connection or queue. -/
def sendTo (a : Acc) (s0 : Nat) (m : Msg) : Acc :=
  let s := target a.h s0
  match a.h.sess s with
  | none => a
  | some x =>
    let (x1, om) := filterMessage x m
    match om with
    | none => { a with h := setSess a.h s (some x1) }
    | some m1 =>
      match x1.conn with
      | some c =>
        { a with h := setSess a.h s (some x1), outs := a.outs ++ [⟨c, m1, some x1.backend⟩],
                 closes := if isClosing x1 m1 then a.closes ++ [s] else a.closes }
      | none =>
        -- storePendingMessage: only one chat-refresh notice is kept
        if isChatRefresh m1 && x1.pending.any isChatRefresh then { a with h := setSess a.h s (some x1) }
        else { a with h := setSess a.h s (some { x1 with pending := x1.pending ++ [m1] }) }

/-! ### receiving from the bus -/

def roomInCall (h : Hub) (b : Nat) (r : String) (s : Nat) : Bool :=
  match h.rooms b r with
  | some rm => rm.inCall.contains s
  | none => false

/-- `ClientSession.filterAsyncMessage`. -/
def passesAsyncFilter (h : Hub) (l : Nat) (x : Sess) : Msg → Bool
  | .message _ sender _ _ =>
    if sender.sid = l then false
    else if sender.rtype = .call then
      match x.room with
      | some r => roomInCall h x.backend r l
      | none => false
    else true
  | .join _ => x.room.isSome
  | .leave _ => x.room.isSome
  | .roomMsg _ => x.room.isSome
  | .switchto _ => x.room.isSome
  | .roomDeleted => x.room.isSome
  | _ => true

/-- A client session receives an async message (`ClientSession.processAsyncMessage`). -/
def procClient (a : Acc) (l : Nat) (am : AMsg) : Acc :=
  match a.h.sess l with
  | none => a
  | some x =>
    match am with
    | .perms ps => { a with h := setSess a.h l (some { x with perms := some ps }) }
    | .msg m => if passesAsyncFilter a.h l x m then sendTo a l m else a

/-- Delivery on a session subject: the listener is the session itself
(`ClientSession` or `VirtualSession.ProcessAsyncSessionMessage`). -/
def procSession (a : Acc) (s : Nat) (am : AMsg) : Acc :=
  if !a.h.sessL s then a else
  match a.h.sess s with
  | none => a
  | some x =>
    if x.kind = .virtual then
      match am with
      | .msg (.roomlist kind r) =>
        if kind = "disinvite" && x.room = some r then procClient a x.parent (.msg (.hangup x.vkey)) else a
      | _ => a      -- messages/controls addressed to a virtual session locally never travel this way
    else procClient a s am

def pubRoom (a : Acc) (b : Nat) (r : String) (am : AMsg) : Acc :=
  (a.h.roomL b r).foldl (fun a l => procClient a l am) a

def pubUser (a : Acc) (b : Nat) (u : String) (am : AMsg) : Acc :=
  (a.h.userL b u).foldl (fun a l => procClient a l am) a

/-! ### participants lists (room.go addInternalSessions) -/

def sessInCall (h : Hub) (s : Nat) : Nat := match h.sess s with | some x => x.inCall | none => 0

def addInternalSessions (h : Hub) (rm : Room) (users : List PUser) : List PUser :=
  let internals := rm.members.filter (fun s => match h.sess s with | some x => x.kind = .internal | none => false)
  let virtuals := rm.members.filter (fun s => match h.sess s with | some x => x.kind = .virtual | none => false)
  if users = [] && internals = [] && virtuals = [] then users else
  let users1 := users.map fun u => if virtuals.contains u.sid then { u with inCall := sessInCall h u.sid, tag := 2 } else u
  let present := users.map (·.sid)
  users1 ++ internals.map (fun s => { sid := s, inCall := sessInCall h s, tag := 1 })
         ++ (virtuals.filter (fun s => !present.contains s)).map (fun s => { sid := s, inCall := sessInCall h s, tag := 2 })

def publishUsersChangedWithInternal (a : Acc) (b : Nat) (r : String) : Acc :=
  match a.h.rooms b r with
  | none => a
  | some rm =>
    let users := addInternalSessions a.h rm rm.users
    if users = [] then a else pubRoom a b r (.msg (.partUsers users))

/-! ### leaving a room (ClientSession.doLeaveRoom / VirtualSession.LeaveRoom / Room.RemoveSession) -/

def removeL (l : List Nat) (s : Nat) : List Nat := l.filter (· ≠ s)

/-- `Room.RemoveSession`. -/
def roomRemoveSession (a : Acc) (b : Nat) (r : String) (s : Nat) (kind : Kind) : Acc :=
  match a.h.rooms b r with
  | none => a
  | some rm =>
    if !rm.members.contains s then a else
    let rm1 : Room := { rm with
      members := removeL rm.members s
      inCall := removeL rm.inCall s
      sessUser := rm.sessUser.filter (fun p => p.1 ≠ s)
      users := if kind = .virtual then rm.users.filter (fun u => u.sid ≠ s) else rm.users }
    let a1 : Acc :=
      if rm1.members = [] then { a with h := setRoom a.h b r none }
      else { a with h := setRoom a.h b r (some rm1) }
    let a2 := pubRoom a1 b r (.msg (.leave [s]))
    if kind = .internal then publishUsersChangedWithInternal a2 b r else a2

/-- Leave the current room, if any. Returns whether there was one. -/
def leaveRoom (a : Acc) (s : Nat) : Acc × Bool :=
  match a.h.sess s with
  | none => (a, false)
  | some x =>
    match x.room with
    | none => (a, false)
    | some r =>
      let h1 : Hub := if x.kind = .virtual then a.h else setRoomL a.h x.backend r (removeL (a.h.roomL x.backend r) s)
      let h2 := rsDelete h1 s
      let h3 := setSess h2 s (some { x with room := none, roomSess := "", seenJoin := [] })
      (roomRemoveSession { a with h := h3 } x.backend r s x.kind, true)

/-! ### closing sessions -/

/-- `Hub.removeSession` table part. -/
def dropFromTables (h : Hub) (s : Nat) : Hub :=
  { h with
    sess := fun k => if k = s then none else h.sess k
    expired := removeL h.expired s
    anon := removeL h.anon s
    dialout := removeL h.dialout s }

/-- Table part of `VirtualSession.Close`: `Hub.removeSession`, the `Hub.virtualSessions` entry of this
session (removed with it when the fix for C07/C19 is present), its session-subject listener. -/
def dropVirtual (h : Hub) (v : Nat) (x : Sess) : Hub :=
  let h2 := dropFromTables h v
  let h3 : Hub := if Generated.Hub.vtableClearedOnClose
    then { h2 with vtable := fun p k => if p = x.parent ∧ k = x.vkey ∧ h2.vtable p k = some v then none else h2.vtable p k }
    else h2
  { h3 with sessL := fun k => if k = v then false else h3.sessL k }

/-- `VirtualSession.Close` (when reached through `removesession` the caller has already removed the
`Hub.virtualSessions` entry). -/
def closeVirtual (a : Acc) (v : Nat) : Acc :=
  match a.h.sess v with
  | none => a
  | some x =>
    let hp := modSess a.h x.parent (fun p => { p with children := removeL p.children v })
    let (a1, _) := leaveRoom { a with h := hp } v
    { a1 with h := dropVirtual a1.h v x }

/-- Everything `ClientSession.closeAndWait` does to the tables for the session itself
(after it left its room): `Hub.removeSession`, bus listeners, connection, per-backend count. -/
def dropClient (h : Hub) (s : Nat) (x : Sess) : Hub :=
  let h2 := dropFromTables h s
  let h3 := if x.user ≠ "" then setUserL h2 x.backend x.user (removeL (h2.userL x.backend x.user) s) else h2
  let h4 : Hub := { h3 with sessL := fun k => if k = s then false else h3.sessL k }
  -- detach the connection; it stays open, without a session
  let h5 : Hub := match x.conn with
    | some c => { h4 with connSess := fun k => if k = c then none else h4.connSess k }
    | none => h4
  { h5 with count := fun b => if b = x.backend then removeL (h5.count b) s else h5.count b }

/-- `ClientSession.closeAndWait`: leave the room, drop the session from every table, then the
virtual sessions of an internal client end with it (the code closes them in a goroutine of
their own; the table updates above do not depend on them). -/
def closeClient (a : Acc) (s : Nat) : Acc :=
  match a.h.sess s with
  | none => a
  | some _ =>
    let (a1, _) := leaveRoom a s
    match a1.h.sess s with
    | none => a1
    | some x => x.children.foldl closeVirtual { a1 with h := dropClient a1.h s x }

def closeSession (a : Acc) (s : Nat) : Acc :=
  match a.h.sess s with
  | none => a
  | some x => if x.kind = .virtual then closeVirtual a s else closeClient a s

/-- The connection of a closed-by-message session is closed too (`go c.Close()`), which
unregisters it; run after the op proper. -/
def closeConn (h : Hub) (c : Nat) : Hub :=
  { h with connOpen := fun k => if k = c then false else h.connOpen k,
           connSess := fun k => if k = c then none else h.connSess k,
           expectHello := removeL h.expectHello c }

def flushCloses (a : Acc) : Acc :=
  a.closes.foldl (fun a s =>
    match a.h.sess s with
    | none => a
    | some x =>
      let a1 := closeSession a s
      match x.conn with
      | some c => { a1 with h := closeConn a1.h c }
      | none => a1) { a with closes := [] }

/-! ### joining -/

/-- `Room.notifySessionJoined`, reached through the backend-room subject. -/
def notifySessionJoined (a : Acc) (b : Nat) (r : String) (s : Nat) : Acc :=
  match a.h.rooms b r with
  | none => a
  | some rm =>
    let others := removeL rm.members s
    if others = [] then a else procSession a s (.msg (.join others))

/-- The room record after `Room.AddSession` (a fresh room if there was none). -/
def newRoom (h : Hub) (b : Nat) (r : String) (s : Nat) (sessUser : String) : Room :=
  let rm := (h.rooms b r).getD {}
  { rm with
    members := if rm.members.contains s then rm.members else rm.members ++ [s]
    sessUser := if sessUser ≠ "" then (rm.sessUser.filter (fun p => p.1 ≠ s)) ++ [(s, sessUser)] else rm.sessUser }

/-- Table part of `Room.AddSession`. -/
def addMember (h : Hub) (b : Nat) (r : String) (s : Nat) (sessUser : String) : Hub :=
  setRoom h b r (some (newRoom h b r s sessUser))

/-- `Room.AddSession`. -/
def roomAddSession (a : Acc) (b : Nat) (r : String) (s : Nat) (kind : Kind) (sessUser : String) : Acc :=
  let found := ((a.h.rooms b r).getD {}).members.contains s
  let a1 : Acc := { a with h := addMember a.h b r s sessUser }
  let a2 := if found then a1 else
    let a21 := pubRoom a1 b r (.msg (.join [s]))
    if kind = .virtual then publishUsersChangedWithInternal a21 b r else a21
  -- async "sessionjoined" on the backend-room subject
  let a3 := notifySessionJoined a2 b r s
  if kind = .internal then publishUsersChangedWithInternal a3 b r else a3

/-- Reply of the Nextcloud backend to a room join request. -/
inductive JoinReply
  | ok (perms : Option (List String)) (sessUser : String)
  | err (code : String)        -- backend answered with an error
  | fail                       -- transport failure / timeout
  deriving Repr, Inhabited

/-- The bye sent to the connection (if any) of a session that is being replaced. -/
def kickBye (a : Acc) (v : Nat) : Acc :=
  match (a.h.sess v).bind (·.conn) with
  | some _ => sendTo a v (.bye "room_session_reconnected")
  | none => a

/-- `Hub.disconnectByRoomSessionId`. -/
def disconnectByRoomSessionId (a : Acc) (rs : String) (callerBackend : Nat) (requester : Nat) : Acc :=
  match a.h.rs2sid rs with
  | none => a
  | some v =>
    match a.h.sess v with
    | none => a
    | some x =>
      if Generated.Hub.roomSessionBackendChecked && x.backend ≠ callerBackend then a else
      if Generated.Hub.selfKickGuarded && v = requester then a else
      let (a1, _) := leaveRoom a v
      let a2 := kickBye a1 v
      -- `session.Close()` follows at once; the connection is closed by the bye
      let c := (a2.h.sess v).bind (·.conn)
      let a3 := closeSession a2 v
      let a4 : Acc := { a3 with closes := a3.closes.filter (· ≠ v) }
      match c with
      | some c => { a4 with h := closeConn a4.h c }
      | none => a4

/-- Table part of joining room `r`: bus listener, room-session id, waiting lists and the
session's own record (`SubscribeRoomEvents`, `SetRoom`, `SetPermissions`). -/
def joinTables (h : Hub) (s : Nat) (x : Sess) (r rsid : String) (perms : Option (List String)) : Hub :=
  let b := x.backend
  let h2 := setRoomL h b r (removeL (h.roomL b r) s ++ [s])
  let h3 := if rsid ≠ "" then rsSet h2 s rsid else h2
  let h4 : Hub := { h3 with anon := removeL h3.anon s,
                            dialout := if x.kind = .internal && x.dialoutFeat then removeL h3.dialout s else h3.dialout }
  setSess h4 s (some { x with roomSess := rsid, room := some r, seenJoin := [],
                              perms := match perms with | some p => some p | none => x.perms })

/-- `Hub.processJoinRoom` after a positive backend answer. -/
def doJoin (a : Acc) (s : Nat) (r rsid : String) (perms : Option (List String)) (sessUser : String) : Acc :=
  let (a1, _) := leaveRoom a s
  match a1.h.sess s with
  | none => a1
  | some x =>
    let a5 := sendTo { a1 with h := joinTables a1.h s x r rsid perms } s (.room r)
    roomAddSession a5 x.backend r s x.kind sessUser

/-- Leaving through a room message with an empty room id. -/
def processLeave (a : Acc) (s : Nat) (x : Sess) : Acc :=
  let (a1, was) := leaveRoom a s
  if was then
    let a2 := sendTo a1 s (.room "")
    if x.user = "" && x.kind ≠ .internal then { a2 with h := { a2.h with anon := removeL a2.h.anon s ++ [s] } } else a2
  else a1

def alreadyIn (h : Hub) (x : Sess) (s : Nat) (r : String) : Bool :=
  match h.rooms x.backend r with
  | some rm => rm.members.contains s
  | none => false

/-- Joining the room the session is in already: only the room-session id is updated. -/
def processAlready (a : Acc) (s : Nat) (x : Sess) (rsid : String) : Acc :=
  let rs := if rsid = "" then pubRs s else rsid
  let h1 := if x.roomSess = rs then a.h else setSess (rsSet a.h s rs) s (some { x with roomSess := rs })
  sendTo { a with h := h1 } s (.error "already_joined")

/-- After the backend answered the join request of an ordinary client. -/
def processJoinReply (a : Acc) (s : Nat) (x : Sess) (r rsid : String) : JoinReply → Acc
  | .fail => sendTo a s (.error "internal_error")
  | .err code =>
    let a1 := if rsid ≠ "" then disconnectByRoomSessionId a rsid x.backend s else a
    sendTo a1 s (.error code)
  | .ok perms su =>
    let a1 := if rsid ≠ "" then disconnectByRoomSessionId a rsid x.backend s else a
    doJoin a1 s r rsid perms su

/-- `Hub.processRoom`. -/
def processRoom (a : Acc) (s : Nat) (r rsid : String) (reply : JoinReply) : Acc :=
  match a.h.sess s with
  | none => a
  | some x =>
    if x.kind = .virtual then a else
    if r = "" then processLeave a s x else
    if alreadyIn a.h x s r then processAlready a s x rsid else
    if x.kind = .internal then doJoin a s r rsid none "" else
    processJoinReply a s x r rsid reply

/-! ### hello / resume / disconnect / bye / housekeeping -/

/-- The tables after a successful registration of a new session on connection `c` (`Hub.processRegister`). -/
def helloSess (c b : Nat) (kind : Kind) (user : String) (dialoutFeat inCallFeat : Bool) : Sess :=
  { backend := b, kind := kind, user := user, dialoutFeat := dialoutFeat, inCallFeat := inCallFeat, conn := some c,
    inCall := if kind = .internal && !inCallFeat then 3 else 0 }

def helloTables (h : Hub) (c b : Nat) (kind : Kind) (user : String) (dialoutFeat inCallFeat : Bool) : Hub :=
  let s := h.nextSid
  let counted := kind ≠ .internal
  let x : Sess := helloSess c b kind user dialoutFeat inCallFeat
  let h1 : Hub := { h with
    nextSid := s + 1
    sess := fun k => if k = s then some x else h.sess k
    connSess := fun k => if k = c then some s else h.connSess k
    expectHello := removeL h.expectHello c
    sessL := fun k => if k = s then true else h.sessL k
    count := fun b' => if b' = b && counted && h.limit b ≠ 0 then h.count b ++ [s] else h.count b'
    anon := if user = "" && kind ≠ .internal then h.anon ++ [s] else h.anon
    dialout := if kind = .internal && dialoutFeat then h.dialout ++ [s] else h.dialout }
  if user ≠ "" then setUserL h1 b user (h1.userL b user ++ [s]) else h1

/-- `Backend.AddSession` refuses: the backend has a limit and it is reached. -/
def limitReached (h : Hub) (b : Nat) (kind : Kind) : Bool :=
  kind ≠ .internal && h.limit b ≠ 0 && (h.count b).length ≥ h.limit b

def processHello (a : Acc) (c b : Nat) (kind : Kind) (user : String) (dialoutFeat inCallFeat : Bool) : Acc :=
  if !a.h.connOpen c || (a.h.connSess c).isSome then a else
  let h := a.h
  if limitReached h b kind then
    { a with h := { h with expectHello := removeL h.expectHello c ++ [c] }, outs := a.outs ++ [⟨c, .error "session_limit_exceeded", some b⟩] }
  else
    { a with h := helloTables h c b kind user dialoutFeat inCallFeat, outs := a.outs ++ [⟨c, .hello h.nextSid user, some b⟩] }

/-- `UserId()`: the authenticated user, or the one supplied with the room join. -/
def userOf (h : Hub) (s : Nat) (x : Sess) : String :=
  if x.user ≠ "" then x.user else
  match x.room with
  | some r =>
    match h.rooms x.backend r with
    | some rm => match rm.sessUser.find? (fun p => p.1 = s) with | some p => p.2 | none => ""
    | none => ""
  | none => ""

/-- `Room.NotifySessionResumed`. -/
def notifyResumed (a : Acc) (s : Nat) : Acc :=
  match a.h.sess s with
  | none => a
  | some x =>
    match x.room with
    | none => a
    | some r =>
      match a.h.rooms x.backend r with
      | none => a
      | some rm =>
        let users := addInternalSessions a.h rm rm.users
        if users = [] then a else sendTo a s (.partUsers users)

/-- The tables after session `s` (record `x`) was attached to connection `c` (`SetClient` + the
bookkeeping in `processHello`): a previous connection is closed, queued messages are handed over. -/
def resumeTables (h : Hub) (c s : Nat) (x : Sess) : Hub :=
  let h1 := match x.conn with
    | some p => closeConn h p
    | none => h
  { (setSess h1 s (some { x with conn := some c, pending := [] })) with
    connSess := fun k => if k = c then some s else h1.connSess k
    expired := removeL h1.expired s
    expectHello := removeL h1.expectHello c }

/-- Writing the queued messages to the new connection (`SendMessages`: raw, no filter). -/
def flushPending (a : Acc) (s : Nat) (pend : List Msg) : Acc :=
  pend.foldl (fun a m =>
    match a.h.sess s with
    | some y =>
      (match y.conn with
       | some c' => { a with outs := a.outs ++ [⟨c', m, some y.backend⟩], closes := if isClosing y m then a.closes ++ [s] else a.closes }
       | none => a)
    | none => a) a

/-- The participants list is sent on resume unless one was among the queued messages. -/
def needsParticipants (pend : List Msg) : Bool := pend = [] || !(pend.any isPartUpdate)

/-- `SetClient` + hello reply: a previous connection is told that the session moved on and is closed,
the new one gets the hello with the same session id. -/
def resumeAcc (a : Acc) (c s : Nat) (x : Sess) : Acc :=
  let outs1 : List Out := match x.conn with
    | some p => [⟨p, Msg.bye "session_resumed", some x.backend⟩]
    | none => []
  let h2 := resumeTables a.h c s x
  { a with h := h2, outs := a.outs ++ outs1 ++ [⟨c, .hello s (userOf h2 s { x with conn := some c, pending := [] }), some x.backend⟩] }

/-- Resume with the private id of session `s` (`none`: an id that does not decode / unknown). -/
def processResume (a : Acc) (c : Nat) (os : Option Nat) : Acc :=
  if !a.h.connOpen c || (a.h.connSess c).isSome then a else
  match os with
  | none => { a with outs := a.outs ++ [⟨c, .error "no_such_session", none⟩] }
  | some s =>
    match a.h.sess s with
    | none => { a with outs := a.outs ++ [⟨c, .error "no_such_session", none⟩] }
    | some x =>
      if x.kind = .virtual then { a with outs := a.outs ++ [⟨c, .error "no_such_session", none⟩] } else
      -- NotifySessionResumed: flush what was queued, then the participants list unless one was queued
      let a4 := flushPending (resumeAcc a c s x) s x.pending
      if needsParticipants x.pending then notifyResumed a4 s else a4

/-- The tables after connection `c` of session `s` dropped (`Hub.processUnregister`). -/
def disconnectTables (h : Hub) (c s : Nat) : Hub :=
  let h0 := closeConn h c
  let h1 := modSess h0 s (fun x => if x.conn = some c then { x with conn := none } else x)
  { h1 with expired := removeL h1.expired s ++ [s] }

/-- The connection dropped (`Hub.processUnregister`). -/
def processDisconnect (a : Acc) (c : Nat) : Acc :=
  if !a.h.connOpen c then a else
  match a.h.connSess c with
  | none => { a with h := closeConn a.h c }
  | some s => { a with h := disconnectTables a.h c s }

def processBye (a : Acc) (c : Nat) : Acc :=
  match a.h.connSess c with
  | none =>
    -- nothing but hello is accepted on a connection without session
    if a.h.connOpen c then { a with outs := a.outs ++ [⟨c, .error "hello_expected", none⟩] } else a
  | some s =>
    let a1 : Acc := { a with outs := a.outs ++ [⟨c, .bye "", (a.h.sess s).map (·.backend)⟩] }
    let a2 := processDisconnect a1 c
    closeSession a2 s

/-- An anonymous session that did not join a room in time: bye to its connection (which is
then closed) and `session.Close()`. -/
def timeoutAnon (a : Acc) (s : Nat) : Acc :=
  match a.h.sess s with
  | none => a
  | some x =>
    match x.conn with
    | some c =>
      let a1 := closeSession { a with outs := a.outs ++ [⟨c, Msg.bye "room_join_timeout", some x.backend⟩] } s
      { a1 with h := closeConn a1.h c }
    | none => closeSession a s

/-- A connection that did not say hello in time. -/
def timeoutHello (a : Acc) (c : Nat) : Acc :=
  { a with outs := a.outs ++ [⟨c, Msg.bye "hello_timeout", none⟩], h := closeConn a.h c }

/-- `performHousekeeping(now)` with `now` past the deadlines of the selected classes:
level 1 = pending hellos, 2 = + anonymous sessions without room, 3 = + disconnected sessions. -/
def housekeeping (a : Acc) (level : Nat) : Acc :=
  let a1 := if level ≥ 3 then a.h.expired.foldl closeSession a else a
  let a2 := if level ≥ 2 then a1.h.anon.foldl timeoutAnon a1 else a1
  if level ≥ 1 then a2.h.expectHello.foldl timeoutHello a2 else a2

/-! ### messages and control messages (Hub.processMessageMsg / processControlMsg) -/

inductive Rcpt
  | session (sid : Option Nat)     -- none: a public id that does not decode / is unknown
  | user (u : String)
  | room
  | call
  deriving Repr, Inhabited

def Rcpt.rtype : Rcpt → RType
  | .session _ => .session | .user _ => .user | .room => .room | .call => .call

def processMessage (a : Acc) (s : Nat) (ctl : Bool) (rc : Rcpt) (data : String) : Acc :=
  match a.h.sess s with
  | none => a
  | some x =>
    if x.kind = .virtual then a else
    if ctl && !mayControl x then a else
    let sender : Sender := { rtype := rc.rtype, sid := s, user := userOf a.h s x }
    match rc with
    | .session none => a          -- published on a subject nobody listens to
    | .session (some t) =>
      match a.h.sess t with
      | none => a
      | some y =>
        if (if ctl then Generated.Hub.controlBackendChecked else Generated.Hub.messageBackendChecked) && y.backend ≠ x.backend then a else
        if t = s then a else
        if y.kind = .virtual then sendTo a y.parent (.message ctl sender (some y.vkey) data)
        else sendTo a t (.message ctl sender none data)
    | .user u =>
      -- MessageClientMessage.CheckValid: a user recipient needs a user id (checked before anything else)
      if u = "" then a else
      if u = userOf a.h s x then a else
      pubUser a x.backend u (.msg (.message ctl sender none data))
    | .room | .call =>
      match x.room with
      | none => a
      | some r => pubRoom a x.backend r (.msg (.message ctl sender none data))

/-! ### internal clients: virtual sessions (Hub.processInternalMsg) -/

def virtSess (s : Nat) (x : Sess) (r vkey user : String) (inCall : Option Nat) : Sess :=
  { backend := x.backend, kind := .virtual, user := user, parent := s, vkey := vkey, room := some r,
    inCall := match inCall with | some n => n | none => if x.inCallFeat then 0 else 9 }

/-- The tables after internal session `s` (record `x`) added a virtual session for room `r`
(`NewVirtualSession`, `Hub.sessions/virtualSessions`, `AddVirtualSession`, `SetRoom`). -/
def virtualTables (h : Hub) (s : Nat) (x : Sess) (r vkey user : String) (inCall : Option Nat) : Hub :=
  let v := h.nextSid
  let vx : Sess := virtSess s x r vkey user inCall
  let h1 : Hub := { h with
    nextSid := v + 1
    sess := fun k => if k = v then some vx else if k = s then some { x with children := x.children ++ [v] } else h.sess k
    sessL := fun k => if k = v then true else h.sessL k
    vtable := fun p k => if p = s ∧ k = vkey then some v else h.vtable p k }
  -- SetRoom: room-session id of a virtual session is its own public id
  rsSet h1 v (pubRs v)

def addVirtual (a : Acc) (s : Nat) (r vkey user : String) (inCall : Option Nat) (backendOk : Bool) : Acc :=
  match a.h.sess s with
  | none => a
  | some x =>
    if x.kind ≠ .internal then a else
    match a.h.rooms x.backend r with
    | none => a
    | some _ =>
      if !backendOk then sendTo a s (.error "add_failed") else
      roomAddSession { a with h := virtualTables a.h s x r vkey user inCall } x.backend r a.h.nextSid .virtual ""

def removeVirtual (a : Acc) (s : Nat) (r vkey : String) : Acc :=
  match a.h.sess s with
  | none => a
  | some x =>
    if x.kind ≠ .internal then a else
    match a.h.rooms x.backend r with
    | none => a
    | some _ =>
      match a.h.vtable s vkey with
      | none => a
      | some v =>
        let h1 : Hub := { a.h with vtable := fun p k => if p = s ∧ k = vkey then none else a.h.vtable p k }
        closeSession { a with h := h1 } v

/-- `Room.NotifySessionChanged(session, SessionChangeInCall)` for an internal session. -/
def roomInCallUpdate (a : Acc) (b : Nat) (room : Option String) (s inCall : Nat) : Acc :=
  match room with
  | none => a
  | some r =>
    match a.h.rooms b r with
    | none => a
    | some rm =>
      let rm1 : Room := if inCall % 2 = 1
        then { rm with inCall := if rm.inCall.contains s then rm.inCall else rm.inCall ++ [s] }
        else { rm with inCall := removeL rm.inCall s }
      publishUsersChangedWithInternal { a with h := setRoom a.h b r (some rm1) } b r

def internalInCall (a : Acc) (s : Nat) (inCall : Nat) : Acc :=
  match a.h.sess s with
  | none => a
  | some x =>
    if x.kind ≠ .internal then a else
    if x.inCall = inCall then a else
    roomInCallUpdate { a with h := setSess a.h s (some { x with inCall := inCall }) } x.backend x.room s inCall

/-! ### room API of the backend (backend_server.go + room.go consumers) -/

/-- `lookupByRoomSessionId`: Nextcloud session id → local session. -/
def lookupRs (h : Hub) (callerBackend : Nat) (rs : String) : Option Nat :=
  match h.rs2sid rs with
  | none => none
  | some s =>
    match h.sess s with
    | none => none
    | some x => if Generated.Hub.roomSessionBackendChecked && x.backend ≠ callerBackend then none else some s

inductive Api
  | invite (users allUsers : List String)
  | disinvite (users : List String) (rsids : List String) (allUsers : List String)
  | delete
  | message (data : String)
  | incallAll (inCall : Nat)
  | incall (changed : List (String × Nat)) (users : List (String × Nat))      -- (Nextcloud session id, inCall)
  | participants (changed : List (String × Option (List String))) (users : List String)
  | switchto (room : String) (rsids : List String)
  deriving Repr, Inhabited

def fixup (h : Hub) (b : Nat) (l : List (String × Nat)) : List PUser :=
  l.filterMap fun (rs, ic) => (lookupRs h b rs).map fun s => { sid := s, inCall := ic, tag := 0 }

def pubUsers (a : Acc) (b : Nat) (users : List String) (m : Msg) : Acc :=
  users.foldl (fun a u => pubUser a b u (.msg m)) a

/-- A message for the session that uses Nextcloud session id `rs` (on the caller's backend). -/
def sendToRs (b : Nat) (m : AMsg) (a : Acc) (rs : String) : Acc :=
  match lookupRs a.h b rs with
  | some s => procSession a s m
  | none => a

def apiInvite (a : Acc) (b : Nat) (r : String) (users allUsers : List String) : Acc :=
  let a1 := pubUsers a b users (.roomlist "invite" r)
  pubUsers a1 b (allUsers.filter (fun u => !users.contains u)) (.roomlist "update" r)

def apiDisinvite (a : Acc) (b : Nat) (r : String) (users rsids allUsers : List String) : Acc :=
  let a1 := pubUsers a b users (.roomlist "disinvite" r)
  let a2 := rsids.foldl (sendToRs b (.msg (.roomlist "disinvite" r))) a1
  pubUsers a2 b (allUsers.filter (fun u => !users.contains u)) (.roomlist "update" r)

/-- `Room.notifyInternalRoomDeleted` for one member. -/
def notifyRoomDeleted (a : Acc) (s : Nat) : Acc :=
  match a.h.sess s with
  | some x => if x.kind = .internal then sendTo a s .roomDeleted else a
  | none => a

/-- One former member of a deleted room: `session.LeaveRoom(true)` (the room is closed already,
so nobody is notified), then the room message. -/
def deleteLeave (a : Acc) (s : Nat) : Acc :=
  match a.h.sess s with
  | none => a
  | some x =>
    let (a', _) := leaveRoom a s
    if x.kind ≠ .virtual && x.conn.isSome then sendTo a' s (.room "") else a'

def apiDelete (a : Acc) (b : Nat) (r : String) : Acc :=
  match a.h.rooms b r with
  | none => a
  | some rm =>
    let a1 := rm.members.foldl notifyRoomDeleted a
    -- Room.Close: the room is gone before its sessions leave
    rm.members.foldl deleteLeave { a1 with h := setRoom a1.h b r none }

def apiMessage (a : Acc) (b : Nat) (r : String) (data : String) : Acc :=
  if data = "" then a else
  match a.h.rooms b r with
  | none => a
  | some _ => pubRoom a b r (.msg (.roomMsg data))

def sendAll (a : Acc) (ss : List Nat) (m : Msg) : Acc := ss.foldl (fun a s => sendTo a s m) a

def apiIncallAll (a : Acc) (b : Nat) (r : String) (inCall : Nat) : Acc :=
  match a.h.rooms b r with
  | none => a
  | some rm =>
    let clients := rm.members.filter (fun s => match a.h.sess s with | some x => x.kind ≠ .virtual | none => false)
    if inCall % 2 = 1 then
      let eligible := clients.filter (fun s => match a.h.sess s with | some x => x.kind = .client | none => false)
      let joined := eligible.filter (fun s => !rm.inCall.contains s)
      if joined = [] then a else
      sendAll { a with h := setRoom a.h b r (some { rm with inCall := rm.inCall ++ joined }) } eligible (.partAll inCall)
    else if rm.inCall ≠ [] then
      sendAll { a with h := setRoom a.h b r (some { rm with inCall := [] }) } clients (.partAll inCall)
    else a

def apiIncall (a : Acc) (b : Nat) (r : String) (changed users : List (String × Nat)) : Acc :=
  let cs := fixup a.h b changed
  let us := fixup a.h b users
  if cs = [] && us = [] then a else
  match a.h.rooms b r with
  | none => a
  | some rm =>
    -- only members of the room can be in its call (fix for C07)
    let csm := if Generated.Hub.inCallMembersOnly then cs.filter (fun u => rm.members.contains u.sid) else cs
    let ic := csm.foldl (fun ic u => if u.inCall % 2 = 1 then (if ic.contains u.sid then ic else ic ++ [u.sid]) else removeL ic u.sid) rm.inCall
    let rm1 : Room := { rm with users := us, inCall := ic }
    let a1 : Acc := { a with h := setRoom a.h b r (some rm1) }
    -- recipients see changed entries merged into the users list (ClientSession.filterMessage)
    let base := addInternalSessions a1.h rm1 us
    pubRoom a1 b r (.msg (.partUsers (base ++ cs.filter (fun c => !(base.map (·.sid)).contains c.sid))))

/-- The permissions part of a participants request, for one changed entry. -/
def sendPerms (a : Acc) (e : Nat × Option (List String)) : Acc :=
  match e.2 with
  | some ps => procSession a e.1 (.perms ps)
  | none => a

def apiParticipants (a : Acc) (b : Nat) (r : String) (changed : List (String × Option (List String))) (users : List String) : Acc :=
  let cs := changed.filterMap fun (rs, p) => (lookupRs a.h b rs).map fun s => (s, p)
  let us := fixup a.h b (users.map fun rs => (rs, 0))
  if cs = [] && us = [] then a else
  let a1 := cs.foldl sendPerms a
  match a1.h.rooms b r with
  | none => a1
  | some rm =>
    let csU : List PUser := cs.map fun (s, _) => { sid := s, inCall := 0, tag := 0 }
    let base := addInternalSessions a1.h rm us
    pubRoom a1 b r (.msg (.partUsers (base ++ csU.filter (fun c => !(base.map (·.sid)).contains c.sid))))

def apiSwitchto (a : Acc) (b : Nat) (r room : String) (rsids : List String) : Acc :=
  let ss := rsids.filterMap (lookupRs a.h b)
  if ss = [] then a else
  match a.h.rooms b r with
  | none => a
  | some _ => ss.foldl (fun a s => procSession a s (.msg (.switchto room))) a

def processApi (a : Acc) (b : Nat) (r : String) : Api → Acc
  | .invite users allUsers => apiInvite a b r users allUsers
  | .disinvite users rsids allUsers => apiDisinvite a b r users rsids allUsers
  | .delete => apiDelete a b r
  | .message data => apiMessage a b r data
  | .incallAll inCall => apiIncallAll a b r inCall
  | .incall changed users => apiIncall a b r changed users
  | .participants changed users => apiParticipants a b r changed users
  | .switchto room rsids => apiSwitchto a b r room rsids

/-! ### operations -/

inductive Op
  | connect (c : Nat)
  | hello (c b : Nat) (kind : Kind) (user : String) (dialoutFeat inCallFeat : Bool)
  | resume (c : Nat) (s : Option Nat)
  | disconnect (c : Nat)
  | bye (c : Nat)
  | housekeeping (level : Nat)
  | join (s : Nat) (room rsid : String) (reply : JoinReply)
  | message (s : Nat) (ctl : Bool) (rc : Rcpt) (data : String)
  | addVirtual (s : Nat) (room vkey user : String) (inCall : Option Nat) (backendOk : Bool)
  | removeVirtual (s : Nat) (room vkey : String)
  | internalInCall (s : Nat) (inCall : Nat)
  | api (b : Nat) (room : String) (req : Api)
  | setLimit (b limit : Nat)
  deriving Repr, Inhabited

def connect (a : Acc) (c : Nat) : Acc :=
  if a.h.connOpen c then a else
  { a with h := { a.h with connOpen := fun k => if k = c then true else a.h.connOpen k,
                           expectHello := a.h.expectHello ++ [c] } }

/-- Ops sent on behalf of a session are only possible while it has a connection. -/
def connected (h : Hub) (s : Nat) : Bool :=
  match h.sess s with
  | some x => x.conn.isSome
  | none => false

def stepAcc (a : Acc) : Op → Acc
  | .connect c => connect a c
  | .hello c b kind user d i =>
    -- clients say hello as `client` or `internal`; virtual sessions only come from `addsession`
    if kind = .virtual then a else processHello a c b kind user d i
  | .resume c s => processResume a c s
  | .disconnect c => processDisconnect a c
  | .bye c => processBye a c
  | .housekeeping level => housekeeping a level
  | .join s r rsid reply => if connected a.h s then processRoom a s r rsid reply else a
  | .message s ctl rc data =>
    if !connected a.h s then a else
    -- ClientMessage.CheckValid runs first: a user recipient without user id is refused
    match rc with
    | .user "" => sendTo a s (.error "invalid_format")
    | _ => processMessage a s ctl rc data
  | .addVirtual s r vkey user ic ok => if connected a.h s then addVirtual a s r vkey user ic ok else a
  | .removeVirtual s r vkey => if connected a.h s then removeVirtual a s r vkey else a
  | .internalInCall s ic => if connected a.h s then internalInCall a s ic else a
  | .api b r req => processApi a b r req
  | .setLimit b l =>
    -- configuration: lowering a limit below the number of registered sessions (a reload at run time) is outside the model
    if l = 0 ∨ (a.h.count b).length ≤ l then { a with h := { a.h with limit := fun k => if k = b then l else a.h.limit k } } else a

def step (h : Hub) (op : Op) : Hub × List Out :=
  let a := flushCloses (stepAcc { h := h } op)
  (a.h, a.outs)

def run (h : Hub) : List Op → Hub × List (List Out)
  | [] => (h, [])
  | op :: ops =>
    let (h1, o) := step h op
    let (h2, os) := run h1 ops
    (h2, o :: os)

end SigModel.Hub
