/-
Model of the federation client of /repo/federation.go (C12): what one
`FederationClient` does with whatever the remote signaling server sends, and
the local filtering/forwarding of the result (`ClientSession.SendMessage` →
`filterMessage` → the session's own connection, `ServerMessage.CloseAfterSend`).

* `ServerMessage` mirrors api_signaling.go for the types the federation client
  touches: every pointer sub-object is an `Option`, list entries that are
  pointers are `Option`s, `json.RawMessage` blobs are represented by the views
  the Go code takes of them (the decoder is trusted, see Spec).
* Every place where the Go code dereferences a sub-object, or indexes/asserts
  without a guard, has an explicit `crash` outcome for the `none` case.  Every
  mutex acquisition by the read-loop goroutine is checked against the mutexes
  it already holds (`deadlock` outcome; Go mutexes are not reentrant).
* Whether a message gets to the handlers at all is decided by `validate`, which
  is *defined over the regenerated tables* of `Generated/ShapesFederation.lean`
  (`ServerMessage.CheckValid`, `EventServerMessage.CheckValid`, the call in
  `readPump`), as are the mutex taken by `deferMessage`, the re-check of
  `c.conn` in `closeConnection` and the number of unchecked type assertions in
  `filterMessage`.

Outputs are canonical strings, identical to the ones the harness derives from
what the local client and the hostile peer actually receive.

Not modelled: the actor-id rewriting in `updateEventUsers` (cannot fail, not
rendered), display-name filtering (content only), timers as time (a scheduled
reconnect happens within the step), `ErrCloseSent` write errors (only reachable
from other goroutines), the leaf lock `pendingMu` at the sites where the repaired
code updates `resumeId`/`pendingMessages` (nothing is called while it is held).
-/
import SigModel.Generated.ShapesFederation
import SigModel.Basic.Proto

namespace SigModel.ShapesFederation
open SigModel.Proto

/-! ## The decoded message -/

/-- One `map[string]interface{}` entry of `users`/`changed`: the string values (if any) at the two keys the code looks at. -/
structure MapEntry where
  sidU : Option String      -- "sessionId"
  sidL : Option String      -- "sessionid"
  deriving DecidableEq, Repr, Inhabited

/-- `RoomEventServerMessage` / `RoomDisinviteEventServerMessage`. -/
structure RoomEv where
  roomId : String
  users : List MapEntry
  changed : List MapEntry
  deriving DecidableEq, Repr, Inhabited

structure FlagsEv where
  roomId : String
  sessionId : String
  deriving DecidableEq, Repr, Inhabited

structure MsgEv where
  roomId : String
  deriving DecidableEq, Repr, Inhabited

structure Entry where
  sessionId : String
  deriving DecidableEq, Repr, Inhabited

structure Event where
  target : String
  type : String
  join : List (Option Entry)
  leave : List String
  changeHasNil : Bool
  switchTo : Bool
  resumed : Bool            -- Resumed != nil && *Resumed
  invite : Option RoomEv
  disinvite : Option RoomEv
  update : Option RoomEv
  flags : Option FlagsEv
  message : Option MsgEv
  deriving DecidableEq, Repr, Inhabited

/-- `MessageServerMessageSender` / `MessageClientMessageRecipient`. -/
structure Party where
  type : String
  sessionId : String
  deriving DecidableEq, Repr, Inhabited

/-- `MessageServerMessage` / `ControlServerMessage` with the views of `Data` the code takes. -/
structure Body where
  sender : Option Party
  recipient : Option Party
  dataEmpty : Bool          -- len(Data) == 0
  aoOk : Bool               -- Data decodes as AnswerOfferMessage
  aoType : String
  aoFrom : String
  aoTo : String
  nick : Bool               -- Data decodes as MessageServerMessageData with type "nickChanged"
  fmOk : Bool               -- Data is an object with action == "forceMute"
  fmPeer : Option String    -- its "peerId" if that is a string
  origA : String            -- rendering of the untouched Data: from= / peer=
  origB : String            -- to=
  deriving DecidableEq, Repr, Inhabited

structure Err where
  code : String
  detailsEmpty : Bool
  detOk : Bool              -- Details decodes as RoomErrorDetails (json.Unmarshal returns no error)
  detRoom : Option String   -- … and the decoded value has a room: its roomid
  origDroom : String        -- rendering of the untouched Details
  deriving DecidableEq, Repr, Inhabited

structure Welcome where
  features : List String
  deriving DecidableEq, Repr, Inhabited

structure Hello where
  sessionId : String
  resumeId : String
  deriving DecidableEq, Repr, Inhabited

structure RoomM where
  roomId : String
  deriving DecidableEq, Repr, Inhabited

structure ServerMessage where
  id : String
  type : String
  error : Option Err
  welcome : Option Welcome
  hello : Option Hello
  bye : Bool
  room : Option RoomM
  message : Option Body
  control : Option Body
  event : Option Event
  transient : Bool
  internal : Bool
  dialout : Bool
  deriving DecidableEq, Repr, Inhabited

/-- What `json.Unmarshal(data, &msg)` makes of a text frame. -/
inductive Dec where
  | undecodable
  | msg (m : ServerMessage)
  deriving Repr, Inhabited

/-! ## The facts regenerated from the Go source

Everything below is defined over a `Facts` value; `generatedFacts` is the one the extractor
produced from the current tree.  The theorems are proved for every `Facts` value that passes
the decidable check `Facts.sound`, and `generatedFacts.sound` is re-evaluated on every run. -/

structure Facts where
  maxMessageSize : Nat
  federationFeature : String
  checkValidExists : Bool
  typeMustBeSet : Bool
  requiredByType : List (String × List String)
  eventValidated : Bool
  requiredByEvent : List ((String × String) × List String)
  entriesByEvent : List ((String × String) × List String)
  readPumpSkipsUndecodable : Bool
  readPumpValidates : Bool
  preHelloWelcomeType : String
  derefs : List (String × String × String × String)
  filterUncheckedAsserts : Nat
  helloLock : String
  sendLock : String
  deferMessageLock : String
  sendErrorDefers : Bool
  sendErrorReconnects : Bool
  sendWithoutConnDefersNonRoom : Bool
  closeRechecksConn : Bool
  /-- unchecked type assertions on map entries / interface values in the handlers and the helpers they call -/
  handlerUncheckedAsserts : Nat
  /-- loops of the handlers (and of what they call) whose termination depends on live state -/
  unboundedLoops : List String
  /-- `processHello` sends the pending messages by ranging over a snapshot taken (and reset) under the queue's mutex -/
  flushOverSnapshot : Bool
  deriving Repr

def generatedFacts : Facts where
  maxMessageSize := Generated.ShapesFederation.maxMessageSize
  federationFeature := Generated.ShapesFederation.federationFeature
  checkValidExists := Generated.ShapesFederation.serverCheckValidExists
  typeMustBeSet := Generated.ShapesFederation.typeMustBeSet
  requiredByType := Generated.ShapesFederation.requiredByType
  eventValidated := Generated.ShapesFederation.eventValidated
  requiredByEvent := Generated.ShapesFederation.requiredByEvent
  entriesByEvent := Generated.ShapesFederation.entriesByEvent
  readPumpSkipsUndecodable := Generated.ShapesFederation.readPumpSkipsUndecodable
  readPumpValidates := Generated.ShapesFederation.readPumpValidates
  preHelloWelcomeType := Generated.ShapesFederation.preHelloWelcomeType
  derefs := Generated.ShapesFederation.derefs
  filterUncheckedAsserts := Generated.ShapesFederation.filterUncheckedAsserts
  helloLock := Generated.ShapesFederation.helloLock
  sendLock := Generated.ShapesFederation.sendLock
  deferMessageLock := Generated.ShapesFederation.deferMessageLock
  sendErrorDefers := Generated.ShapesFederation.sendErrorDefers
  sendErrorReconnects := Generated.ShapesFederation.sendErrorReconnects
  sendWithoutConnDefersNonRoom := Generated.ShapesFederation.sendWithoutConnDefersNonRoom
  closeRechecksConn := Generated.ShapesFederation.closeRechecksConn
  handlerUncheckedAsserts := Generated.ShapesFederation.handlerUncheckedAsserts
  unboundedLoops := Generated.ShapesFederation.unboundedLoops
  flushOverSnapshot := Generated.ShapesFederation.flushOverSnapshot

/-! ## Shape validation, defined over the regenerated tables -/

def lookup {α : Type} [DecidableEq α] (k : α) : List (α × List String) → List String
  | [] => []
  | (k', v) :: r => if k' = k then v else lookup k r

def fieldPresent (m : ServerMessage) (f : String) : Bool :=
  if f = "Error" then m.error.isSome
  else if f = "Welcome" then m.welcome.isSome
  else if f = "Hello" then m.hello.isSome
  else if f = "Bye" then m.bye
  else if f = "Room" then m.room.isSome
  else if f = "Message" then m.message.isSome
  else if f = "Control" then m.control.isSome
  else if f = "Event" then m.event.isSome
  else if f = "TransientData" then m.transient
  else if f = "Internal" then m.internal
  else if f = "Dialout" then m.dialout
  else true

def eventFieldPresent (e : Event) (f : String) : Bool :=
  if f = "Message" then e.message.isSome
  else if f = "SwitchTo" then e.switchTo
  else if f = "Update" then e.update.isSome
  else if f = "Flags" then e.flags.isSome
  else if f = "Invite" then e.invite.isSome
  else if f = "Disinvite" then e.disinvite.isSome
  else true

def eventEntriesOk (e : Event) (f : String) : Bool :=
  if f = "Join" then e.join.all Option.isSome
  else if f = "Change" then !e.changeHasNil
  else true

/-- `(*EventServerMessage).CheckValid() == nil`. -/
def validateEvent (F : Facts) (e : Event) : Bool :=
  (lookup (e.target, e.type) F.requiredByEvent).all (eventFieldPresent e) &&
  (lookup (e.target, e.type) F.entriesByEvent).all (eventEntriesOk e)

/-- `(*ServerMessage).CheckValid() == nil`. -/
def checkValid (F : Facts) (m : ServerMessage) : Bool :=
  (!F.typeMustBeSet || m.type ≠ "") &&
  (lookup m.type F.requiredByType).all (fieldPresent m) &&
  (if m.type = "event" && F.eventValidated then
    match m.event with
    | some e => validateEvent F e
    | none => true
   else true)

/-- Does `readPump` hand the message to the handlers? -/
def validate (F : Facts) (m : ServerMessage) : Bool :=
  if F.checkValidExists && F.readPumpValidates then checkValid F m else true

/-! ## State of one federated session -/

/-- `c.message`: the local client's join request. -/
structure JoinMsg where
  id : String
  roomId : String
  fedRoomId : String        -- room.Federation.RoomId
  deriving DecidableEq, Repr, Inhabited

structure Fed where
  exists_ : Bool := false          -- a FederationClient was created
  connOpen : Bool := false         -- c.conn != nil
  writeBroken : Bool := false      -- writes on the current connection fail (injected fault)
  closed : Bool := false           -- c.closer.IsClosed()
  hello : Option Hello := none
  helloMsgId : String := ""
  helloCount : Nat := 0
  resumeId : String := ""
  reconnecting : Bool := false
  timer : Bool := false            -- reconnectFunc armed
  closeOnLeave : Bool := false
  message : Option JoinMsg := none
  roomId : String := ""
  remoteRoomId : String := ""
  changeRoomId : Bool := false
  pending : List String := []      -- pendingMessages (canonical form)
  attached : Bool := false         -- session.federation == c
  seenJoined : List String := []   -- session.seenJoinedEvents
  hide : Bool := false             -- PERMISSION_HIDE_DISPLAYNAMES
  sessionClosed : Bool := false
  started : Bool := false
  peerDown : Bool := false         -- the remote server refuses new connections (every reconnect attempt fails)
  deriving Repr, Inhabited

/-- Symbol of the local session's public id (the harness substitutes the real one). -/
def localSid : String := "@LSID@"

/-- Why something is written to the local client of the federated session. -/
inductive LocalKind where
  | error          -- the federation client gave up (answer to the join request)
  | fedEvent       -- federation_interrupted / federation_resumed, produced locally
  | forwarded      -- a message of the remote server, rewritten and filtered
  deriving DecidableEq, Repr, Inhabited

inductive Eff where
  | toLocal (k : LocalKind) (m : String)     -- written to the connection of the federated session
  | toPeer (m : String)      -- written to the remote server
  | connClosed               -- the client closed its federation connection
  | reconnected              -- a new federation connection was opened
  | sessionClosed            -- the federated session itself was closed (forwarded "bye")
  deriving DecidableEq, Repr, Inhabited

inductive Fault where
  | crash (site : String)
  | deadlock (lock : String)
  | spin (site : String)     -- a loop of the read-loop goroutine that never ends (holding whatever it holds)
  deriving DecidableEq, Repr, Inhabited

structure Ctx where
  st : Fed
  effs : List Eff := []
  fault : Option Fault := none
  deriving Repr, Inhabited

/-- State-only update (keeps terms small: `c` occurs once). -/
def Ctx.upd (c : Ctx) (f : Fed → Fed) : Ctx := { c with st := f c.st }

def emit (e : Eff) (c : Ctx) : Ctx := { c with effs := c.effs ++ [e] }

def fail (f : Fault) (c : Ctx) : Ctx :=
  match c.fault with
  | some _ => c
  | none => { c with fault := some f }

/-- `mu.Lock()` by the read-loop goroutine while it holds `held`. -/
def lock (held : List String) (l : String) (c : Ctx) : Ctx :=
  if l ∈ held then fail (.deadlock l) c else c

/-! ## Canonical rendering -/

def canonId (id : String) : String := if id = "" then "~" else enc id
def omitE (s : String) : String := if s = "" then "~" else enc s
def optSid (p : Option Party) : String :=
  match p with
  | some q => omitE q.sessionId
  | none => "~"
def joinWith (sep : String) : List String → String
  | [] => ""
  | [x] => x
  | x :: xs => x ++ sep ++ joinWith sep xs
def listOr (xs : List String) : String := if xs.isEmpty then "~" else joinWith "," xs

def canon (typ id : String) (fields : List String) : String :=
  enc typ ++ "(" ++ canonId id ++ ";" ++ joinWith ";" fields ++ ")"

/-- `session.SendMessage` of a message produced locally by the federation client. -/
def sendLocal (k : LocalKind) (m : String) (c : Ctx) : Ctx :=
  if c.st.sessionClosed then c else emit (.toLocal k m) c

/-! ## Sending to the remote server -/

def deferMessage (F : Facts) (held : List String) (m : String) (c : Ctx) : Ctx :=
  let c := lock held F.deferMessageLock c
  if c.st.resumeId = "" then c else (c.upd fun s => { s with pending := s.pending ++ [m] })

/-- `closeConnection(false)`. -/
def closeConnNoBye (c : Ctx) : Ctx :=
  if !c.st.connOpen then c
  else emit .connClosed (c.upd fun s => { s with connOpen := false })

def scheduleReconnectLocked (c : Ctx) : Ctx :=
  let c := (c.upd fun s => { s with reconnecting := true })
  let c := if c.st.hello.isSome then
      sendLocal .fedEvent "event(~;t=room/federation_interrupted)" (c.upd fun s => { s with hello := none })
    else c
  let c := closeConnNoBye c
  (c.upd fun s => { s with timer := true })

def lostHello : String := "hello(@HID-lost@"

/-- A successful write.  A hello whose own write failed was queued like any other message (`deferMessage` does not
look at the type); when the queue is flushed after a resume it reaches the remote server after all — as the next
hello the remote sees, although the client no longer waits for its answer. -/
def deliver (m : String) (c : Ctx) : Ctx :=
  if hasPrefix lostHello m then
    let n := c.st.helloCount + 1
    emit (.toPeer ("hello(@HID" ++ toString n ++ "@" ++ dropS lostHello.length m)) (c.upd fun s => { s with helloCount := n })
  else emit (.toPeer m) c

/-- `sendMessageLocked` (the caller holds `mu`, which is part of `held`). -/
def sendMessageLocked (F : Facts) (held : List String) (typ m : String) (c : Ctx) : Ctx :=
  if !c.st.connOpen then
    if typ ≠ "room" || !F.sendWithoutConnDefersNonRoom then deferMessage F held m c else c
  else if !c.st.writeBroken then deliver m c
  else
    let c := if F.sendErrorDefers then deferMessage F held m c else c
    if F.sendErrorReconnects then scheduleReconnectLocked c else c

def sendMessage (F : Facts) (held : List String) (typ m : String) (c : Ctx) : Ctx :=
  sendMessageLocked F (F.sendLock :: held) typ m (lock held F.sendLock c)

/-- `closeConnection(true)`. -/
def closeConnBye (F : Facts) (held : List String) (c : Ctx) : Ctx :=
  if !c.st.connOpen then c
  else
    let c := sendMessageLocked F held "bye" "bye()" c
    if !c.st.connOpen then
      if F.closeRechecksConn then c else fail (.crash "closeConnection:c.conn.WriteControl") c
    else closeConnNoBye c

/-- `Close()`. -/
def close (F : Facts) (held : List String) (c : Ctx) : Ctx :=
  let c := (c.upd fun s => { s with closed := true })
  closeConnBye F (F.sendLock :: held) (lock held F.sendLock c)

/-- `closeWithError`: close, then an error (answering the pending join request) to the local session. -/
def closeWithError (F : Facts) (held : List String) (code droom : String) (c : Ctx) : Ctx :=
  let c := close F held c
  let id := match c.st.message with
    | some jm => jm.id
    | none => ""
  let c := (c.upd fun s => { s with message := none })
  sendLocal .error (canon "error" id ["code=" ++ enc code, "droom=" ++ droom]) c

def sendHelloLocked (F : Facts) (held : List String) (c : Ctx) : Ctx :=
  -- hello ids are random; `@HIDn@` stands for the n-th one that reached the remote server
  let delivered := c.st.connOpen && !c.st.writeBroken
  let n := if delivered then c.st.helloCount + 1 else c.st.helloCount
  let id := if delivered then "@HID" ++ toString n ++ "@" else "@HID-lost@"
  let c := (c.upd fun s => { s with helloCount := n, helloMsgId := id })
  let m := if c.st.resumeId ≠ "" then "hello(" ++ id ++ ";resume=" ++ enc c.st.resumeId ++ ")"
           else "hello(" ++ id ++ ";auth)"
  sendMessage F held "hello" m c

def joinRoom (F : Facts) (held : List String) (c : Ctx) : Ctx :=
  match c.st.message with
  | none => closeWithError F held "federation_error" "~" c
  | some jm =>
    let remote := if jm.fedRoomId = "" then jm.roomId else jm.fedRoomId
    sendMessage F held "room" ("room(" ++ canonId jm.id ++ ";" ++ enc remote ++ ")") c

/-! ## Before the remote hello: `processWelcome`, `processHello` -/

def isSpace (ch : Char) : Bool :=
  ch = ' ' || ch = '\t' || ch = '\n' || ch = '\r' || ch.toNat = 11 || ch.toNat = 12 ||
  ch.toNat = 0x85 || ch.toNat = 0xA0

def trim (s : String) : String :=
  String.ofList ((s.toList.dropWhile isSpace).reverse.dropWhile isSpace).reverse

def hasFeature (w : Welcome) (f : String) : Bool := w.features.any (fun x => trim x = f)

def processWelcome (F : Facts) (m : ServerMessage) (c : Ctx) : Ctx :=
  match m.welcome with
  | none => fail (.crash "processWelcome:msg.Welcome") c
  | some w =>
    if !hasFeature w F.federationFeature then closeWithError F [] "federation_unsupported" "~" c
    else sendHelloLocked F [F.helloLock] (lock [] F.helloLock c)

/-- Sending the queued messages after a successful resume (`helloMu` released, `mu` taken).

`sendMessageLocked` puts a message back into the queue when the write fails or the connection is gone.  The
code ranges over a snapshot of the queue (taken and reset under `pendingMu`), so the loop ends after one pass
whatever happens to the connection.  A loop that takes the messages from the live queue instead never sees
the queue empty once one write has failed: it spins, holding `mu` (`Facts.flushOverSnapshot = false`). -/
def flushPending (F : Facts) (c : Ctx) : Ctx :=
  let msgs := c.st.pending
  if msgs.isEmpty then c
  else if !F.flushOverSnapshot && (!c.st.connOpen || c.st.writeBroken) && c.st.resumeId ≠ "" then
    fail (.spin "processHello:pending-messages") (lock [] F.sendLock c)
  else
    let c := (c.upd fun s => { s with pending := [] })
    msgs.foldl (fun c m => sendMessageLocked F [F.sendLock] "message" m c) (lock [] F.sendLock c)

def processHello (F : Facts) (m : ServerMessage) (c : Ctx) : Ctx :=
  let c := lock [] F.helloLock c
  let H := [F.helloLock]
  if m.id ≠ c.st.helloMsgId then sendHelloLocked F H c
  else
    let c := (c.upd fun s => { s with helloMsgId := "" })
    if m.type = "error" then
      match m.error with
      | none => fail (.crash "processHello:msg.Error") c
      | some e =>
        if e.code = "no_such_session" then
          sendHelloLocked F H (c.upd fun s => { s with resumeId := "", pending := [] })
        else closeWithError F H e.code e.origDroom c
    else if m.type ≠ "hello" then sendHelloLocked F H c
    else
      let c := (c.upd fun s => { s with hello := m.hello })
      if c.st.resumeId = "" then
        match m.hello with
        | none => fail (.crash "processHello:msg.Hello") c
        | some h =>
          let c := (c.upd fun s => { s with resumeId := h.resumeId })
          let c := if c.st.reconnecting then
              let c := sendLocal .fedEvent "event(~;t=room/federation_resumed;resumed=0)" c
              -- session.SetFederationClient(c): previously seen joins are forgotten
              (c.upd fun s => { s with attached := !s.sessionClosed, seenJoined := [] })
            else c
          joinRoom F H c
      else
        flushPending F (sendLocal .fedEvent "event(~;t=room/federation_resumed;resumed=1)" c)

/-! ## After the remote hello: `processMessage` and the local `filterMessage` -/

def rewriteParty (p : Option Party) (localId remoteId : String) : Option Party :=
  match p with
  | some q =>
    if q.type = "session" && remoteId ≠ "" && q.sessionId = remoteId then some { q with sessionId := localId }
    else some q
  | none => none

/-- `updateEventUsers`: the first entry whose session id is the remote one gets the local one
(stored under "sessionId" whichever key it was found under). -/
def updateEventUsers (localId remoteId : String) : List MapEntry → List MapEntry
  | [] => []
  | u :: us =>
    let sid := match u.sidU with
      | some s => some s
      | none => u.sidL
    if sid = some remoteId then { u with sidU := some localId } :: us
    else u :: updateEventUsers localId remoteId us

/-- `filterMessage`, participants/update: changed entries not already listed are appended to users. -/
def mergeChanged (users changed : List MapEntry) : List MapEntry :=
  let seen := users.filterMap (·.sidU)
  users ++ changed.filter (fun e =>
    match e.sidU with
    | some s => !(seen.contains s)
    | none => true)

def renderUsers (us : List MapEntry) : String :=
  listOr (us.map fun u =>
    match u.sidU with
    | some s => enc s
    | none => "~")

/-- `filterDuplicateJoin` over already dereferenced entries. -/
def filterDup (seen : List String) : List String → List String × List String
  | [] => ([], seen)
  | s :: r =>
    if seen.contains s then filterDup seen r
    else
      let (out, seen') := filterDup (s :: seen) r
      (s :: out, seen')

def replaceFirst (a b : String) : List String → List String × Bool
  | [] => ([], false)
  | x :: xs =>
    if x = a then (b :: xs, true)
    else
      let (r, f) := replaceFirst a b xs
      (x :: r, f)

/-- The outcome of rewriting + filtering one message: what (if anything) is written to the local
client, and whether the federation client closes itself afterwards. -/
structure Fwd where
  out : Option String
  doClose : Bool := false
  seen : Option (List String) := none   -- new seenJoined
  crash : Option String := none
  /-- updates of roomId / remoteRoomId / changeRoomId / message.id by a "room" message -/
  room : Option (String × String × Bool × Option JoinMsg) := none

def Fwd.crashAt (s : String) : Fwd := { out := none, crash := some s }

def entryIds : List (Option Entry) → Option (List String)
  | [] => some []
  | none :: _ => none
  | some e :: r =>
    match entryIds r with
    | some l => some (e.sessionId :: l)
    | none => none

def roomOf (st : Fed) (r : String) : String :=
  if st.changeRoomId && r = st.remoteRoomId then st.roomId else r

/-- `entry["sessionId"].(string)` without the comma-ok form fails for entries without a string id. -/
def assertCrash (F : Facts) (u : RoomEv) : Bool :=
  F.filterUncheckedAsserts > 0 && (u.users ++ u.changed).any (fun e => e.sidU.isNone)

def forwardEvent (F : Facts) (st : Fed) (id : String) (e : Event) (rsid : String) : Fwd :=
  let t := "t=" ++ enc e.target ++ "/" ++ enc e.type
  let ev (fields : List String) : Fwd := { out := some (canon "event" id (t :: fields)) }
  if e.target = "participants" then
    if e.type = "update" then
      match e.update with
      | none => .crashAt "processMessage F/filterMessage:msg.Event.Update"
      | some u =>
        let users := if rsid ≠ "" then updateEventUsers localSid rsid u.users else u.users
        let changed := if rsid ≠ "" then updateEventUsers localSid rsid u.changed else u.changed
        if assertCrash F u then .crashAt "filterMessage:entry[\"sessionId\"].(string)"
        else ev ["room=" ++ enc (roomOf st u.roomId), "users=" ++ renderUsers (mergeChanged users changed), "changed=~"]
    else if e.type = "flags" then
      match e.flags with
      | none =>
        if st.changeRoomId || rsid ≠ "" then .crashAt "processMessage:msg.Event.Flags"
        else ev ["room=~", "sid=~"]
      | some f =>
        let sid := if rsid ≠ "" && f.sessionId = rsid then localSid else f.sessionId
        ev ["room=" ++ enc (roomOf st f.roomId), "sid=" ++ enc sid]
    else if e.type = "message" then
      match e.message with
      | none => if st.changeRoomId then .crashAt "processMessage:msg.Event.Message" else ev ["room=~"]
      | some mm => ev ["room=" ++ enc (roomOf st mm.roomId)]
    else ev []
  else if e.target = "room" then
    if e.type = "join" then
      match entryIds e.join with
      | none => .crashAt "processMessage F/filterDuplicateJoin:nil join entry"
      | some ids =>
        let ids := if rsid ≠ "" then (replaceFirst rsid localSid ids).1 else ids
        let (out, seen') := filterDup st.seenJoined ids
        if out.isEmpty then { out := none, seen := some seen' }
        else { out := some (canon "event" id [t, "join=" ++ listOr (out.map enc)]), seen := some seen' }
    else if e.type = "leave" then
      let (ids, found) := if rsid ≠ "" then replaceFirst rsid localSid e.leave else (e.leave, false)
      { out := some (canon "event" id [t, "leave=" ++ listOr (ids.map enc)]),
        doClose := found && st.closeOnLeave,
        seen := some (st.seenJoined.filter (fun s => !(ids.contains s))) }
    else if e.type = "message" then
      match e.message with
      | none => if st.changeRoomId then .crashAt "processMessage:msg.Event.Message" else ev ["room=~"]
      | some mm => ev ["room=" ++ enc (roomOf st mm.roomId)]
    else if e.type = "federation_resumed" then ev [if e.resumed then "resumed=1" else "resumed=0"]
    else ev []
  else if e.target = "roomlist" then
    let sub (o : Option RoomEv) (site : String) : Fwd :=
      match o with
      | none => if st.changeRoomId then .crashAt site else ev ["room=~"]
      | some u => ev ["room=" ++ enc (roomOf st u.roomId)]
    if e.type = "invite" then sub e.invite "processMessage:msg.Event.Invite"
    else if e.type = "disinvite" then sub e.disinvite "processMessage:msg.Event.Disinvite"
    else if e.type = "update" then sub e.update "processMessage:msg.Event.Update"
    else ev []
  else ev []

/-- The dereference `details.Room.…` of the value `processMessage` itself decodes from the raw `error.details`
(no validation table covers it): reported by the extractor under this name when the nil test in front of it is missing. -/
def detailsRoomDeref : String × String × String × String := ("error", "", "", "@RoomErrorDetails.Room")

def forward (F : Facts) (st : Fed) (m : ServerMessage) : Fwd :=
  let rsid := match st.hello with
    | some h => h.sessionId
    | none => ""
  if m.type = "control" then
    match m.control with
    | none => .crashAt "processMessage:msg.Control"
    | some b =>
      let snd := rewriteParty b.sender localSid rsid
      let rcp := rewriteParty b.recipient localSid rsid
      let peer := if !b.dataEmpty && b.fmOk && b.fmPeer = some rsid then enc localSid else b.origA
      { out := some (canon "control" m.id ["snd=" ++ optSid snd, "rcp=" ++ optSid rcp, "peer=" ++ peer]) }
  else if m.type = "event" then
    match m.event with
    | none => .crashAt "processMessage:msg.Event"
    | some e => forwardEvent F st m.id e rsid
  else if m.type = "error" then
    match m.error with
    | none =>
      if st.changeRoomId then .crashAt "processMessage:msg.Error"
      else { out := some (canon "error" m.id ["code=~", "droom=~"]) }
    | some e =>
      let looks := st.changeRoomId && e.code = "already_joined" && !e.detailsEmpty && e.detOk
      if looks && e.detRoom.isNone && F.derefs.contains detailsRoomDeref then
        .crashAt "processMessage:details.Room"
      else
      let droom :=
        if looks && e.detRoom = some st.remoteRoomId then enc st.roomId else e.origDroom
      { out := some (canon "error" m.id ["code=" ++ enc e.code, "droom=" ++ droom]) }
  else if m.type = "room" then
    -- the answer to the join request: ids are taken from the request again
    let (jm', roomId, remoteRoomId, change) :=
      match st.message with
      | some jm =>
        let jm' := if m.id ≠ "" && jm.id = m.id then { jm with id := "" } else jm
        let remote := if jm.fedRoomId = "" then jm.roomId else jm.fedRoomId
        (some jm', jm.roomId, remote, decide (jm.roomId ≠ remote))
      | none => (none, st.roomId, st.remoteRoomId, st.changeRoomId)
    match m.room with
    | none => { Fwd.crashAt "processMessage:msg.Room" with room := some (roomId, remoteRoomId, change, jm') }
    | some r =>
      let closing := r.roomId = "" && st.closeOnLeave
      let rid := if !closing && change && r.roomId = remoteRoomId then roomId else r.roomId
      { out := some (canon "room" m.id ["room=" ++ enc rid]), doClose := closing,
        room := some (roomId, remoteRoomId, change, jm') }
  else if m.type = "message" then
    match m.message with
    | none => .crashAt "processMessage:msg.Message"
    | some b =>
      let snd := rewriteParty b.sender localSid rsid
      let rcp := rewriteParty b.recipient localSid rsid
      let rewrite := rsid ≠ "" && !b.dataEmpty && b.aoOk && (b.aoType = "offer" || b.aoType = "answer") &&
        (b.aoFrom = rsid || b.aoTo = rsid)
      let from_ := if rewrite then enc (if b.aoFrom = rsid then localSid else b.aoFrom) else b.origA
      let to_ := if rewrite then enc (if b.aoTo = rsid then localSid else b.aoTo) else b.origB
      if st.hide && !b.dataEmpty && b.nick then { out := none }
      else { out := some (canon "message" m.id ["snd=" ++ optSid snd, "rcp=" ++ optSid rcp, "from=" ++ from_, "to=" ++ to_]) }
  else { out := some (canon m.type m.id []) }

/-- The local session ends (`ClientSession.Close` → `Hub.removeSession` → `LeaveRoom`): its federation
client is detached and asked to leave the remote room (`Leave(nil)`); it closes itself when the
remote server confirms.  Runs in another goroutine: nothing is held. -/
def sessionEnds (F : Facts) (c : Ctx) : Ctx :=
  let c := (c.upd fun s => { s with sessionClosed := true })
  if c.st.attached then
    let c := (c.upd fun s => { s with attached := false })
    let c := sendMessageLocked F [F.sendLock] "room" "room(~;%)" c
    (c.upd fun s => { s with closeOnLeave := true })
  else c

/-- `processMessage`: rewrite, hand to the local session, maybe close. -/
def processMessage (F : Facts) (m : ServerMessage) (c : Ctx) : Ctx :=
  let f := forward F c.st m
  let c := match f.room with
    | some (roomId, remote, change, jm) =>
      (c.upd fun s => { s with roomId := roomId, remoteRoomId := remote, changeRoomId := change, message := jm })
    | none => c
  match f.crash with
  | some site => fail (.crash site) c
  | none =>
    let c := match f.seen with
      | some sj => (c.upd fun s => { s with seenJoined := sj })
      | none => c
    let c := match f.out with
      | some o => sendLocal .forwarded o c
      | none => c
    -- ServerMessage.CloseAfterSend: a forwarded "bye" ends the local session
    let c := if m.type = "bye" && !c.st.sessionClosed then sessionEnds F (emit .sessionClosed c) else c
    if f.doClose then close F [] c else c

/-! ## The read loop -/

/-- After a message: if the connection is gone the next read fails; an armed timer reconnects
unless the client was closed. -/
def afterRead (F : Facts) (c : Ctx) : Ctx :=
  let c := if !c.st.connOpen && !c.st.closed then scheduleReconnectLocked (lock [] F.sendLock c) else c
  if c.st.timer && !c.st.closed then
    -- while the remote server refuses connections every attempt fails and arms the timer again
    if c.st.peerDown then c
    else emit .reconnected (c.upd fun s => { s with timer := false, connOpen := true, writeBroken := false })
  else (c.upd fun s => { s with timer := false })

def dispatch (F : Facts) (m : ServerMessage) (c : Ctx) : Ctx :=
  if c.st.hello.isNone then
    if m.type = F.preHelloWelcomeType then processWelcome F m c else processHello F m c
  else processMessage F m c

/-- One text frame from the remote server. -/
def onFrame (F : Facts) (d : Dec) (c : Ctx) : Ctx :=
  match d with
  | .undecodable => if F.readPumpSkipsUndecodable then c else fail (.crash "readPump:undecodable message processed") c
  | .msg m => if validate F m then dispatch F m c else c

/-! ## Operations of the correspondence harness -/

inductive Op where
  | start (rid hide feat : Bool)
  | peer (d : Dec) (writeFault : Bool)
  | bin
  | big (n : Nat)
  | drop
  | hold                   -- the connection is dropped and the remote server refuses new ones …
  | up                     -- … until it accepts them again
  | localLeave
  | localMsg
  | probe
  | expire
  deriving Repr, Inhabited

def localRoom : String := "room-L"
def remoteRoom : String := "room-R"

def startState (rid hide : Bool) : Fed :=
  let fr := if rid then remoteRoom else ""
  let remote := if rid then remoteRoom else localRoom
  { exists_ := true, connOpen := true, message := some { id := "join1", roomId := localRoom, fedRoomId := fr },
    roomId := localRoom, remoteRoomId := remote, changeRoomId := rid, attached := true, hide := hide, started := true }

/-- The connection is lost (dropped by the peer, or a frame beyond the read limit). -/
def connectionLost (F : Facts) (c : Ctx) : Ctx := afterRead F (scheduleReconnectLocked (lock [] F.sendLock c))

def step (F : Facts) (st : Fed) (op : Op) : Ctx :=
  let c : Ctx := { st := st }
  match op with
  | .start rid hide feat =>
    if st.started then c
    else if feat then { st := startState rid hide }
    else
      -- the upgrade response lacks the federation feature: connect() fails, the join is refused
      emit .connClosed (sendLocal .error (canon "error" "join1" ["code=" ++ enc "federation_unsupported", "droom=~"])
        { st := { st with started := true, hide := hide } })
  | .peer d wf =>
    if !st.connOpen then c
    else if wf then
      -- the outgoing direction is already broken when the frame is processed, then the connection is gone
      let c := onFrame F d { st := { st with writeBroken := true } }
      afterRead F (if c.st.connOpen then scheduleReconnectLocked (lock [] F.sendLock c) else c)
    else afterRead F (onFrame F d c)
  | .bin => c
  | .big n =>
    if !st.connOpen then c
    else if n > F.maxMessageSize then connectionLost F c
    else afterRead F (onFrame F (.msg { (default : ServerMessage) with type := "noop" }) c)
  | .drop => if !st.connOpen then c else connectionLost F { st := { st with connOpen := false } }
  | .hold => if !st.connOpen then c else connectionLost F { st := { st with connOpen := false, peerDown := true } }
  | .up => if !st.peerDown then c else afterRead F { st := { st with peerDown := false } }
  | .localLeave =>
    if st.attached && !st.sessionClosed then
      -- LeaveRoomWithMessage: the client is detached and asked to leave (another goroutine: nothing held)
      let c : Ctx := { st := { st with attached := false } }
      let c := sendMessageLocked F [F.sendLock] "room" "room(leave1;%)" c
      afterRead F (c.upd fun s => { s with closeOnLeave := true })
    else c
  | .localMsg =>
    if st.attached && !st.sessionClosed then
      let rcp := match st.hello with
        | some h => omitE h.sessionId
        | none => localSid
      afterRead F (sendMessage F [] "message" ("message(" ++ rcp ++ ")") c)
    else c
  | .probe => c
  | .expire => afterRead F (sessionEnds F c)

end SigModel.ShapesFederation
