/-
Model of /repo/transient_data.go (`TransientData`): C14.

The model follows the Go functions one to one (`stopTimer`, `updateTTL`,
`removeAfterTTL`, `doSet`, `doRemove`, `compareAndRemove`, the exported methods
and the closure handed to `time.AfterFunc`).  Three places where the repaired
code differs from the pinned original are parameters (`Cfg`), read from the
current source by the extractor (`Generated/Transient.lean`), so that the model
is the model of *the code as it is now* and the theorems — which need the
repaired values — stop compiling when the source goes back.

Timers are objects.  Go's `*time.Timer` created by `time.AfterFunc` is
  * *armed*  until its deadline,
  * *fired*  from the moment the runtime has started the callback goroutine
             (from then on `Stop()` has no effect) until the callback got the
             store mutex and ran,
  * gone afterwards (or after a successful `Stop()`).
`timers` holds the armed and fired ones; `tmap` is the Go map `t.timers`
(key ↦ timer id) — the code can drop a map entry without stopping the timer,
and a stopped/superseded timer's callback can still be waiting for the mutex.

Time is a `Nat` (ns).  Every exported method runs under `t.mu` from start to end
(fact `lockedMethods`), so one `Op` is one atomic step; the position of the
timer callback relative to the API calls is the position of `runCb`/`advance`
in the op list.
-/
import SigModel.Generated.Transient

namespace SigModel.Transient

abbrev Key := String
/-- Values are opaque tokens; equality of tokens is `reflect.DeepEqual` of the values. -/
abbrev Val := String
abbrev Lid := Nat

/-! ### association lists (Go maps) -/

def kvGet {α : Type} : List (Key × α) → Key → Option α
  | [], _ => none
  | (k', v) :: r, k => if k' = k then some v else kvGet r k

def kvErase {α : Type} (m : List (Key × α)) (k : Key) : List (Key × α) :=
  m.filter (fun p => p.1 ≠ k)

def kvSet {α : Type} (m : List (Key × α)) (k : Key) (v : α) : List (Key × α) :=
  (k, v) :: kvErase m k

/-! ### configuration: what the source currently does at the three repaired places -/

structure Cfg where
  /-- `updateTTL` with `ttl <= 0` stops the pending timer (original: only `delete(t.timers, key)`). -/
  updateStops : Bool
  /-- `removeAfterTTL` stops and forgets the previous timer *before* the `ttl <= 0` return
  (original: only when a new timer is armed). -/
  setStopsFirst : Bool
  /-- the expiry callback acts only if `t.timers[key]` is still this timer (original: no check). -/
  expiryChecksCurrent : Bool
  /-- `CompareAndSetTTL` to the value already stored notifies nobody (original: notifies). -/
  casUnchangedSilent : Bool
  /-- `SetTTL` of the value already stored only updates the TTL and notifies nobody. -/
  setUnchangedSilent : Bool
  /-- `AddListener` sends the `initial` snapshot only when there is data. -/
  initialIfNonEmpty : Bool
  /-- the comparison in `ttl <op> 0` that means "no expiry" -/
  ttlCmp : String
  deriving DecidableEq, Repr

/-- The pinned original (`35ce2fb`). -/
def Cfg.original : Cfg :=
  { updateStops := false, setStopsFirst := false, expiryChecksCurrent := false,
    casUnchangedSilent := false, setUnchangedSilent := true, initialIfNonEmpty := true, ttlCmp := "<=" }

/-- The repaired code. -/
def Cfg.repaired : Cfg :=
  { updateStops := true, setStopsFirst := true, expiryChecksCurrent := true,
    casUnchangedSilent := true, setUnchangedSilent := true, initialIfNonEmpty := true, ttlCmp := "<=" }

/-- What the extractor found in the current working tree. -/
def Cfg.current : Cfg :=
  { updateStops := Generated.Transient.updateTTLStopsTimer
    setStopsFirst := Generated.Transient.removeAfterTTLStopsFirst
    expiryChecksCurrent := Generated.Transient.expiryChecksCurrentTimer
    casUnchangedSilent := Generated.Transient.casUnchangedSilent
    setUnchangedSilent := Generated.Transient.setUnchangedSilent
    initialIfNonEmpty := Generated.Transient.initialOnlyIfNonEmpty
    ttlCmp := Generated.Transient.ttlNoExpiryCmp }

/-- `ttl <= 0`: no expiry requested. -/
def Cfg.noTTL (c : Cfg) (ttl : Int) : Bool :=
  if c.ttlCmp = "<=" then decide (ttl ≤ 0) else if c.ttlCmp = "<" then decide (ttl < 0)
  else if c.ttlCmp = "==" then decide (ttl = 0) else false

/-! ### state -/

structure Timer where
  id : Nat
  key : Key
  val : Val
  due : Nat
  fired : Bool
  deriving DecidableEq, Repr

structure State where
  now : Nat := 0
  data : List (Key × Val) := []
  listeners : List Lid := []
  timers : List Timer := []
  tmap : List (Key × Nat) := []
  nextId : Nat := 0
  deriving DecidableEq, Repr

inductive Msg where
  | initial (d : List (Key × Val))
  | set (k : Key) (v : Val) (old : Option Val)
  | remove (k : Key) (old : Val)
  deriving DecidableEq, Repr

abbrev Out := List (Lid × Msg)

/-- `notifySet` / `notifyDeleted`: every registered listener gets the message. -/
def notify (st : State) (m : Msg) : Out := st.listeners.map (fun l => (l, m))

/-! ### the unexported helpers -/

/-- `old.Stop(); delete(t.timers, key)` — `Stop` prevents the callback only while the timer is armed. -/
def stopTimer (st : State) (k : Key) : State :=
  match kvGet st.tmap k with
  | none => st
  | some id =>
    { st with timers := st.timers.filter (fun t => !(t.id == id && !t.fired))
              tmap := kvErase st.tmap k }

/-- `delete(t.timers, key)` alone (the original `updateTTL`). -/
def dropEntry (st : State) (k : Key) : State := { st with tmap := kvErase st.tmap k }

/-- `time.AfterFunc(ttl, …); t.timers[key] = timer` -/
def arm (st : State) (k : Key) (v : Val) (ttl : Int) : State :=
  { st with timers := st.timers ++ [{ id := st.nextId, key := k, val := v, due := st.now + ttl.toNat, fired := false }]
            tmap := kvSet st.tmap k st.nextId
            nextId := st.nextId + 1 }

def removeAfterTTL (c : Cfg) (st : State) (k : Key) (v : Val) (ttl : Int) : State :=
  if c.noTTL ttl then (if c.setStopsFirst then stopTimer st k else st)
  else arm (stopTimer st k) k v ttl

def updateTTL (c : Cfg) (st : State) (k : Key) (v : Val) (ttl : Int) : State :=
  if c.noTTL ttl then (if c.updateStops then stopTimer st k else dropEntry st k)
  else removeAfterTTL c st k v ttl

def doSet (c : Cfg) (st : State) (k : Key) (v : Val) (prev : Option Val) (ttl : Int) : State × Out :=
  (removeAfterTTL c { st with data := kvSet st.data k v } k v ttl, notify st (.set k v prev))

def doRemove (st : State) (k : Key) (prev : Val) : State × Out :=
  (stopTimer { st with data := kvErase st.data k } k, notify st (.remove k prev))

structure Res where
  st : State
  out : Out := []
  ret : Option Bool := none

/-- `Remove` -/
def remove (st : State) (k : Key) : Res :=
  match kvGet st.data k with
  | none => { st := st, ret := some false }
  | some prev => let (s, o) := doRemove st k prev; { st := s, out := o, ret := some true }

/-- `compareAndRemove` (`old = none` is Go's `nil`, which no stored value equals). -/
def compareAndRemove (st : State) (k : Key) (old : Option Val) : Res :=
  match kvGet st.data k with
  | none => { st := st, ret := some false }
  | some prev =>
    if old = some prev then let (s, o) := doRemove st k prev; { st := s, out := o, ret := some true }
    else { st := st, ret := some false }

/-- `SetTTL` (`Set` is `SetTTL` with `ttl = 0`) -/
def setTTL (c : Cfg) (st : State) (k : Key) (v : Option Val) (ttl : Int) : Res :=
  match v with
  | none => remove st k
  | some v =>
    let prev := kvGet st.data k
    if c.setUnchangedSilent && prev = some v then { st := updateTTL c st k v ttl, ret := some false }
    else let (s, o) := doSet c st k v prev ttl; { st := s, out := o, ret := some true }

/-- `CompareAndSetTTL` -/
def casTTL (c : Cfg) (st : State) (k : Key) (old v : Option Val) (ttl : Int) : Res :=
  match v with
  | none => compareAndRemove st k old
  | some v =>
    let prev := kvGet st.data k
    if old ≠ prev then { st := st, ret := some false }
    else if c.casUnchangedSilent && prev = some v then { st := updateTTL c st k v ttl, ret := some true }
    else let (s, o) := doSet c st k v prev ttl; { st := s, out := o, ret := some true }

/-- `AddListener` -/
def addListener (c : Cfg) (st : State) (l : Lid) : Res :=
  { st := { st with listeners := if l ∈ st.listeners then st.listeners else l :: st.listeners }
    out := if c.initialIfNonEmpty && st.data = [] then [] else [(l, .initial st.data)] }

/-- `RemoveListener` -/
def removeListener (st : State) (l : Lid) : Res :=
  { st := { st with listeners := st.listeners.filter (· ≠ l) } }

/-! ### time -/

/-- Time passes: every armed timer whose deadline is reached fires (its callback
goroutine now exists and waits for the mutex). -/
def fire (st : State) (dt : Nat) : State :=
  { st with now := st.now + dt
            timers := st.timers.map (fun t => if t.due ≤ st.now + dt then { t with fired := true } else t) }

/-- The callback of fired timer `id` gets the mutex. -/
def runCb (c : Cfg) (st : State) (id : Nat) : Res :=
  match st.timers.find? (fun t => t.id == id && t.fired) with
  | none => { st := st }
  | some t =>
    let st1 := { st with timers := st.timers.filter (fun t => !(t.id == id && t.fired)) }
    if c.expiryChecksCurrent && kvGet st.tmap t.key ≠ some id then { st := st1 }
    else { compareAndRemove st1 t.key (some t.val) with ret := none }

def insertTimer (t : Timer) : List Timer → List Timer
  | [] => [t]
  | u :: r => if t.due < u.due ∨ (t.due = u.due ∧ t.id ≤ u.id) then t :: u :: r else u :: insertTimer t r

def sortTimers (ts : List Timer) : List Timer := ts.foldr insertTimer []

/-- ids of the callbacks waiting for the mutex, earliest deadline first -/
def pendingIds (st : State) : List Nat := (sortTimers (st.timers.filter (·.fired))).map (·.id)

def runCbs (c : Cfg) : State → List Nat → State × Out
  | st, [] => (st, [])
  | st, id :: ids =>
    let r := runCb c st id
    let (s, o) := runCbs c r.st ids
    (s, r.out ++ o)

/-- Quiescent passage of time (what `time.Sleep(dt); synctest.Wait()` does to the
real code): waiting callbacks run, the clock advances, every timer that became
due fires and runs, earliest deadline first. -/
def advance (c : Cfg) (st : State) (dt : Nat) : State × Out :=
  let (s1, o1) := runCbs c st (pendingIds st)
  let s2 := fire s1 dt
  let (s3, o3) := runCbs c s2 (pendingIds s2)
  (s3, o1 ++ o3)

/-! ### operations -/

inductive Op where
  | set (k : Key) (v : Option Val) (ttl : Int)
  | cas (k : Key) (old v : Option Val) (ttl : Int)
  | remove (k : Key)
  | casRemove (k : Key) (old : Option Val)
  | addListener (l : Lid)
  | removeListener (l : Lid)
  | get
  /-- quiescent passage of time -/
  | advance (dt : Nat)
  /-- time passes and due timers fire, but their callbacks have not got the mutex yet -/
  | fire (dt : Nat)
  /-- the waiting callback of timer `id` runs -/
  | runCb (id : Nat)
  deriving DecidableEq, Repr

def stepC (c : Cfg) (st : State) : Op → Res
  | .set k v ttl => setTTL c st k v ttl
  | .cas k old v ttl => casTTL c st k old v ttl
  | .remove k => remove st k
  | .casRemove k old => compareAndRemove st k old
  | .addListener l => addListener c st l
  | .removeListener l => removeListener st l
  | .get => { st := st }
  | .advance dt => let (s, o) := advance c st dt; { st := s, out := o }
  | .fire dt => { st := fire st dt }
  | .runCb id => runCb c st id

/-- The model of the current source. -/
def step (st : State) (op : Op) : Res := stepC Cfg.current st op

def runC (c : Cfg) : State → List Op → State
  | st, [] => st
  | st, op :: ops => runC c (stepC c st op).st ops

def run (st : State) (ops : List Op) : State := runC Cfg.current st ops

def init : State := {}

end SigModel.Transient
